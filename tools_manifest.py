#!/usr/bin/env python3
"""regenerates MANIFEST.json from the table below (kept as code so it is always valid JSON)."""
import json, os
ROOT = os.path.dirname(os.path.abspath(__file__))
props = [json.loads(l) for l in open(os.path.join(ROOT, "properties.jsonl"))]
ids = [p["id"] for p in props]

CLAIMED = {
 "C01": ("proof", "Theorem C01_framed (Lean, all message trees and values, no size bound): encode m = BeginString|BodyLength=n|body|CheckSum=c| with |body| = n, body starting with MsgType, c the 3-digit byte sum mod 256. Tied to /repo by a correspondence run (model encode = real ToBytes on generated messages incl. all tests/fix44 types) and by evaluating the independent spec framedOK on the real output.",
         "Lean theorem over hand-written codec model + differential correspondence with the Go encoder + spec oracle on implementation output", "5 C01"),
 "C17": ("proof", "Lean: constructors yield populated values (C17_ctor_valid) and the wire fields are exactly the populated leaves in template order; correspondence of encoder model and real ToBytes; the generator's *intended* population (computed without the library) is compared with the library's view and with the fields on the wire (spec fieldsOK). Known finding: trailer fields are never serialized.",
         "Lean theorems over codec model + correspondence + independent population shadow and spec oracle", "5 C17"),
 "C02": ("proof", "Lean: parse(serialize m) = m and byte-exact re-serialisation for templates with groups nested to any depth (C02_roundtrip, C02_reserialize) through a field-level refinement of the byte-scanning decoder; values: every int/uint64/bool/string, every UTC instant at ms precision (C02_time_values), every plain decimal rendering of a finite float64 (C02_float_values), every value the decoder itself stores (C02_decoded_values). Decoder model = real Unmarshal on serialized random populations (adversarial values); value codec model = real FromBytes/ToBytes value by value (incl. hex floats, underscores, damaged times); go-side oracle parsed = intended and re-serialisation byte-identical, strict and non-strict.",
         "Lean theorems over decoder model + differential correspondence + round-trip oracle", "5 C02"),
 "C03": ("proof", "Lean: validateRaw model accepts only integrity-correct strings (C03_sound); implementation checked on the exhaustive single-byte damage neighbourhood (all substitutions, insertions, deletions, prefixes) of generated messages and on arbitrary framed bodies, with spec integrityOK evaluated on every accepted string. Known finding: NUL inserted in the BeginString value.",
         "Lean theorem over validateRaw model + exhaustive damage enumeration on the implementation + correspondence", "5 C03"),
 "C11": ("proof", "Lean: every checked slice expression of the decoder / ValueByTag model is in bounds for every input (result is never panic), termination by Lean's termination checker; model = implementation incl. panic/err/ok on exhaustive short strings, random strings and correctly framed mutated bodies.",
         "Lean totality theorems over decoder model with checked slices + differential correspondence incl. panics", "5 C11"),
 "C18": ("proof", "Lean scan lemma: the first SOH·tag·= occurrence in a well-formed field sequence is at the boundary of the first field with that tag; correspondence on messages with adversarial values and foreign fields with decimal-extension tags; lookupField oracle on real ValueByTag output.",
         "Lean scan lemma + differential correspondence + field-boundary lookup oracle", "5 C18"),
 "C06": ("proof", "Lean: for every event history, store and role, logged on implies an acceptable Logon was received (induction with invariant SInv/Auth); acceptor reply echoes heartbeat interval and encryption method; every other Logon gets exactly one Reject by sequence number; initiator's first message is its Logon. Session model = real Session step by step on random histories; logon oracles on implementation output.",
         "Lean invariant over all histories + step correspondence with real Session + logon oracles", "5 C06"),
 "C07": ("proof", "Lean theorem C07_preauth: for all histories without an acceptable Logon (timers, any store content, both roles) every emitted message is Logon/Logout/Reject; correspondence with the real Session incl. a second session on a shared store; pre-logon output oracle.",
         "Lean theorem over all histories + step correspondence + pre-logon oracle", "5 C07"),
 "C10": ("proof", "Lean: the store after any history is exactly the numbered messages in order (trace_run), so ResendRequest(b,e) returns sent[b..e], e=0 through the last, never outside; gap at logon asks from the first missing number. Correspondence + byte-identity oracle on real retransmissions.",
         "Lean store-trace invariant + correspondence + byte-identity oracle", "5 C10"),
 "C14": ("proof", "Lean theorem C14_echo (exactly one Heartbeat with the same TestReqID, in the same dispatch step) + correspondence with adversarial TestReqIDs through the real decoder.",
         "Lean theorem + step correspondence + echo oracle", "5 C14"),
 "C15": ("proof", "Lean theorems for peer logout, own logout, Stop ended by the answer or the deadline, cancellation permanent; correspondence incl. Stop scenarios; the wall-clock part (deadline fires at CloseTimeout) is measured, not proved.",
         "Lean theorems over session model + correspondence + wall-clock oracle for Stop", "5 C15"),
 "C16": ("proof", "Lean theorems: every admin kind, unparsable or not permitted in the state, yields exactly one Reject (by sequence number, or naming tag 34) and leaves loggedOn/settings/timers/cancellation untouched; correspondence with damaged messages in every state.",
         "Lean theorems over session model + correspondence + reject oracle", "5 C16"),
 "C19": ("proof", "Lean: call log of DefaultHandler.send = all-types handlers then type handlers in registration order up to the first refusal; any refusal or ToBytes error => nothing enqueued; the save handler registered first runs first and its failure stops the send; inbound: all-types then own-type; handlers that modify the message: what is transmitted is the serialization of the message as the last handler left it and handler k sees what handlers 0..k-1 made of it (C19_transmits_completed, C19_seen); session level: every numbered message is in the store under its own number (C19_saved, all histories). Correspondence with the real DefaultHandler / Session incl. failing store.",
         "Lean theorems over pool model + session store-trace + correspondence + store/handler oracles", "5 C19"),
 "C05": ("proof", "Lean: for every schedule of any number of concurrent sends running lock/fetch-add/enqueue/unlock the enqueued numbers are c0+1,c0+2,... (C05_consecutive); Session.send is shown to be that program by facts regenerated from the source on every run (C05_generated, decide); session model: numbering continues from the stored counter and every message carries the current identifiers (all histories). Concurrent stress on the real Session with an independent wire tokenizer as failing-schedule search.",
         "Lean theorem over all schedules + source-regenerated path facts + session trace invariant + concurrent stress search", "5 C05"),
 "C20": ("proof", "Lean lockset theorem: in a disciplined access table two goroutines are never inside conflicting accesses of one location, for all interleavings of lock operations; the table (every field access with held mutexes, atomics, constructors) is regenerated from /repo on every run and decided by kernel evaluation. go -race scenario driver as failing-schedule search. Known finding: Session.LogonSettings replaced without s.mu.",
         "Lean lockset theorem + source-regenerated access table (decide) + race-detector scenario search", "5 C20"),
 "C04": ("proof", "Lean: the reader state machine delivers, for every sequence of well-formed messages and every partition of the stream into reads, exactly those messages once, complete, in order (C04_frame, C04_chunk); the serialization of every message the encoder can produce is such a well-formed image, so every sequence of encoder outputs under every chunking is reassembled into exactly those outputs (C04_encoded_stream = C17_wire composed with C04_frame; tag 10 outside CheckSum is shown to break framing, C04_tag10_in_body_splits); from any accumulated buffer the reader glues the damage to exactly one delivery and is exact afterwards (C04_resync, C04_resync_midfield); for every byte stream whatsoever deliveries ++ buffered = read and only well-formed frames are handed over (C04_conservation, C04_only_frames, C04_stream_exact); with one reader state per connection the deliveries of a connection depend on its own bytes alone, for every interleaving of arrivals on any number of connections (C04_isolation, C04_isolation_frames); end to end, sender's stages under any schedule, any chunking, reader, receiver's stages under any schedule: the handler gets exactly the serializations handed over (C04_end_to_end); FIFO hand-offs neither lose, duplicate nor reorder for any schedule and buffer sizes (C04_pipeline); the hand-off channels have one sender each (facts regenerated from source). Correspondence over scripted in-memory transports under the real Initiator and Acceptor with several connections.",
         "Lean theorems over reader state machine and FIFO pipeline + regenerated channel facts + transport correspondence", "5 C04"),
 "C13": ("proof", "Lean: generic theorem that a passing reachable-state check implies every reachable state without a successor has all goroutines exited; kernel evaluation (decide +kernel) of the check on the hand-written blocking structures of the accepting side (all causes) and initiating side; the structures are tied to /repo by the inventory of blocking operations regenerated on every run (C13_generated). Known finding: on the initiating side the handler context is not cancelled when the connection ends (forwarder can stay in ServeIncoming, later sends block). Fault-injection harness as failing-schedule search.",
         "Lean reachability/closure check with soundness theorem + regenerated blocking inventory + fault-injection search", "5 C13"),
 "C08": ("proof", "Lean: for every sequence of outbound refreshes and polls of the heartbeat timer (timeout T, period T/10) the silence since the last outbound message stays below T + T/10 (C08_upper) and the timer emits only at a poll at least T after it (C08_lower); frequency 10, the polling period and the timers' construction expressions are regenerated from the source in a canonical form (locals inlined). Wall-clock behaviour (ticker, scheduler) is measured against the model with stated slack, not proved.",
         "Lean invariant over timer model + source-regenerated constants + real-time validation", "5 C08"),
 "C09": ("proof", "Lean: timeout N + max(N/20,1) (formula regenerated from the source in canonical form); no expiry while inbound gaps <= N (C09_live); expiry within T'+P of silence; session model: first expiry => one TestRequest and probing state, expiry while probing => disconnect event + context cancelled + handler stopped, any inbound message while probing cancels it. Real-time scenarios at N = 1 s validate the timing.",
         "Lean theorems over timer + session model + source-regenerated formula + real-time scenarios", "5 C09"),
 "C12": ("proof", "Lean: in the abstract generator every accessor i reads/writes constructor slot i of its own member (excluded framing fields skipped), constructor items are keyed by the member's own Field constant, arguments are exactly the required members in order, Go types follow the type mapping, constants equal the schema's numbers / message types, duplicates are rejected. The real generator's emitted files are abstracted with go/parser and compared with the model on the shipped schemas and seeded mutations; compile, determinism, directory-independence and reference-package oracles; the command cmd/fixgen is built and run end to end (relative, nested, absolute and oddly named output directories) and the schema files are re-read token by token and compared with what the generator read. Known finding: one Go type per group name.",
         "Lean theorems over abstract generator + declaration-level correspondence with the real generator + compile/determinism/reference oracles", "5 C12"),
}
NOT_YET = {}

checks = []
for i in ids:
    if i in CLAIMED:
        level, text, tech, ref = CLAIMED[i]
        checks.append({
            "property_id": i,
            "quick_cmd": f"./check {i} --tier quick",
            "thorough_cmd": f"./check {i} --tier thorough",
            "evidence_file": f"/verif/evidence/{i}.json",
            "replay_cmd_template": f"./check {i} --replay {{path}}",
            "engine": "lean-proof+correspondence",
            "level_claimed": {"category": level, "text": text, "design_ref": f"DESIGN.md section {ref}"},
            "level_note": "Trusted: Lean 4.33 kernel + propext/Classical.choice/Quot.sound; the hand-written model as far as the correspondence run exercises it; the Go harness and extractor; Go runtime/stdlib modelled (see DESIGN.md section 4).",
            "technique": tech,
        })
na = [{"property_id": i, "reason": NOT_YET.get(i, "check not built yet in this round (work in progress; see DESIGN.md section 5 for the planned proof)")} for i in ids if i not in CLAIMED]
m = {
 "version": 1,
 "setup_cmd": "./check setup",
 "hooks": {"guard": "verif", "enable": "go build -tags verif (harness module /verif/go with replace => /repo)",
           "baseline_off_cmd": "cd /repo && GOFLAGS=-mod=mod GOPROXY=off GOSUMDB=off GOTOOLCHAIN=local go test -json -vet=off -count=1 -timeout 25m ./...",
           "source_commits": [], "add_only": True},
 "engines": [{"name": "lean-proof+correspondence", "path": "/verif/check", "serves_properties": sorted(CLAIMED),
              "kind_free_text": "Lean 4 theorems over a hand-written model (lean/), Go harness + compiled Lean driver correspondence (go/), go/ast extractor regenerating Lean tables"}],
 "checks": checks,
 "not_applicable": na,
 "notes": "Machine-checked proof in Lean 4; see DESIGN.md. known_findings.jsonl lists recorded and fixed defects.",
}
json.dump(m, open(os.path.join(ROOT, "MANIFEST.json"), "w"), indent=1)
print("claimed", len(checks), "not_applicable", len(na))
