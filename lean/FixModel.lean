import FixModel.Bytes
import FixModel.Decimal
import FixModel.Value
import FixModel.Item
import FixModel.Message
import FixModel.Decode
import FixModel.Spec.Codec
