import Props.C01
import Props.C02
import Props.C03
import Props.C11
import Props.C17
import Props.C18
