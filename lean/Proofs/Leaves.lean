import Proofs.Encode
import Proofs.Scan
/-!
# Leaves — the serializer emits exactly the populated leaves, in template order (C17, C02)

`Item.toBytes` is a recursion over components, groups and entries that joins non-nil parts with
SOH; `Item.leaves` (in `Spec/Codec.lean`) is the flat list of `tag=value` an application populated.
The lemmas show `toBytes` is the SOH-join of the leaves, for every tree whose group entries each
populate at least one field.
-/

theorem joinSOH_cons_ne (b : Bytes) (bs : List Bytes) (h : bs ≠ []) : joinSOH (b :: bs) = b ++ SOH :: joinSOH bs := by
  cases bs with
  | nil => exact absurd rfl h
  | cons c cs => rfl

theorem joinSOH_append (A B : List Bytes) (hA : A ≠ []) (hB : B ≠ []) :
    joinSOH (A ++ B) = joinSOH A ++ SOH :: joinSOH B := by
  induction A with
  | nil => exact absurd rfl hA
  | cons a as ih =>
    cases as with
    | nil => simp [joinSOH_cons_ne a B hB, joinSOH]
    | cons a' as' =>
      have := ih (by simp)
      simp only [List.cons_append] at this ⊢
      rw [joinSOH_cons_ne a (a' :: (as' ++ B)) (by simp), this, joinSOH_cons_ne a (a' :: as') (by simp)]
      simp

theorem kvBytes_eq (k : Bytes) (v : Val) :
    kvBytes k v = if populated v then some (tagValue k v.text) else none := by
  unfold kvBytes populated Val.isNull Val.toBytes
  cases hv : v.valid <;> cases hk : v.kind <;> cases ht : v.text <;> simp

/-- the statement for one item -/
def ItemOK (i : Item) : Prop :=
  i.toBytes = if i.leaves = [] then none else some (joinSOH i.leaves)

/-- … for a list of items -/
def ListOK (is : List Item) : Prop :=
  (itemsParts is = [] ↔ leavesList is = []) ∧ joinSOH (itemsParts is) = joinSOH (leavesList is)

theorem listOK_cons (i : Item) (is : List Item) (hi : ItemOK i) (hl : ListOK is) : ListOK (i :: is) := by
  unfold ItemOK at hi
  unfold ListOK at *
  obtain ⟨hl1, hl2⟩ := hl
  unfold itemsParts leavesList
  by_cases he : i.leaves = []
  · simp only [he, if_true] at hi
    simp [hi, he, hl1, hl2]
  · simp only [he, if_false] at hi
    rw [hi]
    refine ⟨by simp [he], ?_⟩
    by_cases hr : leavesList is = []
    · have := hl1.mpr hr
      simp [this, hr, joinSOH]
    · have hp : itemsParts is ≠ [] := fun h => hr (hl1.mp h)
      simp only
      rw [joinSOH_cons_ne _ _ hp, joinSOH_append _ _ he hr, hl2]

mutual
  theorem itemOK : ∀ i : Item, i.entriesNonEmpty = true → ItemOK i
    | .kv k v, _ => by
        unfold ItemOK
        rw [Item.toBytes, Item.leaves, kvBytes_eq]
        by_cases hp : populated v = true
        · simp [hp, joinSOH]
        · rw [if_neg hp, if_neg hp]; rfl
    | .comp is, h => by
        unfold ItemOK
        rw [Item.toBytes, Item.leaves]
        rw [Item.entriesNonEmpty] at h
        obtain ⟨h1, h2⟩ := listOK is h
        by_cases he : leavesList is = []
        · simp [he, h1.mpr he]
        · have : itemsParts is ≠ [] := fun x => he (h1.mp x)
          simp [he, this, h2]
    | .group n t es, h => by
        unfold ItemOK
        rw [Item.toBytes, Item.leaves]
        rw [Item.entriesNonEmpty] at h
        by_cases he : es = []
        · simp [he]
        · have hne : es.isEmpty = false := by cases es <;> simp_all
          simp only [hne, Bool.false_eq_true, if_false]
          have := entriesOK es h (tagValue n (itoa (es.length : Int)))
          rw [this, itoa_ofNat]
          simp
  theorem listOK : ∀ is : List Item, listEntriesNonEmpty is = true → ListOK is
    | [], _ => by simp [ListOK, itemsParts, leavesList]
    | i :: is, h => by
        rw [listEntriesNonEmpty, Bool.and_eq_true] at h
        exact listOK_cons i is (itemOK i h.1) (listOK is h.2)
  theorem entriesOK : ∀ es : List (List Item), entriesAllNonEmpty es = true →
      ∀ c : Bytes, joinSOH (c :: entriesParts es) = joinSOH (c :: leavesEntries es)
    | [], _, c => by simp [entriesParts, leavesEntries]
    | e :: es, h, c => by
        rw [entriesAllNonEmpty, Bool.and_eq_true, Bool.and_eq_true] at h
        obtain ⟨⟨h1, h2⟩, h3⟩ := h
        have hne : leavesList e ≠ [] := by
          intro x; simp [x] at h1
        obtain ⟨l1, l2⟩ := listOK e h2
        rw [entriesParts, leavesEntries]
        rw [joinSOH_cons_ne c _ (by simp), joinSOH_cons_ne c _ (by simp [hne])]
        have ih := entriesOK es h3
        -- join of (part :: rest) where part = join of the entry's leaves
        rw [ih (joinSOH (itemsParts e)), l2]
        by_cases hr : leavesEntries es = []
        · simp [hr, joinSOH]
        · rw [joinSOH_cons_ne _ _ hr, joinSOH_append _ _ hne hr]
end

/-! ### leaves are never empty strings -/

theorem tagValue_ne_nil (k v : Bytes) : tagValue k v ≠ [] := by
  unfold tagValue; simp

mutual
  theorem leaves_ne : ∀ (i : Item) (x : Bytes), x ∈ i.leaves → x ≠ []
    | .kv k v, x, h => by
        rw [Item.leaves] at h
        split at h
        · simp at h; subst h; exact tagValue_ne_nil _ _
        · simp at h
    | .comp is, x, h => by rw [Item.leaves] at h; exact leavesList_ne is x h
    | .group n t es, x, h => by
        rw [Item.leaves] at h
        split at h
        · simp at h
        · simp only [List.mem_cons] at h
          rcases h with h | h
          · subst h; exact tagValue_ne_nil _ _
          · exact leavesEntries_ne es x h
  theorem leavesList_ne : ∀ (is : List Item) (x : Bytes), x ∈ leavesList is → x ≠ []
    | [], x, h => by simp [leavesList] at h
    | i :: is, x, h => by
        rw [leavesList, List.mem_append] at h
        rcases h with h | h
        · exact leaves_ne i x h
        · exact leavesList_ne is x h
  theorem leavesEntries_ne : ∀ (es : List (List Item)) (x : Bytes), x ∈ leavesEntries es → x ≠ []
    | [], x, h => by simp [leavesEntries] at h
    | e :: es, x, h => by
        rw [leavesEntries, List.mem_append] at h
        rcases h with h | h
        · exact leavesList_ne e x h
        · exact leavesEntries_ne es x h
end

theorem joinSOH_soh (L : List Bytes) (hne : L ≠ []) : joinSOH L ++ [SOH] = joinF L := by
  induction L with
  | nil => exact absurd rfl hne
  | cons a as ih =>
    cases as with
    | nil => simp [joinSOH, joinF]
    | cons b bs =>
      have := ih (by simp)
      rw [joinSOH_cons_ne a _ (by simp)]
      simp only [joinF, List.append_assoc, List.cons_append] at this ⊢
      rw [this]

theorem seg_joinSOH (L : List Bytes) (h : ∀ x ∈ L, x ≠ []) : seg (joinSOH L) = joinF L := by
  cases L with
  | nil => simp [seg, joinSOH, joinF]
  | cons a as =>
    have ha : a ≠ [] := h a (by simp)
    have hpos : (joinSOH (a :: as)).length > 0 := by
      cases as with
      | nil => cases a with
        | nil => exact absurd rfl ha
        | cons _ _ => simp [joinSOH]
      | cons b bs => rw [joinSOH_cons_ne a _ (by simp)]; simp; omega
    unfold seg
    simp only [hpos, if_true]
    exact joinSOH_soh _ (by simp)

theorem joinF_append (A B : List Bytes) : joinF (A ++ B) = joinF A ++ joinF B := by
  induction A with
  | nil => simp [joinF]
  | cons a as ih => simp [joinF, ih]

/-- header segment of the body region -/
theorem seg_header (h : List Item) (hh : listEntriesNonEmpty h = true) :
    seg (optBytes (Item.comp h).toBytes) = joinF (leavesList h) := by
  have := itemOK (.comp h) (by rw [Item.entriesNonEmpty]; exact hh)
  unfold ItemOK at this
  rw [this, Item.leaves]
  by_cases he : leavesList h = []
  · simp [he, optBytes, seg, joinF]
  · simp only [he, if_false, optBytes, Option.getD_some]
    exact seg_joinSOH _ (leavesList_ne h)

theorem seg_body (b : List Item) (hb : listEntriesNonEmpty b = true) :
    seg (itemsBytes b) = joinF (leavesList b) := by
  unfold itemsBytes
  rw [(listOK b hb).2]
  exact seg_joinSOH _ (leavesList_ne b)

/-- **the wire image, field by field**: BeginString, BodyLength, MsgType, the populated leaves of header and
    body in template order, CheckSum (the trailer component is not serialized by the library: finding
    F-C17-trailer) -/
theorem encode_fields (m : Msg) (hbs : populated m.bs = true) (hmt : populated m.mt = true)
    (hH : listEntriesNonEmpty m.header = true) (hB : listEntriesNonEmpty m.body = true) :
    m.encode = joinF ([tagValue m.bsTag m.bs.text, tagValue m.blTag (natDigits m.calcBodyLength),
        tagValue m.mtTag m.mt.text] ++ leavesList m.header ++ leavesList m.body ++
        [tagValue m.csTag (calcCheckSum ({ m with bl := Val.newInt m.calcBodyLength } : Msg).bytesWithoutChecksum)]) := by
  rw [encode_eq]
  have hb := bwc_soh ({ m with bl := Val.newInt m.calcBodyLength } : Msg)
  simp only [bodyRegion_withBl, kvBytes_newInt, optBytes, Option.getD_some] at hb
  have hbsF : kvBytes m.bsTag m.bs = some (tagValue m.bsTag m.bs.text) := by rw [kvBytes_eq]; simp [hbs]
  have hmtF : m.mtBytes = some (tagValue m.mtTag m.mt.text) := by unfold Msg.mtBytes; rw [kvBytes_eq]; simp [hmt]
  rw [hbsF] at hb
  simp only [Option.getD_some] at hb
  have hreg : m.bodyRegion = tagValue m.mtTag m.mt.text ++ SOH :: (joinF (leavesList m.header) ++ joinF (leavesList m.body)) := by
    unfold Msg.bodyRegion
    rw [hmtF]
    simp only [optBytes, Option.getD_some]
    have h1 := seg_header m.header hH
    have h2 := seg_body m.body hB
    unfold Msg.headerBytes Msg.bodyBytes
    simp only [optBytes] at h1
    rw [h1, h2]
  rw [hreg] at hb
  calc _ = (({ m with bl := Val.newInt m.calcBodyLength } : Msg).bytesWithoutChecksum ++ [SOH]) ++
            (tagValue m.csTag (calcCheckSum ({ m with bl := Val.newInt m.calcBodyLength } : Msg).bytesWithoutChecksum) ++ [SOH]) := by
          simp [List.append_assoc]
    _ = _ := by
      rw [hb]
      simp [joinF, joinF_append, List.append_assoc]

/-! ### SOH-freeness of everything that reaches the wire -/

theorem digitChar_ne_soh (d : Nat) (h : d < 10) : digitChar d ≠ SOH := by
  unfold digitChar SOH
  have : d = 0 ∨ d = 1 ∨ d = 2 ∨ d = 3 ∨ d = 4 ∨ d = 5 ∨ d = 6 ∨ d = 7 ∨ d = 8 ∨ d = 9 := by omega
  rcases this with h | h | h | h | h | h | h | h | h | h <;> subst h <;> decide

theorem natDigits_sohFree (n : Nat) : SOH ∉ natDigits n := by
  induction n using Nat.strongRecOn with
  | _ n ih =>
    rw [natDigits_eq]
    split
    · rename_i h
      simp only [List.mem_singleton]
      exact fun e => digitChar_ne_soh n h e.symm
    · rename_i h
      simp only [List.mem_append, List.mem_singleton, not_or]
      exact ⟨ih (n / 10) (by omega), fun e => digitChar_ne_soh (n % 10) (by omega) e.symm⟩

theorem pad3_sohFree (s : Bytes) (h : SOH ∉ s) : SOH ∉ pad3 s := by
  unfold pad3
  simp only [List.mem_append, List.mem_replicate, not_or]
  exact ⟨fun x => by have := x.2; revert this; decide, h⟩

theorem calcCheckSum_sohFree (b : Bytes) : SOH ∉ calcCheckSum b := pad3_sohFree _ (natDigits_sohFree _)

theorem tagValue_sohFree (k v : Bytes) (hk : SOH ∉ k) (hv : SOH ∉ v) : SOH ∉ tagValue k v := by
  unfold tagValue
  simp only [List.mem_append, List.mem_cons, not_or]
  exact ⟨hk, by decide, hv⟩

theorem not_contains {a : UInt8} {l : Bytes} (h : (!l.contains a) = true) : a ∉ l := by
  simpa using h

mutual
  theorem leaves_sohFree : ∀ (i : Item), i.sohFree = true → ∀ x ∈ i.leaves, SOH ∉ x
    | .kv k v, h, x, hx => by
        rw [Item.sohFree, Bool.and_eq_true] at h
        rw [Item.leaves] at hx
        split at hx
        · simp at hx; subst hx
          exact tagValue_sohFree _ _ (not_contains h.1) (not_contains h.2)
        · simp at hx
    | .comp is, h, x, hx => by
        rw [Item.sohFree] at h; rw [Item.leaves] at hx
        exact leavesList_sohFree is h x hx
    | .group n t es, h, x, hx => by
        rw [Item.sohFree, Bool.and_eq_true, Bool.and_eq_true] at h
        rw [Item.leaves] at hx
        split at hx
        · simp at hx
        · simp only [List.mem_cons] at hx
          rcases hx with hx | hx
          · subst hx; exact tagValue_sohFree _ _ (not_contains h.1.1) (natDigits_sohFree _)
          · exact leavesEntries_sohFree es h.2 x hx
  theorem leavesList_sohFree : ∀ (is : List Item), listSohFree is = true → ∀ x ∈ leavesList is, SOH ∉ x
    | [], _, x, hx => by simp [leavesList] at hx
    | i :: is, h, x, hx => by
        rw [listSohFree, Bool.and_eq_true] at h
        rw [leavesList, List.mem_append] at hx
        rcases hx with hx | hx
        · exact leaves_sohFree i h.1 x hx
        · exact leavesList_sohFree is h.2 x hx
  theorem leavesEntries_sohFree : ∀ (es : List (List Item)), entriesSohFree es = true → ∀ x ∈ leavesEntries es, SOH ∉ x
    | [], _, x, hx => by simp [leavesEntries] at hx
    | e :: es, h, x, hx => by
        rw [entriesSohFree, Bool.and_eq_true] at h
        rw [leavesEntries, List.mem_append] at hx
        rcases hx with hx | hx
        · exact leavesList_sohFree e h.1 x hx
        · exact leavesEntries_sohFree es h.2 x hx
end
