import FixModel.Sched.Escape
/-! soundness of the reachable-set check -/

theorem testBit_foldl_or (L : List Nat) (acc c : Nat)
    (h : (L.foldl (fun acc c => acc ||| (1 <<< c)) acc).testBit c = true) : acc.testBit c = true ∨ c ∈ L := by
  induction L generalizing acc with
  | nil => exact Or.inl h
  | cons x xs ih =>
    simp only [List.foldl_cons] at h
    rcases ih _ h with h1 | h1
    · rw [Nat.testBit_or] at h1
      simp only [Bool.or_eq_true] at h1
      rcases h1 with h1 | h1
      · exact Or.inl h1
      · right
        rw [Nat.one_shiftLeft, Nat.testBit_two_pow] at h1
        simp at h1
        simp [h1]
    · exact Or.inr (List.mem_cons_of_mem _ h1)

theorem mem_of_testBit_bitsOf (L : List Nat) (c : Nat) (h : (bitsOf L).testBit c = true) : c ∈ L := by
  rcases testBit_foldl_or L 0 c h with h0 | h0
  · simp at h0
  · exact h0

theorem reachC_in (sys : Sys) (C : List Nat) (L : List Nat)
    (hinit : (initsC sys).all (bitsOf L).testBit = true)
    (hcl : L.all (fun c => (succsC sys C c).all (bitsOf L).testBit) = true)
    (c : Nat) (h : ReachC sys C c) : (bitsOf L).testBit c = true := by
  induction h with
  | init c hc =>
    rw [List.all_eq_true] at hinit
    exact hinit c hc
  | step c c' _ hs ih =>
    have hin := mem_of_testBit_bitsOf L c ih
    rw [List.all_eq_true] at hcl
    have := hcl c hin
    rw [List.all_eq_true] at this
    exact this c' hs

/-- C13 core: if the check passes, a reachable state without a successor is state 0 — every
    goroutine has exited — or one of the allowed (recorded) stuck states -/
theorem checkSysP_sound (sys : Sys) (C : List Nat) (fuel : Nat) (allow : Nat → Bool)
    (h : checkSysP sys C fuel allow = true)
    (c : Nat) (hr : ReachC sys C c) (hq : succsC sys C c = []) : c = 0 ∨ allow c = true := by
  unfold checkSysP at h
  simp only [Bool.and_eq_true] at h
  obtain ⟨⟨h1, h2⟩, h3⟩ := h
  have hbit := reachC_in sys C _ h1 h2 c hr
  have hin := mem_of_testBit_bitsOf _ c hbit
  by_cases hc : c = 0
  · exact Or.inl hc
  · right
    rw [List.all_eq_true] at h3
    apply h3 c
    unfold stuckIn
    rw [List.mem_filter]
    exact ⟨hin, by simp [hq, hc]⟩

theorem checkSys_sound (sys : Sys) (C : List Nat) (fuel : Nat) (h : checkSys sys C fuel = true)
    (c : Nat) (hr : ReachC sys C c) (hq : succsC sys C c = []) : c = 0 := by
  rcases checkSysP_sound sys C fuel _ h c hr hq with h0 | h0
  · exact h0
  · cases h0

/-- state 0 decodes to "everybody exited" -/
theorem decode_zero (rs : List Nat) : decode rs 0 = List.replicate rs.length none := by
  induction rs with
  | nil => rfl
  | cons r rs ih => simp [decode, decLoc, ih, List.replicate_succ]
