import Proofs.Basic
/-! structure of `Msg.encode` -/

/-- an optional segment followed by its delimiter -/
def seg (x : Bytes) : Bytes := if x.length > 0 then x ++ [SOH] else []

theorem seg_length (x : Bytes) : (seg x).length = Msg.lenPlus x.length := by
  unfold seg Msg.lenPlus
  split <;> simp

theorem appendPart_seg (bm x : Bytes) : Msg.appendPart bm x ++ [SOH] = bm ++ SOH :: seg x := by
  unfold Msg.appendPart seg
  split <;> simp

theorem appendPart_seg' (bm x r : Bytes) : Msg.appendPart bm x ++ SOH :: r = bm ++ SOH :: (seg x ++ r) := by
  have := appendPart_seg bm x
  calc Msg.appendPart bm x ++ SOH :: r = (Msg.appendPart bm x ++ [SOH]) ++ r := by simp
    _ = _ := by rw [this]; simp

theorem kvBytes_str (k : Bytes) (v : Val) (hv : v.valid = true) (ht : v.text ≠ []) (hk : v.kind = .str) :
    kvBytes k v = some (tagValue k v.text) := by
  unfold kvBytes Val.isNull Val.toBytes
  cases h : v.text with
  | nil => exact absurd h ht
  | cons a as => simp [hv, hk]

theorem kvBytes_newInt (k : Bytes) (n : Nat) :
    kvBytes k (Val.newInt n) = some (tagValue k (natDigits n)) := by
  simp [kvBytes, Val.isNull, Val.toBytes, Val.newInt, itoa_ofNat, natDigits_ne_nil]

theorem optLen_eq (o : Option Bytes) : optLen o = (optBytes o).length := by
  cases o <;> simp [optLen, optBytes]

/-- the body region of the wire image: MsgType field, then header, body, trailer segments -/
def Msg.bodyRegion (m : Msg) : Bytes :=
  optBytes m.mtBytes ++ SOH :: (seg (optBytes m.headerBytes) ++ seg m.bodyBytes)

theorem bwc_soh (m : Msg) :
    m.bytesWithoutChecksum ++ [SOH] =
      optBytes (kvBytes m.bsTag m.bs) ++ SOH :: optBytes (kvBytes m.blTag m.bl) ++ SOH :: m.bodyRegion := by
  unfold Msg.bytesWithoutChecksum Msg.bodyRegion
  simp only [appendPart_seg', joinSOH]
  simp [List.append_assoc]

theorem bodyRegion_length (m : Msg) (h : 0 < optLen m.mtBytes) :
    m.bodyRegion.length = m.calcBodyLength := by
  unfold Msg.bodyRegion Msg.calcBodyLength
  simp only [List.length_append, List.length_cons, seg_length, optLen_eq] at *
  have : Msg.lenPlus (optBytes m.mtBytes).length = (optBytes m.mtBytes).length + 1 := by
    unfold Msg.lenPlus; simp [h]
  rw [this]; omega

/-- `bodyRegion`, `mtBytes` etc. do not depend on the BodyLength / CheckSum values -/
theorem bodyRegion_withBl (m : Msg) (v : Val) : ({ m with bl := v } : Msg).bodyRegion = m.bodyRegion := rfl

theorem encode_eq (m : Msg) :
    m.encode = ({ m with bl := Val.newInt m.calcBodyLength } : Msg).bytesWithoutChecksum ++ SOH ::
      tagValue m.csTag (calcCheckSum ({ m with bl := Val.newInt m.calcBodyLength } : Msg).bytesWithoutChecksum) ++ [SOH] := rfl
