import Proofs.NoPanic
import FixModel.Spec.Codec
/-!
# Scan — the scan lemma (C18, used by C02/C03/C17 too)

A wire image is a sequence of SOH-free fields, each followed by SOH (`joinF`). The decoder never
splits it: it *searches* the bytes for `tag=` at offset 0 or for `SOH tag =` anywhere
(`fieldIndex`). The lemmas here show that on every such image the search finds exactly the first
field whose **whole tag** is `tag` — never a tag that merely ends in those digits, never text
inside a value — and that the value it then cuts out is that field's value.
-/

/-- fields, each followed by its delimiter -/
def joinF : List Bytes → Bytes
  | [] => []
  | f :: fs => f ++ SOH :: joinF fs

/-- offset of the first field that starts with `k=` -/
def findF (k : Bytes) : List Bytes → Option Nat
  | [] => none
  | f :: fs => if (k ++ [EQ]).isPrefixOf f then some 0 else (findF k fs).map (· + (f.length + 1))

/-- value of the first field that starts with `k=` -/
def lookupPref (k : Bytes) : List Bytes → Option Bytes
  | [] => none
  | f :: fs => if (k ++ [EQ]).isPrefixOf f then some (f.drop (k.length + 1)) else lookupPref k fs

theorem indexOf_cons' (pat : Bytes) (c : UInt8) (cs : Bytes) :
    indexOf pat (c :: cs) = if pat.isPrefixOf (c :: cs) then some 0 else (indexOf pat cs).map (· + 1) := rfl

/-- skipping a block that does not contain the first byte of the pattern -/
theorem indexOf_skip (p0 : UInt8) (p : Bytes) (b rest : Bytes) (hb : p0 ∉ b) :
    indexOf (p0 :: p) (b ++ rest) = (indexOf (p0 :: p) rest).map (· + b.length) := by
  induction b with
  | nil => simp
  | cons c cs ih =>
    have hc : p0 ≠ c := by intro h; exact hb (by simp [h])
    have hcs : p0 ∉ cs := by intro h; exact hb (by simp [h])
    simp only [List.cons_append, indexOf_cons', List.isPrefixOf]
    have : (p0 == c) = false := by simpa using hc
    simp [this, ih hcs, Option.map_map, Function.comp_def, Nat.add_assoc]

/-- a SOH-free pattern is a prefix of `f ++ SOH :: rest` iff it is a prefix of `f` -/
theorem isPrefixOf_field (p : Bytes) (hp : SOH ∉ p) : ∀ (f rest : Bytes),
    p.isPrefixOf (f ++ SOH :: rest) = p.isPrefixOf f := by
  induction p with
  | nil => intro f rest; simp [List.isPrefixOf]
  | cons c cs ih =>
    intro f rest
    have hc : c ≠ SOH := by intro h; exact hp (by simp [h])
    have hcs : SOH ∉ cs := by intro h; exact hp (by simp [h])
    cases f with
    | nil => simp [List.isPrefixOf, hc]
    | cons a as => simp only [List.cons_append, List.isPrefixOf]; rw [ih hcs]

theorem isPrefixOf_joinF (p : Bytes) (hp : SOH ∉ p) (hne : p ≠ []) : ∀ fs : List Bytes,
    p.isPrefixOf (joinF fs) = match fs with | [] => false | f :: _ => p.isPrefixOf f
  | [] => by cases p with
    | nil => exact absurd rfl hne
    | cons _ _ => simp [joinF, List.isPrefixOf]
  | f :: fs => by simp [joinF, isPrefixOf_field p hp]

theorem sohFree_keyEq (k : Bytes) (hk : SOH ∉ k) : SOH ∉ k ++ [EQ] := by
  simp only [List.mem_append, List.mem_singleton, not_or]
  exact ⟨hk, by decide⟩

/-- the search for `SOH k =` in an image: it can only match at a delimiter, followed by a field that
    starts with `k=` -/
theorem indexOf_joinF (k : Bytes) (hk : SOH ∉ k) : ∀ (f : Bytes) (fs : List Bytes), SOH ∉ f → (∀ g ∈ fs, SOH ∉ g) →
    (indexOf (SOH :: (k ++ [EQ])) (joinF (f :: fs))).map (· + 1) = (findF k fs).map (· + (f.length + 1)) := by
  intro f fs
  induction fs generalizing f with
  | nil =>
    intro hf _
    have : indexOf (SOH :: (k ++ [EQ])) [SOH] = none := by
      cases k <;> simp [indexOf, List.isPrefixOf]
    simp [joinF, findF, indexOf_skip SOH (k ++ [EQ]) f [SOH] hf, this]
  | cons g gs ih =>
    intro hf hfs
    have hg : SOH ∉ g := hfs g (by simp)
    have hgs : ∀ x ∈ gs, SOH ∉ x := fun x hx => hfs x (by simp [hx])
    have ih' := ih g hg hgs
    have hp := isPrefixOf_joinF (k ++ [EQ]) (sohFree_keyEq k hk) (by simp) (g :: gs)
    show (indexOf (SOH :: (k ++ [EQ])) (f ++ SOH :: joinF (g :: gs))).map (· + 1) = _
    rw [indexOf_skip SOH (k ++ [EQ]) f _ hf, indexOf_cons']
    simp only [List.isPrefixOf, beq_self_eq_true, Bool.true_and, hp, findF]
    by_cases hpre : (k ++ [EQ]).isPrefixOf g = true
    · simp [hpre]
    · simp only [hpre, Bool.false_eq_true, if_false]
      have e : (indexOf (SOH :: (k ++ [EQ])) (joinF (g :: gs))).map (· + 1) = (findF k gs).map (· + (g.length + 1)) := ih'
      cases hi : indexOf (SOH :: (k ++ [EQ])) (joinF (g :: gs)) with
      | none =>
        rw [hi] at e
        cases hfnd : findF k gs with
        | none => simp
        | some j => rw [hfnd] at e; simp at e
      | some i =>
        rw [hi] at e
        cases hfnd : findF k gs with
        | none => rw [hfnd] at e; simp at e
        | some j =>
          rw [hfnd] at e
          simp at e
          simp; omega

/-- **scan lemma, offsets**: on an image of SOH-free fields `fieldIndex` returns the offset of the first
    field whose content starts with `k=` -/
theorem fieldIndex_joinF (k : Bytes) (hk : SOH ∉ k) (fs : List Bytes) (hfs : ∀ g ∈ fs, SOH ∉ g) :
    fieldIndex (joinF fs) k = findF k fs := by
  cases fs with
  | nil => cases k <;> simp [fieldIndex, joinF, findF, indexOf, List.isPrefixOf]
  | cons f fs =>
    have hf : SOH ∉ f := hfs f (by simp)
    have hrest : ∀ g ∈ fs, SOH ∉ g := fun x hx => hfs x (by simp [hx])
    unfold fieldIndex
    simp only
    rw [isPrefixOf_joinF (k ++ [EQ]) (sohFree_keyEq k hk) (by simp) (f :: fs)]
    simp only [findF]
    by_cases hpre : (k ++ [EQ]).isPrefixOf f = true
    · simp [hpre]
    · simp only [hpre, Bool.false_eq_true, if_false]
      exact indexOf_joinF k hk f fs hf hrest

theorem findF_none (k : Bytes) : ∀ fs, findF k fs = none → lookupPref k fs = none
  | [], _ => rfl
  | f :: fs, h => by
    unfold findF at h
    split at h
    · simp at h
    · rename_i hp
      cases hf : findF k fs with
      | none => simp [lookupPref, hp, findF_none k fs hf]
      | some j => simp [hf] at h

theorem findF_some (k : Bytes) : ∀ (fs : List Bytes) (off : Nat), findF k fs = some off →
    ∃ f rest, f ∈ fs ∧ (joinF fs).drop off = f ++ SOH :: joinF rest ∧ (k ++ [EQ]).isPrefixOf f = true
      ∧ lookupPref k fs = some (f.drop (k.length + 1))
  | [], _, h => by simp [findF] at h
  | f :: fs, off, h => by
    unfold findF at h
    split at h
    · rename_i hp
      simp at h; subst h
      exact ⟨f, fs, by simp, by simp [joinF], hp, by simp [lookupPref, hp]⟩
    · rename_i hp
      cases hf : findF k fs with
      | none => simp [hf] at h
      | some j =>
        simp [hf] at h; subst h
        obtain ⟨g, rest, h0, h1, h2, h3⟩ := findF_some k fs j hf
        refine ⟨g, rest, by simp [h0], ?_, h2, by simp [lookupPref, hp, h3]⟩
        have : (joinF (f :: fs)).drop (j + (f.length + 1)) = (joinF fs).drop j := by
          show (f ++ SOH :: joinF fs).drop (j + (f.length + 1)) = _
          rw [List.drop_append]
          have e1 : f.drop (j + (f.length + 1)) = [] := by
            apply List.drop_eq_nil_of_le; omega
          have e2 : j + (f.length + 1) - f.length = j + 1 := by omega
          simp [e1, e2]
        rw [this, h1]

theorem indexByte_field (v rest : Bytes) (hv : SOH ∉ v) : indexByte SOH (v ++ SOH :: rest) = some v.length := by
  induction v with
  | nil => simp [indexByte]
  | cons c cs ih =>
    have hc : c ≠ SOH := by intro h; exact hv (by simp [h])
    have hcs : SOH ∉ cs := by intro h; exact hv (by simp [h])
    simp [indexByte, hc, ih hcs]

theorem isPrefixOf_drop (p f : Bytes) (h : p.isPrefixOf f = true) : f = p ++ f.drop p.length := by
  induction p generalizing f with
  | nil => simp
  | cons c cs ih =>
    cases f with
    | nil => simp [List.isPrefixOf] at h
    | cons a as =>
      simp only [List.isPrefixOf, Bool.and_eq_true, beq_iff_eq] at h
      obtain ⟨h1, h2⟩ := h
      subst h1
      have := ih as h2
      simp only [List.length_cons, List.drop_succ_cons, List.cons_append]
      rw [← this]

/-- **scan lemma, values**: `scanKeyValue`'s value is the content after `k=` of the first field that
    starts with `k=`; absent iff no field does -/
theorem scanValue_joinF (k : Bytes) (hk : SOH ∉ k) (fs : List Bytes) (hfs : ∀ g ∈ fs, SOH ∉ g) :
    scanValue (joinF fs) k = .ok (lookupPref k fs) := by
  unfold scanValue
  rw [fieldIndex_joinF k hk fs hfs]
  cases hf : findF k fs with
  | none => simp [findF_none k fs hf]
  | some off =>
    obtain ⟨f, rest, hmem, h1, h2, h3⟩ := findF_some k fs off hf
    have hfS : SOH ∉ f := hfs f hmem
    have hpl := isPrefixOf_length_le _ _ h2
    simp only [List.length_append, List.length_singleton] at hpl
    have hb : off + (k.length + 1) ≤ (joinF fs).length := by
      have := congrArg List.length h1
      simp only [List.length_drop, List.length_append, List.length_cons] at this
      omega
    have e : ((off : Int) + ((k.length + 1 : Nat) : Int)) = ((off + (k.length + 1) : Nat) : Int) := by omega
    simp only
    rw [e, sliceFrom_ne_panic _ _ hb]
    simp only [Res.bind_ok]
    have hd : (joinF fs).drop (off + (k.length + 1)) = f.drop (k.length + 1) ++ SOH :: joinF rest := by
      rw [← List.drop_drop, h1, List.drop_append_of_le_length hpl]
    rw [hd]
    have hvS : SOH ∉ f.drop (k.length + 1) := fun h => hfS (List.mem_of_mem_drop h)
    rw [indexByte_field _ _ hvS]
    simp only
    rw [sliceTo_ne_panic _ _ (by simp)]
    simp [h3]

/-! ### the independent spec's field splitting agrees -/

theorem splitSOH_ne_nil : ∀ s : Bytes, splitSOH s ≠ []
  | [] => by simp [splitSOH]
  | c :: cs => by
    unfold splitSOH
    split
    · simp
    · split <;> simp

theorem splitSOH_cons (c : UInt8) (cs : Bytes) : splitSOH (c :: cs) =
    match splitSOH cs with
    | [] => [[]]
    | p :: ps => if c = SOH then [] :: p :: ps else (c :: p) :: ps := rfl

theorem splitSOH_field (f rest : Bytes) (hf : SOH ∉ f) : splitSOH (f ++ SOH :: rest) = f :: splitSOH rest := by
  induction f with
  | nil =>
    simp only [List.nil_append]
    rw [splitSOH_cons]
    cases h : splitSOH rest with
    | nil => exact absurd h (splitSOH_ne_nil rest)
    | cons p ps => simp
  | cons c cs ih =>
    have hc : c ≠ SOH := by intro h; exact hf (by simp [h])
    have hcs : SOH ∉ cs := by intro h; exact hf (by simp [h])
    simp only [List.cons_append]
    rw [splitSOH_cons, ih hcs]
    simp [hc]

theorem splitSOH_joinF : ∀ fs : List Bytes, (∀ g ∈ fs, SOH ∉ g) → splitSOH (joinF fs) = fs ++ [[]]
  | [], _ => by simp [joinF, splitSOH]
  | f :: fs, h => by
    have hf : SOH ∉ f := h f (by simp)
    have := splitSOH_joinF fs (fun x hx => h x (by simp [hx]))
    simp [joinF, splitSOH_field f _ hf, this]

theorem wireFields_joinF (fs : List Bytes) (h : ∀ g ∈ fs, SOH ∉ g) : wireFields (joinF fs) = some fs := by
  unfold wireFields
  rw [splitSOH_joinF fs h]
  simp

theorem looseFields_joinF (fs : List Bytes) (h : ∀ g ∈ fs, SOH ∉ g) : looseFields (joinF fs) = fs := by
  unfold looseFields
  rw [splitSOH_joinF fs h]
  simp

/-- `k=` is a prefix of `f` iff the text before the first '=' of `f` is exactly `k` -/
theorem prefix_iff_splitTag (k : Bytes) (hk : EQ ∉ k) : ∀ f : Bytes,
    (k ++ [EQ]).isPrefixOf f = (match splitTag f with | some (t, _) => t == k | none => false) := by
  intro f
  unfold splitTag
  induction k generalizing f with
  | nil =>
    cases f with
    | nil => simp [indexByte, List.isPrefixOf]
    | cons a as =>
      by_cases ha : a = EQ
      · subst ha; simp [indexByte, List.isPrefixOf]
      · simp only [List.nil_append, List.isPrefixOf, indexByte, ha, if_false]
        cases indexByte EQ as with
        | none => simp [ha, beq_eq_false_iff_ne.mpr (Ne.symm ha)]
        | some i => simp [beq_eq_false_iff_ne.mpr (Ne.symm ha)]
  | cons c cs ih =>
    have hc : c ≠ EQ := by intro h; exact hk (by simp [h])
    have hcs : EQ ∉ cs := by intro h; exact hk (by simp [h])
    cases f with
    | nil => simp [indexByte, List.isPrefixOf]
    | cons a as =>
      simp only [List.cons_append, List.isPrefixOf]
      rw [ih hcs as]
      by_cases ha : a = EQ
      · subst ha
        simp [indexByte, beq_eq_false_iff_ne.mpr hc]
      · simp only [indexByte, ha, if_false]
        cases indexByte EQ as with
        | none => simp
        | some i =>
          simp only [Option.map_some, List.take_succ_cons, List.cons.injEq, beq_iff_eq]
          by_cases hca : c = a
          · subst hca; simp
          · have e1 : (c == a) = false := by simpa using hca
            have e2 : (a == c) = false := by simpa using Ne.symm hca
            simp [e1, e2]

theorem splitTag_drop (k f : Bytes) (hk : EQ ∉ k) (h : (k ++ [EQ]).isPrefixOf f = true) :
    splitTag f = some (k, f.drop (k.length + 1)) := by
  have hf := isPrefixOf_drop _ _ h
  simp only [List.length_append, List.length_singleton] at hf
  generalize f.drop (k.length + 1) = v at hf
  subst hf
  unfold splitTag
  have : indexByte EQ (k ++ [EQ] ++ v) = some k.length := by
    clear h
    induction k with
    | nil => simp [indexByte]
    | cons c cs ih =>
      have hc : c ≠ EQ := by intro h; exact hk (by simp [h])
      have hcs : EQ ∉ cs := by intro h; exact hk (by simp [h])
      have := ih hcs
      simp only [List.append_assoc, List.singleton_append] at this
      simp [indexByte, hc, this]
  rw [this]
  simp

/-- the spec's lookup (split at SOH, split each field at its first '=', compare whole tags) is the
    prefix lookup -/
theorem lookupField_eq (k : Bytes) (hk : EQ ∉ k) : ∀ fs : List Bytes, lookupField k fs = lookupPref k fs
  | [] => rfl
  | f :: fs => by
    unfold lookupField lookupPref
    have hp := prefix_iff_splitTag k hk f
    by_cases h : (k ++ [EQ]).isPrefixOf f = true
    · rw [splitTag_drop k f hk h]; simp [h]
    · simp only [h, Bool.false_eq_true, if_false]
      rw [← lookupField_eq k hk fs]
      cases hs : splitTag f with
      | none => rfl
      | some tv =>
        obtain ⟨t, v⟩ := tv
        simp only [hs] at hp
        have : (t == k) = false := by
          rw [← hp]; exact Bool.eq_false_iff.mpr h
        simp [this]

/-! ### `fix.ValueByTag` -/

/-- what `ValueByTag` returns on an image of fields: the first field *after the first one* whose whole tag
    is `tag`, else the first field if its whole tag is `tag`, else an error -/
def vbtSpec (tag f0 : Bytes) (fs : List Bytes) : Res Bytes :=
  match lookupPref tag fs with
  | some v => .ok v
  | none => if (tag ++ [EQ]).isPrefixOf f0 then .ok (f0.drop (tag.length + 1)) else .err

theorem isPrefixOf_iff_take (p s : Bytes) : p.isPrefixOf s = true ↔ s.take p.length = p := by
  induction p generalizing s with
  | nil => simp
  | cons c cs ih =>
    cases s with
    | nil => simp [List.isPrefixOf]
    | cons a as =>
      simp only [List.isPrefixOf, Bool.and_eq_true, beq_iff_eq, List.length_cons, List.take_succ_cons, List.cons.injEq]
      rw [ih]
      constructor
      · rintro ⟨h1, h2⟩; exact ⟨h1.symm, h2⟩
      · rintro ⟨h1, h2⟩; exact ⟨h1.symm, h2⟩

theorem sliceRange_eq (s : Bytes) (a n : Nat) (h : a + n ≤ s.length) :
    sliceRange s (a : Int) ((n : Int) + (a : Int)) = .ok ((s.drop a).take n) := by
  unfold sliceRange
  have : (0 : Int) ≤ a ∧ (a : Int) ≤ (n : Int) + a ∧ (n : Int) + a ≤ s.length := by omega
  simp only [this, and_self, if_true]
  have e : ((n : Int) + (a : Int)).toNat = a + n := by omega
  rw [e]
  simp only [Int.toNat_natCast, List.drop_take]
  congr 2; omega

theorem valueByTag_joinF (tag : Bytes) (hs : SOH ∉ tag) (f0 : Bytes) (fs : List Bytes)
    (h0 : SOH ∉ f0) (hfs : ∀ g ∈ fs, SOH ∉ g) :
    valueByTag (joinF (f0 :: fs)) tag = vbtSpec tag f0 fs := by
  have hidx := indexOf_joinF tag hs f0 fs h0 hfs
  have hmsg : joinF (f0 :: fs) = f0 ++ SOH :: joinF fs := rfl
  have hpat : (SOH :: tag ++ [EQ]) = SOH :: (tag ++ [EQ]) := rfl
  unfold valueByTag vbtSpec
  simp only [hpat]
  cases hf : findF tag fs with
  | some j =>
    obtain ⟨f, rest, hmem, h1, h2, h3⟩ := findF_some tag fs j hf
    rw [hf] at hidx
    have hi : indexOf (SOH :: (tag ++ [EQ])) (joinF (f0 :: fs)) = some (j + f0.length) := by
      cases hx : indexOf (SOH :: (tag ++ [EQ])) (joinF (f0 :: fs)) with
      | none => rw [hx] at hidx; simp at hidx
      | some i => rw [hx] at hidx; simp at hidx; simp; omega
    have hpl := isPrefixOf_length_le _ _ h2
    simp only [List.length_append, List.length_singleton] at hpl
    have hlenfs : j + f.length + 1 ≤ (joinF fs).length := by
      have := congrArg List.length h1
      simp only [List.length_drop, List.length_append, List.length_cons] at this
      omega
    have hlen : (joinF (f0 :: fs)).length = f0.length + 1 + (joinF fs).length := by
      rw [hmsg]; simp; omega
    rw [hi, h3]
    have hnot : ¬ (joinF (f0 :: fs)).length ≤ tag.length := by omega
    simp only [hnot, if_false]
    rw [sliceTo_ne_panic _ (tag.length + 1) (by omega)]
    simp only [Res.bind_ok, idxInt]
    have hne : ¬ (((j + f0.length : Nat) : Int) = -1 ∧ (joinF (f0 :: fs)).take (tag.length + 1) ≠ tag ++ [EQ]) := by
      intro h; omega
    simp only [hne, if_false]
    have est : ((j + f0.length : Nat) : Int) + (tag.length : Int) + 2 = ((j + f0.length + tag.length + 2 : Nat) : Int) := by omega
    rw [est, sliceFrom_ne_panic _ _ (by omega)]
    simp only [Res.bind_ok]
    have hd : (joinF (f0 :: fs)).drop (j + f0.length + tag.length + 2) = f.drop (tag.length + 1) ++ SOH :: joinF rest := by
      rw [hmsg]
      have e : j + f0.length + tag.length + 2 = (f0.length + 1) + (j + (tag.length + 1)) := by omega
      rw [e, ← List.drop_drop]
      have : (f0 ++ SOH :: joinF fs).drop (f0.length + 1) = joinF fs := by
        rw [List.drop_append]; simp
      rw [this, ← List.drop_drop, h1, List.drop_append_of_le_length hpl]
    rw [hd]
    have hfS : SOH ∉ f := hfs f hmem
    have hvS : SOH ∉ f.drop (tag.length + 1) := fun h => hfS (List.mem_of_mem_drop h)
    rw [indexByte_field _ _ hvS]
    simp only
    rw [sliceRange_eq _ _ _ (by
      have := congrArg List.length hd
      simp only [List.length_drop, List.length_append, List.length_cons] at this ⊢
      omega)]
    rw [hd]
    simp
  | none =>
    rw [hf] at hidx
    have hi : indexOf (SOH :: (tag ++ [EQ])) (joinF (f0 :: fs)) = none := by
      cases hx : indexOf (SOH :: (tag ++ [EQ])) (joinF (f0 :: fs)) with
      | none => rfl
      | some i => rw [hx] at hidx; simp at hidx
    rw [hi, findF_none tag fs hf]
    simp only [idxInt]
    by_cases hp : (tag ++ [EQ]).isPrefixOf f0 = true
    · have hpl := isPrefixOf_length_le _ _ hp
      simp only [List.length_append, List.length_singleton] at hpl
      have hlen : (joinF (f0 :: fs)).length = f0.length + 1 + (joinF fs).length := by
        rw [hmsg]; simp; omega
      have hnot : ¬ (joinF (f0 :: fs)).length ≤ tag.length := by omega
      simp only [hnot, if_false, hp, if_true]
      rw [sliceTo_ne_panic _ (tag.length + 1) (by omega)]
      simp only [Res.bind_ok]
      have hpre : (tag ++ [EQ]).isPrefixOf (joinF (f0 :: fs)) = true := by
        rw [hmsg, isPrefixOf_field _ (sohFree_keyEq tag hs)]; exact hp
      have htk := (isPrefixOf_iff_take _ _).mp hpre
      simp only [List.length_append, List.length_singleton] at htk
      have hne : ¬ (True ∧ (joinF (f0 :: fs)).take (tag.length + 1) ≠ tag ++ [EQ]) := by
        intro h; exact h.2 htk
      simp only [hne, if_false]
      have est : (-1 : Int) + (tag.length : Int) + 2 = ((tag.length + 1 : Nat) : Int) := by omega
      rw [est, sliceFrom_ne_panic _ _ (by omega)]
      simp only [Res.bind_ok]
      have hd : (joinF (f0 :: fs)).drop (tag.length + 1) = f0.drop (tag.length + 1) ++ SOH :: joinF fs := by
        rw [hmsg, List.drop_append_of_le_length hpl]
      rw [hd]
      have hvS : SOH ∉ f0.drop (tag.length + 1) := fun h => h0 (List.mem_of_mem_drop h)
      rw [indexByte_field _ _ hvS]
      simp only
      rw [sliceRange_eq _ _ _ (by
        have := congrArg List.length hd
        simp only [List.length_drop, List.length_append, List.length_cons] at this ⊢
        omega)]
      rw [hd]
      simp
    · simp only [hp, Bool.false_eq_true, if_false]
      split
      · rfl
      · rename_i hlen
        rw [sliceTo_ne_panic _ (tag.length + 1) (by omega)]
        simp only [Res.bind_ok]
        have hpre : ¬ (tag ++ [EQ]).isPrefixOf (joinF (f0 :: fs)) = true := by
          rw [hmsg, isPrefixOf_field _ (sohFree_keyEq tag hs)]; exact hp
        have htk : (joinF (f0 :: fs)).take (tag.length + 1) ≠ tag ++ [EQ] := by
          intro h
          apply hpre
          apply (isPrefixOf_iff_take _ _).mpr
          simpa using h
        simp [htk]

/-! ### every byte string that ends with SOH is an image of SOH-free fields -/

theorem splitSOH_sohFree : ∀ (w : Bytes) (g : Bytes), g ∈ splitSOH w → SOH ∉ g
  | [], g, h => by simp [splitSOH] at h; subst h; simp
  | c :: cs, g, h => by
    rw [splitSOH_cons] at h
    cases hs : splitSOH cs with
    | nil => exact absurd hs (splitSOH_ne_nil cs)
    | cons p ps =>
      rw [hs] at h
      have ihp : SOH ∉ p := splitSOH_sohFree cs p (by simp [hs])
      have ihps : ∀ x ∈ ps, SOH ∉ x := fun x hx => splitSOH_sohFree cs x (by simp [hs, hx])
      by_cases hc : c = SOH
      · simp only [hc, if_true, List.mem_cons] at h
        rcases h with h | h | h
        · subst h; simp
        · subst h; exact ihp
        · exact ihps g h
      · simp only [hc, if_false, List.mem_cons] at h
        rcases h with h | h
        · subst h
          simp only [List.mem_cons, not_or]
          exact ⟨fun e => hc e.symm, ihp⟩
        · exact ihps g h

theorem splitSOH_inv : ∀ (w : Bytes) (fs : List Bytes), splitSOH w = fs ++ [[]] → w = joinF fs
  | [], fs, h => by
    cases fs with
    | nil => rfl
    | cons f fs' => simp [splitSOH] at h
  | c :: cs, fs, h => by
    rw [splitSOH_cons] at h
    cases hs : splitSOH cs with
    | nil => exact absurd hs (splitSOH_ne_nil cs)
    | cons p ps =>
      rw [hs] at h
      by_cases hc : c = SOH
      · simp only [hc, if_true] at h
        cases fs with
        | nil => simp at h
        | cons f fs' =>
          simp only [List.cons_append, List.cons.injEq] at h
          obtain ⟨h1, h2⟩ := h
          subst h1
          have := splitSOH_inv cs fs' (by rw [hs]; exact h2)
          subst hc
          simp [joinF, this]
      · simp only [hc, if_false] at h
        cases fs with
        | nil => simp at h
        | cons f fs' =>
          simp only [List.cons_append, List.cons.injEq] at h
          obtain ⟨h1, h2⟩ := h
          have := splitSOH_inv cs (p :: fs') (by rw [hs, h2]; rfl)
          subst h1
          simp [joinF, this]

/-- a byte string has a field decomposition (`wireFields`) exactly when it is `joinF` of SOH-free fields -/
theorem wireFields_some (w : Bytes) (fs : List Bytes) (h : wireFields w = some fs) :
    w = joinF fs ∧ ∀ g ∈ fs, SOH ∉ g := by
  unfold wireFields at h
  split at h
  · rename_i rest hr
    simp at h; subst h
    have hsp : splitSOH w = rest.reverse ++ [[]] := by
      have := congrArg List.reverse hr
      simpa using this
    refine ⟨splitSOH_inv w _ hsp, fun g hg => splitSOH_sohFree w g (by rw [hsp]; simp [hg])⟩
  · simp at h

theorem indexOf_prefix (pat : Bytes) : ∀ (s : Bytes) (i : Nat), indexOf pat s = some i → pat.isPrefixOf (s.drop i) = true
  | [], i, h => by
    unfold indexOf at h
    split at h
    · rename_i hp; simp at h; subst h; simp [hp]
    · simp at h
  | c :: cs, i, h => by
    rw [indexOf_cons'] at h
    split at h
    · rename_i hp; simp at h; subst h; simpa using hp
    · cases hi : indexOf pat cs with
      | none => simp [hi] at h
      | some j =>
        simp [hi] at h; subst h
        simpa using indexOf_prefix pat cs j hi
