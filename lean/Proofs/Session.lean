import FixModel.Session
/-! projections of the session model's building blocks -/

namespace Sess

@[simp] theorem send_fst_state (s : Sess) (b : OutBody) : (s.send b).1.state = s.state := rfl
@[simp] theorem send_fst_started (s : Sess) (b : OutBody) : (s.send b).1.started = s.started := rfl
@[simp] theorem send_fst_cancelled (s : Sess) (b : OutBody) : (s.send b).1.cancelled = s.cancelled := rfl
@[simp] theorem send_fst_routerStopped (s : Sess) (b : OutBody) : (s.send b).1.routerStopped = s.routerStopped := rfl
@[simp] theorem send_fst_stopArmed (s : Sess) (b : OutBody) : (s.send b).1.stopArmed = s.stopArmed := rfl
@[simp] theorem send_fst_dead (s : Sess) (b : OutBody) : (s.send b).1.dead = s.dead := rfl
@[simp] theorem send_fst_settings (s : Sess) (b : OutBody) : (s.send b).1.settings = s.settings := rfl
@[simp] theorem send_fst_inCounter (s : Sess) (b : OutBody) : (s.send b).1.inCounter = s.inCounter := rfl
@[simp] theorem send_fst_outCounter (s : Sess) (b : OutBody) : (s.send b).1.outCounter = s.outCounter + 1 := rfl
@[simp] theorem send_snd (s : Sess) (b : OutBody) :
    (s.send b).2 = [.msg { seq := s.outCounter + 1, sender := s.settings.sender, target := s.settings.target, body := b }] := rfl
@[simp] theorem send_fst_isLogged (s : Sess) (b : OutBody) : (s.send b).1.isLogged = s.isLogged := rfl

@[simp] theorem andThen_fst (r : Sess × List Out) (f : Sess → Sess × List Out) : (andThen r f).1 = (f r.1).1 := rfl
@[simp] theorem andThen_snd (r : Sess × List Out) (f : Sess → Sess × List Out) : (andThen r f).2 = r.2 ++ (f r.1).2 := rfl

end Sess

/-- the bodies of the numbered or retransmitted messages among the outputs -/
def outBodies : List Out → List OutBody
  | [] => []
  | .msg m :: r => m.body :: outBodies r
  | .resend m :: r => m.body :: outBodies r
  | _ :: r => outBodies r

@[simp] theorem outBodies_nil : outBodies [] = [] := rfl
@[simp] theorem outBodies_msg (m : OutMsg) (r : List Out) : outBodies (.msg m :: r) = m.body :: outBodies r := rfl
@[simp] theorem outBodies_resend (m : OutMsg) (r : List Out) : outBodies (.resend m :: r) = m.body :: outBodies r := rfl
@[simp] theorem outBodies_event (e : SEvent) (r : List Out) : outBodies (.event e :: r) = outBodies r := rfl
@[simp] theorem outBodies_cancel (r : List Out) : outBodies (.cancel :: r) = outBodies r := rfl
@[simp] theorem outBodies_routerStop (r : List Out) : outBodies (.routerStop :: r) = outBodies r := rfl

theorem outBodies_append (a b : List Out) : outBodies (a ++ b) = outBodies a ++ outBodies b := by
  induction a with
  | nil => rfl
  | cons x xs ih => cases x <;> simp [ih]

/-- the session is logged on in the protocol sense: authenticated, possibly probing the peer -/
def Sess.loggedOn (s : Sess) : Bool := s.state = .successfulLogged || s.state = .waitingTestReqAnswer

namespace Sess

/-- what the all-types incoming handlers do before the typed handler runs -/
def pre (s : Sess) (m : InMsg) : Sess := refreshIn (trackSeq s m)

theorem trackSeq_eq (s : Sess) (m : InMsg) :
    trackSeq s m = s ∨ ∃ n, trackSeq s m = { s with inCounter := n } := by
  unfold trackSeq
  split
  · split
    · exact Or.inr ⟨_, rfl⟩
    · exact Or.inl rfl
  · exact Or.inl rfl

@[simp] theorem trackSeq_state (s : Sess) (m : InMsg) : (trackSeq s m).state = s.state := by
  rcases trackSeq_eq s m with h | ⟨n, h⟩ <;> rw [h]
@[simp] theorem trackSeq_started (s : Sess) (m : InMsg) : (trackSeq s m).started = s.started := by
  rcases trackSeq_eq s m with h | ⟨n, h⟩ <;> rw [h]
@[simp] theorem trackSeq_cancelled (s : Sess) (m : InMsg) : (trackSeq s m).cancelled = s.cancelled := by
  rcases trackSeq_eq s m with h | ⟨n, h⟩ <;> rw [h]
@[simp] theorem trackSeq_routerStopped (s : Sess) (m : InMsg) : (trackSeq s m).routerStopped = s.routerStopped := by
  rcases trackSeq_eq s m with h | ⟨n, h⟩ <;> rw [h]
@[simp] theorem trackSeq_stopArmed (s : Sess) (m : InMsg) : (trackSeq s m).stopArmed = s.stopArmed := by
  rcases trackSeq_eq s m with h | ⟨n, h⟩ <;> rw [h]
@[simp] theorem trackSeq_dead (s : Sess) (m : InMsg) : (trackSeq s m).dead = s.dead := by
  rcases trackSeq_eq s m with h | ⟨n, h⟩ <;> rw [h]
@[simp] theorem trackSeq_settings (s : Sess) (m : InMsg) : (trackSeq s m).settings = s.settings := by
  rcases trackSeq_eq s m with h | ⟨n, h⟩ <;> rw [h]
@[simp] theorem trackSeq_outCounter (s : Sess) (m : InMsg) : (trackSeq s m).outCounter = s.outCounter := by
  rcases trackSeq_eq s m with h | ⟨n, h⟩ <;> rw [h]
@[simp] theorem trackSeq_store (s : Sess) (m : InMsg) : (trackSeq s m).store = s.store := by
  rcases trackSeq_eq s m with h | ⟨n, h⟩ <;> rw [h]

theorem refreshIn_eq (s : Sess) :
    refreshIn s = if s.started > 0 ∧ s.state = .waitingTestReqAnswer then { s with state := .successfulLogged } else s := rfl

@[simp] theorem refreshIn_started (s : Sess) : (refreshIn s).started = s.started := by
  rw [refreshIn_eq]; split <;> rfl
@[simp] theorem refreshIn_cancelled (s : Sess) : (refreshIn s).cancelled = s.cancelled := by
  rw [refreshIn_eq]; split <;> rfl
@[simp] theorem refreshIn_routerStopped (s : Sess) : (refreshIn s).routerStopped = s.routerStopped := by
  rw [refreshIn_eq]; split <;> rfl
@[simp] theorem refreshIn_stopArmed (s : Sess) : (refreshIn s).stopArmed = s.stopArmed := by
  rw [refreshIn_eq]; split <;> rfl
@[simp] theorem refreshIn_dead (s : Sess) : (refreshIn s).dead = s.dead := by
  rw [refreshIn_eq]; split <;> rfl
@[simp] theorem refreshIn_settings (s : Sess) : (refreshIn s).settings = s.settings := by
  rw [refreshIn_eq]; split <;> rfl
@[simp] theorem refreshIn_outCounter (s : Sess) : (refreshIn s).outCounter = s.outCounter := by
  rw [refreshIn_eq]; split <;> rfl
@[simp] theorem refreshIn_store (s : Sess) : (refreshIn s).store = s.store := by
  rw [refreshIn_eq]; split <;> rfl
@[simp] theorem refreshIn_inCounter (s : Sess) : (refreshIn s).inCounter = s.inCounter := by
  rw [refreshIn_eq]; split <;> rfl

theorem refreshIn_state (s : Sess) :
    (refreshIn s).state = if s.started > 0 ∧ s.state = .waitingTestReqAnswer then .successfulLogged else s.state := by
  rw [refreshIn_eq]; split <;> rfl

theorem pre_state (s : Sess) (m : InMsg) :
    (pre s m).state = if s.started > 0 ∧ s.state = .waitingTestReqAnswer then .successfulLogged else s.state := by
  unfold pre; rw [refreshIn_state]; simp

@[simp] theorem pre_started (s : Sess) (m : InMsg) : (pre s m).started = s.started := by simp [pre]
@[simp] theorem pre_cancelled (s : Sess) (m : InMsg) : (pre s m).cancelled = s.cancelled := by simp [pre]
@[simp] theorem pre_routerStopped (s : Sess) (m : InMsg) : (pre s m).routerStopped = s.routerStopped := by simp [pre]
@[simp] theorem pre_stopArmed (s : Sess) (m : InMsg) : (pre s m).stopArmed = s.stopArmed := by simp [pre]
@[simp] theorem pre_dead (s : Sess) (m : InMsg) : (pre s m).dead = s.dead := by simp [pre]
@[simp] theorem pre_settings (s : Sess) (m : InMsg) : (pre s m).settings = s.settings := by simp [pre]
@[simp] theorem pre_outCounter (s : Sess) (m : InMsg) : (pre s m).outCounter = s.outCounter := by simp [pre]
@[simp] theorem pre_store (s : Sess) (m : InMsg) : (pre s m).store = s.store := by simp [pre]

theorem pre_loggedOn (s : Sess) (m : InMsg) (h : s.state = .waitingTestReqAnswer → s.started > 0) :
    (pre s m).isLogged = s.loggedOn := by
  unfold isLogged loggedOn
  rw [pre_state]
  by_cases hw : s.state = .waitingTestReqAnswer
  · simp [hw, h hw]
  · simp [hw]

theorem onInbound_eq (c : Cfg) (s : Sess) (m : InMsg) :
    onInbound c s m = match m.kind with
      | .resendRequest => onResendRequest c (pre s m) m
      | .logon => onLogon c (pre s m) m
      | .logout => onLogout c (pre s m) m
      | .heartbeat => onHeartbeat c (pre s m) m
      | .testRequest => onTestRequest c (pre s m) m
      | .other => (pre s m, []) := rfl

theorem rejectMessage_eq (c : Cfg) (s : Sess) (m : InMsg) : rejectMessage c s m = s.send (rejectFor c m) := rfl

theorem rejectMessage_out (c : Cfg) (s : Sess) (m : InMsg) :
    outBodies (rejectMessage c s m).2 = [rejectFor c m] := by simp [rejectMessage_eq]

theorem rejectMessage_fst (c : Cfg) (s : Sess) (m : InMsg) :
    ∃ b, (rejectMessage c s m).1 = (s.send b).1 := ⟨_, rfl⟩

theorem sendReject_eq (s : Sess) (reason tag seq : Int) :
    sendReject s reason tag seq = s.send (.reject seq (itoa reason) (if tag = 0 then none else some tag)) := rfl

/-! `changeState` field by field -/
@[simp] theorem changeState_state (c : Cfg) (s : Sess) (st : LState) : (changeState c s st).1.state = st := by
  unfold changeState; cases st <;> simp <;> split <;> rfl
@[simp] theorem changeState_settings (c : Cfg) (s : Sess) (st : LState) : (changeState c s st).1.settings = s.settings := by
  unfold changeState; cases st <;> simp <;> split <;> rfl
@[simp] theorem changeState_stopArmed (c : Cfg) (s : Sess) (st : LState) : (changeState c s st).1.stopArmed = s.stopArmed := by
  unfold changeState; cases st <;> simp <;> split <;> rfl
@[simp] theorem changeState_dead (c : Cfg) (s : Sess) (st : LState) : (changeState c s st).1.dead = s.dead := by
  unfold changeState; cases st <;> simp <;> split <;> rfl
@[simp] theorem changeState_outCounter (c : Cfg) (s : Sess) (st : LState) : (changeState c s st).1.outCounter = s.outCounter := by
  unfold changeState; cases st <;> simp <;> split <;> rfl
@[simp] theorem changeState_inCounter (c : Cfg) (s : Sess) (st : LState) : (changeState c s st).1.inCounter = s.inCounter := by
  unfold changeState; cases st <;> simp <;> split <;> rfl
@[simp] theorem changeState_store (c : Cfg) (s : Sess) (st : LState) : (changeState c s st).1.store = s.store := by
  unfold changeState; cases st <;> simp <;> split <;> rfl
theorem changeState_cancelled (c : Cfg) (s : Sess) (st : LState) :
    (changeState c s st).1.cancelled = (s.cancelled || decide (st = .disconnect) || (decide (st = .receivedLogoutAnswer) && s.stopArmed)) := by
  unfold changeState; cases st <;> simp <;> split <;> simp_all
theorem changeState_routerStopped (c : Cfg) (s : Sess) (st : LState) :
    (changeState c s st).1.routerStopped = (s.routerStopped || decide (st = .disconnect)) := by
  unfold changeState; cases st <;> simp <;> split <;> simp_all
theorem changeState_started (c : Cfg) (s : Sess) (st : LState) :
    (changeState c s st).1.started = if st = .successfulLogged ∧ c.side = .initiator then s.started + 1 else s.started := by
  unfold changeState; cases st <;> simp <;> split <;> simp_all
theorem changeState_bodies (c : Cfg) (s : Sess) (st : LState) : outBodies (changeState c s st).2 = [] := by
  unfold changeState; cases st <;> simp <;> split <;> simp

/-! `processIncSeq` field by field -/
theorem processIncSeq_eq (s : Sess) (m : InMsg) :
    processIncSeq s m =
      if s.inCounter + 1 < m.hdrSeq then
        ({ (s.send (.resendRequest (s.inCounter + 1) 0)).1 with inCounter := m.hdrSeq }, (s.send (.resendRequest (s.inCounter + 1) 0)).2)
      else ({ s with inCounter := m.hdrSeq }, []) := by
  unfold processIncSeq; split <;> rfl
@[simp] theorem processIncSeq_state (s : Sess) (m : InMsg) : (processIncSeq s m).1.state = s.state := by
  rw [processIncSeq_eq]; split <;> rfl
@[simp] theorem processIncSeq_started (s : Sess) (m : InMsg) : (processIncSeq s m).1.started = s.started := by
  rw [processIncSeq_eq]; split <;> rfl
@[simp] theorem processIncSeq_cancelled (s : Sess) (m : InMsg) : (processIncSeq s m).1.cancelled = s.cancelled := by
  rw [processIncSeq_eq]; split <;> rfl
@[simp] theorem processIncSeq_routerStopped (s : Sess) (m : InMsg) : (processIncSeq s m).1.routerStopped = s.routerStopped := by
  rw [processIncSeq_eq]; split <;> rfl
@[simp] theorem processIncSeq_stopArmed (s : Sess) (m : InMsg) : (processIncSeq s m).1.stopArmed = s.stopArmed := by
  rw [processIncSeq_eq]; split <;> rfl
@[simp] theorem processIncSeq_dead (s : Sess) (m : InMsg) : (processIncSeq s m).1.dead = s.dead := by
  rw [processIncSeq_eq]; split <;> rfl
@[simp] theorem processIncSeq_settings (s : Sess) (m : InMsg) : (processIncSeq s m).1.settings = s.settings := by
  rw [processIncSeq_eq]; split <;> rfl
theorem processIncSeq_bodies (s : Sess) (m : InMsg) :
    outBodies (processIncSeq s m).2 = if s.inCounter + 1 < m.hdrSeq then [.resendRequest (s.inCounter + 1) 0] else [] := by
  rw [processIncSeq_eq]; split <;> simp

theorem onLogout_other (c : Cfg) (s : Sess) (m : InMsg) (hp : m.parseOk = true)
    (h1 : s.state ≠ .waitingLogoutAnswer) (h2 : s.state ≠ .successfulLogged) :
    onLogout c s m = (backToWaiting c (rejectMessage c s m).1, (rejectMessage c s m).2) := by
  unfold onLogout
  cases hs : s.state <;> simp_all

end Sess
