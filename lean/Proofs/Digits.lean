import Proofs.Damage
/-!
# Digits — `strconv.Atoi ∘ strconv.Itoa = id`, `ParseUint ∘ FormatUint = id` (C02: Int / Uint values and BodyLength)
-/

theorem parseNatAux_append (a b : Bytes) (acc : Nat) :
    parseNatAux (a ++ b) acc = (parseNatAux a acc).bind (parseNatAux b) := by
  induction a generalizing acc with
  | nil => rfl
  | cons c cs ih =>
    simp only [List.cons_append, parseNatAux]
    split
    · exact ih _
    · rfl

theorem isDigit_digitChar (d : Nat) (h : d < 10) : isDigit (digitChar d) = true := by
  unfold isDigit digitChar
  have : d = 0 ∨ d = 1 ∨ d = 2 ∨ d = 3 ∨ d = 4 ∨ d = 5 ∨ d = 6 ∨ d = 7 ∨ d = 8 ∨ d = 9 := by omega
  rcases this with h | h | h | h | h | h | h | h | h | h <;> subst h <;> decide

theorem parseNatAux_single (d acc : Nat) (h : d < 10) : parseNatAux [digitChar d] acc = some (acc * 10 + d) := by
  simp only [parseNatAux, isDigit_digitChar d h, if_true, digitVal_digitChar d h]

theorem parseNatAux_natDigits (n : Nat) : parseNatAux (natDigits n) 0 = some n := by
  induction n using Nat.strongRecOn with
  | _ n ih =>
    rw [natDigits_eq]
    split
    · rename_i h
      rw [parseNatAux_single n 0 h]; simp
    · rename_i h
      rw [parseNatAux_append, ih (n / 10) (by omega)]
      simp only [Option.bind_some]
      rw [parseNatAux_single _ _ (by omega)]
      congr 1; omega

theorem parseNat_natDigits (n : Nat) : parseNat (natDigits n) = some n := by
  unfold parseNat
  have := natDigits_ne_nil n
  cases h : natDigits n with
  | nil => exact absurd h this
  | cons c cs =>
    have := parseNatAux_natDigits n
    rw [h] at this
    simp [this]

/-- the first character of a decimal rendering is a digit -/
theorem natDigits_head_digit (n : Nat) : ∃ c cs, natDigits n = c :: cs ∧ isDigit c = true := by
  induction n using Nat.strongRecOn with
  | _ n ih =>
    rw [natDigits_eq]
    split
    · rename_i h; exact ⟨_, [], rfl, isDigit_digitChar n h⟩
    · rename_i h
      obtain ⟨c, cs, hc, hd⟩ := ih (n / 10) (by omega)
      exact ⟨c, cs ++ [digitChar (n % 10)], by rw [hc]; rfl, hd⟩

theorem isDigit_ne_sign (c : UInt8) (h : isDigit c = true) : c ≠ 45 ∧ c ≠ 43 := by
  unfold isDigit at h
  simp only [Bool.and_eq_true, decide_eq_true_eq] at h
  constructor <;> intro e <;> subst e <;> exact absurd h (by decide)

theorem atoi_natDigits (n : Nat) (h : (n : Int) ≤ int64Max) : atoi (natDigits n) = some (n : Int) := by
  obtain ⟨c, cs, hc, hd⟩ := natDigits_head_digit n
  have hp := parseNat_natDigits n
  rw [hc] at hp ⊢
  obtain ⟨h1, h2⟩ := isDigit_ne_sign c hd
  unfold atoi
  simp only [h1, h2, if_false, hp]
  have : ¬ ((n : Int) > int64Max) := by omega
  simp [this]

theorem atoi_itoa (i : Int) (h1 : int64Min ≤ i) (h2 : i ≤ int64Max) : atoi (itoa i) = some i := by
  unfold itoa
  split
  · rename_i hneg
    unfold atoi
    simp only [if_true]
    rw [parseNat_natDigits]
    have e : -((i.natAbs : Nat) : Int) = i := by omega
    have : ¬ (-((i.natAbs : Nat) : Int) < int64Min) := by omega
    simp [e, h1]
  · rename_i hpos
    have e : ((i.natAbs : Nat) : Int) = i := by omega
    have := atoi_natDigits i.natAbs (by omega)
    rw [this, e]

theorem parseUint_natDigits (n : Nat) (h : n ≤ uint64Max) : parseUint (natDigits n) = some n := by
  unfold parseUint
  rw [parseNat_natDigits]
  have : ¬ n > uint64Max := by omega
  simp [this]
