import Proofs.Digits
/-!
# RoundTrip — parsing inverts serialization (C02), for messages without repeating groups

Everything here is about *flat* templates (fields and nested components, no groups): the wire image of a
message is the list of its populated `(tag, text)` pairs; with pairwise distinct tags the decoder's search for a
key finds that key's own field, and `FromBytes` of a canonical text gives the value back.
-/

mutual
  def Item.flat : Item → Bool
    | .kv _ _ => true
    | .comp is => flatList is
    | .group _ _ _ => false
  def flatList : List Item → Bool
    | [] => true
    | i :: is => i.flat && flatList is
end

-- every field of a flat tree, populated or not, in template order
mutual
  def Item.kvs : Item → List (Bytes × Val)
    | .kv k v => [(k, v)]
    | .comp is => kvsList is
    | .group _ _ _ => []
  def kvsList : List Item → List (Bytes × Val)
    | [] => []
    | i :: is => i.kvs ++ kvsList is
end

/-- the populated ones, as (tag, wire text) -/
def popPairs (l : List (Bytes × Val)) : List (Bytes × Bytes) :=
  l.filterMap fun p => if populated p.2 then some (p.1, p.2.text) else none

def tv (p : Bytes × Bytes) : Bytes := tagValue p.1 p.2

mutual
  theorem leaves_flat : ∀ i : Item, i.flat = true → i.leaves = (popPairs i.kvs).map tv
    | .kv k v, _ => by
        rw [Item.leaves, Item.kvs]
        by_cases h : populated v = true <;> simp [popPairs, h, tv]
    | .comp is, h => by
        rw [Item.flat] at h
        rw [Item.leaves, Item.kvs]; exact leavesList_flat is h
    | .group _ _ _, h => by simp [Item.flat] at h
  theorem leavesList_flat : ∀ is : List Item, flatList is = true → leavesList is = (popPairs (kvsList is)).map tv
    | [], _ => by simp [leavesList, kvsList, popPairs]
    | i :: is, h => by
        rw [flatList, Bool.and_eq_true] at h
        rw [leavesList, kvsList, leaves_flat i h.1, leavesList_flat is h.2]
        simp [popPairs, List.filterMap_append]
end

theorem popPairs_keys_sublist (l : List (Bytes × Val)) : ((popPairs l).map Prod.fst).Sublist (l.map Prod.fst) := by
  induction l with
  | nil => simp [popPairs]
  | cons p ps ih =>
    unfold popPairs at ih ⊢
    by_cases hp : populated p.2 = true
    · simp only [List.filterMap_cons, hp, if_true, List.map_cons]
      exact List.Sublist.cons₂ _ ih
    · simp only [List.filterMap_cons, hp, Bool.false_eq_true, if_false, List.map_cons]
      exact List.Sublist.cons _ ih

/-! ### association lookup on the wire -/

theorem lookupField_pairs (k : Bytes) : ∀ ps : List (Bytes × Bytes), (∀ p ∈ ps, EQ ∉ p.1) →
    lookupField k (ps.map tv) = ps.lookup k
  | [], _ => rfl
  | p :: ps, h => by
    have hp : EQ ∉ p.1 := h p (by simp)
    have ih := lookupField_pairs k ps (fun q hq => h q (by simp [hq]))
    simp only [List.map_cons, lookupField, tv, splitTag_tagValue _ _ hp, List.lookup]
    by_cases e : p.1 = k
    · subst e; simp
    · have e1 : (p.1 == k) = false := by simpa using e
      have e2 : (k == p.1) = false := by simpa using (Ne.symm e)
      simp only [e1, e2, Bool.false_eq_true, if_false]
      exact ih

theorem lookup_of_mem_nodup (k t : Bytes) : ∀ ps : List (Bytes × Bytes), (ps.map Prod.fst).Nodup → (k, t) ∈ ps →
    ps.lookup k = some t
  | [], _, h => by simp at h
  | p :: ps, hn, h => by
    simp only [List.map_cons, List.nodup_cons] at hn
    simp only [List.mem_cons] at h
    rcases h with h | h
    · subst h; simp [List.lookup]
    · have : p.1 ≠ k := by
        intro e
        apply hn.1
        rw [e]
        exact List.mem_map.mpr ⟨(k, t), h, rfl⟩
      have e2 : (k == p.1) = false := by simpa using (Ne.symm this)
      simp only [List.lookup, e2]
      exact lookup_of_mem_nodup k t ps hn.2 h

theorem lookup_none_of_not_mem (k : Bytes) : ∀ ps : List (Bytes × Bytes), k ∉ ps.map Prod.fst → ps.lookup k = none
  | [], _ => rfl
  | p :: ps, h => by
    simp only [List.map_cons, List.mem_cons, not_or] at h
    have e2 : (k == p.1) = false := by simpa using h.1
    simp only [List.lookup, e2]
    exact lookup_none_of_not_mem k ps h.2

/-! ### slots: every tag of the template with what is on the wire for it -/

abbrev Slot := Bytes × Option Bytes

def compress (S : List Slot) : List (Bytes × Bytes) := S.filterMap fun s => s.2.map fun t => (s.1, t)

theorem compress_keys_subset (S : List Slot) (k : Bytes) (h : k ∈ (compress S).map Prod.fst) : k ∈ S.map Prod.fst := by
  induction S with
  | nil => simp [compress] at h
  | cons s ss ih =>
    unfold compress at h ih
    simp only [List.filterMap_cons] at h
    cases ho : s.2 with
    | none =>
      simp only [ho, Option.map_none] at h
      simp [ih h]
    | some t =>
      simp only [ho, Option.map_some, List.map_cons, List.mem_cons] at h
      rcases h with h | h
      · simp [h]
      · simp [ih h]

/-- with pairwise distinct tags, looking a tag up on the wire gives exactly what its own slot holds -/
theorem lookup_slot (k : Bytes) (o : Option Bytes) : ∀ S : List Slot, (S.map Prod.fst).Nodup → (k, o) ∈ S →
    (compress S).lookup k = o
  | [], _, h => by simp at h
  | s :: ss, hn, h => by
    simp only [List.map_cons, List.nodup_cons] at hn
    simp only [List.mem_cons] at h
    have hc : compress (s :: ss) = (match s.2 with | none => [] | some t => [(s.1, t)]) ++ compress ss := by
      unfold compress
      simp only [List.filterMap_cons]
      cases s.2 <;> simp
    rw [hc]
    rcases h with h | h
    · subst h
      cases o with
      | none =>
        simp only [List.nil_append]
        apply lookup_none_of_not_mem
        intro hk
        exact hn.1 (compress_keys_subset ss k hk)
      | some t => simp [List.lookup]
    · have hne : s.1 ≠ k := by
        intro e
        apply hn.1
        rw [e]
        exact List.mem_map.mpr ⟨(k, o), h, rfl⟩
      have e2 : (k == s.1) = false := by simpa using (Ne.symm hne)
      have ih := lookup_slot k o ss hn.2 h
      cases s.2 with
      | none => simpa using ih
      | some t => simp only [List.cons_append, List.nil_append, List.lookup, e2]; exact ih

def slotOf (p : Bytes × Val) : Slot := (p.1, if populated p.2 then some p.2.text else none)

theorem compress_slotOf (l : List (Bytes × Val)) : compress (l.map slotOf) = popPairs l := by
  induction l with
  | nil => rfl
  | cons p ps ih =>
    unfold compress popPairs at *
    simp only [List.map_cons, List.filterMap_cons, slotOf]
    by_cases h : populated p.2 = true
    · simp only [h, if_true, Option.map_some]; rw [ih]
    · simp only [h, Bool.false_eq_true, if_false, Option.map_none]; exact ih

theorem compress_append (A B : List Slot) : compress (A ++ B) = compress A ++ compress B := by
  simp [compress, List.filterMap_append]

namespace Msg
def cksum (m : Msg) : Bytes := calcCheckSum ({ m with bl := Val.newInt m.calcBodyLength } : Msg).bytesWithoutChecksum

/-- every tag of the message template, in wire order (trailer tags included: the decoder looks for them too) -/
def tags (m : Msg) : List Bytes :=
  [m.bsTag, m.blTag, m.mtTag] ++ (kvsList m.header).map Prod.fst ++ (kvsList m.body).map Prod.fst
    ++ (kvsList m.trailer).map Prod.fst ++ [m.csTag]

def slots (m : Msg) : List Slot :=
  [(m.bsTag, some m.bs.text), (m.blTag, some (natDigits m.calcBodyLength)), (m.mtTag, some m.mt.text)]
    ++ (kvsList m.header).map slotOf ++ (kvsList m.body).map slotOf
    ++ (kvsList m.trailer).map (fun p => (p.1, none)) ++ [(m.csTag, some m.cksum)]

theorem slots_keys (m : Msg) : m.slots.map Prod.fst = m.tags := by
  simp [slots, tags, slotOf, Function.comp_def]
end Msg

theorem compress_none (l : List (Bytes × Val)) : compress (l.map (fun p => ((p.1, none) : Slot))) = [] := by
  induction l with
  | nil => rfl
  | cons p ps ih => unfold compress at *; simpa using ih

/-- hypotheses of the flat round trip -/
structure FlatOK (m : Msg) : Prop where
  pre : c17Pre m = true
  flatH : flatList m.header = true
  flatB : flatList m.body = true
  flatT : flatList m.trailer = true
  tagsSoh : ∀ k ∈ m.tags, SOH ∉ k
  tagsEq : ∀ k ∈ m.tags, EQ ∉ k
  nodup : m.tags.Nodup
  len : (m.calcBodyLength : Int) ≤ int64Max

/-- the fields of the wire image are the compressed slots -/
theorem wireFields_encode (m : Msg) (h : FlatOK m) : wireFields m.encode = some ((compress m.slots).map tv) := by
  have hp := h.pre
  unfold c17Pre at hp
  simp only [Bool.and_eq_true] at hp
  obtain ⟨⟨⟨⟨⟨⟨⟨⟨⟨h1, h2⟩, _⟩, h4⟩, h5⟩, _⟩, h7⟩, h8⟩, h9⟩, h10⟩ := hp
  have t : ∀ k ∈ m.tags, SOH ∉ k := h.tagsSoh
  rw [encode_fields m h7 h8 h4 h5]
  have hs : (compress m.slots).map tv =
      [tagValue m.bsTag m.bs.text, tagValue m.blTag (natDigits m.calcBodyLength), tagValue m.mtTag m.mt.text]
        ++ leavesList m.header ++ leavesList m.body ++ [tagValue m.csTag m.cksum] := by
    unfold Msg.slots
    simp only [compress_append, compress_slotOf, compress_none, List.append_nil, List.map_append,
      leavesList_flat _ h.flatH, leavesList_flat _ h.flatB]
    simp [compress, tv]
  rw [hs]
  apply wireFields_joinF
  intro g hg
  simp only [List.mem_append, List.mem_cons, List.not_mem_nil, or_false] at hg
  rcases hg with (((hg | hg | hg) | hg) | hg) | hg
  · rw [hg]; exact tagValue_sohFree _ _ (t _ (by simp [Msg.tags])) (not_contains h9)
  · rw [hg]; exact tagValue_sohFree _ _ (t _ (by simp [Msg.tags])) (natDigits_sohFree _)
  · rw [hg]; exact tagValue_sohFree _ _ (t _ (by simp [Msg.tags])) (not_contains h10)
  · exact leavesList_sohFree _ h1 g hg
  · exact leavesList_sohFree _ h2 g hg
  · rw [hg]; exact tagValue_sohFree _ _ (t _ (by simp [Msg.tags])) (calcCheckSum_sohFree _)

theorem scanValue_wire (w k : Bytes) (fs : List Bytes) (hw : wireFields w = some fs)
    (hk : SOH ∉ k) (hk2 : EQ ∉ k) : scanValue w k = .ok (lookupField k fs) := by
  obtain ⟨rfl, hfs⟩ := wireFields_some w fs hw
  rw [scanValue_joinF k hk fs hfs, lookupField_eq k hk2]

/-- what the decoder's search for the tag of a slot returns on the message's wire image -/
theorem scanValue_slot (m : Msg) (h : FlatOK m) (k : Bytes) (o : Option Bytes) (hmem : (k, o) ∈ m.slots) :
    scanValue m.encode k = .ok o := by
  have hk : k ∈ m.tags := by
    rw [← Msg.slots_keys]; exact List.mem_map.mpr ⟨(k, o), hmem, rfl⟩
  rw [scanValue_wire _ k _ (wireFields_encode m h) (h.tagsSoh k hk) (h.tagsEq k hk)]
  rw [lookupField_pairs k]
  · rw [lookup_slot k o m.slots (by rw [Msg.slots_keys]; exact h.nodup) hmem]
  · intro p hp
    apply h.tagsEq
    rw [← Msg.slots_keys]
    exact compress_keys_subset _ _ (List.mem_map.mpr ⟨p, hp, rfl⟩)

theorem scanKV_slot (m : Msg) (h : FlatOK m) (k : Bytes) (o : Option Bytes) (hmem : (k, o) ∈ m.slots) (v : Val) :
    scanKV m.encode k v = match o with
      | none => .ok v
      | some b => (match v.fromBytes b with | some v' => .ok v' | none => .err) := by
  unfold scanKV
  rw [scanValue_slot m h k o hmem]
  cases o <;> rfl

/-! ### decoding a flat template -/

def Val.norm (v : Val) : Val := if populated v then v else Val.blank v.kind

/-- the value's text is what `FromBytes` maps back to the value (true of every value built by a constructor or
    setter from an in-range number, a string, a bool; for Float / Time it is the codec law of DESIGN §3) -/
def Val.Canon (v : Val) : Prop := populated v = true → (Val.blank v.kind).fromBytes v.text = some v

mutual
  def Item.norm : Item → Item
    | .kv k v => .kv k v.norm
    | .comp is => .comp (normList is)
    | .group n t es => .group n t es
  def normList : List Item → List Item
    | [] => []
    | i :: is => i.norm :: normList is
end

mutual
  theorem decode_item (m : Msg) (h : FlatOK m) : ∀ i : Item, i.flat = true →
      (∀ p ∈ i.kvs, slotOf p ∈ m.slots ∧ p.2.Canon) → i.blank.unm false m.encode = .ok i.norm
    | .kv k v, _, hk => by
        obtain ⟨hs, hc⟩ := hk (k, v) (by simp [Item.kvs])
        rw [Item.blank, Item.unm, Item.norm]
        simp only [Bool.false_eq_true, if_false]
        have hs' : (k, (if populated v then some v.text else none)) ∈ m.slots := hs
        unfold Val.norm
        by_cases hp : populated v = true
        · simp only [hp, if_true] at hs' ⊢
          have e := scanKV_slot m h k _ hs' (Val.blank v.kind)
          simp only at e
          have hc' : (Val.blank v.kind).fromBytes v.text = some v := hc hp
          rw [hc'] at e
          rw [e]; rfl
        · simp only [hp, Bool.false_eq_true, if_false] at hs' ⊢
          have e := scanKV_slot m h k _ hs' (Val.blank v.kind)
          simp only at e
          rw [e]; rfl
    | .comp is, hf, hk => by
        rw [Item.flat] at hf
        rw [Item.blank, Item.unm, Item.norm, decode_list m h is hf (by simpa [Item.kvs] using hk)]
        rfl
    | .group _ _ _, hf, _ => by simp [Item.flat] at hf
  theorem decode_list (m : Msg) (h : FlatOK m) : ∀ is : List Item, flatList is = true →
      (∀ p ∈ kvsList is, slotOf p ∈ m.slots ∧ p.2.Canon) → unmList (blankList is) false m.encode = .ok (normList is)
    | [], _, _ => by simp [blankList, unmList, normList]
    | i :: is, hf, hk => by
        rw [flatList, Bool.and_eq_true] at hf
        rw [blankList, unmList, normList]
        rw [decode_item m h i hf.1 (fun p hp => hk p (by simp [kvsList, hp]))]
        rw [decode_list m h is hf.2 (fun p hp => hk p (by simp [kvsList, hp]))]
        rfl
end

mutual
  theorem decode_item_absent (m : Msg) (h : FlatOK m) : ∀ i : Item, i.flat = true →
      (∀ p ∈ i.kvs, ((p.1, none) : Slot) ∈ m.slots) → i.blank.unm false m.encode = .ok i.blank
    | .kv k v, _, hk => by
        have hs := hk (k, v) (by simp [Item.kvs])
        rw [Item.blank, Item.unm]
        simp only [Bool.false_eq_true, if_false]
        have e := scanKV_slot m h k _ hs (Val.blank v.kind)
        simp only at e
        rw [e]; rfl
    | .comp is, hf, hk => by
        rw [Item.flat] at hf
        rw [Item.blank, Item.unm, decode_list_absent m h is hf (by simpa [Item.kvs] using hk)]
        rfl
    | .group _ _ _, hf, _ => by simp [Item.flat] at hf
  theorem decode_list_absent (m : Msg) (h : FlatOK m) : ∀ is : List Item, flatList is = true →
      (∀ p ∈ kvsList is, ((p.1, none) : Slot) ∈ m.slots) → unmList (blankList is) false m.encode = .ok (blankList is)
    | [], _, _ => by simp [blankList, unmList]
    | i :: is, hf, hk => by
        rw [flatList, Bool.and_eq_true] at hf
        rw [blankList, unmList]
        rw [decode_item_absent m h i hf.1 (fun p hp => hk p (by simp [kvsList, hp]))]
        rw [decode_list_absent m h is hf.2 (fun p hp => hk p (by simp [kvsList, hp]))]
        rfl
end

/-! ### the integrity check accepts what the serializer produced -/

theorem validateFrame_complete (head b' tail : Bytes) :
    validateFrame (head ++ (b' ++ [SOH]) ++ tail) head tail (calcCheckSum (head ++ b')) ((b'.length + 1 : Nat) : Int) = .ok () := by
  unfold validateFrame
  have hlen : (head ++ (b' ++ [SOH]) ++ tail).length = head.length + (b'.length + 1) + tail.length := by simp; omega
  have h1 : ¬ (head ++ (b' ++ [SOH]) ++ tail).length < head.length + tail.length := by omega
  have h2 : head.isPrefixOf (head ++ (b' ++ [SOH]) ++ tail) = true := by
    rw [List.isPrefixOf_iff_prefix]; exact ⟨(b' ++ [SOH]) ++ tail, by simp⟩
  have h3 : tail.isSuffixOf (head ++ (b' ++ [SOH]) ++ tail) = true := by
    rw [List.isSuffixOf_iff_suffix]; exact ⟨head ++ (b' ++ [SOH]), rfl⟩
  simp only [h1, if_false, h2, h3, Bool.not_true, Bool.false_eq_true]
  have eidx : ((head.length : Int) + (((head ++ (b' ++ [SOH]) ++ tail).length : Int) - (head.length : Int) - (tail.length : Int)) - 1)
      = ((head.length + b'.length : Nat) : Int) := by rw [hlen]; omega
  rw [eidx]
  have hget : (head ++ (b' ++ [SOH]) ++ tail)[head.length + b'.length]? = some SOH := by
    rw [List.append_assoc, List.getElem?_append_right (by omega)]
    have e : head.length + b'.length - head.length = b'.length := by omega
    rw [e, List.append_assoc, List.getElem?_append_right (by omega)]
    simp
  have hb : byteAt (head ++ (b' ++ [SOH]) ++ tail) ((head.length + b'.length : Nat) : Int) = .ok SOH := by
    unfold byteAt
    simp only [Int.natCast_nonneg, if_true, Int.toNat_natCast, hget]
  rw [hb]
  simp only [Res.bind_ok, ne_eq, not_true_eq_false, if_false]
  have hleq : ((head ++ (b' ++ [SOH]) ++ tail).length : Int) - (head.length : Int) - (tail.length : Int) = ((b'.length + 1 : Nat) : Int) := by
    rw [hlen]; omega
  simp only [hleq, if_false]
  rw [sliceTo_ne_panic _ _ (by rw [hlen]; omega)]
  simp only [Res.bind_ok]
  have htake : (head ++ (b' ++ [SOH]) ++ tail).take (head.length + b'.length) = head ++ b' := by
    have : head ++ (b' ++ [SOH]) ++ tail = (head ++ b') ++ ([SOH] ++ tail) := by simp
    rw [this, List.take_append_of_le_length (by simp)]
    have : (head ++ b').length = head.length + b'.length := by simp
    rw [← this, List.take_length]
  rw [htake]
  simp

theorem seg_ends (x : Bytes) : seg x = [] ∨ ∃ y, seg x = y ++ [SOH] := by
  unfold seg; split
  · exact Or.inr ⟨x, rfl⟩
  · exact Or.inl rfl

theorem bodyRegion_ends (m : Msg) : ∃ b', m.bodyRegion = b' ++ [SOH] := by
  unfold Msg.bodyRegion
  rcases seg_ends m.bodyBytes with hb | ⟨y, hb⟩
  · rcases seg_ends (optBytes m.headerBytes) with hh | ⟨z, hh⟩
    · exact ⟨optBytes m.mtBytes, by rw [hb, hh]; simp⟩
    · exact ⟨optBytes m.mtBytes ++ SOH :: z, by rw [hb, hh]; simp⟩
  · exact ⟨optBytes m.mtBytes ++ SOH :: (seg (optBytes m.headerBytes) ++ y), by rw [hb]; simp⟩

/-- the three framing slots -/
theorem slots_framing (m : Msg) :
    ((m.bsTag, some m.bs.text) : Slot) ∈ m.slots ∧ ((m.blTag, some (natDigits m.calcBodyLength)) : Slot) ∈ m.slots
    ∧ ((m.mtTag, some m.mt.text) : Slot) ∈ m.slots ∧ ((m.csTag, some m.cksum) : Slot) ∈ m.slots := by
  simp [Msg.slots]

theorem cksum_ne_nil (m : Msg) : m.cksum ≠ [] := by
  intro h
  have := calcCheckSum_length ({ m with bl := Val.newInt m.calcBodyLength } : Msg).bytesWithoutChecksum
  unfold Msg.cksum at h
  rw [h] at this; simp at this

theorem encode_decomp (m : Msg) (hbs : populated m.bs = true) (hmt : populated m.mt = true) :
    ∃ b', m.bodyRegion = b' ++ [SOH] ∧
      m.encode = (tagValue m.bsTag m.bs.text ++ SOH :: tagValue m.blTag (natDigits m.calcBodyLength) ++ [SOH])
        ++ (b' ++ [SOH]) ++ (tagValue m.csTag m.cksum ++ [SOH]) ∧
      m.cksum = calcCheckSum ((tagValue m.bsTag m.bs.text ++ SOH :: tagValue m.blTag (natDigits m.calcBodyLength) ++ [SOH]) ++ b') ∧
      b'.length + 1 = m.calcBodyLength := by
  obtain ⟨b', hb'⟩ := bodyRegion_ends m
  have hbw := bwc_soh ({ m with bl := Val.newInt m.calcBodyLength } : Msg)
  have hbsF : kvBytes m.bsTag m.bs = some (tagValue m.bsTag m.bs.text) := by rw [kvBytes_eq]; simp [hbs]
  have hmtF : m.mtBytes = some (tagValue m.mtTag m.mt.text) := by unfold Msg.mtBytes; rw [kvBytes_eq]; simp [hmt]
  simp only [bodyRegion_withBl, kvBytes_newInt, optBytes, Option.getD_some, hbsF] at hbw
  rw [hb'] at hbw
  have hbwc : ({ m with bl := Val.newInt m.calcBodyLength } : Msg).bytesWithoutChecksum
      = (tagValue m.bsTag m.bs.text ++ SOH :: tagValue m.blTag (natDigits m.calcBodyLength) ++ [SOH]) ++ b' := by
    have : ({ m with bl := Val.newInt m.calcBodyLength } : Msg).bytesWithoutChecksum ++ [SOH]
        = ((tagValue m.bsTag m.bs.text ++ SOH :: tagValue m.blTag (natDigits m.calcBodyLength) ++ [SOH]) ++ b') ++ [SOH] := by
      rw [hbw]; simp
    exact List.append_cancel_right this
  refine ⟨b', hb', ?_, ?_, ?_⟩
  · rw [encode_eq]
    show _ = _
    unfold Msg.cksum
    rw [hbwc]
    simp
  · unfold Msg.cksum; rw [hbwc]
  · have hpos : 0 < optLen m.mtBytes := by simp [hmtF, optLen, tagValue]; omega
    have := bodyRegion_length m hpos
    rw [hb'] at this
    simpa using this

theorem c17Pre_parts (m : Msg) (h : c17Pre m = true) : populated m.bs = true ∧ populated m.mt = true := by
  unfold c17Pre at h
  simp only [Bool.and_eq_true] at h
  exact ⟨h.1.1.1.2, h.1.1.2⟩

theorem validateRaw_encode (m t : Msg) (h : FlatOK m)
    (ht : t.bsTag = m.bsTag ∧ t.blTag = m.blTag ∧ t.csTag = m.csTag) : validateRaw t m.encode = .ok () := by
  obtain ⟨t1, t2, t3⟩ := ht
  obtain ⟨s1, s2, _, s4⟩ := slots_framing m
  have hp := c17Pre_parts m h.pre
  obtain ⟨hbs, hmt⟩ := hp
  obtain ⟨b', _, hdec, hck, hlen⟩ := encode_decomp m hbs hmt
  unfold validateRaw
  rw [t1, t2, t3]
  rw [scanKV_slot m h _ _ s1, scanKV_slot m h _ _ s2, scanKV_slot m h _ _ s4]
  simp only [Val.fromBytes, Val.newRaw, Res.bind_ok]
  have hd : natDigits m.calcBodyLength ≠ [] := natDigits_ne_nil _
  have hbst : m.bs.text ≠ [] := by
    unfold populated at hbs; simp only [Bool.and_eq_true, Bool.not_eq_true'] at hbs
    intro e; rw [e] at hbs; simp at hbs
  simp only [Val.toBytes, if_true, atoi_natDigits _ h.len]
  have k1 : kvBytes m.bsTag ⟨.raw, true, m.bs.text⟩ = some (tagValue m.bsTag m.bs.text) := by
    rw [kvBytes_eq]; simp [populated, hbst]
  have k2 : kvBytes m.blTag ⟨.raw, true, natDigits m.calcBodyLength⟩ = some (tagValue m.blTag (natDigits m.calcBodyLength)) := by
    rw [kvBytes_eq]; simp [populated, hd]
  have k3 : kvBytes m.csTag ⟨.raw, true, m.cksum⟩ = some (tagValue m.csTag m.cksum) := by
    rw [kvBytes_eq]; simp [populated, cksum_ne_nil m]
  simp only [k1, k2, k3]
  rw [hdec, hck, ← hlen]
  exact validateFrame_complete _ _ _

/-! ### the round trip -/

/-- a target message for decoding `m`'s wire image: same tags, blank copies of the item trees, framing values of the
    right kinds (whatever they hold — the constructor leaves BeginString and MsgType populated) -/
structure Twin (m t : Msg) : Prop where
  bsTag : t.bsTag = m.bsTag
  blTag : t.blTag = m.blTag
  csTag : t.csTag = m.csTag
  mtTag : t.mtTag = m.mtTag
  bsK : t.bs.kind = .str
  blK : t.bl.kind = .int
  mtK : t.mt.kind = .str
  csK : t.cs.kind = .str
  header : t.header = blankList m.header
  body : t.body = blankList m.body
  trailer : t.trailer = blankList m.trailer

/-- what parsing `m.encode` into a twin yields -/
def Msg.parsed (m : Msg) : Msg :=
  { m with bs := ⟨.str, true, m.bs.text⟩, bl := ⟨.int, true, natDigits m.calcBodyLength⟩, mt := ⟨.str, true, m.mt.text⟩,
           header := normList m.header, body := normList m.body, trailer := blankList m.trailer,
           cs := ⟨.str, true, m.cksum⟩ }

theorem natDigits_ne_zero (n : Nat) (h : n ≠ 0) : natDigits n ≠ [48] := by
  intro e
  have := valAux_natDigits n
  rw [e] at this
  have z : valAux 0 [48] = 0 := by decide
  omega

theorem mem_slots_header (m : Msg) (p : Bytes × Val) (h : p ∈ kvsList m.header) : slotOf p ∈ m.slots := by
  unfold Msg.slots
  simp only [List.mem_append, List.mem_map]
  exact Or.inl (Or.inl (Or.inl (Or.inr ⟨p, h, rfl⟩)))

theorem mem_slots_body (m : Msg) (p : Bytes × Val) (h : p ∈ kvsList m.body) : slotOf p ∈ m.slots := by
  unfold Msg.slots
  simp only [List.mem_append, List.mem_map]
  exact Or.inl (Or.inl (Or.inr ⟨p, h, rfl⟩))

theorem mem_slots_trailer (m : Msg) (p : Bytes × Val) (h : p ∈ kvsList m.trailer) : ((p.1, none) : Slot) ∈ m.slots := by
  unfold Msg.slots
  simp only [List.mem_append, List.mem_map]
  exact Or.inl (Or.inr ⟨p, h, rfl⟩)

/-- **C02 for flat messages**: parsing the serialization of `m` into a blank twin succeeds and yields exactly the
    populated fields of `m` (unpopulated fields stay blank; BodyLength and CheckSum hold what was on the wire) -/
theorem unmarshal_encode (m t : Msg) (h : FlatOK m) (tw : Twin m t)
    (hc : ∀ p ∈ kvsList m.header ++ kvsList m.body, p.2.Canon) :
    t.unmarshal m.encode = .ok (m.parsed) := by
  obtain ⟨hbs, hmt⟩ := c17Pre_parts m h.pre
  obtain ⟨s1, s2, s3, s4⟩ := slots_framing m
  unfold Msg.unmarshal
  rw [validateRaw_encode m t h ⟨tw.bsTag, tw.blTag, tw.csTag⟩]
  simp only [Res.bind_ok]
  have hitems : t.unmarshalItems m.encode = .ok (m.parsed) := by
    unfold Msg.unmarshalItems
    rw [tw.bsTag, tw.blTag, tw.mtTag, tw.csTag, tw.header, tw.body, tw.trailer]
    rw [scanKV_slot m h _ _ s1, scanKV_slot m h _ _ s2, scanKV_slot m h _ _ s3]
    have f1 : t.bs.fromBytes m.bs.text = some ⟨.str, true, m.bs.text⟩ := by simp [Val.fromBytes, tw.bsK]
    have f2 : t.bl.fromBytes (natDigits m.calcBodyLength) = some ⟨.int, true, natDigits m.calcBodyLength⟩ := by
      simp [Val.fromBytes, tw.blK, atoi_natDigits _ h.len, itoa_ofNat]
    have f3 : t.mt.fromBytes m.mt.text = some ⟨.str, true, m.mt.text⟩ := by simp [Val.fromBytes, tw.mtK]
    have f4 : t.cs.fromBytes m.cksum = some ⟨.str, true, m.cksum⟩ := by simp [Val.fromBytes, tw.csK]
    simp only [f1, f2, f3, Res.bind_ok]
    rw [decode_list m h m.header h.flatH (fun p hp => ⟨mem_slots_header m p hp, hc p (by simp [hp])⟩)]
    rw [decode_list m h m.body h.flatB (fun p hp => ⟨mem_slots_body m p hp, hc p (by simp [hp])⟩)]
    rw [decode_list_absent m h m.trailer h.flatT (fun p hp => mem_slots_trailer m p hp)]
    simp only [Res.bind_ok]
    rw [scanKV_slot m h _ _ s4]
    simp only [f4, Res.bind_ok]
    rfl
  rw [hitems]
  simp only [Res.bind_ok]
  have hv : validatorOk (m.parsed) = true := by
    unfold validatorOk Msg.parsed intIsZero Val.isNull
    have hn : m.calcBodyLength ≠ 0 := by
      obtain ⟨b', _, _, _, hl⟩ := encode_decomp m hbs hmt
      omega
    have hmtt : m.mt.text ≠ [] := by
      unfold populated at hmt; simp only [Bool.and_eq_true, Bool.not_eq_true'] at hmt
      intro e; rw [e] at hmt; simp at hmt
    simp [natDigits_ne_nil, natDigits_ne_zero _ hn, hmtt, cksum_ne_nil m]
  simp [hv]

/-! ### … and serializing the parsed message gives the same bytes -/

theorem populated_norm (v : Val) : populated v.norm = populated v ∧ (populated v = true → v.norm = v) := by
  unfold Val.norm
  by_cases h : populated v = true
  · simp [h]
  · have hf : populated v = false := by simpa using h
    refine ⟨?_, fun h' => absurd h' h⟩
    rw [if_neg h, hf]; rfl

mutual
  theorem leaves_norm : ∀ i : Item, i.norm.leaves = i.leaves
    | .kv k v => by
        rw [Item.norm, Item.leaves, Item.leaves]
        obtain ⟨h1, h2⟩ := populated_norm v
        by_cases h : populated v = true
        · rw [h2 h]
        · simp [h1, h]
    | .comp is => by rw [Item.norm, Item.leaves, Item.leaves, leavesList_norm is]
    | .group _ _ _ => by rw [Item.norm]
  theorem leavesList_norm : ∀ is : List Item, leavesList (normList is) = leavesList is
    | [] => by rw [normList]
    | i :: is => by rw [normList, leavesList, leavesList, leaves_norm i, leavesList_norm is]
end

mutual
  theorem entriesNonEmpty_norm : ∀ i : Item, i.norm.entriesNonEmpty = i.entriesNonEmpty
    | .kv _ _ => by rw [Item.norm, Item.entriesNonEmpty, Item.entriesNonEmpty]
    | .comp is => by rw [Item.norm, Item.entriesNonEmpty, Item.entriesNonEmpty, listEntriesNonEmpty_norm is]
    | .group _ _ _ => by rw [Item.norm]
  theorem listEntriesNonEmpty_norm : ∀ is : List Item, listEntriesNonEmpty (normList is) = listEntriesNonEmpty is
    | [] => by rw [normList]
    | i :: is => by
        rw [normList, listEntriesNonEmpty, listEntriesNonEmpty, entriesNonEmpty_norm i, listEntriesNonEmpty_norm is]
end

theorem comp_toBytes_norm (is : List Item) (h : listEntriesNonEmpty is = true) :
    (Item.comp (normList is)).toBytes = (Item.comp is).toBytes := by
  have a := itemOK (.comp (normList is)) (by rw [Item.entriesNonEmpty, listEntriesNonEmpty_norm]; exact h)
  have b := itemOK (.comp is) (by rw [Item.entriesNonEmpty]; exact h)
  unfold ItemOK at a b
  rw [a, b, Item.leaves, Item.leaves, leavesList_norm]

theorem itemsBytes_norm (is : List Item) (h : listEntriesNonEmpty is = true) :
    itemsBytes (normList is) = itemsBytes is := by
  unfold itemsBytes
  rw [(listOK _ (by rw [listEntriesNonEmpty_norm]; exact h)).2, (listOK _ h).2, leavesList_norm]

theorem bwc_withBl (a : Msg) (v : Val) : ({ a with bl := v } : Msg).bytesWithoutChecksum =
    Msg.appendPart (Msg.appendPart (joinSOH [optBytes (kvBytes a.bsTag a.bs), optBytes (kvBytes a.blTag v), optBytes a.mtBytes])
      (optBytes a.headerBytes)) a.bodyBytes := rfl

/-- the wire image depends on the message only through these five things -/
theorem encode_congr (a b : Msg) (t1 : a.bsTag = b.bsTag) (t2 : a.blTag = b.blTag) (t3 : a.csTag = b.csTag)
    (h1 : kvBytes a.bsTag a.bs = kvBytes b.bsTag b.bs) (h2 : a.mtBytes = b.mtBytes)
    (h3 : a.headerBytes = b.headerBytes) (h4 : a.bodyBytes = b.bodyBytes) : a.encode = b.encode := by
  have hl : a.calcBodyLength = b.calcBodyLength := by unfold Msg.calcBodyLength; rw [h2, h3, h4]
  have hb : ({ a with bl := Val.newInt a.calcBodyLength } : Msg).bytesWithoutChecksum
      = ({ b with bl := Val.newInt b.calcBodyLength } : Msg).bytesWithoutChecksum := by
    rw [bwc_withBl, bwc_withBl, h1, h2, h3, h4, hl, t2]
  rw [encode_eq, encode_eq, hb, t3]

/-- **C02, second half, flat messages**: the message obtained by parsing serializes to the very same bytes -/
theorem parsed_encode (m : Msg) (h : FlatOK m) : m.parsed.encode = m.encode := by
  obtain ⟨hbs, hmt⟩ := c17Pre_parts m h.pre
  have hp := h.pre
  unfold c17Pre at hp
  simp only [Bool.and_eq_true] at hp
  have hH : listEntriesNonEmpty m.header = true := hp.1.1.1.1.1.1.2
  have hB : listEntriesNonEmpty m.body = true := hp.1.1.1.1.1.2
  apply encode_congr m.parsed m rfl rfl rfl
  · show kvBytes m.bsTag ⟨.str, true, m.bs.text⟩ = kvBytes m.bsTag m.bs
    rw [kvBytes_eq, kvBytes_eq]
    unfold populated at hbs ⊢
    simp only [Bool.and_eq_true] at hbs
    simp [hbs.1, hbs.2]
  · show kvBytes m.mtTag ⟨.str, true, m.mt.text⟩ = kvBytes m.mtTag m.mt
    rw [kvBytes_eq, kvBytes_eq]
    unfold populated at hmt ⊢
    simp only [Bool.and_eq_true] at hmt
    simp [hmt.1, hmt.2]
  · exact comp_toBytes_norm m.header hH
  · exact itemsBytes_norm m.body hB

/-! ### values an application can build are canonical -/

theorem canon_newString (s : Bytes) : (Val.newString s).Canon := fun _ => rfl
theorem canon_newRaw (b : Bytes) : (Val.newRaw (some b)).Canon := fun _ => rfl
theorem canon_newBool (b : Bool) : (Val.newBool b).Canon := by
  intro _; cases b <;> rfl
theorem canon_newInt (n : Int) (h1 : int64Min ≤ n) (h2 : n ≤ int64Max) : (Val.newInt n).Canon := by
  intro _
  simp [Val.fromBytes, Val.blank, Val.newInt, atoi_itoa n h1 h2]
theorem canon_newUint (n : Nat) (h : n ≤ uint64Max) : (Val.newUint n).Canon := by
  intro _
  simp [Val.fromBytes, Val.blank, Val.newUint, parseUint_natDigits n h]
/-- Float: the text Go's formatter produced is accepted by Go's parser (codec law, validated against strconv) -/
theorem canon_newFloat (txt : Bytes) (h : floatOK txt = true) : (Val.newFloat txt).Canon := by
  intro _
  simp [Val.fromBytes, Val.blank, Val.newFloat, h]
/-- Time: the rendering is a fixed point of parse-then-render (codec law, validated against time) -/
theorem canon_newTime (txt : Bytes) (h : timeCanon txt = some txt) : (Val.newTime txt).Canon := by
  intro _
  simp [Val.fromBytes, Val.blank, Val.newTime, h]
