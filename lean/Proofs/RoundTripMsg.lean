import Proofs.RoundTripG
/-!
# RoundTripMsg — the round trip for whole messages, repeating groups at any depth (C02)
-/

-- the template tags of blank copies contain no delimiter
mutual
  theorem tplOK_blank : ∀ i : Item, (∀ k ∈ i.tags, SOH ∉ k) → i.blank.tplOK = true
    | .kv k v, h => by
        rw [Item.blank, Item.tplOK]
        have := h k (by simp [Item.tags])
        simpa using this
    | .comp is, h => by
        rw [Item.tags] at h
        rw [Item.blank, Item.tplOK]; exact listTplOK_blank is h
    | .group n t es, h => by
        rw [Item.tags] at h
        rw [Item.blank, Item.tplOK, Bool.and_eq_true]
        refine ⟨by simpa using h n (by simp), ?_⟩
        exact listTplOK_blank t (fun k hk => h k (by simp [hk]))
  theorem listTplOK_blank : ∀ is : List Item, (∀ k ∈ tagsList is, SOH ∉ k) → listTplOK (blankList is) = true
    | [], _ => by simp [blankList, listTplOK]
    | i :: is, h => by
        rw [tagsList] at h
        rw [blankList, listTplOK, Bool.and_eq_true]
        exact ⟨tplOK_blank i (fun k hk => h k (by simp [hk])), listTplOK_blank is (fun k hk => h k (by simp [hk]))⟩
end

-- blank copies have no leaves
mutual
  theorem leaves_blank : ∀ i : Item, i.blank.leaves = []
    | .kv k v => by simp [Item.blank, Item.leaves, populated, Val.blank]
    | .comp is => by rw [Item.blank, Item.leaves, leavesList_blank is]
    | .group n t es => by simp [Item.blank, Item.leaves]
  theorem leavesList_blank : ∀ is : List Item, leavesList (blankList is) = []
    | [] => by simp [blankList, leavesList]
    | i :: is => by rw [blankList, leavesList, leaves_blank i, leavesList_blank is]; rfl
end

theorem normGEntries_length : ∀ es : List (List Item), (normGEntries es).length = es.length
  | [] => by simp [normGEntries]
  | e :: es => by simp [normGEntries, normGEntries_length es]

theorem normGEntries_isEmpty (es : List (List Item)) : (normGEntries es).isEmpty = es.isEmpty := by
  cases es <;> simp [normGEntries]

-- normalisation keeps the leaves and the non-emptiness of entries
mutual
  theorem leaves_normG : ∀ i : Item, i.normG.leaves = i.leaves
    | .kv k v => by
        rw [Item.normG, Item.leaves, Item.leaves]
        obtain ⟨h1, h2⟩ := populated_norm v
        by_cases h : populated v = true
        · rw [h2 h]
        · simp [h1, h]
    | .comp is => by rw [Item.normG, Item.leaves, Item.leaves, leavesList_normG is]
    | .group n t es => by
        rw [Item.normG, Item.leaves, Item.leaves, leavesEntries_normG es]
        rw [normGEntries_isEmpty es, normGEntries_length es]
  theorem leavesList_normG : ∀ is : List Item, leavesList (normGList is) = leavesList is
    | [] => by rw [normGList]
    | i :: is => by rw [normGList, leavesList, leavesList, leaves_normG i, leavesList_normG is]
  theorem leavesEntries_normG : ∀ es : List (List Item), leavesEntries (normGEntries es) = leavesEntries es
    | [] => by rw [normGEntries]
    | e :: es => by rw [normGEntries, leavesEntries, leavesEntries, leavesList_normG e, leavesEntries_normG es]
end

mutual
  theorem entriesNonEmpty_normG : ∀ i : Item, i.normG.entriesNonEmpty = i.entriesNonEmpty
    | .kv _ _ => by rw [Item.normG, Item.entriesNonEmpty, Item.entriesNonEmpty]
    | .comp is => by rw [Item.normG, Item.entriesNonEmpty, Item.entriesNonEmpty, listEntriesNonEmpty_normG is]
    | .group n t es => by rw [Item.normG, Item.entriesNonEmpty, Item.entriesNonEmpty, entriesAllNonEmpty_normG es]
  theorem listEntriesNonEmpty_normG : ∀ is : List Item, listEntriesNonEmpty (normGList is) = listEntriesNonEmpty is
    | [] => by rw [normGList]
    | i :: is => by
        rw [normGList, listEntriesNonEmpty, listEntriesNonEmpty, entriesNonEmpty_normG i, listEntriesNonEmpty_normG is]
  theorem entriesAllNonEmpty_normG : ∀ es : List (List Item), entriesAllNonEmpty (normGEntries es) = entriesAllNonEmpty es
    | [] => by rw [normGEntries]
    | e :: es => by
        rw [normGEntries, entriesAllNonEmpty, entriesAllNonEmpty, leavesList_normG e, listEntriesNonEmpty_normG e,
          entriesAllNonEmpty_normG es]
end

theorem starts_hasEQ (k f : Bytes) (h : starts k f = true) : EQ ∈ f := by
  have := isPrefixOf_drop _ _ h
  rw [this]; simp

namespace Msg
/-- every tag of the message template, group templates included -/
def tagsG (m : Msg) : List Bytes :=
  [m.bsTag, m.blTag, m.mtTag] ++ tagsList m.header ++ tagsList m.body ++ tagsList m.trailer ++ [m.csTag]

/-- the fields of the wire image -/
def fieldsG (m : Msg) : List Bytes :=
  [tagValue m.bsTag m.bs.text, tagValue m.blTag (natDigits m.calcBodyLength), tagValue m.mtTag m.mt.text]
    ++ leavesList m.header ++ leavesList m.body ++ [tagValue m.csTag m.cksum]

/-- what parsing `m.encode` yields -/
def parsedG (m : Msg) : Msg :=
  { m with bs := ⟨.str, true, m.bs.text⟩, bl := ⟨.int, true, natDigits m.calcBodyLength⟩, mt := ⟨.str, true, m.mt.text⟩,
           header := normGList m.header, body := normGList m.body, trailer := normGList (blankList m.trailer),
           cs := ⟨.str, true, m.cksum⟩ }
end Msg

/-- hypotheses of the round trip -/
structure MsgOK (m : Msg) : Prop where
  pre : c17Pre m = true
  wfH : wfList m.header
  wfB : wfList m.body
  wfT : wfList (blankList m.trailer)
  tagsSoh : ∀ k ∈ m.tagsG, SOH ∉ k
  tagsEq : ∀ k ∈ m.tagsG, EQ ∉ k
  nodup : m.tagsG.Nodup
  len : (m.calcBodyLength : Int) ≤ int64Max

theorem noStart_of_tagged (ts tags : List Bytes) (X : List Bytes) (hX : ∀ f ∈ X, ∃ k' ∈ tags, starts k' f = true)
    (hdis : ∀ k ∈ ts, k ∉ tags) (h1 : ∀ k ∈ ts, EQ ∉ k) (h2 : ∀ k ∈ tags, EQ ∉ k) : NoStart ts X :=
  fun x hx k hk => not_starts_of_tagged k tags X (h1 k hk) h2 (hdis k hk) hX x hx

theorem tagged_single (k v : Bytes) : ∀ f ∈ [tagValue k v], ∃ k' ∈ [k], starts k' f = true := by
  intro f hf; simp at hf; subst hf; exact ⟨k, by simp, starts_tagValue k v⟩

theorem tagged_append {X Y : List Bytes} {t1 t2 : List Bytes} (hx : ∀ f ∈ X, ∃ k ∈ t1, starts k f = true)
    (hy : ∀ f ∈ Y, ∃ k ∈ t2, starts k f = true) : ∀ f ∈ X ++ Y, ∃ k ∈ t1 ++ t2, starts k f = true := by
  intro f hf
  rcases List.mem_append.mp hf with h | h
  · obtain ⟨k, hk, hs⟩ := hx f h; exact ⟨k, by simp [hk], hs⟩
  · obtain ⟨k, hk, hs⟩ := hy f h; exact ⟨k, by simp [hk], hs⟩

section
variable (m : Msg) (h : MsgOK m)
include h

theorem MsgOK.parts : populated m.bs = true ∧ populated m.mt = true ∧ listEntriesNonEmpty m.header = true
    ∧ listEntriesNonEmpty m.body = true ∧ listSohFree m.header = true ∧ listSohFree m.body = true
    ∧ SOH ∉ m.bs.text ∧ SOH ∉ m.mt.text := by
  have hp := h.pre
  unfold c17Pre at hp
  simp only [Bool.and_eq_true] at hp
  obtain ⟨⟨⟨⟨⟨⟨⟨⟨⟨h1, h2⟩, _⟩, h4⟩, h5⟩, _⟩, h7⟩, h8⟩, h9⟩, h10⟩ := hp
  exact ⟨h7, h8, h4, h5, h1, h2, not_contains h9, not_contains h10⟩

theorem MsgOK.encode_eq : m.encode = img (tagValue m.bsTag m.bs.text)
    ([tagValue m.blTag (natDigits m.calcBodyLength), tagValue m.mtTag m.mt.text] ++ leavesList m.header ++ leavesList m.body
      ++ [tagValue m.csTag m.cksum]) [SOH] := by
  obtain ⟨hbs, hmt, hH, hB, _⟩ := h.parts
  rw [img_soh, encode_fields m hbs hmt hH hB]
  rfl

theorem MsgOK.fields_soh : ∀ g ∈ m.fieldsG, SOH ∉ g := by
  obtain ⟨_, _, _, _, h1, h2, h9, h10⟩ := h.parts
  have t := h.tagsSoh
  intro g hg
  unfold Msg.fieldsG at hg
  simp only [List.mem_append, List.mem_cons, List.not_mem_nil, or_false] at hg
  rcases hg with (((hg | hg | hg) | hg) | hg) | hg
  · rw [hg]; exact tagValue_sohFree _ _ (t _ (by simp [Msg.tagsG])) h9
  · rw [hg]; exact tagValue_sohFree _ _ (t _ (by simp [Msg.tagsG])) (natDigits_sohFree _)
  · rw [hg]; exact tagValue_sohFree _ _ (t _ (by simp [Msg.tagsG])) h10
  · exact leavesList_sohFree _ h1 g hg
  · exact leavesList_sohFree _ h2 g hg
  · rw [hg]; exact tagValue_sohFree _ _ (t _ (by simp [Msg.tagsG])) (calcCheckSum_sohFree _)

/-- every field of the wire image starts with one of the template's tags -/
theorem MsgOK.fields_tagged : ∀ f ∈ m.fieldsG, ∃ k ∈ [m.bsTag, m.blTag, m.mtTag] ++ tagsList m.header ++ tagsList m.body ++ [m.csTag],
    starts k f = true := by
  unfold Msg.fieldsG
  apply tagged_append (tagged_append (tagged_append _ (leavesList_tagged _ h.wfH)) (leavesList_tagged _ h.wfB)) (tagged_single _ _)
  intro f hf
  simp only [List.mem_cons, List.not_mem_nil, or_false] at hf
  rcases hf with rfl | rfl | rfl
  · exact ⟨m.bsTag, by simp, starts_tagValue _ _⟩
  · exact ⟨m.blTag, by simp, starts_tagValue _ _⟩
  · exact ⟨m.mtTag, by simp, starts_tagValue _ _⟩

theorem MsgOK.fields_eq : ∀ g ∈ m.fieldsG, EQ ∈ g := by
  intro g hg
  obtain ⟨k, _, hs⟩ := h.fields_tagged m g hg
  exact starts_hasEQ k g hs
end

theorem nodup_mid {L1 X L2 : List Bytes} (h : (L1 ++ X ++ L2).Nodup) : ∀ k ∈ X, k ∉ L1 ∧ k ∉ L2 := by
  intro k hk
  have h1 := List.nodup_append.mp h
  have h2 := List.nodup_append.mp h1.1
  exact ⟨fun hl => h2.2.2 k hl k hk rfl, fun hr => h1.2.2 k (by simp [hk]) k hr rfl⟩

section
variable (m : Msg) (h : MsgOK m)
include h

/-- scanning the wire image is looking up in its fields -/
theorem MsgOK.scanKV_fields (k : Bytes) (hk : SOH ∉ k) (v : Val) : scanKV m.encode k v = scanKVF m.fieldsG k v := by
  rw [h.encode_eq]
  have hs := h.fields_soh m
  exact scanKV_img k _ _ [SOH] (Or.inr rfl) hk (fun g hg => hs g (by simpa [Msg.fieldsG] using hg)) v

theorem MsgOK.unmList_fields (is : List Item) (ht : ∀ k ∈ tagsList is, SOH ∉ k) :
    unmList (blankList is) false m.encode = unmListF (blankList is) false m.fieldsG := by
  rw [h.encode_eq]
  have hs := h.fields_soh m
  have he := h.fields_eq m
  exact unmList_img (blankList is) false _ _ [SOH] (Or.inr rfl) (listTplOK_blank is ht)
    (fun g hg => hs g (by simpa [Msg.fieldsG] using hg)) (fun g hg => he g (by simp only [Msg.fieldsG, List.cons_append, List.nil_append, List.append_assoc, List.mem_cons] at hg ⊢; exact Or.inr hg))

theorem MsgOK.framing_lookup :
    lookupPref m.bsTag m.fieldsG = some m.bs.text ∧ lookupPref m.blTag m.fieldsG = some (natDigits m.calcBodyLength)
    ∧ lookupPref m.mtTag m.fieldsG = some m.mt.text ∧ lookupPref m.csTag m.fieldsG = some m.cksum := by
  have hnd := h.nodup
  have hE := h.tagsEq
  unfold Msg.tagsG at hnd hE
  have e_bs : EQ ∉ m.bsTag := hE _ (by simp)
  have e_bl : EQ ∉ m.blTag := hE _ (by simp)
  have e_mt : EQ ∉ m.mtTag := hE _ (by simp)
  have e_cs : EQ ∉ m.csTag := hE _ (by simp)
  have hne : m.bsTag ≠ m.blTag ∧ m.bsTag ≠ m.mtTag ∧ m.blTag ≠ m.mtTag := by
    have := List.nodup_append.mp (List.nodup_append.mp (List.nodup_append.mp (List.nodup_append.mp hnd).1).1).1
    simp at this
    exact ⟨this.1.1.1, this.1.1.2, this.1.2⟩
  have ns : ∀ (a b v : Bytes), a ≠ b → EQ ∉ a → EQ ∉ b → starts a (tagValue b v) = false := by
    intro a b v hab ha hb
    cases hs : starts a (tagValue b v) with
    | false => rfl
    | true => exact absurd (starts_unique a b _ hs (starts_tagValue b v) ha hb) hab
  refine ⟨?_, ?_, ?_, ?_⟩
  · simp only [Msg.fieldsG, List.cons_append, lookupPref_hit]
  · simp only [Msg.fieldsG, List.cons_append]
    rw [show ∀ X, lookupPref m.blTag (tagValue m.bsTag m.bs.text :: X) = lookupPref m.blTag X from
      fun X => lookupPref_skip m.blTag [_] X (by intro x hx; simp at hx; subst hx; exact ns _ _ _ (Ne.symm hne.1) e_bl e_bs)]
    exact lookupPref_hit _ _ _
  · simp only [Msg.fieldsG, List.cons_append]
    rw [show ∀ X, lookupPref m.mtTag (tagValue m.bsTag m.bs.text :: tagValue m.blTag (natDigits m.calcBodyLength) :: X) = lookupPref m.mtTag X from
      fun X => lookupPref_skip m.mtTag [_, _] X (by
        intro x hx; simp at hx
        rcases hx with rfl | rfl
        · exact ns _ _ _ (Ne.symm hne.2.1) e_mt e_bs
        · exact ns _ _ _ (Ne.symm hne.2.2) e_mt e_bl)]
    exact lookupPref_hit _ _ _
  · -- CheckSum: nothing before it starts with its tag
    have hcs := nodup_mid (L1 := [m.bsTag, m.blTag, m.mtTag] ++ tagsList m.header ++ tagsList m.body ++ tagsList m.trailer)
      (X := [m.csTag]) (L2 := []) (by simpa using hnd) m.csTag (by simp)
    have hpre : ∀ x ∈ [tagValue m.bsTag m.bs.text, tagValue m.blTag (natDigits m.calcBodyLength), tagValue m.mtTag m.mt.text]
        ++ leavesList m.header ++ leavesList m.body, starts m.csTag x = false := by
      apply not_starts_of_tagged m.csTag ([m.bsTag, m.blTag, m.mtTag] ++ tagsList m.header ++ tagsList m.body) _ e_cs
      · intro k hk; apply hE; exact List.mem_append_left _ (List.mem_append_left _ hk)
      · intro hmem; apply hcs.1; exact List.mem_append_left _ hmem
      · apply tagged_append (tagged_append _ (leavesList_tagged _ h.wfH)) (leavesList_tagged _ h.wfB)
        intro f hf
        simp only [List.mem_cons, List.not_mem_nil, or_false] at hf
        rcases hf with rfl | rfl | rfl
        · exact ⟨m.bsTag, by simp, starts_tagValue _ _⟩
        · exact ⟨m.blTag, by simp, starts_tagValue _ _⟩
        · exact ⟨m.mtTag, by simp, starts_tagValue _ _⟩
    unfold Msg.fieldsG
    rw [lookupPref_skip m.csTag _ _ hpre]
    exact lookupPref_hit _ _ _
end

section
variable (m : Msg) (h : MsgOK m)
include h

theorem MsgOK.framing_tagged : ∀ f ∈ [tagValue m.bsTag m.bs.text, tagValue m.blTag (natDigits m.calcBodyLength), tagValue m.mtTag m.mt.text],
    ∃ k ∈ [m.bsTag, m.blTag, m.mtTag], starts k f = true := by
  intro f hf
  simp only [List.mem_cons, List.not_mem_nil, or_false] at hf
  rcases hf with rfl | rfl | rfl
  · exact ⟨m.bsTag, by simp, starts_tagValue _ _⟩
  · exact ⟨m.blTag, by simp, starts_tagValue _ _⟩
  · exact ⟨m.mtTag, by simp, starts_tagValue _ _⟩

theorem MsgOK.decode_header : unmList (blankList m.header) false m.encode = .ok (normGList m.header) := by
  have hnd := h.nodup
  have hE := h.tagsEq
  have hS := h.tagsSoh
  unfold Msg.tagsG at hnd hE hS
  have A : [m.bsTag, m.blTag, m.mtTag] ++ tagsList m.header ++ tagsList m.body ++ tagsList m.trailer ++ [m.csTag]
      = [m.bsTag, m.blTag, m.mtTag] ++ tagsList m.header ++ (tagsList m.body ++ tagsList m.trailer ++ [m.csTag]) := by simp
  rw [A] at hnd
  have hmid := nodup_mid hnd
  have hndH : (tagsList m.header).Nodup := (List.nodup_append.mp (List.nodup_append.mp hnd).1).2.1
  have hEH : ∀ k ∈ tagsList m.header, EQ ∉ k := fun k hk => hE k (by simp [hk])
  rw [h.unmList_fields m m.header (fun k hk => hS k (by simp [hk]))]
  have hF : m.fieldsG = [tagValue m.bsTag m.bs.text, tagValue m.blTag (natDigits m.calcBodyLength), tagValue m.mtTag m.mt.text]
      ++ leavesList m.header ++ (leavesList m.body ++ [tagValue m.csTag m.cksum]) := by simp [Msg.fieldsG]
  rw [hF]
  apply rt_list m.header h.wfH hEH hndH
  · exact noStart_of_tagged _ _ _ (h.framing_tagged m) (fun k hk => (hmid k hk).1) hEH (fun k hk => hE k (by simp at hk ⊢; rcases hk with rfl | rfl | rfl <;> simp))
  · apply noStart_of_tagged _ (tagsList m.body ++ [m.csTag]) _ (tagged_append (leavesList_tagged _ h.wfB) (tagged_single _ _))
      _ hEH (fun k hk => hE k (by simp only [List.mem_append] at hk ⊢; rcases hk with hk | hk; exact Or.inl (Or.inl (Or.inr hk)); exact Or.inr hk))
    intro k hk hmem
    apply (hmid k hk).2
    simp only [List.mem_append] at hmem ⊢
    rcases hmem with hmem | hmem
    · exact Or.inl (Or.inl hmem)
    · exact Or.inr hmem

theorem MsgOK.decode_body : unmList (blankList m.body) false m.encode = .ok (normGList m.body) := by
  have hnd := h.nodup
  have hE := h.tagsEq
  have hS := h.tagsSoh
  unfold Msg.tagsG at hnd hE hS
  have A : [m.bsTag, m.blTag, m.mtTag] ++ tagsList m.header ++ tagsList m.body ++ tagsList m.trailer ++ [m.csTag]
      = ([m.bsTag, m.blTag, m.mtTag] ++ tagsList m.header) ++ tagsList m.body ++ (tagsList m.trailer ++ [m.csTag]) := by simp
  rw [A] at hnd
  have hmid := nodup_mid hnd
  have hndB : (tagsList m.body).Nodup := (List.nodup_append.mp (List.nodup_append.mp hnd).1).2.1
  have hEB : ∀ k ∈ tagsList m.body, EQ ∉ k := fun k hk => hE k (by simp [hk])
  rw [h.unmList_fields m m.body (fun k hk => hS k (by simp [hk]))]
  have hF : m.fieldsG = ([tagValue m.bsTag m.bs.text, tagValue m.blTag (natDigits m.calcBodyLength), tagValue m.mtTag m.mt.text]
      ++ leavesList m.header) ++ leavesList m.body ++ [tagValue m.csTag m.cksum] := by simp [Msg.fieldsG]
  rw [hF]
  apply rt_list m.body h.wfB hEB hndB
  · exact noStart_of_tagged _ ([m.bsTag, m.blTag, m.mtTag] ++ tagsList m.header) _
      (tagged_append (h.framing_tagged m) (leavesList_tagged _ h.wfH)) (fun k hk => (hmid k hk).1) hEB
      (fun k hk => hE k (by simp only [List.mem_append] at hk ⊢; exact Or.inl (Or.inl (Or.inl hk))))
  · exact noStart_of_tagged _ [m.csTag] _ (tagged_single _ _)
      (fun k hk hmem => (hmid k hk).2 (by simp at hmem; simp [hmem])) hEB (fun k hk => hE k (by simp at hk; simp [hk]))

theorem MsgOK.decode_trailer : unmList (blankList m.trailer) false m.encode = .ok (normGList (blankList m.trailer)) := by
  have hnd := h.nodup
  have hE := h.tagsEq
  have hS := h.tagsSoh
  unfold Msg.tagsG at hnd hE hS
  have A : [m.bsTag, m.blTag, m.mtTag] ++ tagsList m.header ++ tagsList m.body ++ tagsList m.trailer ++ [m.csTag]
      = ([m.bsTag, m.blTag, m.mtTag] ++ tagsList m.header ++ tagsList m.body) ++ tagsList m.trailer ++ [m.csTag] := by simp
  rw [A] at hnd
  have hmid := nodup_mid hnd
  have hndT : (tagsList m.trailer).Nodup := (List.nodup_append.mp (List.nodup_append.mp hnd).1).2.1
  have hET : ∀ k ∈ tagsList m.trailer, EQ ∉ k := fun k hk => hE k (by simp [hk])
  rw [h.unmList_fields m m.trailer (fun k hk => hS k (by simp [hk]))]
  have r := rt_list (blankList m.trailer) h.wfT (by rw [tagsList_blank]; exact hET) (by rw [tagsList_blank]; exact hndT)
    m.fieldsG [] ?_ (by intro x hx; simp at hx)
  · rw [leavesList_blank, blankList_blank] at r
    simpa using r
  · rw [tagsList_blank]
    apply noStart_of_tagged _ _ _ (h.fields_tagged m) _ hET
      (fun k hk => hE k (by simp only [List.mem_append] at hk ⊢; rcases hk with ((hk | hk) | hk) | hk
                            · exact Or.inl (Or.inl (Or.inl (Or.inl hk)))
                            · exact Or.inl (Or.inl (Or.inl (Or.inr hk)))
                            · exact Or.inl (Or.inl (Or.inr hk))
                            · exact Or.inr hk))
    intro k hk hmem
    simp only [List.mem_append] at hmem
    rcases hmem with hmem | hmem
    · exact (hmid k hk).1 (by simp only [List.mem_append]; exact hmem)
    · exact (hmid k hk).2 hmem
end

section
variable (m : Msg) (h : MsgOK m)
include h

theorem MsgOK.scan_framing (k text : Bytes) (v : Val) (hk : SOH ∉ k) (hl : lookupPref k m.fieldsG = some text) :
    scanKV m.encode k v = match v.fromBytes text with | some v' => .ok v' | none => .err := by
  rw [h.scanKV_fields m k hk v]
  unfold scanKVF
  rw [hl]
  rfl

theorem MsgOK.validateRaw_ok (t : Msg) (ht : t.bsTag = m.bsTag ∧ t.blTag = m.blTag ∧ t.csTag = m.csTag) :
    validateRaw t m.encode = .ok () := by
  obtain ⟨t1, t2, t3⟩ := ht
  obtain ⟨l1, l2, _, l4⟩ := h.framing_lookup m
  obtain ⟨hbs, hmt, _⟩ := h.parts m
  obtain ⟨b', _, hdec, hck, hlen⟩ := encode_decomp m hbs hmt
  have hS := h.tagsSoh
  unfold validateRaw
  rw [t1, t2, t3]
  rw [h.scan_framing m _ _ _ (hS _ (by simp [Msg.tagsG])) l1, h.scan_framing m _ _ _ (hS _ (by simp [Msg.tagsG])) l2,
    h.scan_framing m _ _ _ (hS _ (by simp [Msg.tagsG])) l4]
  simp only [Val.fromBytes, Val.newRaw, Res.bind_ok]
  have hd : natDigits m.calcBodyLength ≠ [] := natDigits_ne_nil _
  have hbst : m.bs.text ≠ [] := by
    unfold populated at hbs; simp only [Bool.and_eq_true, Bool.not_eq_true'] at hbs
    intro e; rw [e] at hbs; simp at hbs
  simp only [Val.toBytes, if_true, atoi_natDigits _ h.len]
  have k1 : kvBytes m.bsTag ⟨.raw, true, m.bs.text⟩ = some (tagValue m.bsTag m.bs.text) := by
    rw [kvBytes_eq]; simp [populated, hbst]
  have k2 : kvBytes m.blTag ⟨.raw, true, natDigits m.calcBodyLength⟩ = some (tagValue m.blTag (natDigits m.calcBodyLength)) := by
    rw [kvBytes_eq]; simp [populated, hd]
  have k3 : kvBytes m.csTag ⟨.raw, true, m.cksum⟩ = some (tagValue m.csTag m.cksum) := by
    rw [kvBytes_eq]; simp [populated, cksum_ne_nil m]
  simp only [k1, k2, k3]
  rw [hdec, hck, ← hlen]
  exact validateFrame_complete _ _ _

/-- a target for decoding: same tags, blank copies of the trees, framing values of the right kinds -/
theorem MsgOK.unmarshal_encode (t : Msg) (tw : Twin m t) : t.unmarshal m.encode = .ok m.parsedG := by
  obtain ⟨hbs, hmt, _⟩ := h.parts m
  obtain ⟨l1, l2, l3, l4⟩ := h.framing_lookup m
  have hS := h.tagsSoh
  unfold Msg.unmarshal
  rw [h.validateRaw_ok m t ⟨tw.bsTag, tw.blTag, tw.csTag⟩]
  simp only [Res.bind_ok]
  have hitems : t.unmarshalItems m.encode = .ok m.parsedG := by
    unfold Msg.unmarshalItems
    rw [tw.bsTag, tw.blTag, tw.mtTag, tw.csTag, tw.header, tw.body, tw.trailer]
    rw [h.scan_framing m _ _ _ (hS _ (by simp [Msg.tagsG])) l1, h.scan_framing m _ _ _ (hS _ (by simp [Msg.tagsG])) l2,
      h.scan_framing m _ _ _ (hS _ (by simp [Msg.tagsG])) l3]
    have f1 : t.bs.fromBytes m.bs.text = some ⟨.str, true, m.bs.text⟩ := by simp [Val.fromBytes, tw.bsK]
    have f2 : t.bl.fromBytes (natDigits m.calcBodyLength) = some ⟨.int, true, natDigits m.calcBodyLength⟩ := by
      have ha := atoi_natDigits _ h.len
      simp only [Val.fromBytes, tw.blK, ha, Option.map_some, itoa_ofNat]
    have f3 : t.mt.fromBytes m.mt.text = some ⟨.str, true, m.mt.text⟩ := by simp [Val.fromBytes, tw.mtK]
    have f4 : t.cs.fromBytes m.cksum = some ⟨.str, true, m.cksum⟩ := by simp [Val.fromBytes, tw.csK]
    simp only [f1, f2, f3, Res.bind_ok]
    rw [h.decode_header m, h.decode_body m, h.decode_trailer m]
    simp only [Res.bind_ok]
    rw [h.scan_framing m _ _ _ (hS _ (by simp [Msg.tagsG])) l4]
    simp only [f4, Res.bind_ok]
    rfl
  rw [hitems]
  simp only [Res.bind_ok]
  have hv : validatorOk m.parsedG = true := by
    unfold validatorOk Msg.parsedG intIsZero Val.isNull
    have hn : m.calcBodyLength ≠ 0 := by
      obtain ⟨b', _, _, _, hl⟩ := encode_decomp m hbs hmt
      omega
    have hmtt : m.mt.text ≠ [] := by
      unfold populated at hmt; simp only [Bool.and_eq_true, Bool.not_eq_true'] at hmt
      intro e; rw [e] at hmt; simp at hmt
    simp [natDigits_ne_nil, natDigits_ne_zero _ hn, hmtt, cksum_ne_nil m]
  simp [hv]

theorem MsgOK.parsed_encode : m.parsedG.encode = m.encode := by
  obtain ⟨hbs, hmt, hH, hB, _⟩ := h.parts m
  apply encode_congr m.parsedG m rfl rfl rfl
  · show kvBytes m.bsTag ⟨.str, true, m.bs.text⟩ = kvBytes m.bsTag m.bs
    rw [kvBytes_eq, kvBytes_eq]
    unfold populated at hbs ⊢
    simp only [Bool.and_eq_true] at hbs
    simp [hbs.1, hbs.2]
  · show kvBytes m.mtTag ⟨.str, true, m.mt.text⟩ = kvBytes m.mtTag m.mt
    rw [kvBytes_eq, kvBytes_eq]
    unfold populated at hmt ⊢
    simp only [Bool.and_eq_true] at hmt
    simp [hmt.1, hmt.2]
  · show (Item.comp (normGList m.header)).toBytes = (Item.comp m.header).toBytes
    have a := itemOK (.comp (normGList m.header)) (by rw [Item.entriesNonEmpty, listEntriesNonEmpty_normG]; exact hH)
    have b := itemOK (.comp m.header) (by rw [Item.entriesNonEmpty]; exact hH)
    unfold ItemOK at a b
    rw [a, b, Item.leaves, Item.leaves, leavesList_normG]
  · show itemsBytes (normGList m.body) = itemsBytes m.body
    unfold itemsBytes
    rw [(listOK _ (by rw [listEntriesNonEmpty_normG]; exact hB)).2, (listOK _ hB).2, leavesList_normG]
end
