import Proofs.Session
/-! invariants of the session state machine, preserved by every step -/

open Sess

/-- probing implies the timers were started; an accepting session never waits for a Logon answer -/
structure SInv (c : Cfg) (s : Sess) : Prop where
  probe : s.state = .waitingTestReqAnswer → s.started > 0
  side : c.side = .acceptor → s.state ≠ .waitingLogonAnswer

/-- a Logon that entitles the peer to be logged on -/
def acceptable (c : Cfg) (m : InMsg) : Prop :=
  m.kind = .logon ∧ m.parseOk = true ∧
    (c.side = .initiator ∨
      (m.enc ∈ c.allowedEnc ∧ (∀ lo hi, c.hbLimits = some (lo, hi) → lo ≤ m.hb ∧ m.hb ≤ hi)
        ∧ m.approve = true ∧ 0 < m.hb))

/-- the session has been authenticated at some point: logged on (possibly probing) or timers running -/
def Auth (s : Sess) : Prop := s.loggedOn = true ∨ s.started > 0

theorem checkLogonParams_none (c : Cfg) (m : InMsg) (h : checkLogonParams c m = none) :
    m.enc ∈ c.allowedEnc ∧ (∀ lo hi, c.hbLimits = some (lo, hi) → lo ≤ m.hb ∧ m.hb ≤ hi) := by
  unfold checkLogonParams at h
  split at h
  · cases h
  · rename_i henc
    refine ⟨by simpa using henc, ?_⟩
    intro lo hi hl
    rw [hl] at h
    simp only at h
    split at h
    · cases h
    · rename_i hh
      omega

/-! ### cancellation is permanent -/

theorem onLogon_cancelled (c : Cfg) (s : Sess) (m : InMsg) (h : s.cancelled = true) :
    (onLogon c s m).1.cancelled = true := by
  unfold onLogon
  cases m.parseOk <;> cases hs : s.state <;> simp [rejectMessage_eq, sendReject_eq, changeState_cancelled]
  all_goals (repeat' split) <;> simp [h, changeState_cancelled]

theorem onLogout_cancelled (c : Cfg) (s : Sess) (m : InMsg) (h : s.cancelled = true) :
    (onLogout c s m).1.cancelled = true := by
  unfold onLogout
  cases m.parseOk <;> cases hs : s.state <;> simp [rejectMessage_eq, h, changeState_cancelled, backToWaiting]

theorem onResendRequest_fst (c : Cfg) (s : Sess) (m : InMsg) :
    (onResendRequest c s m).1 = s ∨ (onResendRequest c s m).1 = (s.send (rejectFor c m)).1 := by
  unfold onResendRequest
  split
  · exact Or.inr rfl
  · split
    · exact Or.inr rfl
    · left; split <;> (simp only; split <;> rfl)

theorem onInbound_cancelled (c : Cfg) (s : Sess) (m : InMsg) (h : s.cancelled = true) :
    (onInbound c s m).1.cancelled = true := by
  rw [onInbound_eq]
  have hp : (pre s m).cancelled = true := by simp [h]
  cases m.kind <;> simp only
  · exact onLogon_cancelled c _ m hp
  · exact onLogout_cancelled c _ m hp
  · unfold onHeartbeat; (repeat' split) <;> simp [rejectMessage_eq, h]
  · unfold onTestRequest; (repeat' split) <;> simp [rejectMessage_eq, h]
  · rcases onResendRequest_fst c (pre s m) m with h1 | h1 <;> rw [h1] <;> simp [h]
  · exact hp

theorem step_cancelled_mono (c : Cfg) (s : Sess) (e : Ev) (h : s.cancelled = true) :
    (step c s e).1.cancelled = true := by
  cases e with
  | inbound m => simp only [step]; split; exact h; exact onInbound_cancelled c s m h
  | inboundNoType => simp only [step]; split <;> simp [h]
  | appSend t => simp [step, h]
  | localLogout => simp [step, changeState_cancelled, h]
  | localStop => simp [step, changeState_cancelled, h]
  | closeDeadline => simp only [step]; split <;> simp [h]
  | inTimer => simp [step, h]
  | outTimer => simp [step, h]

theorem run_cancelled_mono (c : Cfg) (s : Sess) (es : List Ev) (h : s.cancelled = true) :
    (run c s es).1.cancelled = true := by
  induction es generalizing s with
  | nil => exact h
  | cons e es ih => exact ih _ (step_cancelled_mono c s e h)

/-! ### what each handler can do to `state` / `started`, and which bodies it emits -/

/-- when a Logon step ends logged on having started timers -/
def logonAccepted (c : Cfg) (s : Sess) (m : InMsg) : Prop :=
  m.parseOk = true ∧
    ((s.state = .waitingLogon ∧ checkLogonParams c m = none ∧ m.approve = true ∧ 0 < m.hb)
     ∨ (s.state = .waitingLogonAnswer))

theorem onLogon_cases (c : Cfg) (s : Sess) (m : InMsg) :
    ((onLogon c s m).1.state = s.state ∧ (onLogon c s m).1.started = s.started
      ∧ ∀ b ∈ outBodies (onLogon c s m).2, ∃ q r t, b = .reject q r t)
    ∨ ((onLogon c s m).1.state = .successfulLogged ∧ (onLogon c s m).1.started ≥ s.started
        ∧ logonAccepted c s m) := by
  unfold onLogon
  by_cases hp : m.parseOk = true
  · simp only [hp, not_true_eq_false, ite_false]
    cases hs : s.state
    case waitingLogon =>
      simp only
      cases hc : checkLogonParams c m with
      | some p => left; simp [sendReject_eq, hs]
      | none =>
        simp only
        by_cases ha : m.approve = true
        · by_cases hh : m.hb ≤ 0
          · left; simp [ha, hh, sendReject_eq, hs]
          · right
            simp only [ha, hh, not_true_eq_false, ite_false, not_false_eq_true]
            refine ⟨by simp, ?_, hp, Or.inl ⟨hs, hc, ha, by omega⟩⟩
            simp [changeState_started]
            split <;> omega
        · left; simp [ha, sendReject_eq, hs]
    case waitingLogonAnswer =>
      right
      refine ⟨by simp, ?_, hp, Or.inr hs⟩
      simp [changeState_started]
      split <;> omega
    case successfulLogged => left; simp [sendReject_eq, hs]
    all_goals (left; simp [hs])
  · left; simp [hp, rejectMessage_eq, rejectFor]; cases m.seqTag <;> simp

/-- message kinds that may be sent to a peer that has not logged on -/
def allowedPre : OutBody → Prop
  | .logon .. => True
  | .logout => True
  | .reject .. => True
  | _ => False

@[simp] theorem allowedPre_logout : allowedPre .logout := trivial
@[simp] theorem allowedPre_reject (a : Int) (b : Bytes) (t : Option Int) : allowedPre (.reject a b t) := trivial
@[simp] theorem allowedPre_logon (a : Int) (b u p : Bytes) : allowedPre (.logon a b u p) := trivial

@[simp] theorem rejectFor_allowed (c : Cfg) (m : InMsg) : allowedPre (rejectFor c m) := by
  unfold rejectFor; cases m.seqTag <;> simp

theorem onLogout_cases (c : Cfg) (s : Sess) (m : InMsg) :
    (onLogout c s m).1.started = s.started
    ∧ ((onLogout c s m).1.state = s.state
        ∨ ((onLogout c s m).1.state = .waitingLogon ∧ c.side = .acceptor)
        ∨ ((onLogout c s m).1.state = .waitingLogonAnswer ∧ c.side = .initiator))
    ∧ (∀ b ∈ outBodies (onLogout c s m).2, allowedPre b) := by
  unfold onLogout
  by_cases hp : m.parseOk = true
  · simp only [hp, not_true_eq_false, ite_false, backToWaiting]
    refine ⟨?_, ?_, ?_⟩
    · cases hs : s.state <;> simp [rejectMessage_eq, changeState_started]
    · cases hside : c.side <;> simp
    · cases hs : s.state <;> simp [rejectMessage_eq, outBodies_append, changeState_bodies]
  · simp [hp, rejectMessage_eq, rejectFor_allowed]

theorem onHeartbeat_cases (c : Cfg) (s : Sess) (m : InMsg) :
    (onHeartbeat c s m).1.started = s.started ∧ (onHeartbeat c s m).1.state = s.state
    ∧ (∀ b ∈ outBodies (onHeartbeat c s m).2, allowedPre b) := by
  unfold onHeartbeat
  (repeat' split) <;> simp [rejectMessage_eq, rejectFor_allowed]

theorem onTestRequest_cases (c : Cfg) (s : Sess) (m : InMsg) :
    (onTestRequest c s m).1.started = s.started ∧ (onTestRequest c s m).1.state = s.state
    ∧ (s.isLogged = false → ∀ b ∈ outBodies (onTestRequest c s m).2, allowedPre b) := by
  unfold onTestRequest
  (repeat' split) <;> simp_all [rejectMessage_eq, rejectFor_allowed]

theorem onResendRequest_cases (c : Cfg) (s : Sess) (m : InMsg) :
    (onResendRequest c s m).1.started = s.started ∧ (onResendRequest c s m).1.state = s.state
    ∧ (s.isLogged = false → ∀ b ∈ outBodies (onResendRequest c s m).2, allowedPre b) := by
  refine ⟨?_, ?_, ?_⟩
  · rcases onResendRequest_fst c s m with h | h <;> rw [h] <;> simp
  · rcases onResendRequest_fst c s m with h | h <;> rw [h] <;> simp
  · intro hl
    unfold onResendRequest
    (repeat' split) <;> simp_all [rejectMessage_eq, rejectFor_allowed]

/-! ### step level -/

theorem pre_notLogged (s : Sess) (m : InMsg) (h : ¬ Auth s) :
    (pre s m).isLogged = false ∧ (pre s m).state = s.state := by
  unfold Auth at h
  have h1 : s.loggedOn = false := by cases hl : s.loggedOn <;> simp_all
  have h2 : s.started = 0 := by omega
  have hst : (pre s m).state = s.state := by rw [pre_state]; simp [h2]
  refine ⟨?_, hst⟩
  unfold isLogged; rw [hst]
  unfold loggedOn at h1
  cases hs : s.state <;> simp_all

theorem logonAccepted_acceptable (c : Cfg) (s : Sess) (m : InMsg) (hk : m.kind = .logon)
    (hside : c.side = .acceptor → s.state ≠ .waitingLogonAnswer) (h : logonAccepted c s m) : acceptable c m := by
  obtain ⟨hp, h⟩ := h
  refine ⟨hk, hp, ?_⟩
  rcases h with ⟨_, hc, ha, hh⟩ | hw
  · right
    obtain ⟨h1, h2⟩ := checkLogonParams_none c m hc
    exact ⟨h1, h2, ha, hh⟩
  · left
    cases hs : c.side
    · exact absurd hw (hside hs)
    · rfl

/-- before authentication, a step either is an acceptable Logon or keeps the session
    unauthenticated and emits nothing but Logon / Logout / Reject -/
theorem step_preauth (c : Cfg) (s : Sess) (e : Ev) (hinv : SInv c s) (hna : ¬ Auth s)
    (hne : ∀ t, e ≠ .appSend t) :
    (∃ m, e = .inbound m ∧ acceptable c m) ∨
    (¬ Auth (step c s e).1 ∧ ∀ b ∈ outBodies (step c s e).2, allowedPre b) := by
  have hna' := hna
  unfold Auth at hna
  have hlo : s.loggedOn = false := by cases hl : s.loggedOn <;> simp_all
  have hst0 : s.started = 0 := by omega
  have hnl : s.state ≠ .successfulLogged := by intro h; simp [loggedOn, h] at hlo
  have hnw : s.state ≠ .waitingTestReqAnswer := by intro h; simp [loggedOn, h] at hlo
  cases e with
  | appSend t => exact absurd rfl (hne t)
  | inbound m =>
    simp only [step]
    split
    · right; exact ⟨hna', by simp⟩
    · obtain ⟨hpl, hps⟩ := pre_notLogged s m hna'
      rw [onInbound_eq]
      cases hk : m.kind <;> simp only
      · -- logon
        rcases onLogon_cases c (pre s m) m with ⟨h1, h2, h3⟩ | ⟨h1, h2, h3⟩
        · right
          refine ⟨?_, ?_⟩
          · unfold Auth loggedOn; rw [h1, h2, hps]; simp [hst0, hnl, hnw]
          · intro b hb; obtain ⟨q, r, t, rfl⟩ := h3 b hb; simp
        · left
          exact ⟨m, rfl, logonAccepted_acceptable c (pre s m) m hk (by rw [hps]; exact hinv.side) h3⟩
      · -- logout
        obtain ⟨h1, h2, h3⟩ := onLogout_cases c (pre s m) m
        right
        refine ⟨?_, h3⟩
        unfold Auth loggedOn; rw [h1]
        rcases h2 with h2 | ⟨h2, _⟩ | ⟨h2, _⟩ <;> rw [h2] <;> simp [hps, hst0, hnl, hnw]
      · obtain ⟨h1, h2, h3⟩ := onHeartbeat_cases c (pre s m) m
        right; refine ⟨?_, h3⟩
        unfold Auth loggedOn; rw [h1, h2, hps]; simp [hst0, hnl, hnw]
      · obtain ⟨h1, h2, h3⟩ := onTestRequest_cases c (pre s m) m
        right; refine ⟨?_, h3 hpl⟩
        unfold Auth loggedOn; rw [h1, h2, hps]; simp [hst0, hnl, hnw]
      · obtain ⟨h1, h2, h3⟩ := onResendRequest_cases c (pre s m) m
        right; refine ⟨?_, h3 hpl⟩
        unfold Auth loggedOn; rw [h1, h2, hps]; simp [hst0, hnl, hnw]
      · right; refine ⟨?_, by simp⟩
        unfold Auth loggedOn; rw [hps]; simp [hst0, hnl, hnw]
  | inboundNoType =>
    right; simp only [step]; split <;> simp [Auth, loggedOn, hst0, hnl, hnw]
  | localLogout =>
    right; simp [step, Auth, loggedOn, changeState_started, hst0, outBodies_append, changeState_bodies]
  | localStop =>
    right; simp [step, Auth, loggedOn, changeState_started, hst0, outBodies_append, changeState_bodies]
  | closeDeadline =>
    right; simp only [step]; split <;> simp [Auth, loggedOn, hst0, hnl, hnw]
  | inTimer => right; simp [step, hst0, Auth, loggedOn, hnl, hnw]
  | outTimer => right; simp [step, hst0, Auth, loggedOn, hnl, hnw]

theorem pre_sinv (c : Cfg) (s : Sess) (m : InMsg) (h : SInv c s) : SInv c (pre s m) := by
  constructor
  · intro hw
    rw [pre_state] at hw
    split at hw
    · cases hw
    · simpa using h.probe hw
  · intro hs
    rw [pre_state]
    split
    · simp
    · exact h.side hs

theorem step_sinv (c : Cfg) (s : Sess) (e : Ev) (h : SInv c s) : SInv c (step c s e).1 := by
  cases e with
  | inbound m =>
    simp only [step]
    split
    · exact h
    · have hp := pre_sinv c s m h
      rw [onInbound_eq]
      cases hk : m.kind <;> simp only
      · rcases onLogon_cases c (pre s m) m with ⟨h1, h2, _⟩ | ⟨h1, h2, _⟩
        · exact ⟨by rw [h1, h2]; exact hp.probe, by rw [h1]; exact hp.side⟩
        · exact ⟨(by rw [h1]; intro hh; cases hh), (by rw [h1]; intro _ hh; cases hh)⟩
      · obtain ⟨h1, h2, _⟩ := onLogout_cases c (pre s m) m
        rcases h2 with h2 | ⟨h2, hs⟩ | ⟨h2, hs⟩
        · exact ⟨by rw [h1, h2]; exact hp.probe, by rw [h2]; exact hp.side⟩
        · exact ⟨(by rw [h2]; intro hh; cases hh), (by rw [h2]; intro _ hh; cases hh)⟩
        · exact ⟨(by rw [h2]; intro hh; cases hh), (by intro ha; rw [hs] at ha; cases ha)⟩
      · obtain ⟨h1, h2, _⟩ := onHeartbeat_cases c (pre s m) m
        exact ⟨by rw [h1, h2]; exact hp.probe, by rw [h2]; exact hp.side⟩
      · obtain ⟨h1, h2, _⟩ := onTestRequest_cases c (pre s m) m
        exact ⟨by rw [h1, h2]; exact hp.probe, by rw [h2]; exact hp.side⟩
      · obtain ⟨h1, h2, _⟩ := onResendRequest_cases c (pre s m) m
        exact ⟨by rw [h1, h2]; exact hp.probe, by rw [h2]; exact hp.side⟩
      · exact hp
  | inboundNoType => simp only [step]; split <;> exact ⟨h.probe, h.side⟩
  | appSend t => exact ⟨by simpa [step] using h.probe, by simpa [step] using h.side⟩
  | localLogout => exact ⟨by simp [step], by simp [step]⟩
  | localStop => exact ⟨by simp [step], by simp [step]⟩
  | closeDeadline => simp only [step]; split <;> exact ⟨h.probe, h.side⟩
  | inTimer =>
    simp only [step]
    split
    · exact h
    · rename_i hh
      split
      · exact ⟨by simp, by simp⟩
      · refine ⟨?_, by simp⟩
        intro _
        simp only [send_fst_started]
        omega
  | outTimer =>
    simp only [step]
    split
    · exact h
    · exact ⟨by simpa using h.probe, by simpa using h.side⟩

/-! ### run level -/

def inboundMsgs : List Ev → List InMsg
  | [] => []
  | .inbound m :: es => m :: inboundMsgs es
  | _ :: es => inboundMsgs es

def noAppSend (es : List Ev) : Prop := ∀ e ∈ es, ∀ t, e ≠ .appSend t

theorem run_sinv (c : Cfg) (s : Sess) (es : List Ev) (h : SInv c s) : SInv c (run c s es).1 := by
  induction es generalizing s with
  | nil => exact h
  | cons e es ih => exact ih _ (step_sinv c s e h)

/-- without an acceptable Logon the session stays unauthenticated and everything it sends is a
    Logon, a Logout or a Reject -/
theorem run_preauth (c : Cfg) (s : Sess) (es : List Ev) (hinv : SInv c s) (hna : ¬ Auth s)
    (hno : noAppSend es) (hacc : ∀ m ∈ inboundMsgs es, ¬ acceptable c m) :
    ¬ Auth (run c s es).1 ∧ ∀ b ∈ outBodies (run c s es).2, allowedPre b := by
  induction es generalizing s with
  | nil => exact ⟨hna, by simp [run]⟩
  | cons e es ih =>
    have hne : ∀ t, e ≠ .appSend t := hno e (by simp)
    rcases step_preauth c s e hinv hna hne with ⟨m, rfl, hm⟩ | ⟨h1, h2⟩
    · exact absurd hm (hacc m (by simp [inboundMsgs]))
    · have hacc' : ∀ m ∈ inboundMsgs es, ¬ acceptable c m := by
        intro m hm
        apply hacc m
        cases e <;> simp [inboundMsgs, hm]
      obtain ⟨i1, i2⟩ := ih (step c s e).1 (step_sinv c s e hinv) h1 (fun e' he' => hno e' (by simp [he'])) hacc'
      refine ⟨i1, ?_⟩
      intro b hb
      simp only [run, outBodies_append, List.mem_append] at hb
      rcases hb with hb | hb
      · exact h2 b hb
      · exact i2 b hb
