import FixModel
/-! helper lemmas: sums, joins, decimal digits -/

@[simp] theorem sumBytes_nil : sumBytes [] = 0 := rfl
@[simp] theorem sumBytes_cons (c : UInt8) (cs : Bytes) : sumBytes (c :: cs) = c.toNat + sumBytes cs := rfl

@[simp] theorem sumBytes_append (a b : Bytes) : sumBytes (a ++ b) = sumBytes a + sumBytes b := by
  induction a with
  | nil => simp
  | cons c cs ih => simp [ih, Nat.add_assoc]

theorem itoa_ofNat (n : Nat) : itoa (n : Int) = natDigits n := by
  unfold itoa
  have : ¬ ((n : Int) < 0) := by omega
  simp [this]

theorem natDigits_ne_nil (n : Nat) : natDigits n ≠ [] := by
  rw [natDigits_eq]
  split <;> simp

theorem natDigits_length_pos (n : Nat) : 0 < (natDigits n).length := by
  have := natDigits_ne_nil n
  cases h : natDigits n with
  | nil => exact absurd h this
  | cons _ _ => simp

theorem natDigits_length_le3 (n : Nat) (h : n < 1000) : (natDigits n).length ≤ 3 := by
  rw [natDigits_eq]
  split
  · simp
  · rename_i h10
    rw [natDigits_eq]
    split
    · simp
    · rename_i h100
      rw [natDigits_eq]
      have : n / 10 / 10 < 10 := by omega
      simp [this]

theorem pad3_length (s : Bytes) (h : s.length ≤ 3) : (pad3 s).length = 3 := by
  unfold pad3
  simp
  omega

theorem calcCheckSum_length (b : Bytes) : (calcCheckSum b).length = 3 := by
  unfold calcCheckSum
  apply pad3_length
  apply natDigits_length_le3
  omega
