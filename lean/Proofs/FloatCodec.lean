import FixModel.Value
import Proofs.Digits
/-!
# FloatCodec — plain decimal renderings are accepted by the model of `strconv.ParseFloat`

`strconv.FormatFloat(v, 'f', -1, 64)` renders a finite `v` as `[-]ddd[.ddd]` (no exponent, at least one integer
digit), and `|v| ≤ MaxFloat64 < 2^1024 − 2^970`.  `floatOK_plain`: every such text whose value is below that
threshold is accepted, so `NewFloat(v)` is canonical (`Val.Canon`) for every finite `v` — what is left to trust is
the shape and magnitude of the formatter's output (checked value by value by the correspondence run `val`).
-/

def plainDec (neg : Bool) (ip fp : Bytes) : Bytes :=
  (if neg then [45] else []) ++ ip ++ (if fp.isEmpty then [] else 46 :: fp)

theorem isDigit_props (c : UInt8) (h : isDigit c = true) :
    c ≠ 95 ∧ c ≠ 46 ∧ c ≠ 43 ∧ c ≠ 45 ∧ lowerB c = c ∧ c ≠ 105 ∧ c ≠ 110 ∧ c ≠ 120 := by
  simp only [isDigit, Bool.and_eq_true, decide_eq_true_eq] at h
  have h1 : 48 ≤ c.toNat := by simpa [UInt8.le_iff_toNat_le] using h.1
  have h2 : c.toNat ≤ 57 := by simpa [UInt8.le_iff_toNat_le] using h.2
  have ne : ∀ k : UInt8, c.toNat ≠ k.toNat → c ≠ k := fun k hk he => hk (by rw [he])
  refine ⟨ne _ (by simp; omega), ne _ (by simp; omega), ne _ (by simp; omega), ne _ (by simp; omega), ?_,
    ne _ (by simp; omega), ne _ (by simp; omega), ne _ (by simp; omega)⟩
  unfold lowerB
  have : ¬ (65 ≤ c) := by simp [UInt8.le_iff_toNat_le]; omega
  simp [this]

/-- the mantissa loop over a run of digits -/
theorem mantLoop_digits (ds rest : Bytes) (hd : ∀ c ∈ ds, isDigit c = true) (st : RF) (m : Nat)
    (hm : parseNatAux ds st.mant = some m) :
    mantLoop false (ds ++ rest) st =
      mantLoop false rest { st with sawDigits := st.sawDigits || !ds.isEmpty, mant := m,
                                    frac := if st.sawDot then st.frac + ds.length else st.frac } := by
  induction ds generalizing st with
  | nil =>
    simp only [parseNatAux, Option.some.injEq] at hm
    subst hm
    cases st; simp
  | cons c cs ih =>
    have hc := hd c (by simp)
    obtain ⟨n95, n46, _, _, _, _, _, _⟩ := isDigit_props c hc
    simp only [parseNatAux, hc, if_true] at hm
    simp only [List.cons_append, mantLoop, n95, n46, if_false, hc, if_true]
    rw [ih (fun x hx => hd x (by simp [hx])) _ hm]
    congr 1
    cases hs : st.sawDot <;> simp [hs] <;> omega

theorem eqFold_digit (c : UInt8) (cs w : Bytes) (hc : isDigit c = true) (hw : ∀ x, w.head? = some x → x ≠ c) :
    eqFold (c :: cs) w = false := by
  obtain ⟨_, _, _, _, hl, _⟩ := isDigit_props c hc
  unfold eqFold
  cases w with
  | nil => simp
  | cons x xs =>
    have := hw x rfl
    simp [hl, Ne.symm this]

theorem overflows_small (m k : Nat) (h : m < floatOverflowT * 10 ^ k) : overflows 10 m (-(k : Int)) = false := by
  unfold overflows
  split
  · rfl
  · by_cases hk : k = 0
    · subst hk
      simp only [Int.natCast_zero, Int.neg_zero, ge_iff_le, Int.le_refl, if_true]
      have : ¬ ((0 : Int) > 1100) := by omega
      simp only [this, if_false, Int.toNat_zero, Nat.pow_zero, Nat.mul_one, decide_eq_false_iff_not, Nat.not_le]
      simpa using h
    · have : ¬ (-(k : Int) ≥ 0) := by omega
      simp only [this, if_false, Int.neg_neg, Int.toNat_natCast, decide_eq_false_iff_not, Nat.not_le]
      exact h

theorem isHexPrefix_digits (c : UInt8) (rest : Bytes) (hr : ∀ x, rest.head? = some x → isDigit x = true ∨ x = 46) :
    isHexPrefix (c :: rest) = false := by
  unfold isHexPrefix
  split
  · rename_i x _ _ heq
    simp only [List.cons.injEq] at heq
    obtain ⟨_, hrest⟩ := heq
    have hx := hr x (by rw [hrest]; rfl)
    rcases hx with hx | hx
    · obtain ⟨_, _, _, _, hl, _, _, n120⟩ := isDigit_props x hx
      simp [hl, n120]
    · subst hx; decide
  · rfl

/-- the number part, for a digit string with an optional fraction -/
theorem floatNum_plain (s : Bytes) (c : UInt8) (cs fp : Bytes) (hc : isDigit c = true)
    (hid : ∀ x ∈ cs, isDigit x = true) (hfd : ∀ x ∈ fp, isDigit x = true)
    (m : Nat) (hm : parseNatAux ((c :: cs) ++ fp) 0 = some m) (hb : m < floatOverflowT * 10 ^ fp.length) :
    floatNum s (c :: cs ++ (if fp.isEmpty then [] else 46 :: fp)) = true := by
  have hhex : isHexPrefix (c :: cs ++ (if fp.isEmpty then [] else 46 :: fp)) = false := by
    apply isHexPrefix_digits
    intro x hx
    cases cs with
    | nil =>
      cases hf : fp with
      | nil => simp [hf] at hx
      | cons f fs => simp [hf] at hx; exact Or.inr hx.symm
    | cons y ys =>
      simp at hx; subst hx; exact Or.inl (hid _ (by simp))
  obtain ⟨mi, hmi, hmf⟩ : ∃ mi, parseNatAux (c :: cs) 0 = some mi ∧ parseNatAux fp mi = some m := by
    rw [parseNatAux_append] at hm
    cases h : parseNatAux (c :: cs) 0 with
    | none => simp [h] at hm
    | some mi => exact ⟨mi, rfl, by simpa [h] using hm⟩
  have hall : ∀ x ∈ c :: cs, isDigit x = true := by
    intro x hx; simp at hx; rcases hx with rfl | hx
    · exact hc
    · exact hid x hx
  unfold floatNum
  simp only [hhex, Bool.false_eq_true, if_false]
  by_cases hf : fp = []
  · subst hf
    simp only [List.isEmpty_nil, if_true, List.append_nil]
    have := mantLoop_digits (c :: cs) [] hall {} mi (by simpa using hmi)
    simp only [List.append_nil] at this
    rw [this]
    simp only [parseNatAux, Option.some.injEq] at hmf
    subst hmf
    have ho : overflows 10 mi 0 = false := by simpa using overflows_small mi 0 (by simpa using hb)
    simp [mantLoop, floatTail, ho]
  · have hfe : fp.isEmpty = false := by cases fp <;> simp_all
    simp only [hfe, Bool.false_eq_true, if_false]
    have h1 := mantLoop_digits (c :: cs) (46 :: fp) hall {} mi (by simpa using hmi)
    rw [h1]
    simp only [mantLoop, show (46 : UInt8) ≠ 95 by decide, if_false, if_true, Bool.false_eq_true]
    have h2 := mantLoop_digits fp [] hfd
      { sawDigits := false || !(c :: cs).isEmpty, mant := mi, frac := 0, sawDot := true, us := false } m (by simpa using hmf)
    simp only [List.append_nil] at h2
    simp only [List.isEmpty_cons, Bool.not_false, Bool.or_true] at h2 ⊢
    rw [h2]
    simp [mantLoop, floatTail, overflows_small m fp.length hb]

/-- every plain decimal rendering below the overflow threshold is accepted -/
theorem floatOK_plain (neg : Bool) (ip fp : Bytes) (hi : ip ≠ [])
    (hid : ∀ c ∈ ip, isDigit c = true) (hfd : ∀ c ∈ fp, isDigit c = true)
    (m : Nat) (hm : parseNatAux (ip ++ fp) 0 = some m) (hb : m < floatOverflowT * 10 ^ fp.length) :
    floatOK (plainDec neg ip fp) = true := by
  obtain ⟨c, cs, rfl⟩ := List.exists_cons_of_ne_nil hi
  have hc := hid c (by simp)
  obtain ⟨n95, n46, n43, n45, hl, n105, n110, n120⟩ := isDigit_props c hc
  have hnum := fun s => floatNum_plain s c cs fp hc (fun x hx => hid x (by simp [hx])) hfd m hm hb
  have e1 := eqFold_digit c (cs ++ if fp.isEmpty then [] else 46 :: fp) wInf hc (by intro x hx; cases hx; exact Ne.symm n105)
  have e2 := eqFold_digit c (cs ++ if fp.isEmpty then [] else 46 :: fp) wInfinity hc (by intro x hx; cases hx; exact Ne.symm n105)
  cases neg
  · simp only [plainDec, Bool.false_eq_true, if_false, List.nil_append, List.cons_append]
    have hs : stripSign (c :: (cs ++ if fp.isEmpty then [] else 46 :: fp)) = c :: (cs ++ if fp.isEmpty then [] else 46 :: fp) := by
      simp [stripSign, n43, n45]
    unfold floatOK
    simp only [hs, e1, e2, Bool.or_self, Bool.false_eq_true, if_false, Nat.lt_irrefl, decide_false, Bool.not_false, Bool.true_and,
      eqFold_digit c _ wNan hc (by intro x hx; cases hx; exact Ne.symm n110)]
    exact hnum _
  · simp only [plainDec, if_true, List.cons_append, List.nil_append]
    have hs : stripSign (45 :: c :: (cs ++ if fp.isEmpty then [] else 46 :: fp)) = c :: (cs ++ if fp.isEmpty then [] else 46 :: fp) := by
      simp [stripSign]
    unfold floatOK
    simp only [hs, e1, e2, Bool.or_self, Bool.false_eq_true, if_false, List.length_cons, Nat.lt_succ_self, decide_true,
      Bool.not_true, Bool.false_and]
    exact hnum _
