import Proofs.SessionTrace
/-! lookups in a store built by `pushAll` from consecutively numbered messages -/
open Sess

theorem lookupStore_cons (st : List (Int × OutMsg)) (n : Int) (x : OutMsg) (i : Int) :
    lookupStore ((n, x) :: st) i = if n = i then some x else lookupStore st i := by
  unfold lookupStore
  by_cases h : n = i <;> simp [List.find?, h]

/-- numbers above `i` do not disturb the lookup of `i` -/
theorem lookup_pushAll_below (st : List (Int × OutMsg)) (n : Int) (ms : List OutMsg) (i : Int)
    (hn : Numbered n ms) (hi : i ≤ n) : lookupStore (pushAll st ms) i = lookupStore st i := by
  induction ms generalizing st n with
  | nil => rfl
  | cons x xs ih =>
    obtain ⟨h1, h2⟩ := hn
    simp only [pushAll]
    rw [ih _ (n + 1) h2 (by omega), lookupStore_cons]
    have : ¬ x.seq = i := by omega
    simp [this]

theorem lookup_pushAll (st : List (Int × OutMsg)) (n : Int) (ms : List OutMsg) (hn : Numbered n ms)
    (k : Nat) (hk : k < ms.length) : lookupStore (pushAll st ms) (n + k + 1) = some ms[k] := by
  induction ms generalizing st n k with
  | nil => simp at hk
  | cons x xs ih =>
    obtain ⟨h1, h2⟩ := hn
    simp only [pushAll]
    cases k with
    | zero =>
      rw [lookup_pushAll_below _ (n + 1) xs _ h2 (by simp), lookupStore_cons]
      simp [h1]
    | succ k =>
      have := ih ((x.seq, x) :: st) (n + 1) h2 k (by simpa using hk)
      simp only [List.getElem_cons_succ]
      rw [← this]
      congr 1
      push_cast
      omega

theorem rangeMsgs_pushAll (st : List (Int × OutMsg)) (n : Int) (ms : List OutMsg) (hn : Numbered n ms)
    (j cnt : Nat) (h : j + cnt ≤ ms.length) :
    rangeMsgs (pushAll st ms) (n + j + 1) cnt = some ((ms.drop j).take cnt) := by
  induction cnt generalizing j with
  | zero => simp [rangeMsgs]
  | succ cnt ih =>
    have hj : j < ms.length := by omega
    have h1 := lookup_pushAll st n ms hn j hj
    have h2 := ih (j + 1) (by omega)
    have e : n + (j : Int) + 1 + 1 = n + ((j + 1 : Nat) : Int) + 1 := by push_cast; omega
    simp only [rangeMsgs, h1, e, h2]
    rw [List.drop_eq_getElem_cons hj, List.take_succ_cons]

theorem numbered_get (n : Int) (ms : List OutMsg) (h : Numbered n ms) (k : Nat) (hk : k < ms.length) :
    ms[k].seq = n + k + 1 := by
  induction ms generalizing n k with
  | nil => simp at hk
  | cons x xs ih =>
    obtain ⟨h1, h2⟩ := h
    cases k with
    | zero => simpa using h1
    | succ k =>
      have := ih (n + 1) h2 k (by simpa using hk)
      simp only [List.getElem_cons_succ]
      rw [this]; push_cast; omega
