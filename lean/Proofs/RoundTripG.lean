import Proofs.FieldDecode
/-!
# RoundTripG — parsing inverts serialization for templates with repeating groups, nested to any depth (C02)

Carried out on lists of fields (the byte-level decoder equals the field-level one by `unm_img`):
for a well-formed population `is` whose leaves sit somewhere in a field list `P ++ leavesList is ++ S`, where no
field of `P` or `S` starts with one of the template's tags, the field-level decoder applied to blank copies of the
template returns the normalised population.
-/

-- all tags of a template: field keys, group count tags, and the tags of group templates
mutual
  def Item.tags : Item → List Bytes
    | .kv k _ => [k]
    | .comp is => tagsList is
    | .group n t _ => n :: tagsList t
  def tagsList : List Item → List Bytes
    | [] => []
    | i :: is => i.tags ++ tagsList is
end

/-- the key of the first field of a template, if the template starts with a field -/
def firstKey : List Item → Option Bytes
  | .kv k _ :: _ => some k
  | _ => none

def firstPopulated : List Item → Bool
  | .kv _ v :: _ => populated v
  | _ => false

-- well-formed population
mutual
  def Item.wf : Item → Prop
    | .kv k v => SOH ∉ k ∧ EQ ∉ k ∧ SOH ∉ v.text ∧ v.Canon
    | .comp is => wfList is
    | .group n t es => SOH ∉ n ∧ EQ ∉ n ∧ (es.length : Int) ≤ int64Max ∧ (firstKey t).isSome = true ∧ wfEntries t es
  def wfList : List Item → Prop
    | [] => True
    | i :: is => i.wf ∧ wfList is
  /-- every entry is a populated copy of the template, its first field populated -/
  def wfEntries (t : List Item) : List (List Item) → Prop
    | [] => True
    | e :: es => blankList e = blankList t ∧ firstPopulated e = true ∧ wfList e ∧ wfEntries t es
end

-- normalised population: unpopulated values blank, group templates blank, entries normalised
mutual
  def Item.normG : Item → Item
    | .kv k v => .kv k v.norm
    | .comp is => .comp (normGList is)
    | .group n t es => .group n (blankList t) (normGEntries es)
  def normGList : List Item → List Item
    | [] => []
    | i :: is => i.normG :: normGList is
  def normGEntries : List (List Item) → List (List Item)
    | [] => []
    | e :: es => normGList e :: normGEntries es
end

/-! ### tags depend only on the shape -/

mutual
  theorem tags_blank : ∀ i : Item, i.blank.tags = i.tags
    | .kv _ _ => by rw [Item.blank, Item.tags, Item.tags]
    | .comp is => by rw [Item.blank, Item.tags, Item.tags, tagsList_blank is]
    | .group n t es => by rw [Item.blank, Item.tags, Item.tags, tagsList_blank t]
  theorem tagsList_blank : ∀ is : List Item, tagsList (blankList is) = tagsList is
    | [] => by rw [blankList]
    | i :: is => by rw [blankList, tagsList, tagsList, tags_blank i, tagsList_blank is]
end

mutual
  theorem blank_blank : ∀ i : Item, i.blank.blank = i.blank
    | .kv k v => by simp [Item.blank, Val.blank]
    | .comp is => by rw [Item.blank, Item.blank, blankList_blank is]
    | .group n t es => by rw [Item.blank, Item.blank, blankList_blank t]
  theorem blankList_blank : ∀ is : List Item, blankList (blankList is) = blankList is
    | [] => by simp [blankList]
    | i :: is => by rw [blankList, blankList, blank_blank i, blankList_blank is]
end

/-! ### fields and the tags they start with -/

theorem starts_tagValue (k v : Bytes) : starts k (tagValue k v) = true := by
  unfold starts tagValue
  induction k with
  | nil => simp [List.isPrefixOf]
  | cons c cs ih => simp [List.isPrefixOf, ih]

theorem starts_unique (k1 k2 f : Bytes) (h1 : starts k1 f = true) (h2 : starts k2 f = true)
    (e1 : EQ ∉ k1) (e2 : EQ ∉ k2) : k1 = k2 := by
  have a := splitTag_drop k1 f e1 h1
  have b := splitTag_drop k2 f e2 h2
  rw [a] at b
  simp at b
  exact b.1

theorem starts_nil (k : Bytes) : starts k [] = false := by
  unfold starts; cases k <;> simp [List.isPrefixOf]

theorem lookupPref_skip (k : Bytes) : ∀ (P X : List Bytes), (∀ x ∈ P, starts k x = false) →
    lookupPref k (P ++ X) = lookupPref k X
  | [], _, _ => rfl
  | p :: ps, X, h => by
    have hp : (k ++ [EQ]).isPrefixOf p = false := h p (by simp)
    simp only [List.cons_append, lookupPref, hp, Bool.false_eq_true, if_false]
    exact lookupPref_skip k ps X (fun x hx => h x (by simp [hx]))

theorem afterFirst_skip (k : Bytes) : ∀ (P X : List Bytes), (∀ x ∈ P, starts k x = false) →
    afterFirst k (P ++ X) = afterFirst k X
  | [], _, _ => rfl
  | p :: ps, X, h => by
    have hp : starts k p = false := h p (by simp)
    simp only [List.cons_append, afterFirst, hp, Bool.false_eq_true, if_false]
    exact afterFirst_skip k ps X (fun x hx => h x (by simp [hx]))

theorem lookupPref_none (k : Bytes) : ∀ X : List Bytes, (∀ x ∈ X, starts k x = false) → lookupPref k X = none
  | [], _ => rfl
  | x :: xs, h => by
    have hp : (k ++ [EQ]).isPrefixOf x = false := h x (by simp)
    simp only [lookupPref, hp, Bool.false_eq_true, if_false]
    exact lookupPref_none k xs (fun y hy => h y (by simp [hy]))

theorem afterFirst_none (k : Bytes) : ∀ X : List Bytes, (∀ x ∈ X, starts k x = false) → afterFirst k X = none
  | [], _ => rfl
  | x :: xs, h => by
    have hp : starts k x = false := h x (by simp)
    simp only [afterFirst, hp, Bool.false_eq_true, if_false]
    exact afterFirst_none k xs (fun y hy => h y (by simp [hy]))

theorem lookupPref_hit (k v : Bytes) (X : List Bytes) : lookupPref k (tagValue k v :: X) = some v := by
  have h : (k ++ [EQ]).isPrefixOf (tagValue k v) = true := starts_tagValue k v
  simp only [lookupPref, h, if_true]
  unfold tagValue
  simp

-- every leaf starts with one of the template's tags
mutual
  theorem leaves_tagged : ∀ i : Item, i.wf → ∀ f ∈ i.leaves, ∃ k ∈ i.tags, starts k f = true
    | .kv k v, _, f, hf => by
        rw [Item.leaves] at hf
        split at hf
        · simp at hf; subst hf
          exact ⟨k, by simp [Item.tags], starts_tagValue k _⟩
        · simp at hf
    | .comp is, hw, f, hf => by
        rw [Item.wf] at hw
        rw [Item.leaves] at hf
        rw [Item.tags]
        exact leavesList_tagged is hw f hf
    | .group n t es, hw, f, hf => by
        rw [Item.wf] at hw
        rw [Item.leaves] at hf
        split at hf
        · simp at hf
        · simp only [List.mem_cons] at hf
          rcases hf with rfl | hf
          · exact ⟨n, by simp [Item.tags], starts_tagValue n _⟩
          · obtain ⟨k, hk, hs⟩ := leavesEntries_tagged t es hw.2.2.2.2 f hf
            exact ⟨k, by simp [Item.tags, hk], hs⟩
  theorem leavesList_tagged : ∀ is : List Item, wfList is → ∀ f ∈ leavesList is, ∃ k ∈ tagsList is, starts k f = true
    | [], _, f, hf => by simp [leavesList] at hf
    | i :: is, hw, f, hf => by
        rw [wfList] at hw
        rw [leavesList, List.mem_append] at hf
        rw [tagsList]
        rcases hf with hf | hf
        · obtain ⟨k, hk, hs⟩ := leaves_tagged i hw.1 f hf
          exact ⟨k, by simp [hk], hs⟩
        · obtain ⟨k, hk, hs⟩ := leavesList_tagged is hw.2 f hf
          exact ⟨k, by simp [hk], hs⟩
  theorem leavesEntries_tagged (t : List Item) : ∀ es : List (List Item), wfEntries t es →
      ∀ f ∈ leavesEntries es, ∃ k ∈ tagsList t, starts k f = true
    | [], _, f, hf => by simp [leavesEntries] at hf
    | e :: es, hw, f, hf => by
        rw [wfEntries] at hw
        rw [leavesEntries, List.mem_append] at hf
        rcases hf with hf | hf
        · obtain ⟨k, hk, hs⟩ := leavesList_tagged e hw.2.2.1 f hf
          have : tagsList e = tagsList t := by
            rw [← tagsList_blank e, hw.1, tagsList_blank t]
          exact ⟨k, by rw [← this]; exact hk, hs⟩
        · exact leavesEntries_tagged t es hw.2.2.2 f hf
end

/-! ### chunks of a well-formed group image -/

theorem splitB_absorb (ft : Bytes) : ∀ (tail cur Y : List Bytes), (∀ x ∈ tail, starts ft x = false) →
    splitB ft cur (tail ++ Y) = splitB ft (cur ++ tail) Y
  | [], cur, Y, _ => by simp
  | x :: xs, cur, Y, h => by
    have hx : starts ft x = false := h x (by simp)
    simp only [List.cons_append, splitB, hx, Bool.false_eq_true, if_false]
    rw [splitB_absorb ft xs (cur ++ [x]) Y (fun y hy => h y (by simp [hy]))]
    simp

/-- the last chunk also holds whatever follows the group -/
def glue : List (List Bytes) → List Bytes → List (List Bytes)
  | [], _ => []
  | [c], S => [c ++ S]
  | c :: cs, S => c :: glue cs S

/-- an entry image: a first field that starts with `ft=`, then fields that do not -/
def EntryImg (ft : Bytes) (E : List Bytes) : Prop :=
  ∃ g tail, E = g :: tail ∧ starts ft g = true ∧ ∀ x ∈ tail, starts ft x = false

theorem splitB_entries (ft : Bytes) (S : List Bytes) (hS : ∀ x ∈ S, starts ft x = false) :
    ∀ (Es : List (List Bytes)) (g : Bytes) (tail : List Bytes), (∀ x ∈ tail, starts ft x = false) →
      (∀ E ∈ Es, EntryImg ft E) →
      splitB ft [g] (tail ++ Es.flatten ++ S) = glue ((g :: tail) :: Es) S
  | [], g, tail, ht, _ => by
    simp only [List.flatten_nil, List.append_nil]
    rw [splitB_absorb ft tail [g] S ht]
    -- remaining fields S do not start a chunk either
    have := splitB_absorb ft S ([g] ++ tail) [] hS
    simp only [List.append_nil] at this
    rw [this]
    simp [splitB, glue]
  | E :: Es, g, tail, ht, hE => by
    obtain ⟨g2, tail2, rfl, hg2, ht2⟩ := hE E (by simp)
    have hrest : ∀ E' ∈ Es, EntryImg ft E' := fun E' h' => hE E' (by simp [h'])
    have : tail ++ ((g2 :: tail2) :: Es).flatten ++ S = tail ++ (g2 :: (tail2 ++ Es.flatten ++ S)) := by simp
    rw [this, splitB_absorb ft tail [g] _ ht]
    simp only [splitB, hg2, if_true]
    rw [splitB_entries ft S hS Es g2 tail2 ht2 hrest]
    simp [glue]

/-! ### parsing with a fresh copy of the template is parsing into the blank template -/

mutual
  theorem unmF_true_blank : ∀ (i : Item) (F : List Bytes), i.unmF true F = i.blank.unmF true F
    | .kv k v, F => by simp [Item.unmF, Item.blank, Val.blank]
    | .comp is, F => by rw [Item.blank, Item.unmF, Item.unmF, unmListF_true_blank is F]
    | .group n t es, F => by
        rw [Item.blank, Item.unmF, Item.unmF]
        have : (fun s => unmListF t true s) = (fun s => unmListF (blankList t) true s) := by
          funext s; exact unmListF_true_blank t s
        simp only [if_true, this, blankList_blank]
  theorem unmListF_true_blank : ∀ (is : List Item) (F : List Bytes), unmListF is true F = unmListF (blankList is) true F
    | [], _ => by simp [unmListF, blankList]
    | i :: is, F => by rw [blankList, unmListF, unmListF, unmF_true_blank i F, unmListF_true_blank is F]
end

mutual
  theorem unmF_blank_flag : ∀ (i : Item) (F : List Bytes), i.blank.unmF true F = i.blank.unmF false F
    | .kv k v, F => by simp [Item.unmF, Item.blank, Val.blank]
    | .comp is, F => by rw [Item.blank, Item.unmF, Item.unmF, unmListF_blank_flag is F]
    | .group n t es, F => by
        rw [Item.blank, Item.unmF, Item.unmF]
        simp only [if_true, Bool.false_eq_true, if_false, blankList_blank]
  theorem unmListF_blank_flag : ∀ (is : List Item) (F : List Bytes),
      unmListF (blankList is) true F = unmListF (blankList is) false F
    | [], _ => by simp [unmListF, blankList]
    | i :: is, F => by rw [blankList, unmListF, unmListF, unmF_blank_flag i F, unmListF_blank_flag is F]
end

theorem unmListF_fresh (is : List Item) (F : List Bytes) : unmListF is true F = unmListF (blankList is) false F := by
  rw [unmListF_true_blank, unmListF_blank_flag]

/-! ### helpers for the group case -/

def NoStart (ts : List Bytes) (X : List Bytes) : Prop := ∀ x ∈ X, ∀ k ∈ ts, starts k x = false

theorem NoStart.mono {ts ts' : List Bytes} {X : List Bytes} (h : NoStart ts X) (hs : ∀ k ∈ ts', k ∈ ts) : NoStart ts' X :=
  fun x hx k hk => h x hx k (hs k hk)

theorem NoStart.append {ts : List Bytes} {X Y : List Bytes} (hx : NoStart ts X) (hy : NoStart ts Y) : NoStart ts (X ++ Y) := by
  intro x hm k hk
  rcases List.mem_append.mp hm with h | h
  · exact hx x h k hk
  · exact hy x h k hk

theorem leavesEntries_flatten : ∀ es : List (List Item), leavesEntries es = (es.map leavesList).flatten
  | [] => by simp [leavesEntries]
  | e :: es => by rw [leavesEntries, leavesEntries_flatten es]; simp

theorem tagOf_tagValue (k v : Bytes) (hk : EQ ∉ k) : tagOf (tagValue k v) = some k := by
  have := splitTag_tagValue k v hk
  unfold splitTag at this
  unfold tagOf
  cases hi : indexByte EQ (tagValue k v) with
  | none => simp [hi] at this
  | some i => simp [hi] at this; simp [this.1]

theorem glue_length : ∀ (Es : List (List Bytes)) (S : List Bytes), (glue Es S).length = Es.length
  | [], _ => rfl
  | [c], _ => rfl
  | c :: c' :: cs, S => by
    show (c :: glue (c' :: cs) S).length = _
    simp [glue_length (c' :: cs) S]

theorem glue_cons (c c' : List Bytes) (cs : List (List Bytes)) (S : List Bytes) :
    glue (c :: c' :: cs) S = c :: glue (c' :: cs) S := rfl

/-- fields that start with a tag different from `ft` do not start with `ft` -/
theorem not_starts_of_tagged (ft : Bytes) (ts : List Bytes) (X : List Bytes) (hft : EQ ∉ ft) (hts : ∀ k ∈ ts, EQ ∉ k)
    (hne : ft ∉ ts) (hX : ∀ f ∈ X, ∃ k ∈ ts, starts k f = true) : ∀ x ∈ X, starts ft x = false := by
  intro x hx
  obtain ⟨k, hk, hs⟩ := hX x hx
  cases h : starts ft x with
  | false => rfl
  | true =>
    have := starts_unique ft k x h hs hft (hts k hk)
    exact absurd (this ▸ hk) hne

/-- an entry that conforms to a template starting with field `ft` is `kv ft v :: rest` -/
theorem entry_shape (t e : List Item) (ft : Bytes) (hk : firstKey t = some ft) (hc : blankList e = blankList t) :
    ∃ v rest, e = .kv ft v :: rest := by
  cases t with
  | nil => simp [firstKey] at hk
  | cons t0 ts =>
    cases t0 with
    | kv k v0 =>
      simp [firstKey] at hk; subst hk
      cases e with
      | nil => simp [blankList] at hc
      | cons e0 es =>
        rw [blankList, blankList] at hc
        cases e0 with
        | kv k' v' =>
          simp [Item.blank] at hc
          exact ⟨v', es, by rw [hc.1.1]⟩
        | comp _ => simp [Item.blank] at hc
        | group _ _ _ => simp [Item.blank] at hc
    | comp _ => simp [firstKey] at hk
    | group _ _ _ => simp [firstKey] at hk

theorem entry_img (e : List Item) (ft : Bytes) (v : Val) (rest : List Item) (he : e = .kv ft v :: rest)
    (hp : firstPopulated e = true) (hw : wfList e) (hEQ : ∀ k ∈ tagsList e, EQ ∉ k) (hnd : (tagsList e).Nodup) :
    leavesList e = tagValue ft v.text :: leavesList rest ∧ EntryImg ft (leavesList e) := by
  subst he
  have hpv : populated v = true := by simpa [firstPopulated] using hp
  have hl : leavesList (.kv ft v :: rest) = tagValue ft v.text :: leavesList rest := by
    rw [leavesList, Item.leaves]; simp [hpv]
  refine ⟨hl, ?_⟩
  rw [hl]
  refine ⟨_, _, rfl, starts_tagValue _ _, ?_⟩
  rw [wfList] at hw
  have htags : tagsList (.kv ft v :: rest) = ft :: tagsList rest := by rw [tagsList, Item.tags]; rfl
  rw [htags] at hEQ hnd
  have hnd' := List.nodup_cons.mp hnd
  exact not_starts_of_tagged ft (tagsList rest) _ (hEQ ft (by simp)) (fun k hk => hEQ k (by simp [hk])) hnd'.1
    (leavesList_tagged rest hw.2)

/-- the group branch of the field-level decoder on the image of a well-formed group, given what parsing the entry
    chunks yields -/
theorem group_case (n : Bytes) (t : List Item) (e : List Item) (es : List (List Item)) (P S : List Bytes)
    (hn : EQ ∉ n) (hlen : (((e :: es).length : Nat) : Int) ≤ int64Max)
    (hP : ∀ x ∈ P, starts n x = false)
    (ft : Bytes) (hft : EQ ∉ ft) (g : Bytes) (tail : List Bytes) (hle : leavesList e = g :: tail) (hg : g = tagValue ft (g.drop (ft.length + 1)))
    (htail : ∀ x ∈ tail, starts ft x = false) (hEs : ∀ E ∈ es.map leavesList, EntryImg ft E) (hS : ∀ x ∈ S, starts ft x = false)
    (hentries : mapRes (fun c => unmListF (blankList t) true ([] :: c)) (glue ((e :: es).map leavesList) S) = .ok (normGEntries (e :: es))) :
    (Item.group n t (e :: es)).blank.unmF false (P ++ (Item.group n t (e :: es)).leaves ++ S)
      = .ok (Item.group n t (e :: es)).normG := by
  rw [Item.blank, Item.unmF, Item.leaves, Item.normG]
  simp only [List.isEmpty_cons, Bool.false_eq_true, if_false]
  unfold unmGroupBodyF scanKVF
  have hF : P ++ (tagValue n (natDigits (e :: es).length) :: leavesEntries (e :: es)) ++ S
      = P ++ (tagValue n (natDigits (e :: es).length) :: (leavesEntries (e :: es) ++ S)) := by simp
  rw [hF, lookupPref_skip n P _ hP, lookupPref_hit]
  have hfb : (Val.blank .int).fromBytes (natDigits (e :: es).length) = some ⟨.int, true, natDigits (e :: es).length⟩ := by
    have ha := atoi_natDigits _ hlen
    simp only [Val.fromBytes, Val.blank, ha, Option.map_some, itoa_ofNat]
  simp only [hfb, Res.bind_ok]
  rw [afterFirst_skip n P _ hP]
  have haf : afterFirst n (tagValue n (natDigits (e :: es).length) :: (leavesEntries (e :: es) ++ S))
      = some (leavesEntries (e :: es) ++ S) := by simp [afterFirst, starts_tagValue]
  rw [haf]
  have hX : leavesEntries (e :: es) ++ S = g :: (tail ++ (es.map leavesList).flatten ++ S) := by
    rw [leavesEntries, hle, leavesEntries_flatten]; simp
  rw [hX]
  simp only
  have htg : tagOf g = some ft := by rw [hg]; exact tagOf_tagValue ft _ hft
  rw [htg]
  simp only
  rw [splitB_entries ft S hS (es.map leavesList) g tail htail hEs]
  have hglue : (g :: tail) :: es.map leavesList = (e :: es).map leavesList := by simp [hle]
  rw [hglue, glue_length]
  have hcnt : (atoi (natDigits (e :: es).length)).getD 0 = (((e :: es).length : Nat) : Int) := by
    rw [atoi_natDigits _ hlen]; rfl
  simp only [hcnt, List.length_map, ne_eq, not_true_eq_false, if_false]
  rw [hentries]
  simp

theorem nodup_append_disjoint {a b : List Bytes} (h : (a ++ b).Nodup) : ∀ k ∈ a, k ∉ b := by
  intro k hk hb
  have := List.nodup_append.mp h
  exact this.2.2 k hk k hb rfl

theorem mapRes_single {α β} (f : α → Res β) (a : α) (b : β) (h : f a = .ok b) : mapRes f [a] = .ok [b] := by
  simp [mapRes, h]

theorem mapRes_cons_ok {α β} (f : α → Res β) (a : α) (as : List α) (b : β) (bs : List β)
    (h : f a = .ok b) (hs : mapRes f as = .ok bs) : mapRes f (a :: as) = .ok (b :: bs) := by
  simp [mapRes, h, hs]

mutual
  theorem rt_item : ∀ (i : Item), i.wf → (∀ k ∈ i.tags, EQ ∉ k) → i.tags.Nodup → ∀ (P S : List Bytes),
      NoStart i.tags P → NoStart i.tags S → i.blank.unmF false (P ++ i.leaves ++ S) = .ok i.normG
    | .kv k v, hw, _, _, P, S, hP, hS => by
        rw [Item.wf] at hw
        obtain ⟨_, _, _, hc⟩ := hw
        have hPk : ∀ x ∈ P, starts k x = false := fun x hx => hP x hx k (by simp [Item.tags])
        have hSk : ∀ x ∈ S, starts k x = false := fun x hx => hS x hx k (by simp [Item.tags])
        rw [Item.blank, Item.unmF, Item.leaves, Item.normG]
        unfold scanKVF Val.norm
        simp only [Bool.false_eq_true, if_false]
        by_cases hp : populated v = true
        · simp only [hp, if_true]
          rw [List.append_assoc, lookupPref_skip k P _ hPk]
          simp only [List.cons_append, List.nil_append, lookupPref_hit]
          have := hc hp
          simp only [Val.blank] at this ⊢
          rw [this]; rfl
        · simp only [hp, Bool.false_eq_true, if_false, List.append_nil]
          rw [lookupPref_skip k P _ hPk, lookupPref_none k S hSk]; rfl
    | .comp is, hw, hEQ, hnd, P, S, hP, hS => by
        rw [Item.wf] at hw
        rw [Item.tags] at hEQ hnd hP hS
        rw [Item.blank, Item.unmF, Item.leaves, Item.normG, rt_list is hw hEQ hnd P S hP hS]; rfl
    | .group n t [], hw, _, _, P, S, hP, hS => by
        have hPn : ∀ x ∈ P, starts n x = false := fun x hx => hP x hx n (by simp [Item.tags])
        have hSn : ∀ x ∈ S, starts n x = false := fun x hx => hS x hx n (by simp [Item.tags])
        rw [Item.blank, Item.unmF, Item.leaves, Item.normG]
        simp only [List.isEmpty_nil, if_true, List.append_nil, Bool.false_eq_true, if_false]
        unfold unmGroupBodyF scanKVF
        rw [lookupPref_skip n P _ hPn, lookupPref_none n S hSn, afterFirst_skip n P _ hPn, afterFirst_none n S hSn]
        simp [normGEntries]
    | .group n t (e :: es), hw, hEQ, hnd, P, S, hP, hS => by
        rw [Item.wf] at hw
        obtain ⟨_, hnE, hlen, hfk, hwe⟩ := hw
        rw [Item.tags] at hEQ hnd hP hS
        obtain ⟨ft, hft⟩ := Option.isSome_iff_exists.mp hfk
        have hnd' := List.nodup_cons.mp hnd
        have hEQt : ∀ k ∈ tagsList t, EQ ∉ k := fun k hk => hEQ k (by simp [hk])
        have hSt : NoStart (tagsList t) S := hS.mono (fun k hk => by simp [hk])
        have hwe' := hwe
        rw [wfEntries] at hwe'
        obtain ⟨hconf, hfp, hwfe, hwrest⟩ := hwe'
        obtain ⟨v, rest, he⟩ := entry_shape t e ft hft hconf
        have htagse : tagsList e = tagsList t := by rw [← tagsList_blank e, hconf, tagsList_blank t]
        have hftmem : ft ∈ tagsList t := by
          rw [← htagse, he, tagsList, Item.tags]; simp
        obtain ⟨hle, _⟩ := entry_img e ft v rest he hfp hwfe (by rw [htagse]; exact hEQt) (by rw [htagse]; exact hnd'.2)
        have himg : ∀ e' : List Item, blankList e' = blankList t → firstPopulated e' = true → wfList e' → EntryImg ft (leavesList e') := by
          intro e' hc' hp' hw'
          obtain ⟨v', rest', he'⟩ := entry_shape t e' ft hft hc'
          have ht' : tagsList e' = tagsList t := by rw [← tagsList_blank e', hc', tagsList_blank t]
          exact (entry_img e' ft v' rest' he' hp' hw' (by rw [ht']; exact hEQt) (by rw [ht']; exact hnd'.2)).2
        have hEs : ∀ E ∈ es.map leavesList, EntryImg ft E := by
          intro E hE
          obtain ⟨e', he'mem, rfl⟩ := List.mem_map.mp hE
          -- walk down the well-formedness of the remaining entries
          have : ∀ (l : List (List Item)), wfEntries t l → ∀ x ∈ l, blankList x = blankList t ∧ firstPopulated x = true ∧ wfList x := by
            intro l
            induction l with
            | nil => intro _ x hx; simp at hx
            | cons a as ih =>
              intro hwl x hx
              rw [wfEntries] at hwl
              simp only [List.mem_cons] at hx
              rcases hx with rfl | hx
              · exact ⟨hwl.1, hwl.2.1, hwl.2.2.1⟩
              · exact ih hwl.2.2.2 x hx
          obtain ⟨c1, c2, c3⟩ := this es hwrest e' he'mem
          exact himg e' c1 c2 c3
        have hent := rt_entries t (e :: es) hwe hEQt hnd'.2 S hSt
        obtain ⟨g0, tail0, hE0, _, htail0⟩ := himg e hconf hfp hwfe
        have hg0 : g0 = tagValue ft (g0.drop (ft.length + 1)) := by
          rw [hle] at hE0
          simp only [List.cons.injEq] at hE0
          rw [← hE0.1]
          unfold tagValue; simp
        exact group_case n t e es P S hnE hlen (fun x hx => hP x hx n (by simp)) ft (hEQt ft hftmem) g0 tail0 hE0 hg0 htail0 hEs
          (fun x hx => hSt x hx ft hftmem) hent
  theorem rt_list : ∀ (is : List Item), wfList is → (∀ k ∈ tagsList is, EQ ∉ k) → (tagsList is).Nodup → ∀ (P S : List Bytes),
      NoStart (tagsList is) P → NoStart (tagsList is) S →
      unmListF (blankList is) false (P ++ leavesList is ++ S) = .ok (normGList is)
    | [], _, _, _, _, _, _, _ => by simp [blankList, unmListF, normGList]
    | i :: is, hw, hEQ, hnd, P, S, hP, hS => by
        rw [wfList] at hw
        rw [tagsList] at hEQ hnd hP hS
        have hnd' := List.nodup_append.mp hnd
        have hdis := nodup_append_disjoint hnd
        have hEQi : ∀ k ∈ i.tags, EQ ∉ k := fun k hk => hEQ k (by simp [hk])
        have hEQs : ∀ k ∈ tagsList is, EQ ∉ k := fun k hk => hEQ k (by simp [hk])
        -- the leaves of the other items start with other tags
        have hrestNo : NoStart i.tags (leavesList is) := by
          intro x hx k hk
          exact not_starts_of_tagged k (tagsList is) _ (hEQi k hk) hEQs (hdis k hk) (leavesList_tagged is hw.2) x hx
        have hiNo : NoStart (tagsList is) i.leaves := by
          intro x hx k hk
          have hk' : k ∉ i.tags := fun h => hdis k h hk
          exact not_starts_of_tagged k i.tags _ (hEQs k hk) hEQi hk' (leaves_tagged i hw.1) x hx
        rw [blankList, unmListF, normGList, leavesList]
        have e1 : P ++ (i.leaves ++ leavesList is) ++ S = P ++ i.leaves ++ (leavesList is ++ S) := by simp
        have e2 : P ++ (i.leaves ++ leavesList is) ++ S = (P ++ i.leaves) ++ leavesList is ++ S := by simp
        have r1 := rt_item i hw.1 hEQi hnd'.1 P (leavesList is ++ S) (hP.mono (fun k hk => by simp [hk]))
          (hrestNo.append (hS.mono (fun k hk => by simp [hk])))
        have r2 := rt_list is hw.2 hEQs hnd'.2.1 (P ++ i.leaves) S
          ((hP.mono (fun k hk => by simp [hk])).append hiNo) (hS.mono (fun k hk => by simp [hk]))
        rw [e1, r1]
        simp only [Res.bind_ok]
        rw [← e1, e2, r2]; rfl
  theorem rt_entries (t : List Item) : ∀ (es : List (List Item)), wfEntries t es → (∀ k ∈ tagsList t, EQ ∉ k) →
      (tagsList t).Nodup → ∀ (S : List Bytes), NoStart (tagsList t) S →
      mapRes (fun c => unmListF (blankList t) true ([] :: c)) (glue (es.map leavesList) S) = .ok (normGEntries es)
    | [], _, _, _, _, _ => by simp [glue, mapRes, normGEntries]
    | [e], hw, hEQ, hnd, S, hS => by
        rw [wfEntries] at hw
        obtain ⟨hconf, _, hwfe, _⟩ := hw
        have ht : tagsList e = tagsList t := by rw [← tagsList_blank e, hconf, tagsList_blank t]
        have hnil : NoStart (tagsList e) [[]] := by intro x hx k _; simp at hx; subst hx; exact starts_nil k
        have r := rt_list e hwfe (by rw [ht]; exact hEQ) (by rw [ht]; exact hnd) [[]] S hnil (by rw [ht]; exact hS)
        simp only [List.map_cons, List.map_nil, glue, normGEntries]
        apply mapRes_single
        rw [unmListF_fresh, blankList_blank, ← hconf]
        simpa using r
    | e :: e' :: es, hw, hEQ, hnd, S, hS => by
        have hw0 := hw
        rw [wfEntries] at hw
        obtain ⟨hconf, _, hwfe, hwrest⟩ := hw
        have ht : tagsList e = tagsList t := by rw [← tagsList_blank e, hconf, tagsList_blank t]
        have hnil : NoStart (tagsList e) [[]] := by intro x hx k _; simp at hx; subst hx; exact starts_nil k
        have r := rt_list e hwfe (by rw [ht]; exact hEQ) (by rw [ht]; exact hnd) [[]] [] hnil (by intro x hx; simp at hx)
        have rs := rt_entries t (e' :: es) hwrest hEQ hnd S hS
        simp only [List.map_cons] at rs ⊢
        rw [glue_cons, normGEntries]
        apply mapRes_cons_ok _ _ _ _ _ _ rs
        rw [unmListF_fresh, blankList_blank, ← hconf]
        simpa using r
end
