import Proofs.Integrity
/-!
# Damage — no single-byte substitution and no truncation of an integrity-correct string is
integrity-correct (C03, first half of the property)
-/

/-! ### three-digit checksums are injective on residues -/

def valAux : Nat → Bytes → Nat
  | acc, [] => acc
  | acc, c :: cs => valAux (acc * 10 + digitVal c) cs

theorem valAux_append (acc : Nat) (a b : Bytes) : valAux acc (a ++ b) = valAux (valAux acc a) b := by
  induction a generalizing acc with
  | nil => rfl
  | cons c cs ih =>
    show valAux (acc * 10 + digitVal c) (cs ++ b) = valAux (valAux (acc * 10 + digitVal c) cs) b
    exact ih _

theorem digitVal_digitChar (d : Nat) (h : d < 10) : digitVal (digitChar d) = d := by
  unfold digitVal digitChar
  have : d = 0 ∨ d = 1 ∨ d = 2 ∨ d = 3 ∨ d = 4 ∨ d = 5 ∨ d = 6 ∨ d = 7 ∨ d = 8 ∨ d = 9 := by omega
  rcases this with h | h | h | h | h | h | h | h | h | h <;> subst h <;> decide

theorem valAux_natDigits (n : Nat) : valAux 0 (natDigits n) = n := by
  induction n using Nat.strongRecOn with
  | _ n ih =>
    rw [natDigits_eq]
    split
    · rename_i h
      show 0 * 10 + digitVal (digitChar n) = n
      rw [digitVal_digitChar n h]; omega
    · rename_i h
      rw [valAux_append, ih (n / 10) (by omega)]
      show n / 10 * 10 + digitVal (digitChar (n % 10)) = n
      rw [digitVal_digitChar _ (by omega)]
      omega

theorem valAux_zeros (k : Nat) : valAux 0 (List.replicate k 48) = 0 := by
  induction k with
  | zero => rfl
  | succ k ih =>
    rw [List.replicate_succ]
    show valAux (0 * 10 + digitVal 48) (List.replicate k 48) = 0
    have : (0 * 10 + digitVal 48) = 0 := by decide
    rw [this, ih]

theorem valAux_pad3 (s : Bytes) : valAux 0 (pad3 s) = valAux 0 s := by
  unfold pad3
  rw [valAux_append, valAux_zeros]

theorem pad3_natDigits_inj (a b : Nat) (h : pad3 (natDigits a) = pad3 (natDigits b)) : a = b := by
  have := congrArg (valAux 0) h
  simpa [valAux_pad3, valAux_natDigits] using this

/-! ### the shape of an integrity-correct string -/

theorem splitTag_some (f t v : Bytes) (h : splitTag f = some (t, v)) : f = t ++ EQ :: v := by
  unfold splitTag at h
  cases hi : indexByte EQ f with
  | none => simp [hi] at h
  | some i =>
    simp [hi] at h
    obtain ⟨h1, h2⟩ := h
    subst h1 h2
    have hb := indexByte_bound _ _ _ hi
    -- f[i] = EQ
    have hget : f[i]? = some EQ := by
      clear hb
      induction f generalizing i with
      | nil => simp [indexByte] at hi
      | cons c cs ih =>
        unfold indexByte at hi
        split at hi
        · rename_i hc; simp at hi; subst hi; simp [hc]
        · cases hj : indexByte EQ cs with
          | none => simp [hj] at hi
          | some j => simp [hj] at hi; subst hi; simpa using ih j hj
    have : f = f.take i ++ f.drop i := (List.take_append_drop i f).symm
    rw [List.drop_eq_getElem_cons hb] at this
    have hg : f[i] = EQ := by
      rw [List.getElem?_eq_getElem hb] at hget; simpa using hget
    rw [hg] at this
    exact this

theorem joinB_soh' : ∀ L : List Bytes, L ≠ [] → ∃ B0, joinF L = B0 ++ [SOH]
  | [], h => absurd rfl h
  | [a], _ => ⟨a, by simp [joinF]⟩
  | a :: b :: rest, _ => by
    obtain ⟨B0, h⟩ := joinB_soh' (b :: rest) (by simp)
    exact ⟨a ++ SOH :: B0, by rw [joinF, h]; simp⟩

structure Shape (bs bl cs d : Bytes) where
  f0 : Bytes
  f1 : Bytes
  v0 : Bytes
  v1 : Bytes
  B : Bytes
  vl : Bytes
  tag0 : splitTag f0 = some (bs, v0)
  bterm : B = [] ∨ ∃ B0, B = B0 ++ [SOH]
  eq : d = f0 ++ SOH :: f1 ++ SOH :: B ++ (cs ++ EQ :: vl ++ [SOH])
  f0_soh : SOH ∉ f0
  f1_soh : SOH ∉ f1
  tag1 : splitTag f1 = some (bl, v1)
  len : atoi v1 = some (B.length : Int)
  sum : vl = pad3 (natDigits (sumBytes (f0 ++ SOH :: f1 ++ SOH :: B) % 256))

theorem integrityOK_shape (bs bl cs d : Bytes) (h : integrityOK bs bl cs d = true) : Nonempty (Shape bs bl cs d) := by
  unfold integrityOK at h
  cases hw : wireFields d with
  | none => simp [hw] at h
  | some fs =>
    obtain ⟨hd, hs⟩ := wireFields_some d fs hw
    simp only [hw] at h
    match fs, hd, hs, h with
    | [], _, _, h => simp at h
    | [_], _, _, h => simp at h
    | f0 :: f1 :: rest, hd, hs, h =>
      simp only at h
      cases hr : rest.reverse with
      | nil => simp [hr] at h
      | cons fl r =>
        simp only [hr] at h
        have hrest : rest = r.reverse ++ [fl] := by
          have := congrArg List.reverse hr; simpa using this
        cases h0 : splitTag f0 with
        | none => simp [h0] at h
        | some p0 =>
        cases h1 : splitTag f1 with
        | none => simp [h0, h1] at h
        | some p1 =>
        cases hl : splitTag fl with
        | none => simp [h0, h1, hl] at h
        | some pl =>
        obtain ⟨t0, v0⟩ := p0
        obtain ⟨t1, v1⟩ := p1
        obtain ⟨tl, vl⟩ := pl
        simp only [h0, h1, hl, Bool.and_eq_true, beq_iff_eq] at h
        obtain ⟨⟨⟨⟨ht0, ht1⟩, htl⟩, hlen⟩, hsum⟩ := h
        subst ht0 ht1 htl
        have hfl := splitTag_some fl _ _ hl
        have hdd : d = f0 ++ SOH :: f1 ++ SOH :: joinF r.reverse ++ (tl ++ EQ :: vl ++ [SOH]) := by
          rw [hd, hrest, hfl]
          simp [joinF, joinF_append]
        have hbefore : d.length - (fl.length + 1) = (f0 ++ SOH :: f1 ++ SOH :: joinF r.reverse).length := by
          rw [hdd, hfl]; simp; omega
        have htake : d.take (d.length - (fl.length + 1)) = f0 ++ SOH :: f1 ++ SOH :: joinF r.reverse := by
          rw [hbefore]
          conv => lhs; rw [hdd]
          rw [List.take_append_of_le_length (Nat.le_refl _), List.take_length]
        have hbterm : joinF r.reverse = [] ∨ ∃ B0, joinF r.reverse = B0 ++ [SOH] := by
          cases hrr : r.reverse with
          | nil => exact Or.inl rfl
          | cons a as =>
            right
            obtain ⟨B0, hB0⟩ := joinB_soh' (a :: as) (by simp)
            exact ⟨B0, hB0⟩
        refine ⟨{ f0 := f0, f1 := f1, v0 := v0, v1 := v1, B := joinF r.reverse, vl := vl, eq := hdd, tag0 := h0, bterm := hbterm,
                  f0_soh := hs f0 (by simp), f1_soh := hs f1 (by simp), tag1 := h1, len := ?_, sum := ?_ }⟩
        · rw [hlen, hbefore]
          simp; omega
        · rw [hsum, htake]

theorem cksum_len (x : Nat) : (pad3 (natDigits (x % 256))).length = 3 :=
  pad3_length _ (natDigits_length_le3 _ (by have := Nat.mod_lt x (by decide : 0 < 256); omega))

/-- the part of a shaped string before the CheckSum field -/
def Shape.A {bs bl cs d : Bytes} (s : Shape bs bl cs d) : Bytes := s.f0 ++ SOH :: s.f1 ++ SOH :: s.B

theorem Shape.eqA {bs bl cs d : Bytes} (s : Shape bs bl cs d) : d = s.A ++ (cs ++ EQ :: s.vl ++ [SOH]) := s.eq

theorem Shape.vl_len {bs bl cs d : Bytes} (s : Shape bs bl cs d) : s.vl.length = 3 := by
  rw [s.sum]; exact cksum_len _

theorem Shape.A_len {bs bl cs d : Bytes} (s : Shape bs bl cs d) : s.A.length + (cs.length + 5) = d.length := by
  have := congrArg List.length s.eqA
  have h3 := s.vl_len
  simp at this; omega

theorem toNat_inj_mod (a b : UInt8) (x y : Nat) (h : (x + a.toNat + y) % 256 = (x + b.toNat + y) % 256) : a = b := by
  have ha := a.toNat_lt
  have hb := b.toNat_lt
  apply UInt8.toNat_inj.mp
  omega

/-- **substitution**: two integrity-correct strings never differ in exactly one byte -/
theorem no_single_substitution (bs bl cs X Y : Bytes) (a b : UInt8)
    (h1 : integrityOK bs bl cs (X ++ a :: Y) = true) (h2 : integrityOK bs bl cs (X ++ b :: Y) = true) : a = b := by
  obtain ⟨s⟩ := integrityOK_shape _ _ _ _ h1
  obtain ⟨s'⟩ := integrityOK_shape _ _ _ _ h2
  have l1 := s.A_len
  have l2 := s'.A_len
  have hAlen : s.A.length = s'.A.length := by simp at l1 l2; omega
  have e1 := s.eqA
  have e2 := s'.eqA
  by_cases hc : X.length < s.A.length
  · -- the damaged byte lies before the CheckSum field: the two CheckSum fields are the same bytes
    have hC : cs ++ EQ :: s.vl ++ [SOH] = cs ++ EQ :: s'.vl ++ [SOH] := by
      have d1 := congrArg (List.drop s.A.length) e1
      have d2 := congrArg (List.drop s'.A.length) e2
      rw [List.drop_append_of_le_length (Nat.le_refl _), List.drop_length, List.nil_append] at d1 d2
      rw [← d1, ← d2, ← hAlen]
      rw [List.drop_append, List.drop_append]
      have : X.drop s.A.length = [] := List.drop_eq_nil_of_le (by omega)
      rw [this]
      have hk : s.A.length - X.length = (s.A.length - X.length - 1) + 1 := by omega
      rw [hk]
      simp
    have hvl : s.vl = s'.vl := by
      have hC' : cs ++ (EQ :: s.vl ++ [SOH]) = cs ++ (EQ :: s'.vl ++ [SOH]) := by
        simpa [List.append_assoc] using hC
      have := List.append_cancel_left hC'
      simpa using this
    have hA : s.A = X ++ a :: Y.take (s.A.length - X.length - 1) := by
      have t1 := congrArg (List.take s.A.length) e1
      rw [List.take_append_of_le_length (Nat.le_refl _), List.take_length] at t1
      rw [← t1, List.take_append]
      have : X.take s.A.length = X := List.take_of_length_le (by omega)
      rw [this]
      have hk : s.A.length - X.length = (s.A.length - X.length - 1) + 1 := by omega
      rw [hk]; simp
    have hA' : s'.A = X ++ b :: Y.take (s.A.length - X.length - 1) := by
      have t1 := congrArg (List.take s'.A.length) e2
      rw [List.take_append_of_le_length (Nat.le_refl _), List.take_length] at t1
      rw [← t1, ← hAlen, List.take_append]
      have : X.take s.A.length = X := List.take_of_length_le (by omega)
      rw [this]
      have hk : s.A.length - X.length = (s.A.length - X.length - 1) + 1 := by omega
      rw [hk]; simp
    have hs := s.sum
    have hs' := s'.sum
    rw [hvl] at hs
    have hinj := pad3_natDigits_inj _ _ (hs.symm.trans hs')
    change sumBytes s.A % 256 = sumBytes s'.A % 256 at hinj
    rw [hA, hA'] at hinj
    simp only [sumBytes_append, sumBytes_cons] at hinj
    exact toNat_inj_mod a b (sumBytes X) (sumBytes (Y.take (s.A.length - X.length - 1))) (by omega)
  · -- the damaged byte lies in the CheckSum field: everything it is computed from is unchanged
    have hA : s.A = s'.A := by
      have t1 := congrArg (List.take s.A.length) e1
      have t2 := congrArg (List.take s'.A.length) e2
      rw [List.take_append_of_le_length (Nat.le_refl _), List.take_length] at t1 t2
      rw [← t1, ← t2, ← hAlen]
      rw [List.take_append_of_le_length (by omega), List.take_append_of_le_length (by omega)]
    have hvl : s.vl = s'.vl := by
      rw [s.sum, s'.sum]
      change pad3 (natDigits (sumBytes s.A % 256)) = pad3 (natDigits (sumBytes s'.A % 256))
      rw [hA]
    have : X ++ a :: Y = X ++ b :: Y := by
      rw [e1, e2, hA, hvl]
    have := List.append_cancel_left this
    simpa using this

theorem first_field_eq : ∀ (a b x y : Bytes), SOH ∉ a → SOH ∉ b → a ++ SOH :: x = b ++ SOH :: y → a = b ∧ x = y
  | [], [], x, y, _, _, h => by simpa using h
  | [], c :: cs, x, y, _, hb, h => by
    simp at h
    exact absurd h.1.symm (fun e => hb (by simp [e]))
  | c :: cs, [], x, y, ha, _, h => by
    simp at h
    exact absurd h.1 (fun e => ha (by simp [e]))
  | c :: cs, c' :: cs', x, y, ha, hb, h => by
    simp only [List.cons_append, List.cons.injEq] at h
    have hcs : SOH ∉ cs := fun e => ha (by simp [e])
    have hcs' : SOH ∉ cs' := fun e => hb (by simp [e])
    obtain ⟨h1, h2⟩ := first_field_eq cs cs' x y hcs hcs' h.2
    exact ⟨by rw [h.1, h1], h2⟩

/-- **truncation**: no proper prefix of an integrity-correct string is integrity-correct -/
theorem no_truncation (bs bl cs d' r : Bytes)
    (h1 : integrityOK bs bl cs (d' ++ r) = true) (h2 : integrityOK bs bl cs d' = true) : r = [] := by
  obtain ⟨s⟩ := integrityOK_shape _ _ _ _ h1
  obtain ⟨s'⟩ := integrityOK_shape _ _ _ _ h2
  have e1 : s'.f0 ++ SOH :: s'.f1 ++ SOH :: s'.B ++ (cs ++ EQ :: s'.vl ++ [SOH]) ++ r
      = s.f0 ++ SOH :: s.f1 ++ SOH :: s.B ++ (cs ++ EQ :: s.vl ++ [SOH]) := by
    have := s.eq
    have e2 : d' ++ r = _ ++ r := congrArg (· ++ r) s'.eq
    rw [← e2]; exact this
  -- first fields agree
  have a1 : s'.f0 ++ SOH :: (s'.f1 ++ SOH :: s'.B ++ (cs ++ EQ :: s'.vl ++ [SOH]) ++ r)
      = s.f0 ++ SOH :: (s.f1 ++ SOH :: s.B ++ (cs ++ EQ :: s.vl ++ [SOH])) := by
    simpa [List.append_assoc] using e1
  obtain ⟨hf0, a2⟩ := first_field_eq _ _ _ _ s'.f0_soh s.f0_soh a1
  have a2' : s'.f1 ++ SOH :: (s'.B ++ (cs ++ EQ :: s'.vl ++ [SOH]) ++ r)
      = s.f1 ++ SOH :: (s.B ++ (cs ++ EQ :: s.vl ++ [SOH])) := by
    simpa [List.append_assoc] using a2
  obtain ⟨hf1, a3⟩ := first_field_eq _ _ _ _ s'.f1_soh s.f1_soh a2'
  -- same BodyLength value, hence same body length
  have hv : s'.v1 = s.v1 := by
    have t1 := s.tag1
    have t2 := s'.tag1
    rw [hf1, t1] at t2
    simpa using t2.symm
  have hB : s'.B.length = s.B.length := by
    have l1 := s.len
    have l2 := s'.len
    rw [hv, l1] at l2
    simp at l2
    omega
  have hlen := congrArg List.length a3
  have v1 := s.vl_len
  have v2 := s'.vl_len
  simp at hlen
  apply List.eq_nil_of_length_eq_zero
  omega
