import Proofs.RoundTrip
import Proofs.TimeCodec
import Proofs.FloatCodec
/-!
# DecodedCanon — every value the decoder produces, and every Time an application can build, is canonical

`Val.Canon v` ("the text `v` serializes to is mapped back to `v` by `FromBytes`") is the only hypothesis the
round-trip theorems put on values.  Here it is discharged
* for Time values built from a calendar instant (`canon_newTime_fmt`, no hypothesis left), and
* for whatever `FromBytes` returns on any bytes at all (`fromBytes_canon`): integers are re-rendered in range,
  booleans as Y/N, floats keep their accepted source text, times are re-rendered to the fixed-point layout.
-/

theorem atoi_range (s : Bytes) (n : Int) (h : atoi s = some n) : int64Min ≤ n ∧ n ≤ int64Max := by
  unfold atoi at h
  split at h
  · cases h
  · split at h
    · split at h
      · split at h
        · cases h
        · simp only [Option.some.injEq] at h
          subst h
          refine ⟨by omega, ?_⟩
          unfold int64Max; omega
      · cases h
    · split at h
      · split at h
        · split at h
          · cases h
          · simp only [Option.some.injEq] at h
            subst h
            refine ⟨?_, by omega⟩
            unfold int64Min; omega
        · cases h
      · split at h
        · split at h
          · cases h
          · simp only [Option.some.injEq] at h
            subst h
            refine ⟨?_, by omega⟩
            unfold int64Min; omega
        · cases h

theorem parseUint_range (s : Bytes) (n : Nat) (h : parseUint s = some n) : n ≤ uint64Max := by
  unfold parseUint at h
  split at h
  · split at h
    · cases h
    · simp only [Option.some.injEq] at h
      omega
  · cases h

/-- whatever `FromBytes` accepts, the value it stores is canonical -/
theorem fromBytes_canon (v0 : Val) (d : Bytes) (v : Val) (h : v0.fromBytes d = some v) : v.Canon := by
  unfold Val.fromBytes at h
  split at h
  · cases h; exact fun _ => rfl
  · cases h; exact fun _ => rfl
  · obtain ⟨n, hn, rfl⟩ := Option.map_eq_some_iff.mp h
    have := atoi_range d n hn
    exact canon_newInt n this.1 this.2
  · obtain ⟨n, hn, rfl⟩ := Option.map_eq_some_iff.mp h
    exact canon_newUint n (parseUint_range d n hn)
  · cases h
    intro _
    by_cases hd : d = [89]
    · simp [hd, Val.fromBytes, Val.blank]
    · simp [hd, Val.fromBytes, Val.blank]
  · split at h
    · cases h
      rename_i hf
      exact canon_newFloat d hf
    · cases h
  · obtain ⟨t, ht, rfl⟩ := Option.map_eq_some_iff.mp h
    exact canon_newTime t (timeCanon_idem d t ht)

/-- `NewTime(t)` for any UTC instant at millisecond precision with a four-digit year -/
theorem canon_newTime_fmt (y mo d h mi s ms : Nat) (ok : TimeOK y mo d h mi s ms) :
    (Val.newTime (timeFmt y mo d h mi s ms)).Canon :=
  canon_newTime _ (timeCanon_fmt y mo d h mi s ms ok)

/-- re-decoding what a decoded value serializes to gives the same value -/
theorem fromBytes_stable (v0 : Val) (d : Bytes) (v : Val) (h : v0.fromBytes d = some v) (hp : populated v = true) :
    (Val.blank v.kind).fromBytes v.text = some v :=
  fromBytes_canon v0 d v h hp

/-- the largest finite float64: 2^1024 − 2^971 -/
def maxFloat64 : Nat := 2^1024 - 2^971

theorem maxFloat64_lt : maxFloat64 < floatOverflowT := by
  unfold maxFloat64 floatOverflowT
  exact Nat.sub_lt_sub_left (Nat.pow_lt_pow_right (by decide) (by decide)) (Nat.pow_lt_pow_right (by decide) (by decide))

theorem maxFloat64_big : 2 ^ 1023 ≤ maxFloat64 := by
  have e : (2 : Nat) ^ 1024 = 2 ^ 1023 + 2 ^ 1023 := by
    rw [show (1024 : Nat) = 1023 + 1 from rfl, Nat.pow_succ]; omega
  have h : (2 : Nat) ^ 971 ≤ 2 ^ 1023 := Nat.pow_le_pow_right (by decide) (by decide)
  unfold maxFloat64
  rw [e]
  generalize (2 : Nat) ^ 1023 = x at *
  generalize (2 : Nat) ^ 971 = y at *
  omega

/-- `NewFloat(v)` for finite `v`: the `'f'` rendering `[-]ddd[.ddd]` of a magnitude `m / 10^|fp| ≤ MaxFloat64` -/
theorem canon_newFloat_plain (neg : Bool) (ip fp : Bytes) (hi : ip ≠ [])
    (hid : ∀ c ∈ ip, isDigit c = true) (hfd : ∀ c ∈ fp, isDigit c = true)
    (m : Nat) (hm : parseNatAux (ip ++ fp) 0 = some m) (hb : m ≤ maxFloat64 * 10 ^ fp.length) :
    (Val.newFloat (plainDec neg ip fp)).Canon := by
  apply canon_newFloat
  apply floatOK_plain neg ip fp hi hid hfd m hm
  have hp : 0 < 10 ^ fp.length := Nat.pow_pos (by decide)
  calc m ≤ maxFloat64 * 10 ^ fp.length := hb
    _ < floatOverflowT * 10 ^ fp.length := Nat.mul_lt_mul_of_pos_right maxFloat64_lt hp
