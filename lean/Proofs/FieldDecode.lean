import Proofs.RoundTrip
/-!
# FieldDecode — the byte-scanning decoder is a field-boundary decoder (groups included)

Data handed to the decoder at any level has the shape `img h L e = h ++ (SOH f₁) ++ … ++ (SOH fₙ) ++ e`:
a first field `h` without a leading delimiter (the BeginString field at top level, empty inside a group entry),
fields each preceded by SOH, and `e` = nothing or the final SOH. This file shows that on such data, with SOH-free
fields, every search and every slice of `unmarshal` — `scanKeyValue`, the count field, the first entry tag,
`splitGroup` — lands on field boundaries, so that the decoder equals a decoder defined on the *list of fields*
(`unmF`), for **every** content of those fields.
-/

/-- every field preceded by its delimiter -/
def joinB : List Bytes → Bytes
  | [] => []
  | f :: fs => SOH :: f ++ joinB fs

def img (h : Bytes) (L : List Bytes) (e : Bytes) : Bytes := h ++ joinB L ++ e

theorem joinB_soh : ∀ L : List Bytes, joinB L ++ [SOH] = SOH :: joinF L
  | [] => rfl
  | f :: fs => by
    show (SOH :: f ++ joinB fs) ++ [SOH] = SOH :: (f ++ SOH :: joinF fs)
    have := joinB_soh fs
    simp only [List.cons_append, List.append_assoc, this]

theorem img_soh (h : Bytes) (L : List Bytes) : img h L [SOH] = joinF (h :: L) := by
  unfold img
  rw [List.append_assoc, joinB_soh]; rfl

theorem joinB_append (A B : List Bytes) : joinB (A ++ B) = joinB A ++ joinB B := by
  induction A with
  | nil => rfl
  | cons a as ih => simp [joinB, ih]

/-! ### appending the final delimiter changes no search result -/

theorem indexOf_snoc_soh (q : Bytes) (hq : SOH ∉ q) (hne : q ≠ []) : ∀ d : Bytes,
    indexOf (SOH :: q) (d ++ [SOH]) = indexOf (SOH :: q) d
  | [] => by
    cases q with
    | nil => exact absurd rfl hne
    | cons c cs => simp [indexOf, List.isPrefixOf]
  | c :: cs => by
    have hp : (SOH :: q).isPrefixOf (c :: (cs ++ [SOH])) = (SOH :: q).isPrefixOf (c :: cs) := by
      simp only [List.isPrefixOf]
      rw [isPrefixOf_field q hq cs []]
    simp only [List.cons_append, indexOf_cons', hp, indexOf_snoc_soh q hq hne cs]

theorem fieldIndex_snoc_soh (d k : Bytes) (hk : SOH ∉ k) : fieldIndex (d ++ [SOH]) k = fieldIndex d k := by
  unfold fieldIndex
  simp only
  rw [isPrefixOf_field (k ++ [EQ]) (sohFree_keyEq k hk) d [], indexOf_snoc_soh (k ++ [EQ]) (sohFree_keyEq k hk) (by simp) d]

theorem indexByte_snoc (x : Bytes) : indexByte SOH (x ++ [SOH]) = some (match indexByte SOH x with | some e => e | none => x.length) := by
  induction x with
  | nil => simp [indexByte]
  | cons c cs ih =>
    simp only [List.cons_append, indexByte]
    by_cases hc : c = SOH
    · simp [hc]
    · simp only [hc, if_false, ih]
      cases indexByte SOH cs <;> simp

theorem scanValue_snoc_soh (d k : Bytes) (hk : SOH ∉ k) : scanValue (d ++ [SOH]) k = scanValue d k := by
  unfold scanValue
  rw [fieldIndex_snoc_soh d k hk]
  cases hf : fieldIndex d k with
  | none => rfl
  | some ki =>
    have hb := fieldIndex_bound d k ki hf
    have e : ((ki : Int) + ((k.length + 1 : Nat) : Int)) = ((ki + (k.length + 1) : Nat) : Int) := by omega
    simp only [e]
    rw [sliceFrom_ne_panic _ _ hb, sliceFrom_ne_panic _ _ (by simp; omega)]
    simp only [Res.bind_ok]
    rw [List.drop_append_of_le_length hb]
    generalize d.drop (ki + (k.length + 1)) = x
    rw [indexByte_snoc]
    cases hx : indexByte SOH x with
    | none =>
      simp only
      rw [sliceTo_ne_panic _ _ (by simp), sliceTo_ne_panic _ _ (Nat.le_refl _)]
      simp
    | some e' =>
      have hb' := indexByte_bound _ _ _ hx
      simp only
      rw [sliceTo_ne_panic _ _ (by simp; omega), sliceTo_ne_panic _ _ (Nat.le_of_lt hb')]
      simp [List.take_append_of_le_length (Nat.le_of_lt hb')]

/-- **scan lemma on any decoder input**: the search for `k` in `img h L e` is the boundary lookup in `h :: L` -/
theorem scanValue_img (k h : Bytes) (L : List Bytes) (e : Bytes) (he : e = [] ∨ e = [SOH]) (hk : SOH ∉ k)
    (hh : SOH ∉ h) (hL : ∀ g ∈ L, SOH ∉ g) : scanValue (img h L e) k = .ok (lookupPref k (h :: L)) := by
  have hall : ∀ g ∈ h :: L, SOH ∉ g := by
    intro g hg; simp only [List.mem_cons] at hg; rcases hg with rfl | hg; exact hh; exact hL g hg
  rcases he with rfl | rfl
  · have := scanValue_snoc_soh (img h L []) k hk
    have e2 : img h L [] ++ [SOH] = img h L [SOH] := by simp [img]
    rw [e2, img_soh, scanValue_joinF k hk _ hall] at this
    exact this.symm
  · rw [img_soh, scanValue_joinF k hk _ hall]

/-! ### `splitGroup` cuts at field boundaries -/

def starts (tg g : Bytes) : Bool := (tg ++ [EQ]).isPrefixOf g

/-- what follows a field inside decoder input: nothing, or something that begins with a delimiter -/
def Tail (Y : Bytes) : Prop := Y = [] ∨ ∃ Y', Y = SOH :: Y'

theorem isPrefixOf_field' (p : Bytes) (hp : SOH ∉ p) (x Y : Bytes) (hY : Tail Y) :
    p.isPrefixOf (x ++ Y) = p.isPrefixOf x := by
  rcases hY with rfl | ⟨Y', rfl⟩
  · simp
  · exact isPrefixOf_field p hp x Y'

theorem tail_joinB (L : List Bytes) (e : Bytes) (he : e = [] ∨ e = [SOH]) : Tail (joinB L ++ e) := by
  cases L with
  | nil => rcases he with rfl | rfl; exact Or.inl rfl; exact Or.inr ⟨[], rfl⟩
  | cons f fs => exact Or.inr ⟨f ++ joinB fs ++ e, by simp [joinB]⟩

/-- fields of the current chunk `cur`, remaining fields `gs`: a new chunk starts at every field that starts with `tg=` -/
def splitB (tg : Bytes) : List Bytes → List Bytes → List (List Bytes)
  | cur, [] => [cur]
  | cur, g :: gs => if starts tg g then cur :: splitB tg [g] gs else splitB tg (cur ++ [g]) gs

theorem splitB_ne_nil (tg : Bytes) : ∀ (gs cur : List Bytes), splitB tg cur gs ≠ []
  | [], cur => by simp [splitB]
  | g :: gs, cur => by
    unfold splitB; split
    · simp
    · exact splitB_ne_nil tg gs _

/-- the byte slices handed to the entry parser: every chunk with its delimiters, the last one with what ends the data -/
def render (e : Bytes) : List (List Bytes) → List Bytes
  | [] => []
  | [c] => [joinB c ++ e]
  | c :: cs => joinB c :: render e cs

theorem render_cons (e : Bytes) (c : List Bytes) (cs : List (List Bytes)) (h : cs ≠ []) :
    render e (c :: cs) = joinB c :: render e cs := by
  cases cs with
  | nil => exact absurd rfl h
  | cons _ _ => rfl

/-- no occurrence of `SOH tg =` inside a run of fields none of which starts with `tg=`; the first one is at the
    next field that does -/
theorem indexOf_run (tg : Bytes) (htg : SOH ∉ tg) (e : Bytes) (he : e = [] ∨ e = [SOH]) :
    ∀ (cs : List Bytes) (c : Bytes), SOH ∉ c → (∀ x ∈ cs, SOH ∉ x ∧ starts tg x = false) →
      (indexOf (SOH :: (tg ++ [EQ])) (c ++ joinB cs ++ e) = none) ∧
      (∀ g gs, starts tg g = true → SOH ∉ g → (∀ x ∈ gs, SOH ∉ x) →
        indexOf (SOH :: (tg ++ [EQ])) (c ++ joinB cs ++ (joinB (g :: gs) ++ e)) = some (c ++ joinB cs).length) := by
  have hq := sohFree_keyEq tg htg
  intro cs
  induction cs with
  | nil =>
    intro c hc _
    constructor
    · simp only [joinB, List.append_nil]
      rw [indexOf_skip SOH _ c e hc]
      rcases he with rfl | rfl
      · simp [indexOf]
      · have : indexOf (SOH :: (tg ++ [EQ])) [SOH] = none := by cases tg <;> simp [indexOf, List.isPrefixOf]
        simp [this]
    · intro g gs hg hgS hgs
      simp only [joinB, List.append_nil]
      rw [indexOf_skip SOH _ c _ hc]
      have hp : (SOH :: (tg ++ [EQ])).isPrefixOf (SOH :: g ++ joinB gs ++ e) = true := by
        simp only [List.cons_append, List.isPrefixOf, beq_self_eq_true, Bool.true_and]
        rw [List.append_assoc, isPrefixOf_field' _ hq g _ (tail_joinB gs e he)]
        exact hg
      have : indexOf (SOH :: (tg ++ [EQ])) (SOH :: g ++ joinB gs ++ e) = some 0 := by
        simp only [List.cons_append] at hp ⊢
        rw [indexOf_cons', hp]; rfl
      rw [this]; simp
  | cons x xs ih =>
    intro c hc hcs
    obtain ⟨hxS, hxN⟩ := hcs x (by simp)
    have hxs : ∀ y ∈ xs, SOH ∉ y ∧ starts tg y = false := fun y hy => hcs y (by simp [hy])
    obtain ⟨ih1, ih2⟩ := ih x hxS hxs
    -- one step: skip c, look at SOH x …
    have step : ∀ T : Bytes, Tail (joinB xs ++ T) →
        indexOf (SOH :: (tg ++ [EQ])) (c ++ joinB (x :: xs) ++ T)
          = (indexOf (SOH :: (tg ++ [EQ])) (x ++ joinB xs ++ T)).map (· + (c.length + 1)) := by
      intro T hT
      have e1 : c ++ joinB (x :: xs) ++ T = c ++ (SOH :: (x ++ joinB xs ++ T)) := by simp [joinB]
      rw [e1, indexOf_skip SOH _ c _ hc, indexOf_cons']
      have hp : (SOH :: (tg ++ [EQ])).isPrefixOf (SOH :: (x ++ joinB xs ++ T)) = false := by
        simp only [List.isPrefixOf, beq_self_eq_true, Bool.true_and]
        rw [List.append_assoc, isPrefixOf_field' _ hq x _ hT]
        exact hxN
      rw [hp]
      simp only [Bool.false_eq_true, if_false, Option.map_map, Function.comp_def, List.append_assoc]
      congr 1; funext y; omega
    constructor
    · rw [step e (tail_joinB xs e he), ih1]; rfl
    · intro g gs hg hgS hgs
      have hT : Tail (joinB xs ++ (joinB (g :: gs) ++ e)) := by
        rw [← List.append_assoc, ← joinB_append]; exact tail_joinB _ e he
      rw [step _ hT, ih2 g gs hg hgS hgs]
      simp [joinB]; omega

theorem splitGroup_fields (tg : Bytes) (htg : SOH ∉ tg) (e : Bytes) (he : e = [] ∨ e = [SOH]) :
    ∀ (gs cur : List Bytes), cur ≠ [] → (∀ x ∈ cur, SOH ∉ x) → (∀ x ∈ cur.tail, starts tg x = false) →
      (∀ x ∈ gs, SOH ∉ x) →
      splitGroup (SOH :: (tg ++ [EQ])) (joinB cur ++ joinB gs ++ e) = .ok (render e (splitB tg cur gs)) := by
  intro gs
  induction gs with
  | nil =>
    intro cur hne hS hT _
    cases cur with
    | nil => exact absurd rfl hne
    | cons c1 cs =>
      have hrun := (indexOf_run tg htg e he cs c1 (hS c1 (by simp))
        (fun x hx => ⟨hS x (by simp [hx]), hT x (by simpa using hx)⟩)).1
      simp only [joinB, List.append_nil, List.cons_append]
      rw [splitGroup]
      simp only [List.append_assoc] at hrun ⊢
      rw [hrun]
      simp [splitB, render, joinB]
  | cons g gs' ih =>
    intro cur hne hS hT hgs
    have hgS : SOH ∉ g := hgs g (by simp)
    have hgs' : ∀ x ∈ gs', SOH ∉ x := fun x hx => hgs x (by simp [hx])
    cases cur with
    | nil => exact absurd rfl hne
    | cons c1 cs =>
      by_cases hst : starts tg g = true
      · have hrun := (indexOf_run tg htg e he cs c1 (hS c1 (by simp))
          (fun x hx => ⟨hS x (by simp [hx]), hT x (by simpa using hx)⟩)).2 g gs' hst hgS hgs'
        have hline : joinB (c1 :: cs) ++ joinB (g :: gs') ++ e = SOH :: (c1 ++ joinB cs ++ (joinB (g :: gs') ++ e)) := by
          simp [joinB]
        rw [hline, splitGroup, hrun]
        simp only
        have hdrop : (SOH :: (c1 ++ joinB cs ++ (joinB (g :: gs') ++ e))).drop ((c1 ++ joinB cs).length + 1)
            = joinB [g] ++ joinB gs' ++ e := by
          rw [List.drop_succ_cons, List.drop_append_of_le_length (Nat.le_refl _), List.drop_length]
          simp [joinB]
        have htake : (SOH :: (c1 ++ joinB cs ++ (joinB (g :: gs') ++ e))).take ((c1 ++ joinB cs).length + 1)
            = joinB (c1 :: cs) := by
          rw [List.take_succ_cons, List.take_append_of_le_length (Nat.le_refl _), List.take_length]
          simp [joinB]
        rw [hdrop, htake, ih [g] (by simp) (by simpa using hgS) (by simp) hgs']
        simp only [splitB, hst, if_true]
        rw [render_cons e _ _ (splitB_ne_nil tg gs' [g])]
      · have hst' : starts tg g = false := by simpa using hst
        have hline : joinB (c1 :: cs) ++ joinB (g :: gs') ++ e = joinB ((c1 :: cs) ++ [g]) ++ joinB gs' ++ e := by
          rw [joinB_append]; simp [joinB]
        rw [hline, ih ((c1 :: cs) ++ [g]) (by simp)
          (by intro x hx; simp only [List.mem_append, List.mem_singleton] at hx; rcases hx with hx | rfl; exact hS x hx; exact hgS)
          (by intro x hx; simp only [List.cons_append, List.tail_cons, List.mem_append, List.mem_singleton] at hx
              rcases hx with hx | rfl; exact hT x (by simpa using hx); exact hst') hgs']
        simp only [splitB, hst', Bool.false_eq_true, if_false]

/-! ### the decoder on lists of fields -/

def scanKVF (all : List Bytes) (k : Bytes) (v : Val) : Res Val :=
  match lookupPref k all with
  | none => .ok v
  | some b => match v.fromBytes b with
    | some v' => .ok v'
    | none => .err

/-- the fields after the first field that starts with `n=` -/
def afterFirst (n : Bytes) : List Bytes → Option (List Bytes)
  | [] => none
  | f :: fs => if starts n f then some fs else afterFirst n fs

/-- the text before the first '=' of a field -/
def tagOf (g : Bytes) : Option Bytes := (indexByte EQ g).map (g.take ·)

/-- the group branch on fields: count, the entries' first tag, one chunk per entry -/
def unmGroupBodyF (parseEntry : List Bytes → Res (List Item)) (all : List Bytes) (n : Bytes)
    (t0 : List Item) (es0 : List (List Item)) : Res Item := do
  let cntV ← scanKVF all n (Val.blank .int)
  let cnt : Int := (atoi cntV.text).getD 0
  match afterFirst n all with
  | none => pure (.group n t0 es0)
  | some [] => .err
  | some (g :: gs) =>
    match tagOf g with
    | none => .err
    | some tg =>
      let chunks := splitB tg [g] gs
      if (chunks.length : Int) ≠ cnt then .err
      else do
        let newEs ← mapRes (fun c => parseEntry ([] :: c)) chunks
        pure (.group n t0 (es0 ++ newEs))

mutual
  def Item.unmF : Item → Bool → List Bytes → Res Item
    | .kv k v, fresh, all => do
        let v' ← scanKVF all k (if fresh then Val.blank v.kind else v)
        pure (.kv k v')
    | .comp items, fresh, all => do
        let is ← unmListF items fresh all
        pure (.comp is)
    | .group n t es, fresh, all =>
        unmGroupBodyF (fun s => unmListF t true s) all n
          (if fresh then blankList t else t) (if fresh then [] else es)
  def unmListF : List Item → Bool → List Bytes → Res (List Item)
    | [], _, _ => pure []
    | i :: is, fresh, all => do
        let a ← i.unmF fresh all
        let b ← unmListF is fresh all
        pure (a :: b)
end

/-! ### positions of the count field -/

theorem img_split (e : Bytes) : ∀ (A : List Bytes) (f : Bytes) (rest : List Bytes) (h : Bytes) (L : List Bytes),
    h :: L = A ++ f :: rest → img h L e = joinF A ++ f ++ joinB rest ++ e
  | [], f, rest, h, L, hh => by
    simp only [List.nil_append, List.cons.injEq] at hh
    obtain ⟨rfl, rfl⟩ := hh
    simp [img, joinF]
  | a :: A, f, rest, h, L, hh => by
    simp only [List.cons_append, List.cons.injEq] at hh
    obtain ⟨rfl, rfl⟩ := hh
    have : joinB (A ++ f :: rest) = joinB A ++ (SOH :: f ++ joinB rest) := by rw [joinB_append]; rfl
    unfold img
    rw [this]
    have e2 : joinB A ++ [SOH] = SOH :: joinF A := joinB_soh A
    simp only [joinF, List.append_assoc, List.cons_append]
    have : joinB A ++ SOH :: (f ++ (joinB rest ++ e)) = (joinB A ++ [SOH]) ++ (f ++ (joinB rest ++ e)) := by simp
    rw [this, e2]; simp

theorem findF_split (n : Bytes) : ∀ (all : List Bytes) (off : Nat), findF n all = some off →
    ∃ A f rest, all = A ++ f :: rest ∧ starts n f = true ∧ off = (joinF A).length ∧ afterFirst n all = some rest
  | [], _, h => by simp [findF] at h
  | f :: fs, off, h => by
    unfold findF at h
    split at h
    · rename_i hp
      simp at h; subst h
      exact ⟨[], f, fs, rfl, hp, rfl, by simp [afterFirst, starts, hp]⟩
    · rename_i hp
      cases hf : findF n fs with
      | none => simp [hf] at h
      | some j =>
        simp [hf] at h; subst h
        obtain ⟨A, g, rest, h1, h2, h3, h4⟩ := findF_split n fs j hf
        refine ⟨f :: A, g, rest, by rw [h1]; rfl, h2, ?_, ?_⟩
        · simp [joinF, h3]; omega
        · have : starts n f = false := by unfold starts; exact Bool.eq_false_iff.mpr hp
          simp [afterFirst, this, h4]

theorem findF_none_after (n : Bytes) : ∀ all : List Bytes, findF n all = none → afterFirst n all = none
  | [], _ => rfl
  | f :: fs, h => by
    unfold findF at h
    split at h
    · simp at h
    · rename_i hp
      cases hf : findF n fs with
      | none =>
        have : starts n f = false := by unfold starts; exact Bool.eq_false_iff.mpr hp
        simp [afterFirst, this, findF_none_after n fs hf]
      | some j => simp [hf] at h

theorem fieldIndex_img (k h : Bytes) (L : List Bytes) (e : Bytes) (he : e = [] ∨ e = [SOH]) (hk : SOH ∉ k)
    (hall : ∀ g ∈ h :: L, SOH ∉ g) : fieldIndex (img h L e) k = findF k (h :: L) := by
  rcases he with rfl | rfl
  · have := fieldIndex_snoc_soh (img h L []) k hk
    have e2 : img h L [] ++ [SOH] = img h L [SOH] := by simp [img]
    rw [e2, img_soh, fieldIndex_joinF k hk _ hall] at this
    exact this.symm
  · rw [img_soh, fieldIndex_joinF k hk _ hall]

theorem scanKV_img (k h : Bytes) (L : List Bytes) (e : Bytes) (he : e = [] ∨ e = [SOH]) (hk : SOH ∉ k)
    (hall : ∀ g ∈ h :: L, SOH ∉ g) (v : Val) : scanKV (img h L e) k v = scanKVF (h :: L) k v := by
  unfold scanKV scanKVF
  rw [scanValue_img k h L e he hk (hall h (by simp)) (fun g hg => hall g (by simp [hg]))]
  cases lookupPref k (h :: L) <;> rfl

theorem indexByte_notMem (b : UInt8) : ∀ x : Bytes, b ∉ x → indexByte b x = none
  | [], _ => rfl
  | c :: cs, h => by
    have hc : c ≠ b := fun e => h (by simp [e])
    have hcs : b ∉ cs := fun e => h (by simp [e])
    simp [indexByte, hc, indexByte_notMem b cs hcs]

theorem indexByte_append_some (b : UInt8) : ∀ (x Y : Bytes) (p : Nat), indexByte b x = some p → indexByte b (x ++ Y) = some p
  | [], _, _, h => by simp [indexByte] at h
  | c :: cs, Y, p, h => by
    simp only [List.cons_append, indexByte] at h ⊢
    split
    · rename_i hc; simp [hc] at h; rw [h]
    · rename_i hc
      simp only [hc, if_false] at h
      cases hi : indexByte b cs with
      | none => simp [hi] at h
      | some j =>
        simp [hi] at h; subst h
        simp [indexByte_append_some b cs Y j hi]

theorem indexByte_mem (b : UInt8) : ∀ x : Bytes, b ∈ x → ∃ p, indexByte b x = some p
  | [], h => by simp at h
  | c :: cs, h => by
    by_cases hc : c = b
    · exact ⟨0, by simp [indexByte, hc]⟩
    · have : b ∈ cs := by
        simp only [List.mem_cons] at h
        rcases h with h | h
        · exact absurd h.symm hc
        · exact h
      obtain ⟨p, hp⟩ := indexByte_mem b cs this
      exact ⟨p + 1, by simp [indexByte, hc, hp]⟩

theorem indexByte_get (b : UInt8) : ∀ (x : Bytes) (p : Nat), indexByte b x = some p → x.take (p + 1) = x.take p ++ [b]
  | [], _, h => by simp [indexByte] at h
  | c :: cs, p, h => by
    simp only [indexByte] at h
    split at h
    · rename_i hc; simp at h; subst h; simp [hc]
    · cases hi : indexByte b cs with
      | none => simp [hi] at h
      | some j =>
        simp [hi] at h; subst h
        simp [indexByte_get b cs j hi]

theorem render_length (e : Bytes) : ∀ cs : List (List Bytes), (render e cs).length = cs.length
  | [] => rfl
  | [c] => rfl
  | c :: c' :: cs => by
    rw [render_cons e c (c' :: cs) (by simp)]
    simp [render_length e (c' :: cs)]

theorem splitB_mem (tg : Bytes) : ∀ (gs cur : List Bytes) (c : List Bytes), c ∈ splitB tg cur gs → ∀ x ∈ c, x ∈ cur ++ gs
  | [], cur, c, hc, x, hx => by
    simp only [splitB, List.mem_singleton] at hc; subst hc; simpa using hx
  | g :: gs, cur, c, hc, x, hx => by
    unfold splitB at hc
    split at hc
    · simp only [List.mem_cons] at hc
      rcases hc with rfl | hc
      · simp [hx]
      · have := splitB_mem tg gs [g] c hc x hx
        simp only [List.mem_append, List.mem_cons, List.not_mem_nil, or_false] at this ⊢
        rcases this with h | h
        · exact Or.inr (Or.inl h)
        · exact Or.inr (Or.inr h)
    · have := splitB_mem tg gs (cur ++ [g]) c hc x hx
      simp only [List.mem_append, List.mem_cons, List.not_mem_nil, or_false] at this ⊢
      rcases this with (h | h) | h
      · exact Or.inl h
      · exact Or.inr (Or.inl h)
      · exact Or.inr (Or.inr h)

theorem mapRes_render (f : Bytes → Res (List Item)) (g : List Bytes → Res (List Item)) (e : Bytes) (he : e = [] ∨ e = [SOH]) :
    ∀ cs : List (List Bytes), (∀ c ∈ cs, ∀ e', (e' = [] ∨ e' = [SOH]) → f (joinB c ++ e') = g c) →
      mapRes f (render e cs) = mapRes g cs
  | [], _ => rfl
  | [c], h => by
    simp only [render, mapRes]
    rw [h c (by simp) e he]
  | c :: c' :: cs, h => by
    rw [render_cons e c (c' :: cs) (by simp)]
    simp only [mapRes]
    have h0 := h c (by simp) [] (Or.inl rfl)
    simp only [List.append_nil] at h0
    rw [h0, mapRes_render f g e he (c' :: cs) (fun d hd => h d (by simp [hd]))]
    rfl

/-- the group branch on decoder input is the group branch on its fields -/
theorem unmGroupBody_img (parseEntry : Bytes → Res (List Item)) (parseEntryF : List Bytes → Res (List Item))
    (n h : Bytes) (L : List Bytes) (e : Bytes) (he : e = [] ∨ e = [SOH]) (hn : SOH ∉ n)
    (hall : ∀ g ∈ h :: L, SOH ∉ g) (hEQ : ∀ g ∈ L, EQ ∈ g)
    (hpe : ∀ c : List Bytes, (∀ x ∈ c, x ∈ L) → ∀ e', (e' = [] ∨ e' = [SOH]) → parseEntry (joinB c ++ e') = parseEntryF ([] :: c))
    (t0 : List Item) (es0 : List (List Item)) :
    unmGroupBody parseEntry (img h L e) n t0 es0 = unmGroupBodyF parseEntryF (h :: L) n t0 es0 := by
  unfold unmGroupBody unmGroupBodyF
  rw [scanKV_img n h L e he hn hall, fieldIndex_img n h L e he hn hall]
  cases hcnt : scanKVF (h :: L) n (Val.blank .int) with
  | err => rfl
  | panic => rfl
  | ok cntV =>
  simp only [Res.bind_ok]
  cases hf : findF n (h :: L) with
  | none => simp [findF_none_after n _ hf]
  | some off =>
    obtain ⟨A, f, rest, hsplit, _, hoff, hafter⟩ := findF_split n (h :: L) off hf
    have himg := img_split e A f rest h L hsplit
    have hfS : SOH ∉ f := hall f (by rw [hsplit]; simp)
    have hrestL : ∀ x ∈ rest, x ∈ L := by
      intro x hx
      cases A with
      | nil =>
        simp only [List.nil_append, List.cons.injEq] at hsplit
        rw [hsplit.2]; exact hx
      | cons a A' =>
        simp only [List.cons_append, List.cons.injEq] at hsplit
        rw [hsplit.2]; simp [hx]
    rw [hafter]
    simp only
    -- data[startNoTag:]
    have hlen1 : off ≤ (img h L e).length := by rw [himg, hoff]; simp
    rw [sliceFrom_ne_panic _ _ hlen1]
    simp only [Res.bind_ok]
    have hdrop1 : (img h L e).drop off = f ++ (joinB rest ++ e) := by
      rw [himg, hoff, List.append_assoc, List.append_assoc, List.drop_append_of_le_length (Nat.le_refl _), List.drop_length]
      simp
    rw [hdrop1]
    cases rest with
    | nil =>
      rcases he with rfl | rfl
      · simp [joinB, indexByte_notMem SOH f hfS]
      · simp only [joinB, List.nil_append]
        rw [indexByte_field f [] hfS]
        simp only
        have hlen2 : off + f.length ≤ (img h L [SOH]).length := by rw [himg, hoff]; simp
        rw [sliceFrom_ne_panic _ _ hlen2]
        simp only [Res.bind_ok]
        have hdrop2 : (img h L [SOH]).drop (off + f.length) = [SOH] := by
          rw [← List.drop_drop, hdrop1]; simp [joinB]
        rw [hdrop2]
        simp [indexByte, SOH, EQ]
    | cons g gs =>
      have hgL : g ∈ L := hrestL g (by simp)
      have hgS : SOH ∉ g := hall g (by simp [hgL])
      have hgsS : ∀ x ∈ gs, SOH ∉ x := fun x hx => hall x (by simp [hrestL x (by simp [hx])])
      have hjb : joinB (g :: gs) ++ e = SOH :: (g ++ (joinB gs ++ e)) := by simp [joinB]
      rw [hjb, indexByte_field f _ hfS]
      simp only
      have hlen2 : off + f.length ≤ (img h L e).length := by rw [himg, hoff]; simp
      rw [sliceFrom_ne_panic _ _ hlen2]
      simp only [Res.bind_ok]
      have hdrop2 : (img h L e).drop (off + f.length) = SOH :: (g ++ (joinB gs ++ e)) := by
        rw [← List.drop_drop, hdrop1, hjb, List.drop_append_of_le_length (Nat.le_refl _), List.drop_length]; simp
      rw [hdrop2]
      obtain ⟨p, hp⟩ := indexByte_mem EQ g (hEQ g hgL)
      have hidx : indexByte EQ (SOH :: (g ++ (joinB gs ++ e))) = some (p + 1) := by
        have : (SOH : UInt8) ≠ EQ := by decide
        simp [indexByte, this, indexByte_append_some EQ g _ p hp]
      rw [hidx]
      simp only [tagOf, hp, Option.map_some]
      have hpb := indexByte_bound _ _ _ hp
      rw [sliceTo_ne_panic _ (p + 1 + 1) (by simp; omega)]
      simp only [Res.bind_ok]
      have htake : (SOH :: (g ++ (joinB gs ++ e))).take (p + 1 + 1) = SOH :: (g.take p ++ [EQ]) := by
        rw [List.take_succ_cons, List.take_append_of_le_length (by omega), indexByte_get EQ g p hp]
      rw [htake]
      have htgS : SOH ∉ g.take p := fun hx => hgS (List.mem_of_mem_take hx)
      have hform : SOH :: (g ++ (joinB gs ++ e)) = joinB [g] ++ joinB gs ++ e := by simp [joinB]
      rw [hform, splitGroup_fields (g.take p) htgS e he gs [g] (by simp) (by simpa using hgS) (by simp) hgsS]
      simp only [Res.bind_ok, render_length]
      have hne : ¬ ((splitB (List.take p g) [g] gs).length = 0) := by
        intro h0
        exact splitB_ne_nil _ gs [g] (List.eq_nil_of_length_eq_zero h0)
      simp only [hne, if_false]
      have hmap : mapRes parseEntry (render e (splitB (List.take p g) [g] gs))
          = mapRes (fun c => parseEntryF ([] :: c)) (splitB (List.take p g) [g] gs) := by
        apply mapRes_render _ _ e he
        intro c hc e' he'
        apply hpe c _ e' he'
        intro x hx
        have := splitB_mem _ gs [g] c hc x hx
        exact hrestL x (by simpa using this)
      rw [hmap]

/-! ### the refinement theorem -/

-- template tags (field keys and group count tags, templates of groups included) contain no delimiter
mutual
  def Item.tplOK : Item → Bool
    | .kv k _ => !k.contains SOH
    | .comp is => listTplOK is
    | .group n t _ => !n.contains SOH && listTplOK t
  def listTplOK : List Item → Bool
    | [] => true
    | i :: is => i.tplOK && listTplOK is
end

mutual
  /-- **the decoder is a field-boundary decoder**: on every input made of SOH-free `tag=value` fields, whatever
      they contain, the byte-scanning decoder computes what the decoder on the list of fields computes — for every
      template, nested groups included -/
  theorem unm_img : ∀ (i : Item) (fresh : Bool) (h : Bytes) (L : List Bytes) (e : Bytes), (e = [] ∨ e = [SOH]) →
      i.tplOK = true → (∀ g ∈ h :: L, SOH ∉ g) → (∀ g ∈ L, EQ ∈ g) →
      i.unm fresh (img h L e) = i.unmF fresh (h :: L)
    | .kv k v, fresh, h, L, e, he, ht, hall, _ => by
        rw [Item.tplOK] at ht
        rw [Item.unm, Item.unmF, scanKV_img k h L e he (not_contains ht) hall]
    | .comp is, fresh, h, L, e, he, ht, hall, hEQ => by
        rw [Item.tplOK] at ht
        rw [Item.unm, Item.unmF, unmList_img is fresh h L e he ht hall hEQ]
    | .group n t es, fresh, h, L, e, he, ht, hall, hEQ => by
        rw [Item.tplOK, Bool.and_eq_true] at ht
        rw [Item.unm, Item.unmF]
        apply unmGroupBody_img _ _ n h L e he (not_contains ht.1) hall hEQ
        intro c hc e' he'
        have := unmList_img t true [] c e' he' ht.2
          (by intro g hg; simp only [List.mem_cons] at hg; rcases hg with rfl | hg; simp; exact hall g (by simp [hc g hg]))
          (fun g hg => hEQ g (hc g hg))
        simpa [img] using this
  theorem unmList_img : ∀ (is : List Item) (fresh : Bool) (h : Bytes) (L : List Bytes) (e : Bytes), (e = [] ∨ e = [SOH]) →
      listTplOK is = true → (∀ g ∈ h :: L, SOH ∉ g) → (∀ g ∈ L, EQ ∈ g) →
      unmList is fresh (img h L e) = unmListF is fresh (h :: L)
    | [], _, _, _, _, _, _, _, _ => by rw [unmList, unmListF]
    | i :: is, fresh, h, L, e, he, ht, hall, hEQ => by
        rw [listTplOK, Bool.and_eq_true] at ht
        rw [unmList, unmListF, unm_img i fresh h L e he ht.1 hall hEQ, unmList_img is fresh h L e he ht.2 hall hEQ]
end
