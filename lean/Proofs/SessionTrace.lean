import Proofs.SessionInv
/-!
Every step changes the outbound counter and the message store in exactly one way: by the
numbered messages it emits, each saved under its own number before it is emitted, numbers
consecutive. (`Trace`.) This is the sequential core of C05, C10 and C19.
-/
open Sess

def msgsOf : List Out → List OutMsg
  | [] => []
  | .msg m :: r => m :: msgsOf r
  | _ :: r => msgsOf r

@[simp] theorem msgsOf_nil : msgsOf [] = [] := rfl
@[simp] theorem msgsOf_msg (m : OutMsg) (r : List Out) : msgsOf (.msg m :: r) = m :: msgsOf r := rfl
@[simp] theorem msgsOf_resend (m : OutMsg) (r : List Out) : msgsOf (.resend m :: r) = msgsOf r := rfl
@[simp] theorem msgsOf_event (e : SEvent) (r : List Out) : msgsOf (.event e :: r) = msgsOf r := rfl
@[simp] theorem msgsOf_cancel (r : List Out) : msgsOf (.cancel :: r) = msgsOf r := rfl
@[simp] theorem msgsOf_routerStop (r : List Out) : msgsOf (.routerStop :: r) = msgsOf r := rfl
theorem msgsOf_append (a b : List Out) : msgsOf (a ++ b) = msgsOf a ++ msgsOf b := by
  induction a with
  | nil => rfl
  | cons x xs ih => cases x <;> simp [ih]
theorem msgsOf_map_resend (ms : List OutMsg) : msgsOf (ms.map .resend) = [] := by
  induction ms with
  | nil => rfl
  | cons x xs ih => simp [ih]

/-- saving messages one after the other, most recent first -/
def pushAll (st : List (Int × OutMsg)) : List OutMsg → List (Int × OutMsg)
  | [] => st
  | m :: ms => pushAll ((m.seq, m) :: st) ms

theorem pushAll_append (st : List (Int × OutMsg)) (a b : List OutMsg) :
    pushAll st (a ++ b) = pushAll (pushAll st a) b := by
  induction a generalizing st with
  | nil => rfl
  | cons x xs ih => simp [pushAll, ih]

/-- the messages carry the numbers n+1, n+2, … -/
def Numbered (n : Int) : List OutMsg → Prop
  | [] => True
  | m :: ms => m.seq = n + 1 ∧ Numbered (n + 1) ms

theorem numbered_append (n : Int) (a b : List OutMsg) :
    Numbered n (a ++ b) ↔ Numbered n a ∧ Numbered (n + a.length) b := by
  induction a generalizing n with
  | nil => simp [Numbered]
  | cons x xs ih =>
    simp only [List.cons_append, Numbered, ih, List.length_cons]
    have : n + 1 + (xs.length : Int) = n + ((xs.length : Int) + 1) := by omega
    rw [this]
    constructor
    · rintro ⟨h1, h2, h3⟩; exact ⟨⟨h1, h2⟩, by simpa using h3⟩
    · rintro ⟨⟨h1, h2⟩, h3⟩; exact ⟨h1, h2, by simpa using h3⟩

structure Trace (s : Sess) (r : Sess × List Out) : Prop where
  store : r.1.store = pushAll s.store (msgsOf r.2)
  counter : r.1.outCounter = s.outCounter + (msgsOf r.2).length
  numbered : Numbered s.outCounter (msgsOf r.2)

theorem trace_send (s : Sess) (b : OutBody) : Trace s (s.send b) := by
  constructor <;> simp [Sess.send, pushAll, Numbered]

theorem trace_silent (s s' : Sess) (outs : List Out) (h1 : s'.store = s.store) (h2 : s'.outCounter = s.outCounter)
    (h3 : msgsOf outs = []) : Trace s (s', outs) := by
  constructor <;> simp [h1, h2, h3, pushAll, Numbered]

theorem trace_andThen (s : Sess) (r : Sess × List Out) (f : Sess → Sess × List Out)
    (h1 : Trace s r) (h2 : Trace r.1 (f r.1)) : Trace s (andThen r f) := by
  constructor
  · simp only [andThen_fst, andThen_snd, msgsOf_append, pushAll_append]
    rw [h2.store, h1.store]
  · simp only [andThen_fst, andThen_snd, msgsOf_append, List.length_append]
    rw [h2.counter, h1.counter]; push_cast; omega
  · simp only [andThen_snd, msgsOf_append]
    rw [numbered_append]
    refine ⟨h1.numbered, ?_⟩
    rw [← h1.counter]
    exact h2.numbered

/-- post-processing the state without touching store / counter keeps the trace -/
theorem trace_map (s : Sess) (r : Sess × List Out) (g : Sess → Sess)
    (hs : (g r.1).store = r.1.store) (hc : (g r.1).outCounter = r.1.outCounter) (h : Trace s r) :
    Trace s (g r.1, r.2) :=
  ⟨by simp [hs, h.store], by simp [hc, h.counter], h.numbered⟩

/-- starting from a state that differs from `s` only outside store / counter -/
theorem trace_from (s s0 : Sess) (r : Sess × List Out) (hs : s0.store = s.store) (hc : s0.outCounter = s.outCounter)
    (h : Trace s0 r) : Trace s r :=
  ⟨by rw [h.store, hs], by rw [h.counter, hc], by rw [← hc]; exact h.numbered⟩

theorem changeState_msgs (c : Cfg) (s : Sess) (st : LState) : msgsOf (changeState c s st).2 = [] := by
  unfold changeState
  cases st <;> simp <;> split <;> simp

theorem trace_changeState (c : Cfg) (s : Sess) (st : LState) : Trace s (changeState c s st) :=
  trace_silent s (changeState c s st).1 (changeState c s st).2 (changeState_store c s st) (changeState_outCounter c s st) (changeState_msgs c s st)

theorem trace_processIncSeq (s : Sess) (m : InMsg) : Trace s (processIncSeq s m) := by
  rw [processIncSeq_eq]
  split
  · exact trace_map s (s.send _) (fun x => { x with inCounter := m.hdrSeq }) rfl rfl (trace_send s _)
  · exact trace_silent s _ _ rfl rfl rfl

theorem trace_reject (c : Cfg) (s : Sess) (m : InMsg) : Trace s (rejectMessage c s m) := trace_send s _

theorem trace_sendReject (s : Sess) (a b d : Int) : Trace s (sendReject s a b d) := trace_send s _

theorem trace_logonOk (c : Cfg) (s2 : Sess) (m : InMsg) (b : OutBody) :
    Trace s2 (andThen (andThen (changeState c s2 .successfulLogged) (fun s => s.send b)) (fun s => processIncSeq s m)) := by
  apply trace_andThen
  · apply trace_andThen
    · exact trace_changeState c _ _
    · exact trace_send _ _
  · exact trace_processIncSeq _ _

theorem trace_onLogon (c : Cfg) (s : Sess) (m : InMsg) : Trace s (onLogon c s m) := by
  unfold onLogon
  split
  · exact trace_reject c s m
  · split
    · -- waitingLogon
      simp only
      split
      · refine trace_from s _ _ ?_ ?_ (trace_sendReject _ _ _ _) <;> rfl
      · split
        · refine trace_from s _ _ ?_ ?_ (trace_sendReject _ _ _ _) <;> rfl
        · split
          · refine trace_from s _ _ ?_ ?_ (trace_sendReject _ _ _ _) <;> rfl
          · refine trace_from s _ _ ?_ ?_ (trace_logonOk c _ m _) <;> rfl
    · apply trace_andThen
      · exact trace_changeState c _ _
      · exact trace_processIncSeq _ _
    · exact trace_sendReject _ _ _ _
    · exact trace_silent s s [] rfl rfl rfl

theorem trace_onLogout (c : Cfg) (s : Sess) (m : InMsg) : Trace s (onLogout c s m) := by
  unfold onLogout
  split
  · exact trace_reject c s m
  · simp only
    apply trace_map s _ (backToWaiting c) rfl rfl
    split
    · exact trace_andThen s _ _ (trace_changeState c _ _) (trace_changeState c _ _)
    · exact trace_andThen s _ _ (trace_changeState c _ _) (trace_send _ _)
    · exact trace_reject c s m

theorem trace_onHeartbeat (c : Cfg) (s : Sess) (m : InMsg) : Trace s (onHeartbeat c s m) := by
  unfold onHeartbeat
  split
  · exact trace_reject c s m
  · split
    · exact trace_reject c s m
    · exact trace_silent s s [] rfl rfl rfl

theorem trace_onTestRequest (c : Cfg) (s : Sess) (m : InMsg) : Trace s (onTestRequest c s m) := by
  unfold onTestRequest
  split
  · exact trace_reject c s m
  · split
    · exact trace_reject c s m
    · exact trace_send s _

theorem trace_onResendRequest (c : Cfg) (s : Sess) (m : InMsg) : Trace s (onResendRequest c s m) := by
  unfold onResendRequest
  split
  · exact trace_reject c s m
  · split
    · exact trace_reject c s m
    · simp only
      split
      · exact trace_silent s s [] rfl rfl rfl
      · exact trace_silent s s _ rfl rfl (msgsOf_map_resend _)

theorem trace_onInbound (c : Cfg) (s : Sess) (m : InMsg) : Trace s (onInbound c s m) := by
  rw [onInbound_eq]
  have hs : (pre s m).store = s.store := by simp
  have hc : (pre s m).outCounter = s.outCounter := by simp
  cases m.kind <;> simp only
  · exact trace_from s _ _ hs hc (trace_onLogon c _ m)
  · exact trace_from s _ _ hs hc (trace_onLogout c _ m)
  · exact trace_from s _ _ hs hc (trace_onHeartbeat c _ m)
  · exact trace_from s _ _ hs hc (trace_onTestRequest c _ m)
  · exact trace_from s _ _ hs hc (trace_onResendRequest c _ m)
  · exact trace_silent s _ [] hs hc rfl

theorem trace_step (c : Cfg) (s : Sess) (e : Ev) : Trace s (step c s e) := by
  cases e with
  | inbound m =>
    simp only [step]; split
    · exact trace_silent s s [] rfl rfl rfl
    · exact trace_onInbound c s m
  | inboundNoType => simp only [step]; split <;> exact trace_silent s _ [] rfl rfl rfl
  | appSend t => exact trace_send s _
  | localLogout =>
    exact trace_andThen s (changeState c s .waitingLogoutAnswer) (fun s => s.send .logout) (trace_changeState c _ _) (trace_send _ _)
  | localStop =>
    exact trace_map s _ (fun x => { x with stopArmed := true }) rfl rfl
      (trace_andThen s (changeState c s .waitingLogoutAnswer) (fun s => s.send .logout) (trace_changeState c _ _) (trace_send _ _))
  | closeDeadline => simp only [step]; split <;> exact trace_silent s _ _ rfl rfl rfl
  | inTimer =>
    simp only [step]
    split
    · exact trace_silent s s [] rfl rfl rfl
    · split
      · exact trace_changeState c s _
      · refine trace_from s _ _ ?_ ?_ (trace_send _ _) <;> rfl
  | outTimer =>
    simp only [step]
    split
    · exact trace_silent s s [] rfl rfl rfl
    · exact trace_send s _

theorem trace_run (c : Cfg) (s : Sess) (es : List Ev) : Trace s (run c s es) := by
  induction es generalizing s with
  | nil => exact trace_silent s s [] rfl rfl rfl
  | cons e es ih =>
    have h1 := trace_step c s e
    have h2 := ih (step c s e).1
    exact trace_andThen s (step c s e) (fun s' => run c s' es) h1 h2
