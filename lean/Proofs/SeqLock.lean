import FixModel.Sched.SeqLock
/-! the numbering invariant is preserved by every scheduling decision -/

theorem set_self (s : SLSt) (t : Nat) (x : TS) : s.set t x t = x := by simp [SLSt.set]
theorem set_other (s : SLSt) (t u : Nat) (x : TS) (h : u ≠ t) : s.set t x u = s.ts u := by simp [SLSt.set, h]

theorem range'_snoc (a n : Nat) : List.range' a (n + 1) = List.range' a n ++ [a + n] := by
  rw [List.range'_concat]; simp

theorem slStep_inv (c0 : Nat) (s : SLSt) (t : Nat) (h : SLInv c0 s) : SLInv c0 (slStep s t) := by
  obtain ⟨hcrit, hq, hc1, hc2⟩ := h
  unfold slStep
  split
  · -- pc = 0 : lock
    rename_i hpc
    split
    · rename_i hfree
      refine ⟨?_, hq, ?_, ?_⟩
      · intro u
        by_cases hu : u = t
        · subst hu; simp [SLSt.set]
        · simp only [SLSt.set, hu, ite_false]
          have := hcrit u
          rw [hfree] at this
          constructor
          · intro hh; exact absurd (this.mp hh) (by simp)
          · intro hh; simp at hh; exact absurd hh.symm hu
      · intro u hu hp
        simp at hu; subst hu
        simp [SLSt.set] at hp
      · intro _
        apply hc2
        intro u hu; rw [hfree] at hu; cases hu
    · exact ⟨hcrit, hq, hc1, hc2⟩
  · -- pc = 1 : fetch
    rename_i hpc
    have hown : s.owner = some t := (hcrit t).mp (by omega)
    have hcnt : s.counter = c0 + s.queue.length := by
      apply hc2; intro u hu; rw [hown] at hu; cases hu; omega
    refine ⟨?_, hq, ?_, ?_⟩
    · intro u
      by_cases hu : u = t
      · subst hu; simp [SLSt.set, hown]
      · simp only [SLSt.set, hu, ite_false]; exact hcrit u
    · intro u hu _
      rw [hown] at hu; cases hu
      simp [SLSt.set, hcnt]
    · intro hne
      exact absurd (by simp [SLSt.set]) (hne t hown)
  · -- pc = 2 : enqueue
    rename_i hpc
    have hown : s.owner = some t := (hcrit t).mp (by omega)
    obtain ⟨hcnt, hmy⟩ := hc1 t hown hpc
    refine ⟨?_, ?_, ?_, ?_⟩
    · intro u
      by_cases hu : u = t
      · subst hu; simp [SLSt.set, hown]
      · simp only [SLSt.set, hu, ite_false]; exact hcrit u
    · simp only [List.length_append, List.length_singleton]
      rw [range'_snoc, ← hq, hmy, hcnt]
      simp; omega
    · intro u hu hp
      rw [hown] at hu; cases hu
      simp [SLSt.set] at hp
    · intro _
      simp [hcnt]; omega
  · -- pc = 3 : unlock
    rename_i hpc
    have hown : s.owner = some t := (hcrit t).mp (by omega)
    have hcnt : s.counter = c0 + s.queue.length := by
      apply hc2; intro u hu; rw [hown] at hu; cases hu; omega
    refine ⟨?_, hq, ?_, ?_⟩
    · intro u
      by_cases hu : u = t
      · subst hu; simp [SLSt.set]
      · simp only [SLSt.set, hu, ite_false]
        constructor
        · intro hh
          have := (hcrit u).mp hh
          rw [hown] at this; cases this; exact absurd rfl hu
        · intro hh; cases hh
    · intro u hu; cases hu
    · intro _; exact hcnt
  · exact ⟨hcrit, hq, hc1, hc2⟩

theorem slRun_inv (c0 : Nat) (s : SLSt) (sched : List Nat) (h : SLInv c0 s) : SLInv c0 (slRun s sched) := by
  induction sched generalizing s with
  | nil => exact h
  | cons t ts ih => exact ih _ (slStep_inv c0 s t h)
