import FixModel.Value
import Proofs.Digits
import Proofs.Damage
/-!
# TimeCodec — the `20060102-15:04:05.000` rendering is a fixed point of the parser

`timeFmt` is the text `time.Time.Format(fix.TimeLayout)` gives for a UTC instant at millisecond precision with a
four-digit year (the correspondence harness compares it with Go's formatter).  `timeCanon_fmt`: the model of
`time.Parse` accepts that text and re-renders it unchanged, so `NewTime` values meet `Val.Canon` without any
hypothesis; `timeCanon_idem`: whatever text the parser accepts, the canonical rendering it stores is itself
accepted and stable, so a decoded Time re-serializes to a text that parses to the same value.
-/

/-- a calendar instant: what `time.Date(y, mo, d, h, mi, s, ms*1e6, time.UTC)` leaves unnormalised -/
structure TimeOK (y mo d h mi s ms : Nat) : Prop where
  hy : y < 10000
  hmo : 1 ≤ mo ∧ mo ≤ 12
  hd : 1 ≤ d ∧ d ≤ daysIn mo y
  hh : h < 24
  hmi : mi < 60
  hs : s < 60
  hms : ms < 1000

theorem daysIn_le (mo y : Nat) : daysIn mo y ≤ 31 := by
  unfold daysIn; split
  · split <;> omega
  · split <;> omega

theorem getnum2_two (n : Nat) (h : n < 100) (rest : Bytes) :
    getnum2 (twoDigits n ++ rest) = some (n, rest) := by
  have h1 : n / 10 < 10 := by omega
  have h2 : n % 10 < 10 := by omega
  simp only [twoDigits, List.cons_append, List.nil_append, getnum2, isDigit_digitChar _ h1, isDigit_digitChar _ h2,
    digitVal_digitChar _ h1, digitVal_digitChar _ h2, Bool.and_self, if_true]
  congr 2; omega

theorem getnum12_two (n : Nat) (h : n < 100) (rest : Bytes) :
    getnum12 (twoDigits n ++ rest) = some (n, rest) := by
  have h1 : n / 10 < 10 := by omega
  have h2 : n % 10 < 10 := by omega
  simp only [twoDigits, List.cons_append, List.nil_append, getnum12, isDigit_digitChar _ h1, isDigit_digitChar _ h2,
    digitVal_digitChar _ h1, digitVal_digitChar _ h2, if_true]
  congr 2; omega

theorem expectByte_cons (b : UInt8) (rest : Bytes) : expectByte b (b :: rest) = some rest := by
  simp [expectByte]

theorem four_val (y : Nat) (hy : y < 10000) :
    digitVal (digitChar (y / 1000)) * 1000 + digitVal (digitChar (y / 100 % 10)) * 100
      + digitVal (digitChar (y / 10 % 10)) * 10 + digitVal (digitChar (y % 10)) = y := by
  rw [digitVal_digitChar _ (by omega), digitVal_digitChar _ (by omega), digitVal_digitChar _ (by omega),
    digitVal_digitChar _ (by omega)]
  omega

theorem three_val (n : Nat) (hn : n < 1000) :
    digitVal (digitChar (n / 100)) * 100 + digitVal (digitChar (n / 10 % 10)) * 10 + digitVal (digitChar (n % 10)) = n := by
  rw [digitVal_digitChar _ (by omega), digitVal_digitChar _ (by omega), digitVal_digitChar _ (by omega)]
  omega

theorem getYear_four (y : Nat) (hy : y < 10000) (rest : Bytes) :
    getYear (fourDigits y ++ rest) = some (y, rest) := by
  simp only [fourDigits, List.cons_append, List.nil_append, getYear,
    isDigit_digitChar _ (show y / 1000 < 10 by omega), isDigit_digitChar _ (show y / 100 % 10 < 10 by omega),
    isDigit_digitChar _ (show y / 10 % 10 < 10 by omega), isDigit_digitChar _ (show y % 10 < 10 by omega),
    Bool.and_self, if_true, four_val y hy]

theorem getMillis_three (ms : Nat) (hms : ms < 1000) : getMillis (46 :: threeDigits ms) = some ms := by
  simp only [threeDigits, getMillis, isDigit_digitChar _ (show ms / 100 < 10 by omega),
    isDigit_digitChar _ (show ms / 10 % 10 < 10 by omega), isDigit_digitChar _ (show ms % 10 < 10 by omega),
    Bool.and_self, if_true, three_val ms hms, decide_true, Bool.true_or]

theorem timeCanon_fmt (y mo d h mi s ms : Nat) (ok : TimeOK y mo d h mi s ms) :
    timeCanon (timeFmt y mo d h mi s ms) = some (timeFmt y mo d h mi s ms) := by
  obtain ⟨hy, hmo, hd, hh, hmi, hs, hms⟩ := ok
  have hd31 := daysIn_le mo y
  unfold timeCanon timeFmt
  simp only [List.append_assoc, List.cons_append, List.nil_append]
  have e1 : mo < 100 := by omega
  have e2 : d < 100 := by omega
  have e3 : h < 100 := by omega
  have e4 : mi < 100 := by omega
  have e5 : s < 100 := by omega
  have c1 : check (!(decide (mo = 0) || decide (mo > 12))) = some () := by
    have : ¬ mo = 0 := by omega
    have : ¬ mo > 12 := by omega
    simp [check, *]
  have c3 : check (decide (h < 24)) = some () := by simp [check, hh]
  have c4 : check (decide (mi < 60)) = some () := by simp [check, hmi]
  have c5 : check (decide (s < 60)) = some () := by simp [check, hs]
  have c6 : check (decide (1 ≤ d) && decide (d ≤ daysIn mo y)) = some () := by simp [check, hd.1, hd.2]
  simp only [Option.bind_eq_bind, Option.bind_some, getYear_four _ hy, getnum2_two _ e1, getnum2_two _ e2,
    getnum12_two _ e3, getnum2_two _ e4, getnum2_two _ e5, expectByte_cons, c1, c3, c4, c5, c6,
    getMillis_three _ hms]
  simp only [fourDigits, threeDigits, List.cons_append, List.nil_append]

theorem digitVal_le (c : UInt8) (h : isDigit c = true) : digitVal c ≤ 9 := by
  simp only [isDigit, Bool.and_eq_true, decide_eq_true_eq, UInt8.le_iff_toNat_le] at h
  simp only [digitVal]
  have : (57 : UInt8).toNat = 57 := rfl
  omega

theorem getnum2_lt (s : Bytes) (n : Nat) (r : Bytes) (h : getnum2 s = some (n, r)) : n < 100 := by
  unfold getnum2 at h
  split at h
  · split at h
    · rename_i a b rest hc
      simp only [Bool.and_eq_true] at hc
      have := digitVal_le a hc.1
      have := digitVal_le b hc.2
      simp only [Option.some.injEq, Prod.mk.injEq] at h
      omega
    · cases h
  · cases h

theorem getnum12_lt (s : Bytes) (n : Nat) (r : Bytes) (h : getnum12 s = some (n, r)) : n < 100 := by
  unfold getnum12 at h
  split at h
  · rename_i a b rest
    split at h
    · rename_i ha
      have := digitVal_le a ha
      split at h
      · rename_i hb
        have := digitVal_le b hb
        simp only [Option.some.injEq, Prod.mk.injEq] at h
        omega
      · simp only [Option.some.injEq, Prod.mk.injEq] at h
        omega
    · cases h
  · split at h
    · rename_i a ha
      have := digitVal_le a ha
      simp only [Option.some.injEq, Prod.mk.injEq] at h
      omega
    · cases h
  · cases h

theorem check_some (b : Bool) (u : Unit) (h : check b = some u) : b = true := by
  cases b
  · simp [check] at h
  · rfl

theorem getYear_lt (s : Bytes) (y : Nat) (r : Bytes) (h : getYear s = some (y, r)) : y < 10000 := by
  unfold getYear at h
  split at h
  · split at h
    · rename_i a b c d rest hc
      simp only [Bool.and_eq_true] at hc
      have := digitVal_le a hc.1.1.1
      have := digitVal_le b hc.1.1.2
      have := digitVal_le c hc.1.2
      have := digitVal_le d hc.2
      simp only [Option.some.injEq, Prod.mk.injEq] at h
      omega
    · cases h
  · cases h

theorem getMillis_lt (s : Bytes) (n : Nat) (h : getMillis s = some n) : n < 1000 := by
  unfold getMillis at h
  split at h
  · split at h
    · split at h
      · rename_i p a b c _ hc
        simp only [Bool.and_eq_true] at hc
        have := digitVal_le a hc.1.1
        have := digitVal_le b hc.1.2
        have := digitVal_le c hc.2
        simp only [Option.some.injEq] at h
        omega
      · split at h
        · rename_i p a b c _ _ hc
          simp only [Bool.and_eq_true] at hc
          have := digitVal_le b hc.1.2
          have := digitVal_le c hc.2
          simp only [Option.some.injEq] at h
          omega
        · split at h
          · simp only [Option.some.injEq] at h
            omega
          · cases h
    · cases h
  · cases h

/-- every text the parser accepts is re-rendered as the formatting of a calendar instant -/
theorem timeCanon_shape (s t : Bytes) (h : timeCanon s = some t) :
    ∃ y mo d hh mi sec ms, TimeOK y mo d hh mi sec ms ∧ t = timeFmt y mo d hh mi sec ms := by
  unfold timeCanon at h
  simp only [Option.bind_eq_bind] at h
  obtain ⟨⟨y, r0⟩, h0, h⟩ := Option.bind_eq_some_iff.mp h
  obtain ⟨⟨mo, r1⟩, h1, h⟩ := Option.bind_eq_some_iff.mp h
  obtain ⟨_, cmo, h⟩ := Option.bind_eq_some_iff.mp h
  obtain ⟨⟨dd, r2⟩, h2, h⟩ := Option.bind_eq_some_iff.mp h
  obtain ⟨r3, h3, h⟩ := Option.bind_eq_some_iff.mp h
  obtain ⟨⟨hh, r4⟩, h4, h⟩ := Option.bind_eq_some_iff.mp h
  obtain ⟨_, chh, h⟩ := Option.bind_eq_some_iff.mp h
  obtain ⟨r5, h5, h⟩ := Option.bind_eq_some_iff.mp h
  obtain ⟨⟨mi, r6⟩, h6, h⟩ := Option.bind_eq_some_iff.mp h
  obtain ⟨_, cmi, h⟩ := Option.bind_eq_some_iff.mp h
  obtain ⟨r7, h7, h⟩ := Option.bind_eq_some_iff.mp h
  obtain ⟨⟨sec, r8⟩, h8, h⟩ := Option.bind_eq_some_iff.mp h
  obtain ⟨_, csec, h⟩ := Option.bind_eq_some_iff.mp h
  obtain ⟨ms, hms, h⟩ := Option.bind_eq_some_iff.mp h
  obtain ⟨_, cdd, h⟩ := Option.bind_eq_some_iff.mp h
  have cmo := check_some _ _ cmo
  have chh := check_some _ _ chh
  have cmi := check_some _ _ cmi
  have csec := check_some _ _ csec
  have cdd := check_some _ _ cdd
  simp only [Bool.not_eq_true', Bool.or_eq_false_iff, decide_eq_false_iff_not, decide_eq_true_eq, Bool.and_eq_true] at cmo chh cmi csec cdd
  refine ⟨y, mo, dd, hh, mi, sec, ms, ⟨getYear_lt _ _ _ h0, by omega, cdd, chh, cmi, csec, getMillis_lt _ _ hms⟩, ?_⟩
  simp only [Option.some.injEq] at h
  rw [← h]
  simp [timeFmt, fourDigits, threeDigits]

/-- the canonical rendering is a fixed point: what a decoded Time serializes to parses to the same value -/
theorem timeCanon_idem (s t : Bytes) (h : timeCanon s = some t) : timeCanon t = some t := by
  obtain ⟨y, mo, d, hh, mi, sec, ms, ok, rfl⟩ := timeCanon_shape s t h
  exact timeCanon_fmt _ _ _ _ _ _ _ ok

example : TimeOK 2024 2 29 23 59 59 999 := ⟨by decide, by decide, by decide, by decide, by decide, by decide, by decide⟩
-- "20240229-23:59:59.999"
example : timeFmt 2024 2 29 23 59 59 999 = [50,48,50,52,48,50,50,57,45,50,51,58,53,57,58,53,57,46,57,57,57] := by decide
