import FixModel.StoreAlias
/-!
# StoreAlias — with a fresh object per send a resend is exact; with a re-used object it is not (C10)
-/
namespace StoreAlias

/-- the first transmission under number `k` -/
def firstTx (s : St) (k : Nat) : Option Content := if k = 0 then none else s.wire[k - 1]?

/-- what the store yields for number `k` now -/
def stored (s : St) (k : Nat) : Option Content := (s.slots.lookup k).bind fun o => s.objs.lookup o

structure Inv (s : St) : Prop where
  len : s.wire.length + 1 = s.next
  same : ∀ k, 1 ≤ k → k < s.next → stored s k = firstTx s k
  seq : ∀ k c, firstTx s k = some c → c.seq = k
  keys : ∀ k o, s.slots.lookup k = some o → k < s.next

theorem lookup_filter_ne (objs : List (Nat × Content)) (o o' : Nat) (h : o' ≠ o) :
    (objs.filter (·.1 != o)).lookup o' = objs.lookup o' := by
  induction objs with
  | nil => rfl
  | cons p ps ih =>
    by_cases hp : p.1 = o
    · have : (p.1 != o) = false := by simp [hp]
      have hne : (o' == p.1) = false := by rw [hp]; simpa using h
      simp only [List.filter_cons, this, Bool.false_eq_true, if_false, List.lookup, hne, ih]
    · have : (p.1 != o) = true := by simpa using hp
      simp only [List.filter_cons, this, if_true, List.lookup, ih]

theorem lookup_mem (l : List (Nat × Nat)) (k o : Nat) (h : l.lookup k = some o) : o ∈ l.map (·.2) := by
  induction l with
  | nil => simp [List.lookup] at h
  | cons p ps ih =>
    simp only [List.lookup] at h
    split at h
    · simp at h; simp [h]
    · simp [ih h]

theorem send_inv (s : St) (o body : Nat) (hi : Inv s) (hfresh : o ∉ s.slots.map (·.2)) : Inv (send s o body) := by
  obtain ⟨hlen, hsame, hseq, hkeys⟩ := hi
  constructor
  · simp [send]; omega
  · intro k hk1 hk2
    simp only [send] at hk2
    unfold stored firstTx send
    simp only
    have hk0 : ¬ k = 0 := by omega
    simp only [hk0, if_false]
    by_cases hk : k = s.next
    · subst hk
      simp only [List.lookup, beq_self_eq_true, Option.bind_some, setObj]
      have : s.next - 1 = s.wire.length := by omega
      rw [this]; simp
    · have hne : (k == s.next) = false := by simpa using hk
      simp only [List.lookup, hne]
      have hklt : k < s.next := by omega
      have := hsame k hk1 hklt
      unfold stored firstTx at this
      simp only [hk0, if_false] at this
      cases hl : s.slots.lookup k with
      | none =>
        rw [hl] at this
        simp only [Option.bind_none] at this ⊢
        rw [List.getElem?_append_left (by omega)]
        exact this
      | some o' =>
        rw [hl] at this
        simp only [Option.bind_some] at this ⊢
        have ho' : o' ≠ o := fun e => hfresh (e ▸ lookup_mem _ _ _ hl)
        have hoo : (o' == o) = false := by simpa using ho'
        simp only [setObj, List.lookup, hoo]
        rw [lookup_filter_ne _ _ _ ho', this, List.getElem?_append_left (by omega)]
  · intro k c hc
    unfold firstTx send at hc
    simp only at hc
    split at hc
    · simp at hc
    · rename_i hk0
      by_cases hk : k - 1 < s.wire.length
      · rw [List.getElem?_append_left hk] at hc
        apply hseq k c
        unfold firstTx; simp [hk0, hc]
      · have hge : s.wire.length ≤ k - 1 := by omega
        rw [List.getElem?_append_right hge] at hc
        cases hd : k - 1 - s.wire.length with
        | zero => simp [hd] at hc; subst hc; simp; omega
        | succ d => simp [hd] at hc
  · intro k o' hl
    simp only [send, List.lookup] at hl ⊢
    split at hl
    · rename_i hb; simp at hb; omega
    · have := hkeys k o' hl; omega

theorem run_inv : ∀ (sends : List (Nat × Nat)) (s : St), Inv s → (sends.map (·.1)).Nodup →
    (∀ o ∈ sends.map (·.1), o ∉ s.slots.map (·.2)) → Inv (sends.foldl (fun s ob => send s ob.1 ob.2) s)
  | [], s, hi, _, _ => hi
  | (o, b) :: rest, s, hi, hnd, hfresh => by
    simp only [List.map_cons, List.nodup_cons] at hnd
    apply run_inv rest (send s o b) (send_inv s o b hi (hfresh o (by simp))) hnd.2
    intro o' ho' hmem
    simp only [send, List.map_cons, List.mem_cons] at hmem
    rcases hmem with rfl | hmem
    · exact hnd.1 ho'
    · exact hfresh o' (by simp [ho']) hmem

theorem init_inv : Inv {} := by
  constructor
  · rfl
  · intro k h1 h2; simp at h2; omega
  · intro k c h; unfold firstTx at h; split at h <;> simp at h
  · intro k o h; simp [List.lookup] at h

end StoreAlias

namespace StoreAlias

/-- what the property demands: the first transmissions under the numbers b..e, in ascending order -/
def wantedFirst (s : St) (b e : Nat) : List Content :=
  let hi := if e = 0 then s.next - 1 else e
  if b = 0 ∨ b > hi ∨ hi ≥ s.next then []
  else (List.range (hi + 1 - b)).filterMap fun i => firstTx s (b + i)

theorem filterMap_congr' {α β} (f g : α → Option β) : ∀ l : List α, (∀ x ∈ l, f x = g x) → l.filterMap f = l.filterMap g
  | [], _ => rfl
  | a :: as, h => by
    simp only [List.filterMap_cons, h a (by simp)]
    rw [filterMap_congr' f g as (fun x hx => h x (by simp [hx]))]

theorem resend_exact_of_inv (s : St) (hi : Inv s) (b e : Nat) : resend s b e = wantedFirst s b e := by
  unfold resend wantedFirst
  simp only
  generalize (if e = 0 then s.next - 1 else e) = hi'
  by_cases hc : b = 0 ∨ b > hi' ∨ hi' ≥ s.next
  · simp [hc]
  · simp only [hc, if_false]
    apply filterMap_congr'
    intro i hiR
    have hlt := List.mem_range.mp hiR
    have := hi.same (b + i) (by omega) (by omega)
    unfold stored at this
    exact this

end StoreAlias
