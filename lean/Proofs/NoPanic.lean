import FixModel
/-!
# NoPanic — every checked slice expression of the decoder model is in bounds (C11)

`Res.panic` is what a Go run-time panic (slice bounds out of range, index out of range) is in
the model. This file proves, for *every* byte string and every template, that the decoder, the
integrity check and `ValueByTag` never produce it. Termination is not a lemma here: every
function of the model is accepted by Lean as total (`splitGroup` by a decreasing-length argument).
-/

namespace Res
theorem bind_ne_panic {α β} (a : Res α) (f : α → Res β)
    (ha : a ≠ .panic) (hf : ∀ x, a = .ok x → f x ≠ .panic) : (a >>= f) ≠ .panic := by
  cases a with
  | ok x => exact hf x rfl
  | err => simp
  | panic => exact absurd rfl ha
end Res

theorem isPrefixOf_length_le : ∀ (p s : Bytes), p.isPrefixOf s = true → p.length ≤ s.length
  | [], _, _ => by simp
  | _ :: _, [], h => by simp [List.isPrefixOf] at h
  | a :: p, b :: s, h => by
    simp only [List.isPrefixOf, Bool.and_eq_true] at h
    have := isPrefixOf_length_le p s h.2
    simp; omega

theorem indexOf_bound (pat : Bytes) : ∀ (s : Bytes) (i : Nat), indexOf pat s = some i → i + pat.length ≤ s.length
  | [], i, h => by
    unfold indexOf at h
    split at h
    · rename_i hp; simp at h; subst h; simp [hp]
    · simp at h
  | c :: cs, i, h => by
    unfold indexOf at h
    split at h
    · rename_i hp
      simp at h; subst h
      have := isPrefixOf_length_le _ _ hp
      simpa using this
    · cases hi : indexOf pat cs with
      | none => simp [hi] at h
      | some j =>
        simp [hi] at h; subst h
        have := indexOf_bound pat cs j hi
        simp; omega

theorem indexByte_bound (b : UInt8) : ∀ (s : Bytes) (i : Nat), indexByte b s = some i → i < s.length
  | [], i, h => by simp [indexByte] at h
  | c :: cs, i, h => by
    unfold indexByte at h
    split at h
    · simp at h; subst h; simp
    · cases hi : indexByte b cs with
      | none => simp [hi] at h
      | some j =>
        simp [hi] at h; subst h
        have := indexByte_bound b cs j hi
        simp; omega

theorem fieldIndex_bound (data key : Bytes) (ki : Nat) (h : fieldIndex data key = some ki) :
    ki + (key.length + 1) ≤ data.length := by
  unfold fieldIndex at h
  simp only at h
  split at h
  · rename_i hp
    simp at h; subst h
    have := isPrefixOf_length_le _ _ hp
    simpa using this
  · cases hi : indexOf (SOH :: (key ++ [EQ])) data with
    | none => simp [hi] at h
    | some j =>
      simp [hi] at h; subst h
      have := indexOf_bound _ _ _ hi
      simp at this; omega

theorem sliceFrom_ne_panic (s : Bytes) (n : Nat) (h : n ≤ s.length) : sliceFrom s (n : Int) = .ok (s.drop n) := by
  unfold sliceFrom
  have : (0 : Int) ≤ n ∧ (n : Int) ≤ s.length := by omega
  simp [this]

theorem sliceTo_ne_panic (s : Bytes) (n : Nat) (h : n ≤ s.length) : sliceTo s (n : Int) = .ok (s.take n) := by
  unfold sliceTo
  have : (0 : Int) ≤ n ∧ (n : Int) ≤ s.length := by omega
  simp [this]

theorem scanValue_ne_panic (data key : Bytes) : scanValue data key ≠ .panic := by
  unfold scanValue
  split
  · simp
  · rename_i ki hki
    have hb := fieldIndex_bound data key ki hki
    have e : ((ki : Int) + ((key.length + 1 : Nat) : Int)) = ((ki + (key.length + 1) : Nat) : Int) := by omega
    rw [e, sliceFrom_ne_panic _ _ hb]
    simp only [Res.bind_ok]
    generalize hd : data.drop (ki + (key.length + 1)) = d
    cases he : indexByte SOH d with
    | none => simp [sliceTo_ne_panic d d.length (Nat.le_refl _)]
    | some e =>
      have := indexByte_bound _ _ _ he
      simp [sliceTo_ne_panic d e (Nat.le_of_lt this)]

theorem scanKV_ne_panic (data key : Bytes) (v : Val) : scanKV data key v ≠ .panic := by
  unfold scanKV
  apply Res.bind_ne_panic _ _ (scanValue_ne_panic data key)
  intro x _
  cases x with
  | none => simp
  | some b => simp only []; split <;> simp

theorem splitGroup_ne_panic (firstTag : Bytes) (hf : firstTag ≠ []) :
    ∀ (n : Nat) (line : Bytes), line.length = n → line ≠ [] → splitGroup firstTag line ≠ .panic := by
  intro n
  induction n using Nat.strongRecOn with
  | _ n ih =>
    intro line hn hne
    cases line with
    | nil => exact absurd rfl hne
    | cons c rest =>
      rw [splitGroup]
      cases hi : indexOf firstTag rest with
      | none => simp
      | some next =>
        have hb := indexOf_bound _ _ _ hi
        have hpos : 0 < firstTag.length := by
          cases firstTag with
          | nil => exact absurd rfl hf
          | cons _ _ => simp
        have hlen : ((c :: rest).drop (next + 1)).length < n := by
          simp [List.length_drop] at *; omega
        have hne' : (c :: rest).drop (next + 1) ≠ [] := by
          intro h
          have := congrArg List.length h
          simp [List.length_drop] at this; omega
        have := ih _ hlen _ rfl hne'
        simp only
        cases hs : splitGroup firstTag ((c :: rest).drop (next + 1)) with
        | ok tl => simp
        | err => simp
        | panic => exact absurd hs this

theorem mapRes_ne_panic {α β} (f : α → Res β) (hf : ∀ a, f a ≠ .panic) : ∀ l : List α, mapRes f l ≠ .panic
  | [] => by simp [mapRes]
  | a :: as => by
    unfold mapRes
    cases h : f a with
    | ok b =>
      have := mapRes_ne_panic f hf as
      cases h2 : mapRes f as with
      | ok bs => simp
      | err => simp
      | panic => exact absurd h2 this
    | err => simp
    | panic => exact absurd h (hf a)

theorem unmGroupBody_ne_panic (parseEntry : Bytes → Res (List Item)) (hp : ∀ s, parseEntry s ≠ .panic)
    (data n : Bytes) (t0 : List Item) (es0 : List (List Item)) :
    unmGroupBody parseEntry data n t0 es0 ≠ .panic := by
  unfold unmGroupBody
  apply Res.bind_ne_panic _ _ (scanKV_ne_panic _ _ _)
  intro cntV _
  simp only
  split
  · simp
  · rename_i startNoTag hsi
    have hb := fieldIndex_bound _ _ _ hsi
    rw [sliceFrom_ne_panic data startNoTag (by omega)]
    simp only [Res.bind_ok]
    split
    · simp
    · rename_i startFirst hsf
      have hsfb := indexByte_bound _ _ _ hsf
      simp only [List.length_drop] at hsfb
      rw [sliceFrom_ne_panic data (startNoTag + startFirst) (by omega)]
      simp only [Res.bind_ok]
      split
      · simp
      · rename_i endFirst hef
        have hefb := indexByte_bound _ _ _ hef
        rw [sliceTo_ne_panic _ (endFirst + 1) (by omega)]
        simp only [Res.bind_ok]
        generalize hA : data.drop (startNoTag + startFirst) = arr at *
        have hne : arr ≠ [] := by
          intro h; subst h; simp at hefb
        have hft : arr.take (endFirst + 1) ≠ [] := by
          intro h
          have := congrArg List.length h
          simp only [List.length_take, List.length_nil] at this; omega
        apply Res.bind_ne_panic _ _ (splitGroup_ne_panic _ hft _ _ rfl hne)
        intro items _
        split
        · simp
        · split
          · simp
          · apply Res.bind_ne_panic _ _ (mapRes_ne_panic _ hp _)
            intro _ _; simp

mutual
  theorem Item.unm_ne_panic : ∀ (i : Item) (fresh : Bool) (data : Bytes), i.unm fresh data ≠ .panic
    | .kv k v, fresh, data => by
        rw [Item.unm]
        apply Res.bind_ne_panic _ _ (scanKV_ne_panic _ _ _)
        intro _ _; simp
    | .comp items, fresh, data => by
        rw [Item.unm]
        apply Res.bind_ne_panic _ _ (unmList_ne_panic items fresh data)
        intro _ _; simp
    | .group n t es, fresh, data => by
        rw [Item.unm]
        exact unmGroupBody_ne_panic _ (fun s => unmList_ne_panic t true s) _ _ _ _
  theorem unmList_ne_panic : ∀ (is : List Item) (fresh : Bool) (data : Bytes), unmList is fresh data ≠ .panic
    | [], _, _ => by simp [unmList]
    | i :: is, fresh, data => by
        rw [unmList]
        apply Res.bind_ne_panic _ _ (Item.unm_ne_panic i fresh data)
        intro _ _
        apply Res.bind_ne_panic _ _ (unmList_ne_panic is fresh data)
        intro _ _; simp
end

theorem byteAt_ne_panic (s : Bytes) (i : Int) (h0 : 0 ≤ i) (h1 : i < s.length) : byteAt s i ≠ .panic := by
  unfold byteAt
  simp only [h0, if_true]
  have : i.toNat < s.length := by omega
  rw [List.getElem?_eq_getElem this]
  simp

theorem sliceTo_int_ne_panic (s : Bytes) (i : Int) (h0 : 0 ≤ i) (h1 : i ≤ s.length) : sliceTo s i ≠ .panic := by
  unfold sliceTo
  simp [h0, h1]

theorem validateFrame_ne_panic (d head tail csText : Bytes) (n : Int) (hh : head.length ≥ 1) (ht : tail.length ≥ 1) :
    validateFrame d head tail csText n ≠ .panic := by
  unfold validateFrame
  split
  · simp
  · rename_i hlen
    split
    · simp
    · split
      · simp
      · apply Res.bind_ne_panic _ _ (byteAt_ne_panic _ _ (by omega) (by omega)); intro last _
        split
        · simp
        · split
          · simp
          · apply Res.bind_ne_panic _ _ (sliceTo_int_ne_panic _ _ (by omega) (by omega)); intro pre _
            split <;> simp

theorem validateRaw_ne_panic (m : Msg) (d : Bytes) : validateRaw m d ≠ .panic := by
  unfold validateRaw
  apply Res.bind_ne_panic _ _ (scanKV_ne_panic _ _ _); intro bs _
  apply Res.bind_ne_panic _ _ (scanKV_ne_panic _ _ _); intro bl _
  apply Res.bind_ne_panic _ _ (scanKV_ne_panic _ _ _); intro cs _
  split
  · simp
  · split
    · simp
    · split
      · exact validateFrame_ne_panic _ _ _ _ _ (by simp; omega) (by simp)
      · simp

theorem Msg.unmarshalItems_ne_panic (m : Msg) (d : Bytes) : m.unmarshalItems d ≠ .panic := by
  unfold Msg.unmarshalItems
  apply Res.bind_ne_panic _ _ (scanKV_ne_panic _ _ _); intro _ _
  apply Res.bind_ne_panic _ _ (scanKV_ne_panic _ _ _); intro _ _
  apply Res.bind_ne_panic _ _ (scanKV_ne_panic _ _ _); intro _ _
  apply Res.bind_ne_panic _ _ (unmList_ne_panic _ _ _); intro _ _
  apply Res.bind_ne_panic _ _ (unmList_ne_panic _ _ _); intro _ _
  apply Res.bind_ne_panic _ _ (unmList_ne_panic _ _ _); intro _ _
  apply Res.bind_ne_panic _ _ (scanKV_ne_panic _ _ _); intro _ _
  simp

theorem Msg.unmarshal_ne_panic (m : Msg) (d : Bytes) : m.unmarshal d ≠ .panic := by
  unfold Msg.unmarshal
  apply Res.bind_ne_panic _ _ (validateRaw_ne_panic _ _); intro _ _
  apply Res.bind_ne_panic _ _ (Msg.unmarshalItems_ne_panic _ _); intro _ _
  split <;> simp

theorem valueByTag_ne_panic (msg tag : Bytes) : valueByTag msg tag ≠ .panic := by
  unfold valueByTag
  simp only
  split
  · simp
  · rename_i hlen
    rw [sliceTo_ne_panic msg (tag.length + 1) (by omega)]
    simp only [Res.bind_ok]
    split
    · simp
    · rename_i hcond
      -- the start offset is within the message
      have hstart : ∃ st : Nat, idxInt (indexOf (SOH :: tag ++ [EQ]) msg) + (tag.length : Int) + 2 = (st : Int) ∧ st ≤ msg.length := by
        cases hi : indexOf (SOH :: tag ++ [EQ]) msg with
        | none =>
          refine ⟨tag.length + 1, ?_, by omega⟩
          simp [idxInt]; omega
        | some i =>
          have := indexOf_bound _ _ _ hi
          refine ⟨i + tag.length + 2, ?_, ?_⟩
          · simp [idxInt]
          · simp at this; omega
      obtain ⟨st, hst, hle⟩ := hstart
      rw [hst, sliceFrom_ne_panic msg st hle]
      simp only [Res.bind_ok]
      unfold sliceRange
      cases he : indexByte SOH (msg.drop st) with
      | none =>
        have : (0 : Int) ≤ st ∧ (st : Int) ≤ (msg.length : Int) ∧ (msg.length : Int) ≤ msg.length := by omega
        simp [this]
      | some e =>
        have hb := indexByte_bound _ _ _ he
        simp only [List.length_drop] at hb
        have : (0 : Int) ≤ st ∧ (st : Int) ≤ (e : Int) + st ∧ (e : Int) + st ≤ msg.length := by omega
        simp [this]
