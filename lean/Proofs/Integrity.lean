import Proofs.Leaves
/-!
# Integrity — `validateRaw` accepts only strings whose BodyLength and CheckSum agree with their bytes (C03)
-/

theorem indexByte_none_notMem (b : UInt8) : ∀ s : Bytes, indexByte b s = none → b ∉ s
  | [], _ => by simp
  | c :: cs, h => by
    unfold indexByte at h
    split at h
    · simp at h
    · rename_i hc
      cases hi : indexByte b cs with
      | none =>
        have := indexByte_none_notMem b cs hi
        simp only [List.mem_cons, not_or]
        exact ⟨fun e => hc e.symm, this⟩
      | some j => simp [hi] at h

theorem indexByte_some_notMem (b : UInt8) : ∀ (s : Bytes) (i : Nat), indexByte b s = some i → b ∉ s.take i
  | [], i, h => by simp [indexByte] at h
  | c :: cs, i, h => by
    unfold indexByte at h
    split at h
    · simp at h; subst h; simp
    · rename_i hc
      cases hi : indexByte b cs with
      | none => simp [hi] at h
      | some j =>
        simp [hi] at h; subst h
        have := indexByte_some_notMem b cs j hi
        simp only [List.take_succ_cons, List.mem_cons, not_or]
        exact ⟨fun e => hc e.symm, this⟩

/-- the value cut out by `scanKeyValue` never contains the delimiter -/
theorem scanValue_sohFree (d k b : Bytes) (h : scanValue d k = .ok (some b)) : SOH ∉ b := by
  unfold scanValue at h
  split at h
  · simp at h
  · rename_i ki hki
    have hb := fieldIndex_bound d k ki hki
    have e : ((ki : Int) + ((k.length + 1 : Nat) : Int)) = ((ki + (k.length + 1) : Nat) : Int) := by omega
    rw [e, sliceFrom_ne_panic _ _ hb] at h
    simp only [Res.bind_ok] at h
    generalize hd : d.drop (ki + (k.length + 1)) = dd at h
    cases he : indexByte SOH dd with
    | none =>
      simp only [he] at h
      rw [sliceTo_ne_panic dd dd.length (Nat.le_refl _)] at h
      simp at h; subst h
      exact indexByte_none_notMem SOH dd he
    | some e' =>
      simp only [he] at h
      have := indexByte_bound _ _ _ he
      rw [sliceTo_ne_panic dd e' (Nat.le_of_lt this)] at h
      simp at h; subst h
      exact indexByte_some_notMem SOH dd e' he

/-- `scanKeyValue` into a fresh Raw value: either the field is absent (value stays nil) or the value is the
    SOH-free text that was cut out -/
theorem scanKV_raw (d k : Bytes) (v : Val) (h : scanKV d k (Val.newRaw none) = .ok v) :
    v.kind = .raw ∧ SOH ∉ v.text := by
  unfold scanKV at h
  cases hs : scanValue d k with
  | panic => simp [hs] at h
  | err => simp [hs] at h
  | ok o =>
    simp only [hs, Res.bind_ok] at h
    cases o with
    | none => simp at h; subst h; simp [Val.newRaw]
    | some b =>
      simp [Val.fromBytes, Val.newRaw] at h
      subst h
      exact ⟨rfl, scanValue_sohFree d k b hs⟩

/-- everything the framing half of `validateRaw` has established when it returns nil -/
structure FrameOK (d head tail csText : Bytes) (n : Int) : Prop where
  len_ok : head.length + tail.length ≤ d.length
  pre : head.isPrefixOf d = true
  suf : tail.isSuffixOf d = true
  last : d[d.length - tail.length - 1]? = some SOH
  len_eq : (d.length : Int) - head.length - tail.length = n
  sum : csText = calcCheckSum (d.take (d.length - tail.length - 1))

theorem validateFrame_ok_inv (d head tail csText : Bytes) (n : Int) (hh : head.length ≥ 1) (ht : tail.length ≥ 1)
    (h : validateFrame d head tail csText n = .ok ()) : FrameOK d head tail csText n := by
  unfold validateFrame at h
  split at h
  · simp at h
  · rename_i hlen
    split at h
    · simp at h
    · rename_i hpre
      split at h
      · simp at h
      · rename_i hsuf
        have eidx : ((head.length : Int) + ((d.length : Int) - (head.length : Int) - (tail.length : Int)) - 1)
            = ((d.length - tail.length - 1 : Nat) : Int) := by omega
        simp only [eidx] at h
        cases hb : byteAt d ((d.length - tail.length - 1 : Nat) : Int) with
        | panic => simp [hb] at h
        | err => simp [hb] at h
        | ok last =>
          simp only [hb, Res.bind_ok] at h
          split at h
          · simp at h
          · rename_i hlast
            split at h
            · simp at h
            · rename_i hleq
              rw [sliceTo_ne_panic _ _ (by omega)] at h
              simp only [Res.bind_ok] at h
              split at h
              · simp at h
              · rename_i hsum
                simp only [ne_eq, Decidable.not_not] at hlast hleq hsum
                refine ⟨Nat.le_of_not_lt hlen, by simpa using hpre, by simpa using hsuf, ?_, hleq, hsum⟩
                unfold byteAt at hb
                simp only [Int.natCast_nonneg, if_true, Int.toNat_natCast] at hb
                split at hb
                · rename_i bb hbb
                  simp at hb; subst hb; rw [hbb, hlast]
                · simp at hb

/-- everything `validateRaw` has established when it returns nil -/
structure Accepted (m : Msg) (d : Bytes) where
  bsv : Bytes
  blv : Bytes
  csv : Bytes
  n : Int
  bsv_soh : SOH ∉ bsv
  blv_soh : SOH ∉ blv
  csv_soh : SOH ∉ csv
  atoi_bl : atoi blv = some n
  frame : FrameOK d (tagValue m.bsTag bsv ++ SOH :: tagValue m.blTag blv ++ [SOH]) (tagValue m.csTag csv ++ [SOH]) csv n

theorem kvBytes_some (k : Bytes) (v : Val) (x : Bytes) (h : kvBytes k v = some x) : x = tagValue k v.text := by
  rw [kvBytes_eq] at h
  split at h
  · simp at h; exact h.symm
  · simp at h

theorem validateRaw_ok_inv (m : Msg) (d : Bytes) (h : validateRaw m d = .ok ()) : Nonempty (Accepted m d) := by
  unfold validateRaw at h
  cases h1 : scanKV d m.bsTag (Val.newRaw none) with
  | panic => simp [h1] at h
  | err => simp [h1] at h
  | ok bs =>
  cases h2 : scanKV d m.blTag (Val.newRaw none) with
  | panic => simp [h1, h2] at h
  | err => simp [h1, h2] at h
  | ok bl =>
  cases h3 : scanKV d m.csTag (Val.newRaw none) with
  | panic => simp [h1, h2, h3] at h
  | err => simp [h1, h2, h3] at h
  | ok cs =>
  simp only [h1, h2, h3, Res.bind_ok] at h
  obtain ⟨k1, s1⟩ := scanKV_raw d m.bsTag bs h1
  obtain ⟨k2, s2⟩ := scanKV_raw d m.blTag bl h2
  obtain ⟨k3, s3⟩ := scanKV_raw d m.csTag cs h3
  split at h
  · simp at h
  · rename_i blb hblb
    have hblb' : blb = bl.text := by
      unfold Val.toBytes at hblb
      rw [k2] at hblb
      simp only at hblb
      split at hblb
      · simp at hblb; exact hblb.symm
      · simp at hblb
    subst hblb'
    split at h
    · simp at h
    · rename_i n hn
      split at h
      · rename_i bsB blB csB e1 e2 e3
        have := kvBytes_some _ _ _ e1
        have := kvBytes_some _ _ _ e2
        have := kvBytes_some _ _ _ e3
        subst_vars
        exact ⟨{ bsv := bs.text, blv := bl.text, csv := cs.text, n := n, bsv_soh := s1, blv_soh := s2, csv_soh := s3,
                 atoi_bl := hn, frame := validateFrame_ok_inv _ _ _ _ _ (by simp; omega) (by simp) h }⟩
      · simp at h

theorem joinF_splitSOH : ∀ w : Bytes, joinF (splitSOH w) = w ++ [SOH]
  | [] => by simp [splitSOH, joinF]
  | c :: cs => by
    rw [splitSOH_cons]
    have ih := joinF_splitSOH cs
    cases hs : splitSOH cs with
    | nil => exact absurd hs (splitSOH_ne_nil cs)
    | cons p ps =>
      rw [hs] at ih
      by_cases hc : c = SOH
      · subst hc
        simp only [if_true, joinF, List.nil_append] at ih ⊢
        rw [ih]; simp
      · simp only [hc, if_false, joinF, List.cons_append] at ih ⊢
        rw [ih]

theorem splitTag_tagValue (k v : Bytes) (hk : EQ ∉ k) : splitTag (tagValue k v) = some (k, v) := by
  have hp : (k ++ [EQ]).isPrefixOf (tagValue k v) = true := by
    unfold tagValue
    induction k with
    | nil => simp [List.isPrefixOf]
    | cons c cs ih =>
      have hcs : EQ ∉ cs := by intro h; exact hk (by simp [h])
      simp [List.isPrefixOf, ih hcs]
  rw [splitTag_drop k _ hk hp]
  unfold tagValue
  simp

/-- a string that ends with SOH (or is empty) is `joinF` of SOH-free fields -/
theorem fields_of_terminated (w : Bytes) (h : w = [] ∨ ∃ w', w = w' ++ [SOH]) :
    ∃ M : List Bytes, w = joinF M ∧ ∀ g ∈ M, SOH ∉ g := by
  rcases h with h | ⟨w', h⟩
  · exact ⟨[], by simp [h, joinF], by simp⟩
  · exact ⟨splitSOH w', by rw [h, joinF_splitSOH], fun g hg => splitSOH_sohFree w' g hg⟩

theorem sumBytes_take_succ (d : Bytes) (i : Nat) (b : UInt8) (h : d[i]? = some b) :
    sumBytes (d.take (i + 1)) = sumBytes (d.take i) + b.toNat := by
  have hi : i < d.length := by
    rcases Nat.lt_or_ge i d.length with h' | h'
    · exact h'
    · rw [List.getElem?_eq_none h'] at h; simp at h
  rw [List.take_add_one, h]
  simp

theorem integrity_core (bsTag blTag csTag bsv blv csv d : Bytes) (n : Int)
    (t1 : SOH ∉ bsTag) (t2 : SOH ∉ blTag) (t3 : SOH ∉ csTag) (e1 : EQ ∉ bsTag) (e2 : EQ ∉ blTag) (e3 : EQ ∉ csTag)
    (s1 : SOH ∉ bsv) (s2 : SOH ∉ blv) (s3 : SOH ∉ csv) (ha : atoi blv = some n)
    (hf : FrameOK d (tagValue bsTag bsv ++ SOH :: tagValue blTag blv ++ [SOH]) (tagValue csTag csv ++ [SOH]) csv n) :
    integrityOK bsTag blTag csTag d = true := by
  obtain ⟨hlen, hpre, hsuf, hlast, hleq, hsum⟩ := hf
  generalize hH : tagValue bsTag bsv ++ SOH :: tagValue blTag blv ++ [SOH] = H at *
  generalize hT : tagValue csTag csv ++ [SOH] = T at *
  have hHlen : H.length = (tagValue bsTag bsv).length + (tagValue blTag blv).length + 2 := by
    rw [← hH]; simp; omega
  have hTlen : T.length = (tagValue csTag csv).length + 1 := by rw [← hT]; simp
  -- d = H ++ mid ++ T
  obtain ⟨r1, hr1⟩ := List.isPrefixOf_iff_prefix.mp hpre
  obtain ⟨r2, hr2⟩ := List.isSuffixOf_iff_suffix.mp hsuf
  have hr2len : r2.length = d.length - T.length := by
    have := congrArg List.length hr2; simp at this; omega
  have hex : ∃ mid, d = H ++ mid ++ T := by
    have hboth : H ++ r1 = r2 ++ T := hr1.trans hr2.symm
    rcases List.append_eq_append_iff.mp hboth with ⟨a', ha1, _⟩ | ⟨c', hc1, _⟩
    · exact ⟨a', by rw [← hr2, ha1]⟩
    · have hc : c' = [] := by
        have := congrArg List.length hc1
        simp at this
        apply List.eq_nil_of_length_eq_zero; omega
      subst hc
      exact ⟨[], by rw [← hr2, hc1]; simp⟩
  obtain ⟨mid, hd⟩ := hex
  have hmidlen : mid.length = d.length - H.length - T.length := by
    have := congrArg List.length hd
    simp at this; omega
  -- the byte before T is SOH, so H ++ mid ends with SOH
  have hmidTerm : mid = [] ∨ ∃ w', mid = w' ++ [SOH] := by
    rcases List.eq_nil_or_concat mid with h | ⟨w', b, h⟩
    · exact Or.inl h
    · right
      rw [List.concat_eq_append] at h
      refine ⟨w', ?_⟩
      have hidx : d.length - T.length - 1 = H.length + w'.length := by
        have := congrArg List.length h; simp at this; omega
      have hb : d[H.length + w'.length]? = some b := by
        rw [hd, h, List.append_assoc, List.getElem?_append_right (by omega)]
        have e : H.length + w'.length - H.length = w'.length := by omega
        rw [e, List.append_assoc, List.getElem?_append_right (by omega)]
        simp
      rw [hidx, hb] at hlast
      simp at hlast
      rw [h, hlast]
  obtain ⟨M, hM, hMs⟩ := fields_of_terminated mid hmidTerm
  have hfields : d = joinF ([tagValue bsTag bsv, tagValue blTag blv] ++ M ++ [tagValue csTag csv]) := by
    rw [hd, joinF_append, joinF_append, ← hM, ← hH, ← hT]
    simp [joinF]
  have hsoh : ∀ g ∈ [tagValue bsTag bsv, tagValue blTag blv] ++ M ++ [tagValue csTag csv], SOH ∉ g := by
    intro g hg
    simp only [List.mem_append, List.mem_cons, List.not_mem_nil, or_false] at hg
    rcases hg with ((hg | hg) | hg) | hg
    · rw [hg]; exact tagValue_sohFree _ _ t1 s1
    · rw [hg]; exact tagValue_sohFree _ _ t2 s2
    · exact hMs g hg
    · rw [hg]; exact tagValue_sohFree _ _ t3 s3
  have hwf := wireFields_joinF _ hsoh
  rw [← hfields] at hwf
  unfold integrityOK
  rw [hwf]
  simp only [List.cons_append, List.nil_append, List.reverse_append, List.reverse_cons, List.reverse_nil]
  simp only [splitTag_tagValue _ _ e1, splitTag_tagValue _ _ e2, splitTag_tagValue _ _ e3]
  -- arithmetic facts
  have hbefore : d.length - ((tagValue csTag csv).length + 1) = H.length + mid.length := by
    rw [hd]; simp; omega
  have hpos : H.length + mid.length ≥ 1 := by omega
  have hlast' : d[H.length + mid.length - 1]? = some SOH := by
    have : d.length - T.length - 1 = H.length + mid.length - 1 := by omega
    rw [← this]; exact hlast
  have hsum' : sumBytes (d.take (H.length + mid.length)) = sumBytes (d.take (H.length + mid.length - 1)) + 1 := by
    have := sumBytes_take_succ d (H.length + mid.length - 1) SOH hlast'
    have e : H.length + mid.length - 1 + 1 = H.length + mid.length := by omega
    rw [e] at this
    rw [this]; rfl
  have hcs : csv = pad3 (natDigits (sumBytes (d.take (H.length + mid.length)) % 256)) := by
    have : d.length - T.length - 1 = H.length + mid.length - 1 := by omega
    rw [hsum, this, hsum']
    rfl
  simp only [hbefore, beq_self_eq_true, Bool.true_and]
  have hbody : ((H.length + mid.length : Nat) : Int) - (((tagValue bsTag bsv).length + 1 : Nat) : Int)
      - (((tagValue blTag blv).length + 1 : Nat) : Int) = n := by
    rw [← hleq]; omega
  rw [hbody, ha, ← hcs]
  simp
