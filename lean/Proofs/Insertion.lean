import Proofs.Damage
/-!
# Insertion — which single-byte insertions (and, by symmetry, deletions) keep a string integrity-correct (C03)

Exactly one kind: a NUL byte (value 0: it changes no sum) inside the *value* of the first field (it is outside
the counted body). This is the known finding F-C03-nul-beginstring; every other insertion or deletion is rejected.
-/

theorem parseNatAux_digits : ∀ (s : Bytes) (acc n : Nat), parseNatAux s acc = some n → ∀ c ∈ s, isDigit c = true
  | [], _, _, _, c, hc => by simp at hc
  | d :: ds, acc, n, h, c, hc => by
    simp only [parseNatAux] at h
    split at h
    · rename_i hd
      simp only [List.mem_cons] at hc
      rcases hc with rfl | hc
      · exact hd
      · exact parseNatAux_digits ds _ n h c hc
    · simp at h

theorem isDigit_ne_zero (c : UInt8) (h : isDigit c = true) : c ≠ 0 := by
  intro e; subst e; simp [isDigit] at h

theorem atoi_no_nul (v : Bytes) (n : Int) (h : atoi v = some n) : (0 : UInt8) ∉ v := by
  unfold atoi at h
  cases v with
  | nil => simp at h
  | cons c cs =>
    simp only at h
    have hd : ∀ (s : Bytes), (∃ k, parseNat s = some k) → (0 : UInt8) ∉ s := by
      intro s ⟨k, hk⟩ hmem
      unfold parseNat at hk
      split at hk
      · simp at hk
      · exact isDigit_ne_zero 0 (parseNatAux_digits s 0 k hk 0 hmem) rfl
    split at h
    · rename_i hc
      cases hp : parseNat cs with
      | none => simp [hp] at h
      | some k =>
        intro hmem
        simp only [List.mem_cons] at hmem
        rcases hmem with e | hmem
        · rw [← e] at hc; exact absurd hc (by decide)
        · exact hd cs ⟨k, hp⟩ hmem
    · split at h
      · rename_i hc
        cases hp : parseNat cs with
        | none => simp [hp] at h
        | some k =>
          intro hmem
          simp only [List.mem_cons] at hmem
          rcases hmem with e | hmem
          · rw [← e] at hc; exact absurd hc (by decide)
          · exact hd cs ⟨k, hp⟩ hmem
      · cases hp : parseNat (c :: cs) with
        | none => simp [hp] at h
        | some k => exact hd (c :: cs) ⟨k, hp⟩

/-- the tag of a field with a byte inserted in its tag part is another tag -/
theorem splitTag_insert_tag (f t v : Bytes) (x : UInt8) (p : Nat) (hx : x ≠ EQ) (ht : EQ ∉ t)
    (hs : splitTag f = some (t, v)) (hp : p ≤ t.length) :
    ∃ t' v', splitTag (f.take p ++ x :: f.drop p) = some (t', v') ∧ t'.length = t.length + 1 := by
  have hf := splitTag_some f t v hs
  subst hf
  have e1 : (t ++ EQ :: v).take p = t.take p := by rw [List.take_append_of_le_length hp]
  have e2 : (t ++ EQ :: v).drop p = t.drop p ++ EQ :: v := by rw [List.drop_append_of_le_length hp]
  rw [e1, e2]
  have hform : t.take p ++ x :: (t.drop p ++ EQ :: v) = (t.take p ++ x :: t.drop p) ++ EQ :: v := by simp
  rw [hform]
  have hne : EQ ∉ t.take p ++ x :: t.drop p := by
    simp only [List.mem_append, List.mem_cons, not_or]
    exact ⟨fun h => ht (List.mem_of_mem_take h), fun h => hx h.symm, fun h => ht (List.mem_of_mem_drop h)⟩
  refine ⟨t.take p ++ x :: t.drop p, v, ?_, ?_⟩
  · have := splitTag_tagValue (t.take p ++ x :: t.drop p) v hne
    unfold tagValue at this
    exact this
  · simp; omega

/-! ### list surgery -/

theorem prefix_split (X Y P Q : Bytes) (h : X ++ Y = P ++ Q) (hl : P.length ≤ X.length) :
    ∃ X2, X = P ++ X2 ∧ Q = X2 ++ Y := by
  rcases List.append_eq_append_iff.mp h with ⟨a', ha1, ha2⟩ | ⟨c', hc1, hc2⟩
  · -- P = X ++ a'
    have : a' = [] := by
      have := congrArg List.length ha1; simp at this
      apply List.eq_nil_of_length_eq_zero; omega
    subst this
    exact ⟨[], by simpa using ha1.symm, by simpa using ha2.symm⟩
  · exact ⟨c', hc1, hc2⟩

theorem prefix_split' (X Y P Q : Bytes) (h : X ++ Y = P ++ Q) (hl : X.length ≤ P.length) :
    ∃ P2, P = X ++ P2 ∧ Y = P2 ++ Q := by
  obtain ⟨P2, h1, h2⟩ := prefix_split P Q X Y h.symm hl
  exact ⟨P2, h1, h2⟩

theorem last_soh_of_A {bs bl cs d : Bytes} (s : Shape bs bl cs d) : ∃ A0, s.A = A0 ++ [SOH] := by
  unfold Shape.A
  rcases s.bterm with hB | ⟨B0, hB⟩
  · exact ⟨s.f0 ++ SOH :: s.f1, by rw [hB]⟩
  · exact ⟨s.f0 ++ SOH :: s.f1 ++ SOH :: B0, by rw [hB]; simp⟩

theorem uint8_zero_of_mod (x : UInt8) (a b : Nat) (h : (a + x.toNat + b) % 256 = (a + b) % 256) : x = 0 := by
  have hx := x.toNat_lt
  apply UInt8.toNat_inj.mp
  show x.toNat = 0
  omega

theorem vl_of_C_eq (cs v v' : Bytes) (h : cs ++ EQ :: v ++ [SOH] = cs ++ EQ :: v' ++ [SOH]) : v = v' := by
  have h' : cs ++ (EQ :: v ++ [SOH]) = cs ++ (EQ :: v' ++ [SOH]) := by simpa [List.append_assoc] using h
  have := List.append_cancel_left h'
  simpa using this

/-- a byte other than SOH inserted into `f SOH R` (f SOH-free): either it lands in the first field, or the first
    field is untouched and it lands in the rest -/
theorem field_insert (f R X Y f' R' : Bytes) (x : UInt8) (hx : x ≠ SOH) (hf : SOH ∉ f) (hf' : SOH ∉ f')
    (h : X ++ Y = f ++ SOH :: R) (h' : X ++ x :: Y = f' ++ SOH :: R') :
    (X.length ≤ f.length ∧ f' = f.take X.length ++ x :: f.drop X.length ∧ R' = R) ∨
    (f.length < X.length ∧ ∃ X2, X = f ++ SOH :: X2 ∧ f' = f ∧ R = X2 ++ Y ∧ R' = X2 ++ x :: Y) := by
  by_cases hl : X.length ≤ f.length
  · left
    obtain ⟨P2, h1, h2⟩ := prefix_split' X Y f (SOH :: R) h hl
    have hg : SOH ∉ X ++ x :: P2 := by
      simp only [List.mem_append, List.mem_cons, not_or]
      refine ⟨fun hm => hf (by rw [h1]; simp [hm]), fun e => hx e.symm, fun hm => hf (by rw [h1]; simp [hm])⟩
    have e' : (X ++ x :: P2) ++ SOH :: R = f' ++ SOH :: R' := by
      rw [← h', h2]; simp
    obtain ⟨a, b⟩ := first_field_eq _ _ _ _ hg hf' e'
    refine ⟨hl, ?_, b.symm⟩
    rw [← a, h1]
    simp
  · right
    have hl' : f.length < X.length := by omega
    have hre : X ++ Y = (f ++ [SOH]) ++ R := by rw [h]; simp
    obtain ⟨X2, h1, h2⟩ := prefix_split X Y (f ++ [SOH]) R hre (by simp; omega)
    have hX : X = f ++ SOH :: X2 := by rw [h1]; simp
    have e' : f ++ SOH :: (X2 ++ x :: Y) = f' ++ SOH :: R' := by
      rw [← h', hX]; simp
    obtain ⟨a, b⟩ := first_field_eq _ _ _ _ hf hf' e'
    exact ⟨hl', X2, hX, a.symm, h2, b.symm⟩

theorem sumBytes_insert (X Y : Bytes) (x : UInt8) : sumBytes (X ++ x :: Y) = sumBytes X + x.toNat + sumBytes Y := by
  simp [Nat.add_assoc]

/-- **insertion**: if a string and the string with one byte inserted are both integrity-correct, the byte is NUL and
    it sits inside the value of the first (BeginString) field -/
theorem insertion_char' (bs bl cs X Y d d' : Bytes) (x : UInt8) (hd : d = X ++ Y) (hdi : d' = X ++ x :: Y)
    (hcs : SOH ∉ cs) (hbs : EQ ∉ bs) (hbl : EQ ∉ bl)
    (h1 : integrityOK bs bl cs d = true) (h2 : integrityOK bs bl cs d' = true) :
    x = 0 ∧ ∃ s : Shape bs bl cs d, bs.length + 1 ≤ X.length ∧ X.length ≤ s.f0.length := by
  obtain ⟨s⟩ := integrityOK_shape _ _ _ _ h1
  obtain ⟨s'⟩ := integrityOK_shape _ _ _ _ h2
  have l1 := s.A_len
  have l2 := s'.A_len
  have hAlen : s'.A.length = s.A.length + 1 := by
    have a := congrArg List.length hd
    have b := congrArg List.length hdi
    simp at a b; omega
  have e1 : X ++ Y = s.A ++ (cs ++ EQ :: s.vl ++ [SOH]) := hd.symm.trans s.eqA
  have e2 : X ++ x :: Y = s'.A ++ (cs ++ EQ :: s'.vl ++ [SOH]) := hdi.symm.trans s'.eqA
  by_cases hcase : X.length ≤ s.A.length
  · -- the byte is inserted before the CheckSum field: the two CheckSum fields are the same bytes
    obtain ⟨P2, hA, hY⟩ := prefix_split' X Y s.A _ e1 hcase
    -- d' = X ++ x :: P2 ++ C, and |A'| = |X ++ x :: P2|
    have hd' : (X ++ x :: P2) ++ (cs ++ EQ :: s.vl ++ [SOH]) = s'.A ++ (cs ++ EQ :: s'.vl ++ [SOH]) := by
      rw [← e2, hY]; simp
    have hlenA' : (X ++ x :: P2).length = s'.A.length := by
      rw [hAlen, hA]; simp; omega
    have hA' : s'.A = X ++ x :: P2 := by
      have := List.append_inj hd' hlenA'
      exact this.1.symm
    have hC : cs ++ EQ :: s.vl ++ [SOH] = cs ++ EQ :: s'.vl ++ [SOH] := (List.append_inj hd' hlenA').2
    have hvl : s.vl = s'.vl := vl_of_C_eq cs _ _ hC
    -- sums
    have hs := s.sum
    have hs' := s'.sum
    rw [hvl] at hs
    have hinj := pad3_natDigits_inj _ _ (hs.symm.trans hs')
    change sumBytes s.A % 256 = sumBytes s'.A % 256 at hinj
    rw [hA, hA', sumBytes_insert, sumBytes_append] at hinj
    have hx0 : x = 0 := uint8_zero_of_mod x (sumBytes X) (sumBytes P2) hinj.symm
    have hxS : x ≠ SOH := by rw [hx0]; decide
    have hxE : x ≠ EQ := by rw [hx0]; decide
    refine ⟨hx0, s, ?_⟩
    -- where does it land?
    have hdR : X ++ Y = s.f0 ++ SOH :: (s.f1 ++ SOH :: s.B ++ (cs ++ EQ :: s.vl ++ [SOH])) := by
      rw [e1]; unfold Shape.A; simp
    have hdR' : X ++ x :: Y = s'.f0 ++ SOH :: (s'.f1 ++ SOH :: s'.B ++ (cs ++ EQ :: s'.vl ++ [SOH])) := by
      rw [e2]; unfold Shape.A; simp
    rcases field_insert _ _ X Y _ _ x hxS s.f0_soh s'.f0_soh hdR hdR' with ⟨hle, hf0', _⟩ | ⟨hlt, X2, hX, hf0', hR, hR'⟩
    · -- in the first field: not in its tag part
      refine ⟨?_, hle⟩
      by_cases hp : X.length ≤ bs.length
      · exfalso
        obtain ⟨t', v', hst, hlen⟩ := splitTag_insert_tag s.f0 bs s.v0 x X.length hxE hbs s.tag0 hp
        rw [← hf0', s'.tag0] at hst
        simp at hst
        rw [← hst.1] at hlen
        omega
      · omega
    · -- after the first field: impossible
      exfalso
      have hR2 : X2 ++ Y = s.f1 ++ SOH :: (s.B ++ (cs ++ EQ :: s.vl ++ [SOH])) := by rw [← hR]; simp
      have hR2' : X2 ++ x :: Y = s'.f1 ++ SOH :: (s'.B ++ (cs ++ EQ :: s'.vl ++ [SOH])) := by rw [← hR']; simp
      rcases field_insert _ _ X2 Y _ _ x hxS s.f1_soh s'.f1_soh hR2 hR2' with ⟨hle, hf1', hRR⟩ | ⟨_, X3, _, hf1', hRR, hRR'⟩
      · -- inside the BodyLength field: its tag changes, or its value is no longer a number
        by_cases hp : X2.length ≤ bl.length
        · obtain ⟨t', v', hst, hlen⟩ := splitTag_insert_tag s.f1 bl s.v1 x X2.length hxE hbl s.tag1 hp
          rw [← hf1', s'.tag1] at hst
          simp at hst
          rw [← hst.1] at hlen
          omega
        · have hf1 := splitTag_some _ _ _ s.tag1
          have hf1s := splitTag_some _ _ _ s'.tag1
          have hk : bl.length + 1 ≤ X2.length := by omega
          -- f1' = bl ++ EQ :: (v1 with the byte inserted)
          have htk : s.f1.take X2.length = bl ++ EQ :: s.v1.take (X2.length - (bl.length + 1)) := by
            rw [hf1, List.take_append, List.take_of_length_le (by omega)]
            have : X2.length - bl.length = (X2.length - (bl.length + 1)) + 1 := by omega
            rw [this]; simp
          have hdk : s.f1.drop X2.length = s.v1.drop (X2.length - (bl.length + 1)) := by
            rw [hf1, List.drop_append, List.drop_eq_nil_of_le (by omega)]
            have : X2.length - bl.length = (X2.length - (bl.length + 1)) + 1 := by omega
            rw [this]; simp
          rw [htk, hdk, hf1s] at hf1'
          have hv : s'.v1 = s.v1.take (X2.length - (bl.length + 1)) ++ x :: s.v1.drop (X2.length - (bl.length + 1)) := by
            have : bl ++ (EQ :: s'.v1) = bl ++ (EQ :: (s.v1.take (X2.length - (bl.length + 1)) ++ x :: s.v1.drop (X2.length - (bl.length + 1)))) := by
              simpa [List.append_assoc] using hf1'
            simpa using List.append_cancel_left this
          have hno := atoi_no_nul s'.v1 _ s'.len
          apply hno
          rw [hv, hx0]; simp
      · -- after the BodyLength field: the body is one byte longer than BodyLength says
        have hv : s'.v1 = s.v1 := by
          have t1 := s.tag1
          have t2 := s'.tag1
          rw [hf1', t1] at t2
          simpa using t2.symm
        have hB : s'.B.length = s.B.length := by
          have a := s.len
          have b := s'.len
          rw [hv, a] at b
          simp at b; omega
        have e3 := congrArg List.length hRR
        have e4 := congrArg List.length hRR'
        have v1 := s.vl_len
        have v2 := s'.vl_len
        simp at e3 e4
        omega
  · -- the byte is inserted inside the CheckSum field: then what precedes the field would not end with a delimiter
    exfalso
    have hlt : s.A.length < X.length := by omega
    obtain ⟨X2, hX, hC⟩ := prefix_split X Y s.A _ e1 (by omega)
    -- s'.A is the first |A|+1 bytes of d', which are A and the first byte of the CheckSum field
    have hX2 : X2 ≠ [] := by
      intro e; subst e; simp at hX; rw [hX] at hlt; omega
    obtain ⟨c0, X3, hX2'⟩ := List.exists_cons_of_ne_nil hX2
    have hd' : (s.A ++ [c0]) ++ (X3 ++ x :: Y) = s'.A ++ (cs ++ EQ :: s'.vl ++ [SOH]) := by
      rw [← e2, hX, hX2']; simp
    have hA' : s'.A = s.A ++ [c0] := ((List.append_inj hd' (by rw [hAlen]; simp)).1).symm
    -- c0 is the first byte of the CheckSum field
    have hc0 : c0 ≠ SOH := by
      rw [hX2'] at hC
      cases cs with
      | nil =>
        simp at hC
        rw [← hC.1]; decide
      | cons c cs' =>
        simp at hC
        rw [← hC.1]
        intro e; exact hcs (by simp [e])
    obtain ⟨A0, hA0⟩ := last_soh_of_A s'
    rw [hA'] at hA0
    have := List.append_inj' hA0 rfl
    simp at this
    exact hc0 this.2

theorem insertion_char (bs bl cs X Y : Bytes) (x : UInt8) (hcs : SOH ∉ cs) (hbs : EQ ∉ bs) (hbl : EQ ∉ bl)
    (h1 : integrityOK bs bl cs (X ++ Y) = true) (h2 : integrityOK bs bl cs (X ++ x :: Y) = true) :
    x = 0 ∧ ∃ s : Shape bs bl cs (X ++ Y), bs.length + 1 ≤ X.length ∧ X.length ≤ s.f0.length :=
  insertion_char' bs bl cs X Y _ _ x rfl rfl hcs hbs hbl h1 h2
