import Driver.Wire
import FixModel.Spec.Codec
import FixModel.SessionBridge
import FixModel.Pool
import FixModel.Framing
import FixModel.Timer
import FixModel.Gen
import FixModel.StoreAlias
import Std.Data.HashMap
/-!
# fixdriver — one operation per input line, one result per output line
-/

def runP {α} (p : P α) (ts : List String) : Option α :=
  match p.run ts with
  | some (a, []) => some a
  | _ => none

def resStr {α} (f : α → String) : Res α → String
  | .ok a => "ok " ++ f a
  | .err => "err"
  | .panic => "panic"

def pf (b : Bool) : String := if b then "pass" else "fail"

/-- "0+,2-,5+" → handlers with explicit ids and verdicts; "-" = none -/
def parseHs (t : String) : Option (List H) :=
  if t = "-" then some [] else
  (t.splitOn ",").mapM fun x =>
    let cs := x.toList
    match cs.reverse with
    | '+' :: r => (String.ofList r.reverse).toNat?.map fun i => { id := i, verdict := true }
    | '-' :: r => (String.ofList r.reverse).toNat?.map fun i => { id := i, verdict := false }
    | _ => none

/-- "0+,2-s,5+s" → message-transforming handlers: `s` after the verdict = the handler stamps the message -/
def parseHsT (t : String) : Option (List (HT Bytes)) :=
  if t = "-" then some [] else
  (t.splitOn ",").mapM fun x =>
    let (cs, stamp) := match x.toList.reverse with
      | 's' :: r => (r, true)
      | r => (r, false)
    match cs with
    | '+' :: r => (String.ofList r.reverse).toNat?.map fun i => stampH i true stamp
    | '-' :: r => (String.ofList r.reverse).toNat?.map fun i => stampH i false stamp
    | _ => none

def idsStr (l : List Nat) : String := ",".intercalate (l.map toString)

def poolOp (args : List String) : Option String :=
  match args with
  | ["out", a, t, ok] =>
    match parseHs a, parseHs t with
    | some allH, some typedH =>
      let r := handlerSend allH typedH (if ok = "1" then some [1] else none)
      some ("log " ++ idsStr r.1 ++ " | enq " ++ (if r.2.isSome then "1" else "0"))
    | _, _ => none
  | ["outm", a, t, ok, d] =>
    -- handlers that may stamp the message; the answer carries the transmitted bytes
    match parseHsT a, parseHsT t, (match d.toList with | 'x' :: r => unhexAux r [] | _ => none) with
    | some allH, some typedH, some data =>
      let r := handlerSendT allH typedH data (fun m => if ok = "1" then some m else none)
      some ("log " ++ idsStr r.1 ++ " | enq " ++ (match r.2 with | some b => "1 " ++ dBytes b | none => "0"))
    | _, _, _ => none
  | ["in", a, t] =>
    match parseHs a, parseHs t with
    | some allH, some typedH => some ("log " ++ idsStr (handlerServe allH typedH))
    | _, _ => none
  | _ => none

/-! ### generator schema parsing -/

def unTilde (s : String) : String := if s = "~" then "" else s

def pStr : P String := do let t ← tok; pure (unTilde t)

def pMemberF : Nat → P Member
  | 0 => failure
  | fuel + 1 => do
    let k ← tok
    let name ← pStr
    let req ← tok
    let n ← pNat
    let ms ← repeatP (pMemberF fuel) n
    let kind ← (match k with | "f" => some MKind.field | "g" => some MKind.group | "c" => some MKind.component | _ => none : Option MKind)
    pure { kind, name, required := req == "Y", members := ms }

def pMembers : P (List Member) := do
  let ts ← get
  let n ← pNat
  repeatP (pMemberF (ts.length + 1)) n

def pSchema : P Schema := do
  let typ ← pStr; let major ← pStr; let minor ← pStr
  let f ← tok; if f ≠ "F" then failure
  let nf ← pNat
  let fields ← repeatP (do
    let number ← pStr; let name ← pStr; let type ← pStr
    let nv ← pNat
    let values ← repeatP (do let e ← pStr; let d ← pStr; pure (e, d)) nv
    pure ({ number, name, type, values } : FieldDef)) nf
  let y ← tok; if y ≠ "Y" then failure
  let ny ← pNat
  let types ← repeatP (do let a ← pStr; let b ← pStr; pure (a, b)) ny
  let h ← tok; if h ≠ "H" then failure
  let hm ← pMembers
  let r ← tok; if r ≠ "R" then failure
  let tm ← pMembers
  let m ← tok; if m ≠ "M" then failure
  let nm ← pNat
  let messages ← repeatP (do let name ← pStr; let mt ← pStr; let ms ← pMembers; pure ({ name, msgType := mt, members := ms } : Comp)) nm
  let c ← tok; if c ≠ "C" then failure
  let nc ← pNat
  let components ← repeatP (do let name ← pStr; let ms ← pMembers; pure ({ name, members := ms } : Comp)) nc
  pure { typ, major, minor, header := { name := "Header", members := hm }, trailer := { name := "Trailer", members := tm },
         messages, components, fields, types }

def stepLine (line : String) : String :=
  match (line.splitOn " ").filter (· ≠ "") with
  | [] => "bad-op"
  | op :: args =>
    let r : Option String :=
      match op with
      | "enc" => runP (do let m ← pMsg; pure ("ok " ++ dBytes m.encode)) args
      | "dec" => runP (do let m ← pMsg; let d ← pBytes; pure (resStr dMsg (m.unmarshal d))) args
      | "vbt" => runP (do let t ← pBytes; let d ← pBytes; pure (resStr dBytes (valueByTag d t))) args
      | "c01" => runP (do
          let bs ← pBytes; let bl ← pBytes; let cs ← pBytes; let mt ← pBytes; let w ← pBytes
          pure (pf (framedOK bs bl cs mt w))) args
      | "c17" => runP (do
          let m ← pMsg; let w ← pBytes
          pure (if !c17Pre m then "skip" else if fieldsOK m w then "pass"
            else if fieldsOKNoTrailer m w then "fail trailer-fields-not-serialized" else "fail")) args
      | "c03" => runP (do
          let bs ← pBytes; let bl ← pBytes; let cs ← pBytes; let d ← pBytes
          pure (pf (integrityOK bs bl cs d))) args
      | "c18" => runP (do
          let t ← pBytes; let d ← pBytes
          pure (match lookupField t (looseFields d) with
            | some v => "some " ++ dBytes v
            | none => "none")) args
      | "tfmt" => runP (do
          let y ← pNat; let mo ← pNat; let d ← pNat; let h ← pNat; let mi ← pNat; let s ← pNat; let ms ← pNat
          pure ("ok " ++ dBytes (timeFmt y mo d h mi s ms))) args
      | "vfb" => runP (do
          let k ← tok; let d ← pBytes
          let kind ← (match k with
            | "str" => some VKind.str | "int" => some .int | "uint" => some .uint | "float" => some .float
            | "time" => some .time | "bool" => some .bool | "raw" => some .raw | _ => none : Option VKind)
          pure (match (Val.blank kind).fromBytes d with
            | none => "err"
            | some v => match v.toBytes with
              | none => "some nil"
              | some b => "some " ++ dBytes b)) args
      | "pool" => poolOp args
      | "alias" =>
        -- s:<obj>:<body> = Send of object <obj> carrying <body>; r:<b>:<e> = ResendRequest b..e (answers separated by |)
        let step (acc : StoreAlias.St × List String) (a : String) : Option (StoreAlias.St × List String) :=
          match a.splitOn ":" with
          | ["s", o, b] => do
              let o ← o.toNat?; let b ← b.toNat?
              pure (StoreAlias.send acc.1 o b, acc.2)
          | ["r", b, e] => do
              let b ← b.toNat?; let e ← e.toNat?
              let r := StoreAlias.resend acc.1 b e
              pure (acc.1, acc.2 ++ [",".intercalate (r.map fun c => toString c.seq ++ ":" ++ toString c.body)])
          | _ => none
        (args.foldlM step (({} : StoreAlias.St), ([] : List String))).map fun r => " | ".intercalate r.2
      | "gen" => runP (do
          let sc ← pSchema
          let lines := (renderGen (gen sc)).toArray.qsort (· < ·) |>.toList
          pure (" ;; ".intercalate lines)) args
      | "timer" =>
        match args.mapM String.toNat? with
        | some (t :: p :: start :: rs) =>
          some (match idealRun t p 100000 { start := start, last := start } rs with
            | some τ => "expiry " ++ toString τ
            | none => "none")
        | _ => none
      | "frame" =>
        match args.mapM (fun a => match a.toList with | 'x' :: r => unhexAux r [] | _ => none) with
        | none => none
        | some chunks =>
          let r := feedChunks RState.idle chunks
          some ("msg" ++ String.join (r.2.map fun m => " " ++ dBytes m) ++ " | rest " ++ dBytes (r.1.msg ++ r.1.seg))
      | _ => none
    r.getD "bad-op"

/-! ### stateful session ops -/

structure SEntry where
  cfg : Cfg
  tmpl : Templates
  sess : Sess

abbrev DState := Std.HashMap String SEntry

def renderMsg (m : OutMsg) : String :=
  "M " ++ " ".intercalate ((renderOut m).map fun (t, v) => String.ofList (t.map (fun c => Char.ofNat c.toNat)) ++ "=" ++ hex v) ++ " ;"

def renderOuts (s : Sess) (outs : List Out) : String :=
  let msgs := outs.filterMap fun o => match o with
    | .msg m => some (renderMsg m)
    | .resend m => some (renderMsg m)
    | _ => none
  let evs := outs.filterMap fun o => match o with
    | .event .logon => some "logon"
    | .event .logoutReq => some "request"
    | .event .logout => some "logout"
    | .event .disconnect => some "disconnect"
    | _ => none
  let b (x : Bool) := if x then "1" else "0"
  " ".intercalate msgs ++ " | E " ++ " ".intercalate evs ++ " | S " ++ b s.isLogged ++ " " ++ b s.cancelled ++ " " ++ b s.routerStopped

def pEncs : P (List Bytes) := do
  let t ← tok
  if t = "-" then pure []
  else
    let parts := t.splitOn ","
    parts.mapM fun p => match p.toList with
      | 'x' :: rest => (unhexAux rest [] : Option Bytes)
      | _ => none

def pOptInt : P (Option Int) := do
  let t ← tok
  if t = "-" then pure none else (t.toInt?.map some : Option (Option Int))

def sessOp (st : DState) (args : List String) : DState × String :=
  match args with
  | "new" :: sid :: rest =>
    let r := runP (do
      let side ← tok
      let carry ← tok
      let encs ← pEncs
      let lo ← pOptInt; let hi ← pOptInt
      let hb ← pInt; let enc ← pBytes; let user ← pBytes; let pass ← pBytes
      let sender ← pBytes; let target ← pBytes
      let inC ← pInt; let outC ← pInt
      let t1 ← pMsg; let t2 ← pMsg; let t3 ← pMsg; let t4 ← pMsg; let t5 ← pMsg
      pure (side, carry, encs, lo, hi, hb, enc, user, pass, sender, target, inC, outC, t1, t2, t3, t4, t5)) rest
    match r with
    | none => (st, "bad-op")
    | some (side, carry, encs, lo, hi, hb, enc, user, pass, sender, target, inC, outC, t1, t2, t3, t4, t5) =>
      let cfg : Cfg := { side := if side = "i" then .initiator else .acceptor, allowedEnc := encs,
                         hbLimits := match lo, hi with | some a, some b => some (a, b) | _, _ => none }
      let (inC, outC, store) := match st.get? carry with
        | some e => (e.sess.inCounter, e.sess.outCounter, e.sess.store)
        | none => (inC, outC, [])
      let (s0, outs) := Sess.init cfg { hb, enc, user, pass, sender, target } inC outC store
      (st.insert sid { cfg, tmpl := ⟨t1, t2, t3, t4, t5⟩, sess := s0 }, renderOuts s0 outs)
  | op :: sid :: rest =>
    match st.get? sid with
    | none => (st, "bad-op")
    | some e =>
      let ev : Option (Option Ev) :=
        match op, rest with
        | "in", [ap, d] =>
          match (match d.toList with | 'x' :: r => unhexAux r [] | _ => none) with
          | none => none
          | some data =>
            match abstractIn e.tmpl (strBytes "35") (strBytes "34") (ap = "1") data with
            | .noType => some (some .inboundNoType)
            | .panic => some none
            | .msg m => some (some (.inbound m))
        | "send", [t] => t.toNat?.map fun n => some (.appSend n)
        | "logout", [] => some (some .localLogout)
        | "stop", [] => some (some .localStop)
        | "deadline", [] => some (some .closeDeadline)
        | "intimer", [] => some (some .inTimer)
        | "outtimer", [] => some (some .outTimer)
        | _, _ => none
      match ev with
      | none => (st, "bad-op")
      | some none => (st, "panic")
      | some (some ev) =>
        let (s1, outs) := step e.cfg e.sess ev
        (st.insert sid { e with sess := s1 }, renderOuts s1 outs)
  | _ => (st, "bad-op")

def stepS (st : DState) (line : String) : DState × String :=
  match (line.splitOn " ").filter (· ≠ "") with
  | "sess" :: args => sessOp st args
  | _ => (st, stepLine line)

partial def loop (hin hout : IO.FS.Stream) (st : DState) : IO Unit := do
  let line ← hin.getLine
  if line.isEmpty then return ()
  let (st', out) := stepS st (line.trimAscii.toString)
  hout.putStrLn out
  loop hin hout st'

def main : IO Unit := do
  let hin ← IO.getStdin
  let hout ← IO.getStdout
  loop hin hout {}
  hout.flush
