import Driver.Wire
import FixModel.Spec.Codec
/-!
# fixdriver — one operation per input line, one result per output line
-/

def runP {α} (p : P α) (ts : List String) : Option α :=
  match p.run ts with
  | some (a, []) => some a
  | _ => none

def resStr {α} (f : α → String) : Res α → String
  | .ok a => "ok " ++ f a
  | .err => "err"
  | .panic => "panic"

def pf (b : Bool) : String := if b then "pass" else "fail"

def step (line : String) : String :=
  match (line.splitOn " ").filter (· ≠ "") with
  | [] => "bad-op"
  | op :: args =>
    let r : Option String :=
      match op with
      | "enc" => runP (do let m ← pMsg; pure ("ok " ++ dBytes m.encode)) args
      | "dec" => runP (do let m ← pMsg; let d ← pBytes; pure (resStr dMsg (m.unmarshal d))) args
      | "vbt" => runP (do let t ← pBytes; let d ← pBytes; pure (resStr dBytes (valueByTag d t))) args
      | "c01" => runP (do
          let bs ← pBytes; let bl ← pBytes; let cs ← pBytes; let mt ← pBytes; let w ← pBytes
          pure (pf (framedOK bs bl cs mt w))) args
      | "c17" => runP (do
          let m ← pMsg; let w ← pBytes
          pure (if !c17Pre m then "skip" else if fieldsOK m w then "pass"
            else if fieldsOKNoTrailer m w then "fail trailer-fields-not-serialized" else "fail")) args
      | "c03" => runP (do
          let bs ← pBytes; let bl ← pBytes; let cs ← pBytes; let d ← pBytes
          pure (pf (integrityOK bs bl cs d))) args
      | "c18" => runP (do
          let t ← pBytes; let d ← pBytes
          pure (match lookupField t (looseFields d) with
            | some v => "some " ++ dBytes v
            | none => "none")) args
      | _ => none
    r.getD "bad-op"

partial def loop (hin hout : IO.FS.Stream) : IO Unit := do
  let line ← hin.getLine
  if line.isEmpty then return ()
  hout.putStrLn (step (line.trimAscii.toString))
  loop hin hout

def main : IO Unit := do
  let hin ← IO.getStdin
  let hout ← IO.getStdout
  loop hin hout
  hout.flush
