import FixModel
/-!
# Wire — token (de)serialisation of model values for the line protocol

Grammar (space separated tokens):
  bytes  ::= "x" hex*
  val    ::= kind ("n" | "v" hex*)          kind ∈ s i u f t b r
  item   ::= "K" bytes val | "G" bytes nt item^nt ne (ni item^ni)^ne | "C" n item^n
  msg    ::= "M" bytes bytes bytes bytes val val val val items items items   (tags bs bl cs mt; vals bs bl mt cs)
  items  ::= n item^n
-/

abbrev P := StateT (List String) Option

def tok : P String := do
  match ← get with
  | [] => failure
  | t :: ts => set ts; pure t

def hexVal (c : Char) : Option Nat :=
  if '0' ≤ c ∧ c ≤ '9' then some (c.toNat - 48)
  else if 'a' ≤ c ∧ c ≤ 'f' then some (c.toNat - 87)
  else none

def unhexAux : List Char → Bytes → Option Bytes
  | [], acc => some acc.reverse
  | [_], _ => none
  | a :: b :: rest, acc => do
    let x ← hexVal a
    let y ← hexVal b
    unhexAux rest (UInt8.ofNat (x * 16 + y) :: acc)

def unhex (s : String) : Option Bytes := unhexAux s.toList []

def hexDigit (n : Nat) : Char := if n < 10 then Char.ofNat (48 + n) else Char.ofNat (87 + n)

def hex (b : Bytes) : String :=
  String.ofList (b.foldr (fun c acc => hexDigit (c.toNat / 16) :: hexDigit (c.toNat % 16) :: acc) [])

def pBytes : P Bytes := do
  let t ← tok
  match t.toList with
  | 'x' :: rest => (unhexAux rest [] : Option Bytes)
  | _ => failure

def pNat : P Nat := do
  let t ← tok
  (t.toNat? : Option Nat)

def pInt : P Int := do
  let t ← tok
  (t.toInt? : Option Int)

def kindOfChar : Char → Option VKind
  | 's' => some .str | 'i' => some .int | 'u' => some .uint | 'f' => some .float
  | 't' => some .time | 'b' => some .bool | 'r' => some .raw | _ => none

def charOfKind : VKind → Char
  | .str => 's' | .int => 'i' | .uint => 'u' | .float => 'f' | .time => 't' | .bool => 'b' | .raw => 'r'

def pVal : P Val := do
  let t ← tok
  match t.toList with
  | k :: 'n' :: [] => do let kind ← (kindOfChar k : Option VKind); pure ⟨kind, false, []⟩
  | k :: 'v' :: rest => do
    let kind ← (kindOfChar k : Option VKind)
    let b ← (unhexAux rest [] : Option Bytes)
    pure ⟨kind, true, b⟩
  | _ => failure

def repeatP {α} (p : P α) : Nat → P (List α)
  | 0 => pure []
  | n + 1 => do let a ← p; let as ← repeatP p n; pure (a :: as)

/-- fuel-bounded item parser (fuel = number of tokens is always enough) -/
def pItemF : Nat → P Item
  | 0 => failure
  | fuel + 1 => do
    let t ← tok
    match t with
    | "K" => do let k ← pBytes; let v ← pVal; pure (.kv k v)
    | "C" => do let n ← pNat; let is ← repeatP (pItemF fuel) n; pure (.comp is)
    | "G" => do
      let k ← pBytes
      let nt ← pNat
      let tm ← repeatP (pItemF fuel) nt
      let ne ← pNat
      let es ← repeatP (do let ni ← pNat; repeatP (pItemF fuel) ni) ne
      pure (.group k tm es)
    | _ => failure

def pItem : P Item := do
  let ts ← get
  pItemF (ts.length + 1)

def pItems : P (List Item) := do
  let n ← pNat
  repeatP pItem n

def pMsg : P Msg := do
  let t ← tok
  if t ≠ "M" then failure
  let bsTag ← pBytes; let blTag ← pBytes; let csTag ← pBytes; let mtTag ← pBytes
  let bs ← pVal; let bl ← pVal; let mt ← pVal; let cs ← pVal
  let header ← pItems; let body ← pItems; let trailer ← pItems
  pure { bsTag, blTag, csTag, mtTag, bs, bl, mt, cs, header, body, trailer }

/-! ### dumping -/

def dVal (v : Val) : String :=
  if v.valid then String.ofList [charOfKind v.kind, 'v'] ++ hex v.text
  else String.ofList [charOfKind v.kind, 'n']

def dBytes (b : Bytes) : String := "x" ++ hex b

mutual
  def dItem : Item → List String
    | .kv k v => ["K", dBytes k, dVal v]
    | .comp is => "C" :: toString (lenItems is) :: dItems is
    | .group n t es => ["G", dBytes n, toString (lenItems t)] ++ dItems t ++ [toString (lenEntries es)] ++ dEntries es
  def dItems : List Item → List String
    | [] => []
    | i :: is => dItem i ++ dItems is
  def dEntries : List (List Item) → List String
    | [] => []
    | e :: es => toString (lenItems e) :: dItems e ++ dEntries es
  def lenItems : List Item → Nat
    | [] => 0
    | _ :: is => lenItems is + 1
  def lenEntries : List (List Item) → Nat
    | [] => 0
    | _ :: es => lenEntries es + 1
end

def dItemsN (is : List Item) : List String := toString is.length :: dItems is

def dMsg (m : Msg) : String :=
  " ".intercalate (["M", dBytes m.bsTag, dBytes m.blTag, dBytes m.csTag, dBytes m.mtTag,
    dVal m.bs, dVal m.bl, dVal m.mt, dVal m.cs] ++ dItemsN m.header ++ dItemsN m.body ++ dItemsN m.trailer)
