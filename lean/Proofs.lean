import Proofs.Basic
import Proofs.Encode
import Proofs.Session
import Proofs.SessionInv
import Proofs.SessionTrace
import Proofs.Store
