import Proofs.Basic
import Proofs.Encode
