import FixModel.Sched.Lockset
import FixModel.Generated.Facts
/-!
# C20 — concurrent use of a session is free of data races

`Generated.access` is regenerated from /repo on every run: every read / write of every struct
field of the root, session, storages/memory and utils packages that is written outside a
constructor, with the mutexes held at the access (lock vs read-lock), whether it goes through
sync/atomic, and whether it happens in a constructor.

* `C20_generated` (kernel evaluation of the table): every such location outside the two
  exemption lists below is *disciplined* — any two conflicting accesses are both atomic, or share a
  mutex that every writing side holds exclusively.
* `C20_excludes` (generic, all interleavings of lock operations): in a disciplined table two
  different goroutines are never inside conflicting accesses of the same location at the same time.

What "data race" means here is this mutual-exclusion statement over the modelled mutex semantics
(the Go memory model is modelled, not derived; see DESIGN §4).
-/

/-- configuration setters documented / intended to be called before `Run` (the `go` statement that
    starts the dispatch goroutine orders them before every read): OnError, SetLogonRequest,
    SetUnmarshaller ("could be called only before starting Session") -/
def justified : List String :=
  ["session.Session.errorHandler", "session.Session.logonRequest", "session.Session.unmarshaller"]

/-- known finding F-C20-logonsettings: the Logon handler replaces `Session.LogonSettings` (and swaps
    the comp ids of the new object) on the dispatch goroutine without `s.mu`, while `send`
    (any goroutine, under `s.mu`) and the storage callbacks read it -/
def knownRacy : List String :=
  ["session.Session.LogonSettings", "session.LogonSettings.SenderCompID", "session.LogonSettings.TargetCompID"]

def exemptLoc (loc : Nat) : Bool :=
  match Generated.locNames[loc]? with
  | some n => justified.contains n || knownRacy.contains n
  | none => false

theorem C20_generated : Disciplined Generated.access exemptLoc = true := by decide

theorem C20_excludes (la : LocAccess) (hla : la ∈ Generated.access) (hne : exemptLoc la.loc = false)
    (a b : AccessSite) (ha : a ∈ la.sites) (hb : b ∈ la.sites)
    (hconf : a.write = true ∨ b.write = true) (hat : ¬ (a.atomic = true ∧ b.atomic = true))
    (hct : a.ctor = false ∧ b.ctor = false)
    (s : LockSt) (hr : LReach s) (t u : Nat) (hta : holdsAll s t a.locks) (hub : holdsAll s u b.locks) : t = u :=
  disciplined_excludes Generated.access exemptLoc C20_generated la hla hne a b ha hb hconf hat hct s hr t u hta hub

/-- non-vacuity: the table contains a location (the session state) with a locked write and read-locked reads -/
example : ∃ la ∈ Generated.access, exemptLoc la.loc = false ∧ ∃ a ∈ la.sites, a.write = true ∧ a.locks ≠ [] := by decide
