import Proofs.Session
/-!
# C16 — invalid admin messages are rejected by sequence number and change nothing

For every administrative kind and every reason an admin message is not acceptable
(integrity / field parse failure, or not permitted in the current state) the step emits
exactly one Reject — RefSeqNum = the message's sequence number, or RefTagID = the MsgSeqNum
tag when that number is missing or not numeric — and leaves untouched everything that drives
later behaviour: whether the session is logged on, the logon settings, the timers started,
cancellation, the handler, the Stop arming. (Only the outbound counter/store, the inbound
counter and the probe state move, as for any inbound message.)
-/

open Sess (rejectFor)

def isAdmin (k : AdminKind) : Prop := k ≠ .other

/-- the part of the state that decides how later messages are treated -/
structure SameFrame (s s' : Sess) : Prop where
  loggedOn : s'.loggedOn = s.loggedOn
  settings : s'.settings = s.settings
  started : s'.started = s.started
  cancelled : s'.cancelled = s.cancelled
  routerStopped : s'.routerStopped = s.routerStopped
  stopArmed : s'.stopArmed = s.stopArmed
  dead : s'.dead = s.dead

/-- invariant of every reachable state used below: probing implies timers were started -/
def ProbeOK (s : Sess) : Prop := s.state = .waitingTestReqAnswer → s.started > 0

private theorem frame_of_reject (c : Cfg) (s : Sess) (m : InMsg) (hp : ProbeOK s) :
    SameFrame s (Sess.rejectMessage c (Sess.pre s m) m).1 := by
  obtain ⟨b, hb⟩ := Sess.rejectMessage_fst c (Sess.pre s m) m
  rw [hb]
  refine ⟨?_, by simp, by simp, by simp, by simp, by simp, by simp⟩
  unfold Sess.loggedOn
  simp only [Sess.send_fst_state, Sess.pre_state]
  by_cases hw : s.state = .waitingTestReqAnswer
  · simp [hw, hp hw]
  · simp [hw]

/-- integrity / parse failure of any admin message, in any state -/
theorem C16_reject_unparsable (c : Cfg) (s : Sess) (m : InMsg)
    (hd : s.dead = false) (hr : s.routerStopped = false) (hpo : ProbeOK s)
    (hk : isAdmin m.kind) (hp : m.parseOk = false) :
    outBodies (step c s (.inbound m)).2 = [rejectFor c m] ∧ SameFrame s (step c s (.inbound m)).1 := by
  have hrej := Sess.rejectMessage_out c (Sess.pre s m) m
  have hfr := frame_of_reject c s m hpo
  unfold isAdmin at hk
  cases hkind : m.kind <;> simp [hkind] at hk <;>
    simp [step, hd, hr, Sess.onInbound_eq, hkind, Sess.onLogon, Sess.onLogout, Sess.onHeartbeat,
      Sess.onTestRequest, Sess.onResendRequest, hp, hrej] <;> exact hfr

/-- Heartbeat, TestRequest or ResendRequest while not logged on -/
theorem C16_reject_before_logon (c : Cfg) (s : Sess) (m : InMsg)
    (hd : s.dead = false) (hr : s.routerStopped = false) (hpo : ProbeOK s)
    (hk : m.kind = .heartbeat ∨ m.kind = .testRequest ∨ m.kind = .resendRequest)
    (hl : s.loggedOn = false) :
    outBodies (step c s (.inbound m)).2 = [rejectFor c m] ∧ SameFrame s (step c s (.inbound m)).1 := by
  have hrej := Sess.rejectMessage_out c (Sess.pre s m) m
  have hfr := frame_of_reject c s m hpo
  have hnl : (Sess.pre s m).isLogged = false := by rw [Sess.pre_loggedOn s m hpo]; exact hl
  rcases hk with hkind | hkind | hkind <;>
    cases hp : m.parseOk <;>
    simp [step, hd, hr, Sess.onInbound_eq, hkind, Sess.onHeartbeat,
      Sess.onTestRequest, Sess.onResendRequest, hp, hrej, hnl] <;> exact hfr

/-- a further Logon while logged on: one Reject referencing its sequence number, nothing else moves -/
theorem C16_reject_logon_when_logged (c : Cfg) (s : Sess) (m : InMsg)
    (hd : s.dead = false) (hr : s.routerStopped = false) (hpo : ProbeOK s)
    (hk : m.kind = .logon) (hp : m.parseOk = true) (hl : s.loggedOn = true) :
    outBodies (step c s (.inbound m)).2 = [.reject m.hdrSeq (itoa c.codeOther) none]
      ∧ SameFrame s (step c s (.inbound m)).1 := by
  have hst : (Sess.pre s m).state = .successfulLogged := by
    have := Sess.pre_loggedOn s m hpo
    rw [hl] at this
    simpa [Sess.isLogged] using this
  simp only [step, hd, hr, Sess.onInbound_eq, hk, Sess.onLogon, hp, hst, Sess.sendReject]
  simp
  refine ⟨?_, by simp, by simp, by simp, by simp, by simp, by simp⟩
  simp [Sess.loggedOn, hst] at *
  exact hl

/-- a Logout while not logged on (and no Logout of our own pending) -/
theorem C16_reject_logout_when_not_logged (c : Cfg) (s : Sess) (m : InMsg)
    (hd : s.dead = false) (hr : s.routerStopped = false)
    (hk : m.kind = .logout) (hl : s.loggedOn = false) (hw : s.state ≠ .waitingLogoutAnswer) :
    outBodies (step c s (.inbound m)).2 = [rejectFor c m]
      ∧ (step c s (.inbound m)).1.loggedOn = false
      ∧ (step c s (.inbound m)).1.cancelled = s.cancelled
      ∧ (step c s (.inbound m)).1.routerStopped = s.routerStopped
      ∧ (step c s (.inbound m)).1.settings = s.settings := by
  have hrej := Sess.rejectMessage_out c (Sess.pre s m) m
  obtain ⟨b, hb⟩ := Sess.rejectMessage_fst c (Sess.pre s m) m
  have hps : (Sess.pre s m).state = s.state := by
    rw [Sess.pre_state]
    have : s.state ≠ .waitingTestReqAnswer := by
      intro h; simp [Sess.loggedOn, h] at hl
    simp [this]
  have hnl : s.state ≠ .successfulLogged := by
    intro h; simp [Sess.loggedOn, h] at hl
  cases hp : m.parseOk
  · simp [step, hd, hr, Sess.onInbound_eq, hk, Sess.onLogout, hp, hrej, hb]
    simp [Sess.loggedOn, hps]
    simpa [Sess.loggedOn] using hl
  · have := Sess.onLogout_other c (Sess.pre s m) m hp (by rw [hps]; exact hw) (by rw [hps]; exact hnl)
    simp [step, hd, hr, Sess.onInbound_eq, hk, this, hrej, hb, Sess.backToWaiting, Sess.loggedOn]
    cases c.side <;> simp

/-- non-vacuity: the hypotheses are met by a freshly constructed accepting session -/
example : ProbeOK { state := .waitingLogon, settings := {} } := by intro h; cases h
