import FixModel.Sched.Norm
import FixModel.Generated.Facts
/-!
# the orders inside `session/session.go` that the session model relies on (T-gen)

`Props/SessionSkeleton.lean` compares the regenerated skeleton with the expected one up to reordering inside a
scope. The orders that carry a property are pinned here, each on the raw regenerated skeleton (`Generated.sessionSkeleton`,
helpers expanded, one ordered operation list per closure):

* approval before timers — in the scope that calls the application's logon callback, the callback comes before the
  first `utils.NewTimer` (C06, C07: nothing is armed for a Logon the application may still refuse);
* state before probe — in the goroutine that builds the TestRequest, the state change (`lock stateMu`) that follows
  the build comes before the send (C09: an answer can never overtake the state it is checked against);
* state before Logout — `Session.Logout` changes the state before it sends (C15);
* logged-on check before the store — the ResendRequest handler reads the state before it asks the store (C16, C07);
* one message object per tick — the timer goroutines build their Heartbeat / TestRequest after `TakeTimeout`, i.e. inside
  the loop (C10: the store keeps objects).

These are facts about the code, re-checked on every run; a rewrite that keeps them is silent.
-/
namespace SessionOrders

def rowScopes (row : String) : List (List String) :=
  (Generated.sessionSkeleton.filter (·.1 == row)).flatMap fun r => SkelNorm.scopes r.2

def allScopes : List (List String) := Generated.sessionSkeleton.flatMap fun r => SkelNorm.scopes r.2

/-- the first `a` comes before the first `b` (a scope without `b` is fine) -/
def before (a b : String) (sc : List String) : Bool :=
  match sc.findIdx? (· == b) with
  | none => true
  | some j => match sc.findIdx? (· == a) with
    | none => false
    | some i => i < j

/-- in every scope containing `marker`: the first `a` is before the first `b`; and there is such a scope with both -/
def orderedWhere (scs : List (List String)) (marker a b : String) : Bool :=
  let ss := scs.filter (·.contains marker)
  ss.all (before a b) && ss.any fun sc => sc.contains a && sc.contains b

/-- the same, looking only at what follows the first `marker` -/
def orderedAfter (scs : List (List String)) (marker a b : String) : Bool :=
  let ss := (scs.filter (·.contains marker)).map fun sc => sc.dropWhile (· != marker)
  ss.all (before a b) && ss.any fun sc => sc.contains a && sc.contains b

def approvalBeforeTimers : Bool :=
  orderedWhere allScopes "field:session.Session.LogonHandler" "field:session.Session.LogonHandler" "utils.NewTimer"

def stateBeforeProbe : Bool :=
  orderedAfter allScopes "session.messages.TestRequestBuilder.Build" "lock session.Session.<rwmutex>" "session.Handler.Send"

def stateBeforeLogout : Bool :=
  orderedWhere (rowScopes "Session.Logout") "session.messages.LogoutBuilder.Build" "lock session.Session.<rwmutex>" "session.Handler.Send"

def loggedBeforeStore : Bool :=
  orderedWhere allScopes "session.messages.ResendRequestBuilder.New" "session.Session.IsLogged" "session.MessageStorage.Messages"

def heartbeatPerTick : Bool :=
  orderedWhere allScopes "utils.Timer.TakeTimeout" "utils.Timer.TakeTimeout" "session.messages.HeartbeatBuilder.Build"
  && orderedWhere allScopes "utils.Timer.TakeTimeout" "utils.Timer.TakeTimeout" "session.messages.TestRequestBuilder.Build"

end SessionOrders

open SessionOrders in
theorem session_orders :
    approvalBeforeTimers = true ∧ stateBeforeProbe = true ∧ stateBeforeLogout = true
    ∧ loggedBeforeStore = true ∧ heartbeatPerTick = true := by decide +kernel

-- the checker rejects the opposite orders
example : SessionOrders.before "a" "b" ["x", "b", "a"] = false := by decide
example : SessionOrders.orderedAfter [["m", "s", "lock"], ["q"]] "m" "lock" "s" = false := by decide
example : SessionOrders.orderedAfter [["lock", "m", "lock", "s"]] "m" "lock" "s" = true := by decide
