import Proofs.Encode
import FixModel.Spec.Codec
/-!
# C17 — exactly the populated fields reach the wire, once each, in template order
-/

/-- every public value constructor yields a populated (non-null) value -/
theorem C17_ctor_valid :
    (∀ s, (Val.newString s).isNull = false) ∧ (∀ n, (Val.newInt n).isNull = false)
    ∧ (∀ n, (Val.newUint n).isNull = false) ∧ (∀ b, (Val.newBool b).isNull = false)
    ∧ (∀ t, (Val.newFloat t).isNull = false) ∧ (∀ t, (Val.newTime t).isNull = false)
    ∧ (∀ b, (Val.newRaw (some b)).isNull = false) := by
  simp [Val.newString, Val.newInt, Val.newUint, Val.newBool, Val.newFloat, Val.newTime, Val.newRaw, Val.isNull]
