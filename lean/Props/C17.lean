import Proofs.Leaves
/-!
# C17 — exactly the populated fields reach the wire, once each, in template order

`C17_wire` gives the wire image of **every** message (any nesting of components and groups, any
values) field by field; `C17_fields` is the same statement through the independent spec predicate
`fieldsOKNoTrailer`, the one the check driver evaluates on the implementation's output.

The property as given also covers the trailer component. The library never serializes it
(`CalcBodyLength` / `BytesWithoutChecksum` do not look at it, and an existing test pins that), so the
full-strength statement `fieldsOK` holds exactly for messages whose trailer populates nothing
(`C17_fields_full`) and is **false** for every message that populates a trailer field
(`C17_trailer_not_serialized`) — the known finding F-C17-trailer, not repaired because the repair
cannot keep the pinned suite green.
-/

/-- every public value constructor yields a populated (non-null) value -/
theorem C17_ctor_valid :
    (∀ s, (Val.newString s).isNull = false) ∧ (∀ n, (Val.newInt n).isNull = false)
    ∧ (∀ n, (Val.newUint n).isNull = false) ∧ (∀ b, (Val.newBool b).isNull = false)
    ∧ (∀ t, (Val.newFloat t).isNull = false) ∧ (∀ t, (Val.newTime t).isNull = false)
    ∧ (∀ b, (Val.newRaw (some b)).isNull = false) := by
  simp [Val.newString, Val.newInt, Val.newUint, Val.newBool, Val.newFloat, Val.newTime, Val.newRaw, Val.isNull]

/-- a field is on the wire iff it is populated: valid (set, constructed non-null, or parsed) and non-empty -/
theorem C17_kv (k : Bytes) (v : Val) :
    (Item.kv k v).toBytes = if populated v then some (tagValue k v.text) else none := by
  rw [Item.toBytes]; exact kvBytes_eq k v

/-- the framing tags contain no delimiter (they are decimal numbers) -/
def tagsOK (m : Msg) : Prop := SOH ∉ m.bsTag ∧ SOH ∉ m.blTag ∧ SOH ∉ m.mtTag ∧ SOH ∉ m.csTag

/-- the fields of the wire image of a message -/
def wireOfMsg (m : Msg) : List Bytes :=
  [tagValue m.bsTag m.bs.text, tagValue m.blTag (natDigits m.calcBodyLength), tagValue m.mtTag m.mt.text]
    ++ leavesList m.header ++ leavesList m.body
    ++ [tagValue m.csTag (calcCheckSum ({ m with bl := Val.newInt m.calcBodyLength } : Msg).bytesWithoutChecksum)]

theorem c17Pre_unfold (m : Msg) (h : c17Pre m = true) :
    listSohFree m.header = true ∧ listSohFree m.body = true ∧ listEntriesNonEmpty m.header = true
    ∧ listEntriesNonEmpty m.body = true ∧ populated m.bs = true ∧ populated m.mt = true
    ∧ SOH ∉ m.bs.text ∧ SOH ∉ m.mt.text := by
  unfold c17Pre at h
  simp only [Bool.and_eq_true] at h
  obtain ⟨⟨⟨⟨⟨⟨⟨⟨⟨h1, h2⟩, _⟩, h4⟩, h5⟩, _⟩, h7⟩, h8⟩, h9⟩, h10⟩ := h
  exact ⟨h1, h2, h4, h5, h7, h8, not_contains h9, not_contains h10⟩

/-- **C17, wire form**: the serialized message splits at SOH into exactly BeginString, BodyLength, MsgType, the
    populated leaves of header and body in template order — group count fields carrying the number of entries,
    entries in order — and CheckSum; nothing else, nothing twice -/
theorem C17_wire (m : Msg) (hp : c17Pre m = true) (ht : tagsOK m) :
    wireFields m.encode = some (wireOfMsg m) := by
  obtain ⟨h1, h2, h4, h5, h7, h8, h9, h10⟩ := c17Pre_unfold m hp
  obtain ⟨t1, t2, t3, t4⟩ := ht
  rw [encode_fields m h7 h8 h4 h5]
  apply wireFields_joinF
  intro g hg
  simp only [List.mem_append, List.mem_cons, List.not_mem_nil, or_false] at hg
  rcases hg with (((hg | hg | hg) | hg) | hg) | hg
  · rw [hg]; exact tagValue_sohFree _ _ t1 h9
  · rw [hg]; exact tagValue_sohFree _ _ t2 (natDigits_sohFree _)
  · rw [hg]; exact tagValue_sohFree _ _ t3 h10
  · exact leavesList_sohFree _ h1 g hg
  · exact leavesList_sohFree _ h2 g hg
  · rw [hg]; exact tagValue_sohFree _ _ t4 (calcCheckSum_sohFree _)

/-- **C17 through the spec predicate the driver evaluates on the implementation's output** -/
theorem C17_fields (m : Msg) (hp : c17Pre m = true) (ht : tagsOK m) : fieldsOKNoTrailer m m.encode = true := by
  unfold fieldsOKNoTrailer
  rw [C17_wire m hp ht]
  simp only [wireOfMsg, List.cons_append, List.nil_append]
  rw [List.dropLast_concat]
  simp; omega

/-- full-strength statement, for messages whose trailer populates nothing -/
theorem C17_fields_full (m : Msg) (hp : c17Pre m = true) (ht : tagsOK m) (hT : leavesList m.trailer = []) :
    fieldsOK m m.encode = true := by
  unfold fieldsOK
  rw [C17_wire m hp ht]
  simp only [wireOfMsg, List.cons_append, List.nil_append]
  rw [List.dropLast_concat]
  simp [hT]; omega

/-- known finding F-C17-trailer, exactly delimited: the full-strength statement fails for *every* message that
    populates a trailer field -/
theorem C17_trailer_not_serialized (m : Msg) (hp : c17Pre m = true) (ht : tagsOK m) (hT : leavesList m.trailer ≠ []) :
    fieldsOK m m.encode = false := by
  unfold fieldsOK
  rw [C17_wire m hp ht]
  simp only [wireOfMsg, List.cons_append, List.nil_append, List.append_assoc]
  have : ((leavesList m.header ++ (leavesList m.body ++
      [tagValue m.csTag (calcCheckSum ({ m with bl := Val.newInt m.calcBodyLength } : Msg).bytesWithoutChecksum)])).dropLast
        == leavesList m.header ++ (leavesList m.body ++ leavesList m.trailer)) = false := by
    rw [← List.append_assoc, List.dropLast_concat]
    apply beq_eq_false_iff_ne.mpr
    intro h
    have h2 := List.append_cancel_left h
    have h3 : leavesList m.body ++ [] = leavesList m.body ++ leavesList m.trailer := by simpa using h2
    exact hT (List.append_cancel_left h3).symm
  rw [this]
  simp

/-- non-vacuity: a heartbeat-like message with a group of two entries satisfies the hypotheses -/
example : c17Pre (Msg.new [56] [57] [49, 48] [51, 53] [70, 73, 88] [48] [.kv [52, 57] (Val.newString [65])]
      [.kv [49, 49, 50] (Val.newString [66]),
       .group [49, 52, 54] [.kv [53, 53] (Val.blank .str)] [[.kv [53, 53] (Val.newString [67])], [.kv [53, 53] (Val.newString [68])]]]
      []) = true := by decide

/-- … and one with a populated trailer field (the finding is about reachable messages) -/
example : let m := (Msg.new [56] [57] [49, 48] [51, 53] [70, 73, 88] [48] [] [Item.kv [49, 49, 50] (Val.newString [66])]
      [Item.kv [56, 57] (Val.newString [83])])
    c17Pre m = true ∧ leavesList m.trailer ≠ [] := by decide
