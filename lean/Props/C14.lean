import Proofs.Session
/-!
# C14 — a TestRequest is answered by one Heartbeat echoing its TestReqID

Session level: in a logged-on session, the step for an inbound, parsable TestRequest emits
exactly one message, a Heartbeat carrying the request's TestReqID, and it is emitted *within
that step*, i.e. before the next inbound message is looked at (dispatch is sequential).
-/



theorem C14_echo (c : Cfg) (s : Sess) (m : InMsg)
    (hl : s.state = .successfulLogged) (hd : s.dead = false) (hr : s.routerStopped = false)
    (hk : m.kind = .testRequest) (hp : m.parseOk = true) :
    outBodies (step c s (.inbound m)).2 = [.heartbeat m.testReqID] := by
  have h1 : (Sess.pre s m).state = .successfulLogged := by rw [Sess.pre_state]; simp [hl]
  simp [step, hd, hr, Sess.onInbound_eq, hk, Sess.onTestRequest, hp, Sess.isLogged, h1]

/-- the same while the session is probing the peer (the inbound message itself ends the probe) -/
theorem C14_echo_probing (c : Cfg) (s : Sess) (m : InMsg)
    (hl : s.state = .waitingTestReqAnswer) (hs : s.started > 0) (hd : s.dead = false) (hr : s.routerStopped = false)
    (hk : m.kind = .testRequest) (hp : m.parseOk = true) :
    outBodies (step c s (.inbound m)).2 = [.heartbeat m.testReqID] := by
  have h1 : (Sess.pre s m).state = .successfulLogged := by rw [Sess.pre_state]; simp [hl, hs]
  simp [step, hd, hr, Sess.onInbound_eq, hk, Sess.onTestRequest, hp, Sess.isLogged, h1]

/-- non-vacuity -/
example : ∃ s : Sess, s.state = .successfulLogged ∧ s.dead = false ∧ s.routerStopped = false :=
  ⟨{ state := .successfulLogged, settings := {} }, rfl, rfl, rfl⟩

theorem run_append (c : Cfg) (s : Sess) (es1 es2 : List Ev) :
    run c s (es1 ++ es2) = ((run c (run c s es1).1 es2).1, (run c s es1).2 ++ (run c (run c s es1).1 es2).2) := by
  induction es1 generalizing s with
  | nil => simp [run]
  | cons e es ih =>
    simp only [List.cons_append, run]
    rw [ih]
    simp [List.append_assoc]

/-- **answers leave in the order of the requests**: whatever comes before and after, the echo of a TestRequest is
    emitted after everything the earlier events produced and before anything a later inbound message produces
    (the FIFO pipeline of `C04_pipeline` keeps that order on the way to the wire) -/
theorem C14_in_order (c : Cfg) (s0 : Sess) (before after : List Ev) (m : InMsg) :
    (run c s0 (before ++ Ev.inbound m :: after)).2
      = (run c s0 before).2 ++ (step c (run c s0 before).1 (.inbound m)).2
          ++ (run c (step c (run c s0 before).1 (.inbound m)).1 after).2 := by
  rw [run_append]
  simp [run, List.append_assoc]
