import Proofs.Session
/-!
# C14 — a TestRequest is answered by one Heartbeat echoing its TestReqID

Session level: in a logged-on session, the step for an inbound, parsable TestRequest emits
exactly one message, a Heartbeat carrying the request's TestReqID, and it is emitted *within
that step*, i.e. before the next inbound message is looked at (dispatch is sequential).
-/



theorem C14_echo (c : Cfg) (s : Sess) (m : InMsg)
    (hl : s.state = .successfulLogged) (hd : s.dead = false) (hr : s.routerStopped = false)
    (hk : m.kind = .testRequest) (hp : m.parseOk = true) :
    outBodies (step c s (.inbound m)).2 = [.heartbeat m.testReqID] := by
  have h1 : (Sess.pre s m).state = .successfulLogged := by rw [Sess.pre_state]; simp [hl]
  simp [step, hd, hr, Sess.onInbound_eq, hk, Sess.onTestRequest, hp, Sess.isLogged, h1]

/-- the same while the session is probing the peer (the inbound message itself ends the probe) -/
theorem C14_echo_probing (c : Cfg) (s : Sess) (m : InMsg)
    (hl : s.state = .waitingTestReqAnswer) (hs : s.started > 0) (hd : s.dead = false) (hr : s.routerStopped = false)
    (hk : m.kind = .testRequest) (hp : m.parseOk = true) :
    outBodies (step c s (.inbound m)).2 = [.heartbeat m.testReqID] := by
  have h1 : (Sess.pre s m).state = .successfulLogged := by rw [Sess.pre_state]; simp [hl, hs]
  simp [step, hd, hr, Sess.onInbound_eq, hk, Sess.onTestRequest, hp, Sess.isLogged, h1]

/-- non-vacuity -/
example : ∃ s : Sess, s.state = .successfulLogged ∧ s.dead = false ∧ s.routerStopped = false :=
  ⟨{ state := .successfulLogged, settings := {} }, rfl, rfl, rfl⟩
