import FixModel.Pool
import Proofs.Store
/-!
# C19 — messages are stored before sending; handlers run in order; a refusal stops it
-/

/-- the ids of the handlers up to and including the first refusing one -/
def uptoRefusal : List H → List Nat
  | [] => []
  | h :: r => if h.verdict then h.id :: uptoRefusal r else [h.id]

theorem rangeOut_log (hs : List H) : (rangeOut hs).1 = uptoRefusal hs := by
  induction hs with
  | nil => rfl
  | cons h r ih => simp only [rangeOut, uptoRefusal]; split <;> simp [ih]

theorem rangeOut_ok (hs : List H) : (rangeOut hs).2 = hs.all (·.verdict) := by
  induction hs with
  | nil => rfl
  | cons h r ih => simp only [rangeOut, List.all_cons]; split <;> simp_all

theorem uptoRefusal_all (hs : List H) (h : hs.all (·.verdict) = true) : uptoRefusal hs = hs.map (·.id) := by
  induction hs with
  | nil => rfl
  | cons x r ih =>
    simp only [List.all_cons, Bool.and_eq_true] at h
    simp [uptoRefusal, h.1, ih h.2]

/-- handlers run in registration order, all-types handlers before the type-specific ones, up to the
    first refusal -/
theorem C19_order (allH typedH : List H) (b : Option Bytes) :
    (handlerSend allH typedH b).1 =
      if allH.all (·.verdict) then allH.map (·.id) ++ uptoRefusal typedH else uptoRefusal allH := by
  unfold handlerSend
  simp only [rangeOut_log, rangeOut_ok]
  cases ha : allH.all (·.verdict)
  · simp
  · simp only [Bool.not_true, Bool.false_eq_true, ite_false, ite_true]
    rw [uptoRefusal_all allH ha]
    split <;> rfl

/-- any refusal ⇒ nothing is transmitted (the send call returns an error) -/
theorem C19_veto (allH typedH : List H) (b : Option Bytes)
    (h : ∃ x ∈ allH ++ typedH, x.verdict = false) : (handlerSend allH typedH b).2 = none := by
  unfold handlerSend
  simp only [rangeOut_ok]
  obtain ⟨x, hx, hv⟩ := h
  rw [List.mem_append] at hx
  cases ha : allH.all (·.verdict)
  · simp
  · cases ht : typedH.all (·.verdict)
    · simp
    · exfalso
      rcases hx with hx | hx
      · have := List.all_eq_true.mp ha x hx; simp [hv] at this
      · have := List.all_eq_true.mp ht x hx; simp [hv] at this

/-- nothing refuses ⇒ the bytes handed over are exactly what `ToBytes` returned after every handler ran -/
theorem C19_pass (allH typedH : List H) (b : Option Bytes)
    (h : ∀ x ∈ allH ++ typedH, x.verdict = true) :
    handlerSend allH typedH b = (allH.map (·.id) ++ typedH.map (·.id), b) := by
  have ha : allH.all (·.verdict) = true := List.all_eq_true.mpr fun x hx => h x (by simp [hx])
  have ht : typedH.all (·.verdict) = true := List.all_eq_true.mpr fun x hx => h x (by simp [hx])
  unfold handlerSend
  simp [rangeOut_ok, rangeOut_log, ha, ht, uptoRefusal_all]

/-- the store handler, registered first at construction, runs before every other handler and before
    anything is enqueued; if it fails nothing is transmitted -/
theorem C19_save_first (save : H) (allH typedH : List H) (b : Option Bytes) :
    (handlerSend (save :: allH) typedH b).1.head? = some save.id
    ∧ (save.verdict = false → (handlerSend (save :: allH) typedH b) = ([save.id], none)) := by
  constructor
  · unfold handlerSend
    simp only [rangeOut]
    split <;> (try split) <;> (try split) <;> simp_all
  · intro hv
    simp [handlerSend, rangeOut, hv]

/-- every inbound message is offered to the all-types handlers and then to the handlers of its own type -/
theorem C19_inbound (allH typedH : List H) :
    handlerServe allH typedH = uptoRefusal allH ++ uptoRefusal typedH := by
  simp [handlerServe, rangeIn, rangeOut_log]

/-- session level: after any history, every numbered message that was handed to the transport is in
    the store under its own sequence number -/
theorem C19_saved (c : Cfg) (s0 : Sess) (es : List Ev) (k : Nat)
    (hk : k < (msgsOf (run c s0 es).2).length) :
    Sess.lookupStore (run c s0 es).1.store (s0.outCounter + k + 1) = some (msgsOf (run c s0 es).2)[k]
    ∧ (msgsOf (run c s0 es).2)[k].seq = s0.outCounter + k + 1 := by
  have tr := trace_run c s0 es
  exact ⟨by rw [tr.store]; exact lookup_pushAll _ _ _ tr.numbered k hk, numbered_get _ _ tr.numbered k hk⟩

example : ∃ x ∈ [H.mk 0 true] ++ [H.mk 1 false], x.verdict = false := ⟨⟨1, false⟩, by simp, rfl⟩

/-! ### outgoing handlers see the message exactly as it will be transmitted -/

theorem rangeOutT_all {α} (hs : List (HT α)) (m : α) (h : ∀ x ∈ hs, ∀ y, (x.run y).2 = true) :
    rangeOutT hs m = (hs.map (·.id), afterAll hs m, true) := by
  induction hs generalizing m with
  | nil => rfl
  | cons x r ih =>
    have hx := h x (by simp) m
    have := ih (x.run m).1 (fun y hy => h y (by simp [hy]))
    simp only [rangeOutT, hx, if_true, this, List.map_cons, afterAll, List.foldl_cons]

theorem afterAll_append {α} (a b : List (HT α)) (m : α) : afterAll (a ++ b) m = afterAll b (afterAll a m) := by
  simp [afterAll, List.foldl_append]

/-- nothing refuses ⇒ what is transmitted is the serialization of the message **as the last handler left it**,
    all-types handlers first, then the handlers of its type -/
theorem C19_transmits_completed {α} (allH typedH : List (HT α)) (m : α) (ser : α → Option Bytes)
    (h : ∀ x ∈ allH ++ typedH, ∀ y, (x.run y).2 = true) :
    handlerSendT allH typedH m ser = ((allH ++ typedH).map (·.id), ser (afterAll (allH ++ typedH) m)) := by
  have ha := rangeOutT_all allH m (fun x hx => h x (by simp [hx]))
  have ht := rangeOutT_all typedH (afterAll allH m) (fun x hx => h x (by simp [hx]))
  simp [handlerSendT, ha, ht, afterAll_append]

/-- every handler is given the message as completed by all handlers before it (in particular a type-specific
    handler sees what the all-types handlers — the store handler among them — did) -/
theorem C19_seen {α} (hs : List (HT α)) (m : α) (k : Nat) (hk : k < hs.length) :
    (seenBy hs m)[k]? = some ((hs[k]).id, afterAll (hs.take k) m) := by
  induction hs generalizing m k with
  | nil => simp at hk
  | cons x r ih =>
    cases k with
    | zero => simp [seenBy, afterAll]
    | succ k =>
      have := ih (x.run m).1 k (by simpa using hk)
      simp only [seenBy, List.getElem?_cons_succ, this, List.getElem_cons_succ, List.take_succ_cons, afterAll,
        List.foldl_cons]

/-- the old model is the special case of handlers that leave the message alone -/
theorem handlerSendT_const (allH typedH : List H) (b : Option Bytes) :
    handlerSendT (allH.map fun h => ({ id := h.id, run := fun m => (m, h.verdict) } : HT Unit))
                 (typedH.map fun h => ({ id := h.id, run := fun m => (m, h.verdict) } : HT Unit)) () (fun _ => b)
      = handlerSend allH typedH b := by
  have key : ∀ hs : List H, rangeOutT (hs.map fun h => ({ id := h.id, run := fun m => (m, h.verdict) } : HT Unit)) ()
      = ((rangeOut hs).1, (), (rangeOut hs).2) := by
    intro hs
    induction hs with
    | nil => rfl
    | cons x r ih =>
      simp only [List.map_cons, rangeOutT, rangeOut]
      cases x.verdict <;> simp [ih]
  simp [handlerSendT, handlerSend, key]

-- a store handler that stamps the sequence number, then a type handler that completes the message
example : handlerSendT [stampH 0 true true] [stampH 1 true true, stampH 2 true false] [65] some
    = ([0, 1, 2], some [65, 53, 56, 61, 104, 48, 1, 53, 56, 61, 104, 49, 1]) := by decide
