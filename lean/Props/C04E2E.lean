import Props.C04Enc
/-!
# C04 — end to end: application → hand-off stages → transport → reader → hand-off stages → handler

Composition of `C04_pipeline` (both sides), `C04_encoded_stream` (encoder output, any chunking, reader). The schedules
of both pipelines, their depths, and the transport's chunking are all universally quantified; "drained" means every
stage but the sink is empty.
-/

theorem inOrder_source {α} (x : List α) (n : Nat) : inOrder (x :: List.replicate n ([] : List α)) = x := by
  simp [inOrder]

theorem inOrder_sink {α} (x : List α) (n : Nat) : inOrder (List.replicate n ([] : List α) ++ [x]) = x := by
  simp [inOrder]

/-- **end to end**: the application of one side hands serialized messages to its connection; they travel through
    that side's hand-off stages under any schedule, are written, cut by the transport into reads of any sizes,
    reassembled by the peer's reader, and travel through the peer's hand-off stages under any schedule. Once both
    pipelines have drained, the peer's handler has been given exactly the serializations handed over: each once,
    complete, byte-identical, in order. -/
theorem C04_end_to_end (ms : List Msg) (h : ∀ m ∈ ms, c17Pre m = true ∧ tagsOK m ∧ No10 m)
    (k1 k2 : Nat) (sched1 sched2 : List Nat) (written delivered : List Bytes) (chunks : List Bytes)
    (drained1 : runStages (ms.map Msg.encode :: List.replicate k1 []) sched1 = List.replicate k1 [] ++ [written])
    (hc : chunks.flatten = written.flatten)
    (drained2 : runStages ((feedChunks RState.idle chunks).2 :: List.replicate k2 []) sched2
                  = List.replicate k2 [] ++ [delivered]) :
    delivered = ms.map Msg.encode := by
  have w : written = ms.map Msg.encode := by
    have := C04_pipeline (ms.map Msg.encode :: List.replicate k1 []) sched1
    rw [drained1, inOrder_sink, inOrder_source] at this
    exact this
  rw [w] at hc
  have r := C04_encoded_stream ms h chunks hc
  rw [r] at drained2
  have := C04_pipeline (ms.map Msg.encode :: List.replicate k2 []) sched2
  rw [drained2, inOrder_sink, inOrder_source] at this
  exact this

/-- non-vacuity of the drained hypotheses: three stages, the schedule that moves one message all the way -/
example : runStages ([[1], [], []] : List (List Nat)) [0, 1] = List.replicate 2 [] ++ [[1]] := by decide
