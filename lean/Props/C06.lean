import Props.C07
/-!
# C06 — a session is logged on only through a valid, approved Logon exchange
-/

open Sess

/-- For every history (any events, any store, both roles): if the session reports itself logged
    on, an acceptable Logon — parsable; for an accepting session also: allowed encryption method,
    heartbeat interval within limits and positive, approved by the callback — was received. -/
theorem C06_logged_only_after_acceptable_logon (c : Cfg) (st : Settings) (inC outC : Int)
    (store : List (Int × OutMsg)) (es : List Ev) (hno : noAppSend es)
    (hl : (run c (Sess.init c st inC outC store).1 es).1.isLogged = true) :
    ∃ m ∈ inboundMsgs es, acceptable c m := by
  apply Classical.byContradiction
  intro hne
  have hacc : ∀ m ∈ inboundMsgs es, ¬ acceptable c m := fun m hm ha => hne ⟨m, hm, ha⟩
  have := (run_preauth c _ es (init_sinv c st inC outC store) (init_notAuth c st inC outC store) hno hacc).1
  apply this
  left
  unfold isLogged at hl
  unfold loggedOn
  simp at hl
  simp [hl]

/-- an accepting session waiting for a Logon that receives an acceptable one: logged on, and the
    first message it sends is a Logon echoing the heartbeat interval and encryption method -/
theorem C06_acceptor_reply (c : Cfg) (s : Sess) (m : InMsg)
    (hside : c.side = .acceptor) (hd : s.dead = false) (hr : s.routerStopped = false)
    (hs : s.state = .waitingLogon) (hk : m.kind = .logon) (hp : m.parseOk = true)
    (henc : m.enc ∈ c.allowedEnc) (hlim : ∀ lo hi, c.hbLimits = some (lo, hi) → lo ≤ m.hb ∧ m.hb ≤ hi)
    (ha : m.approve = true) (hh : 0 < m.hb) :
    (step c s (.inbound m)).1.isLogged = true
    ∧ ∃ rest, outBodies (step c s (.inbound m)).2 = .logon m.hb m.enc [] [] :: rest
        ∧ (rest = [] ∨ ∃ b, rest = [.resendRequest b 0]) := by
  have hps : (pre s m).state = .waitingLogon := by rw [pre_state]; simp [hs]
  have hc : checkLogonParams c m = none := by
    unfold checkLogonParams
    simp only [henc, not_true_eq_false, ite_false]
    cases hl : c.hbLimits with
    | none => rfl
    | some p =>
      obtain ⟨lo, hi⟩ := p
      have := hlim lo hi hl
      have h2 : ¬ (m.hb < lo ∨ m.hb > hi) := by omega
      simp [h2]
  have hh' : ¬ m.hb ≤ 0 := by omega
  simp only [step, hd, hr, onInbound_eq, hk, onLogon, hp, hps, hc, ha, hh', hside]
  simp [isLogged, outBodies_append, changeState_bodies, processIncSeq_bodies]
  split <;> simp <;> omega

/-- any other parsable Logon received while waiting: exactly one Reject referencing the Logon's
    sequence number (naming the offending field when there is one), and not logged on -/
theorem C06_acceptor_refused (c : Cfg) (s : Sess) (m : InMsg)
    (hside : c.side = .acceptor) (hd : s.dead = false) (hr : s.routerStopped = false)
    (hs : s.state = .waitingLogon) (hk : m.kind = .logon) (hp : m.parseOk = true)
    (hbad : ¬ (m.enc ∈ c.allowedEnc ∧ (∀ lo hi, c.hbLimits = some (lo, hi) → lo ≤ m.hb ∧ m.hb ≤ hi)
              ∧ m.approve = true ∧ 0 < m.hb)) :
    (step c s (.inbound m)).1.isLogged = false
    ∧ ∃ reason tag, outBodies (step c s (.inbound m)).2 = [.reject m.hdrSeq reason tag]
        ∧ (m.enc ∉ c.allowedEnc → tag = (if c.tagEncrypt = 0 then none else some c.tagEncrypt)) := by
  have hps : (pre s m).state = .waitingLogon := by rw [pre_state]; simp [hs]
  simp only [step, hd, hr, onInbound_eq, hk, onLogon, hp, hps, hside, not_true_eq_false, ite_false]
  cases hc : checkLogonParams c m with
  | some p =>
    obtain ⟨tag, code⟩ := p
    simp only [sendReject_eq]
    refine ⟨by simp [isLogged], itoa code, (if tag = 0 then none else some tag), by simp, ?_⟩
    intro hne
    unfold checkLogonParams at hc
    simp [hne] at hc
    rw [hc.1]
  | none =>
    obtain ⟨h1, h2⟩ := checkLogonParams_none c m hc
    simp only
    by_cases ha : m.approve = true
    · have hh : m.hb ≤ 0 := by
        apply Classical.byContradiction; intro hh
        exact hbad ⟨h1, h2, ha, by omega⟩
      simp only [ha, not_true_eq_false, ite_false, hh, ite_true, sendReject_eq]
      exact ⟨by simp [isLogged], _, _, by simp; exact ⟨rfl, rfl⟩, fun h => absurd h1 h⟩
    · simp only [ha, not_false_eq_true, ite_true, sendReject_eq]
      exact ⟨by simp [isLogged], _, _, by simp; exact ⟨rfl, rfl⟩, fun h => absurd h1 h⟩

/-- an initiating session sends a Logon with its configured heartbeat interval, encryption method
    and credentials as its first message -/
theorem C06_initiator_first (c : Cfg) (st : Settings) (inC outC : Int) (store : List (Int × OutMsg))
    (hside : c.side = .initiator) :
    outBodies (Sess.init c st inC outC store).2 = [.logon st.hb st.enc st.user st.pass]
    ∧ (Sess.init c st inC outC store).1.isLogged = false := by
  unfold Sess.init
  simp [hside, isLogged]

/-- non-vacuity of the hypotheses of `C06_acceptor_reply` -/
example : ∃ (c : Cfg) (m : InMsg), c.side = .acceptor ∧ m.kind = .logon ∧ m.parseOk = true ∧ m.enc ∈ c.allowedEnc
    ∧ (∀ lo hi, c.hbLimits = some (lo, hi) → lo ≤ m.hb ∧ m.hb ≤ hi) ∧ m.approve = true ∧ 0 < m.hb :=
  ⟨{ side := .acceptor, allowedEnc := [[48]], hbLimits := some (1, 60) },
   { kind := .logon, seqTag := .num 1, parseOk := true, hb := 30, enc := [48] },
   rfl, rfl, rfl, by simp, by intro lo hi h; cases h; exact ⟨by decide, by decide⟩, rfl, by decide⟩
