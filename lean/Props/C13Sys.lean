import Proofs.Escape
import FixModel.Sched.ConnSys
/-!
# C13 (part 1) — the blocking structures of a connection have no stuck states

Kernel evaluation (`decide +kernel`, no native code) of `checkSys` on the hand-written blocking
structures of `FixModel/Sched/ConnSys.lean`, one termination cause at a time; `checkSys_sound`
lifts each to: from "the connection is up" with the cause striking at any moment, every reachable
state in which nothing can move is the state in which every goroutine has exited.
(Kept apart from `Props/C13.lean` so that a change of the regenerated facts does not re-run it.)
-/

open ConnSys

def fuel : Nat := 5000

theorem C13_acceptor_check : acceptorCauses.all (fun c => checkSys (acceptorWith c.2) ext fuel) = true := by decide +kernel

/-- accepting side, every termination cause: nothing is blocked forever -/
theorem C13_acceptor (cause : String × List Nat) (hc : cause ∈ acceptorCauses) (c : Nat)
    (hr : ReachC (acceptorWith cause.2) ext c) (hq : succsC (acceptorWith cause.2) ext c = []) : c = 0 := by
  have := C13_acceptor_check
  rw [List.all_eq_true] at this
  exact checkSys_sound _ ext fuel (this cause hc) c hr hq

def initiatorStopped : List (String × List Nat) := initiatorCauses.filter fun c => c.2.contains fHandlerCtx
def initiatorNotStopped : List (String × List Nat) := initiatorCauses.filter fun c => !c.2.contains fHandlerCtx

theorem C13_initiator_check : initiatorStopped.all (fun c => checkSys (initiatorWith c.2) ext fuel) = true := by decide +kernel

/-- initiating side, causes that cancel the handler's context: nothing is blocked forever -/
theorem C13_initiator_handler_stopped (cause : String × List Nat) (hc : cause ∈ initiatorStopped) (c : Nat)
    (hr : ReachC (initiatorWith cause.2) ext c) (hq : succsC (initiatorWith cause.2) ext c = []) : c = 0 := by
  have := C13_initiator_check
  rw [List.all_eq_true] at this
  exact checkSys_sound _ ext fuel (this cause hc) c hr hq

/-- the forwarding goroutine (index 5) is inside `ServeIncoming` (its point 1) -/
def forwarderInServeIncoming (c : Nat) : Bool := locAt (decode (radices (initiatorWith [])) c) 5 == some 1

theorem C13_initiator_partial_check :
    initiatorNotStopped.all (fun c => checkSysP (initiatorWith c.2) ext fuel forwarderInServeIncoming) = true := by
  decide +kernel

/-- known finding F-C13-initiator, exactly delimited: when the connection ends on the initiating side
    without the handler's context being cancelled (peer close, `Initiator.Close`), a reachable state in
    which nothing can move is either "everybody exited" or has the forwarder sitting in `ServeIncoming` -/
theorem C13_initiator_partial (cause : String × List Nat) (hc : cause ∈ initiatorNotStopped) (c : Nat)
    (hr : ReachC (initiatorWith cause.2) ext c) (hq : succsC (initiatorWith cause.2) ext c = []) :
    c = 0 ∨ forwarderInServeIncoming c = true := by
  have := C13_initiator_partial_check
  rw [List.all_eq_true] at this
  exact checkSysP_sound _ ext fuel _ (this cause hc) c hr hq

/-- … and such stuck states are reachable in the model (the finding is not vacuous) -/
theorem C13_initiator_finding_witness :
    initiatorNotStopped.all (fun c => !(stuckIn (initiatorWith c.2) ext (reachList (initiatorWith c.2) ext fuel)).isEmpty) = true := by
  decide +kernel

/-- once everybody has exited on the accepting side the handler's context is cancelled, so `sendRaw`'s
    `select { h.out <- data ; <-h.ctx.Done() }` returns instead of blocking -/
theorem C13_send_returns_acceptor :
    acceptorCauses.all (fun c => (flagsOf (acceptorWith c.2) ext (decode (radices (acceptorWith c.2)) 0)).contains fHandlerCtx) = true := by
  decide

example : acceptorCauses.length = 4 ∧ initiatorStopped.length = 2 ∧ initiatorNotStopped.length = 2 := by decide
