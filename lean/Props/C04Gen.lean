import FixModel.Framing
import FixModel.Facts
import FixModel.Generated.Facts
/-!
# C04 — T-gen: the hand-off structure of the connection code, regenerated from /repo on every run
(kept apart from `Props/C04.lean` so that a change of the facts does not touch the framing and pipeline theorems)
-/

/-! ### the hand-off structure in the source (regenerated facts) -/

def sendsOn (b : BlockSite) (ch : String) : Bool :=
  (b.kind == "send" && b.chan == ch) || b.arms.contains ("send:" ++ ch)

def recvChans (b : BlockSite) : List String :=
  (if b.kind == "recv" || b.kind == "range" then [b.chan] else [])
  ++ b.arms.filterMap fun a => if a.toList.take 5 == "recv:".toList then some (String.ofList (a.toList.drop 5)) else none

/-- number of places in the source that send on a channel -/
def sendSites (ch : String) : Nat := (Generated.blocks.filter (sendsOn · ch)).length

/-- number of places that receive from a channel whose name ends in `suffix` (channels reached through an
    accessor are named by the expression, e.g. `….conn.Reader()`, so only the accessor is compared) -/
def recvSites (suffix : String) : Nat :=
  (Generated.blocks.filter fun b => (recvChans b).any fun c => suffix.toList.reverse.isPrefixOf c.toList.reverse).length

/-- each hand-off channel of a connection has exactly one sending site (so per-channel FIFO gives one order),
    the handler's queue is drained from two places (the Run loop and the drain on stop, never concurrently:
    C13/C16 skeleton), and acceptor and initiator each have one forwarder per direction -/
theorem C04_channels :
    sendSites "root.Conn.reader" = 1
    ∧ sendSites "root.DefaultHandler.incoming" = 1
    ∧ sendSites "root.DefaultHandler.out" = 1
    ∧ recvSites "root.DefaultHandler.incoming" = 2
    ∧ recvSites ".Reader()" = 2
    ∧ recvSites ".Outgoing()" = 2
    ∧ Generated.consts.lookup "root.endOfMsgTag" = some "10="
    -- the reader takes whole delimiter-terminated segments with bufio.Reader.ReadBytes (the model's assumption)
    ∧ Generated.blockKinds.contains ("netread", "<local>", [], false) = true := by decide +kernel

