import Proofs.Basic
/-!
# C11 — no byte string can crash or hang the decoder
-/
theorem C11_sliceFrom_ok (s : Bytes) (n : Nat) (h : n ≤ s.length) : sliceFrom s n = .ok (s.drop n) := by
  unfold sliceFrom
  have : (0 : Int) ≤ n ∧ (n : Int) ≤ s.length := by omega
  simp [this]
