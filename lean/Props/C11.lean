import Proofs.NoPanic
/-!
# C11 — no byte string can crash or hang the decoder

In the model every Go slice expression and index of `fix/encoding` (`scanKeyValue`, the group
branch of `unmarshal`, `splitGroup`, `validateRaw`) and of `fix.ValueByTag` is a *checked*
operation whose failure is the value `Res.panic`. The theorems below say that value is never
produced: for every target message (any template tree, any nesting of groups and components,
any prior population) and **every** byte string the decoder returns `ok` or `err`.

"Cannot hang": every function of the model is a total Lean function — structural recursion
over the template tree and the byte list, and for `splitGroup` (the only loop whose progress
depends on the data) a decreasing-length termination proof that Lean checked at definition
time (`decreasing_by` in `FixModel/Decode.lean`).
-/

/-- the whole decoder, `encoding.Unmarshal` / `DefaultUnmarshaller.Unmarshal` -/
theorem C11_unmarshal (m : Msg) (d : Bytes) : m.unmarshal d ≠ .panic := Msg.unmarshal_ne_panic m d

/-- … in `isPanic` form, as the driver reports it -/
theorem C11_unmarshal_isPanic (m : Msg) (d : Bytes) : (m.unmarshal d).isPanic = false := by
  have := C11_unmarshal m d
  cases h : m.unmarshal d <;> simp_all [Res.isPanic]

/-- the integrity check alone -/
theorem C11_validateRaw (m : Msg) (d : Bytes) : validateRaw m d ≠ .panic := validateRaw_ne_panic m d

/-- field parsing alone (what runs when a custom unmarshaller skips the integrity check):
    any item tree, fresh or pre-populated, any bytes -/
theorem C11_items (is : List Item) (fresh : Bool) (d : Bytes) : unmList is fresh d ≠ .panic :=
  unmList_ne_panic is fresh d

/-- the entry splitter terminates without a panic on every non-empty slice and non-empty first tag
    (the two facts the group branch establishes before calling it) -/
theorem C11_splitGroup (firstTag line : Bytes) (hf : firstTag ≠ []) (hl : line ≠ []) :
    splitGroup firstTag line ≠ .panic := splitGroup_ne_panic firstTag hf _ line rfl hl

/-- `fix.ValueByTag` -/
theorem C11_valueByTag (msg tag : Bytes) : valueByTag msg tag ≠ .panic := valueByTag_ne_panic msg tag

/-- the statement has content: the checked operations *do* panic when their guards are absent —
    `line[1:]` on an empty slice (what the pre-fix code reached for the count field as last field),
    `data[:n]` beyond the length (what the pre-fix `scanKeyValue` did on inputs shorter than `tag=`) -/
example : splitGroup [53] [] = .panic ∧ sliceTo [56] 2 = .panic ∧ byteAt [] 0 = .panic := by
  refine ⟨by simp [splitGroup], by decide, by decide⟩

/-- and the decoder really runs on hostile input: a group count field with nothing behind it is an error,
    not a panic -/
example : ((Item.group [49, 52, 54] [.kv [53, 53] (Val.blank .str)] []).unm false
    [56, 61, 70, 1, 49, 52, 54, 61, 50]).isOk = false := by decide
