import FixModel.Framing
/-!
# C04 — the inbound stream is reassembled into the exact messages sent, per connection
-/

/-! ### independence of read boundaries -/

theorem feedAll_append (s : RState) (a b : Bytes) :
    feedAll s (a ++ b) = ((feedAll (feedAll s a).1 b).1, (feedAll s a).2 ++ (feedAll (feedAll s a).1 b).2) := by
  induction a generalizing s with
  | nil => simp [feedAll]
  | cons x xs ih => simp only [List.cons_append, feedAll, ih, List.append_assoc]

/-- however the stream is cut into reads, the reader ends in the same state having delivered the
    same messages in the same order -/
theorem C04_chunk (s : RState) (chunks : List Bytes) : feedChunks s chunks = feedAll s chunks.flatten := by
  induction chunks generalizing s with
  | nil => rfl
  | cons c cs ih => simp only [feedChunks, List.flatten_cons, feedAll_append, ih]

/-! ### each message exactly once, complete, byte-identical, in order -/

def starts10 (f : Bytes) : Bool := endOfMsgTag.isPrefixOf f

/-- a well-formed message on the wire: fields without SOH, the last one (and only it) starts with `10=` -/
structure WFWire (fields : List Bytes) : Prop where
  nosoh : ∀ f ∈ fields, SOH ∉ f
  last : ∃ init l, fields = init ++ [l] ∧ starts10 l = true ∧ ∀ f ∈ init, starts10 f = false

/-- feeding one field that does not contain SOH just extends the current segment -/
theorem feedAll_noSOH (s : RState) (f : Bytes) (h : SOH ∉ f) :
    feedAll s f = ({ s with seg := s.seg ++ f }, []) := by
  induction f generalizing s with
  | nil => simp [feedAll]
  | cons b bs ih =>
    have hb : b ≠ SOH := by intro e; exact h (by simp [e])
    have hbs : SOH ∉ bs := by intro e; exact h (by simp [e])
    simp only [feedAll, feed, hb, ite_false]
    rw [ih _ hbs]
    simp

theorem take3_prefix (f : Bytes) : ((f ++ [SOH]).length ≥ 3 ∧ (f ++ [SOH]).take 3 = endOfMsgTag) ↔ starts10 f = true := by
  unfold starts10 endOfMsgTag
  match f with
  | [] => simp [List.isPrefixOf]
  | [a] => simp [List.isPrefixOf]
  | [a, b] => simp [List.isPrefixOf, SOH]
  | a :: b :: c :: rest => simp [List.isPrefixOf]; constructor <;> (rintro ⟨h1, h2, h3⟩; exact ⟨h1.symm, h2.symm, h3.symm⟩)

/-- feeding one complete field at a segment boundary -/
theorem feedAll_field (m f : Bytes) (h : SOH ∉ f) :
    feedAll { seg := [], msg := m } (f ++ [SOH]) =
      if starts10 f then ({ seg := [], msg := [] }, [m ++ (f ++ [SOH])])
      else ({ seg := [], msg := m ++ (f ++ [SOH]) }, []) := by
  rw [feedAll_append, feedAll_noSOH _ f h]
  simp only [feedAll, feed, List.nil_append, ite_true]
  by_cases hs : starts10 f = true
  · have := (take3_prefix f).mpr hs
    rw [if_pos this]
    simp [hs]
  · have hn : ¬ ((f ++ [SOH]).length ≥ 3 ∧ (f ++ [SOH]).take 3 = endOfMsgTag) := fun h => hs ((take3_prefix f).mp h)
    rw [if_neg hn]
    simp [hs]

theorem feedAll_fields_no10 (m : Bytes) (fs : List Bytes) (h1 : ∀ f ∈ fs, SOH ∉ f) (h2 : ∀ f ∈ fs, starts10 f = false) :
    feedAll { seg := [], msg := m } (wireOf fs) = ({ seg := [], msg := m ++ wireOf fs }, []) := by
  induction fs generalizing m with
  | nil => simp [wireOf, feedAll]
  | cons f fs ih =>
    have hf := h1 f (by simp)
    have hs := h2 f (by simp)
    simp only [wireOf, List.flatMap_cons]
    rw [feedAll_append, feedAll_field m f hf]
    simp only [hs, Bool.false_eq_true, ite_false]
    have := ih (m ++ (f ++ [SOH])) (fun g hg => h1 g (by simp [hg])) (fun g hg => h2 g (by simp [hg]))
    simp only [wireOf] at this
    rw [this]
    simp [List.append_assoc]

/-- one well-formed message from the idle state: delivered whole, reader idle again -/
theorem feedAll_message (fields : List Bytes) (h : WFWire fields) :
    feedAll RState.idle (wireOf fields) = (RState.idle, [wireOf fields]) := by
  obtain ⟨init, l, rfl, hl, hinit⟩ := h.last
  have hn := h.nosoh
  have e : wireOf (init ++ [l]) = wireOf init ++ (l ++ [SOH]) := by simp [wireOf]
  rw [e, feedAll_append]
  have h1 := feedAll_fields_no10 [] init (fun f hf => hn f (by simp [hf])) hinit
  simp only [RState.idle] at h1 ⊢
  rw [h1]
  simp only [List.nil_append]
  rw [feedAll_field (wireOf init) l (hn l (by simp))]
  simp [hl]

/-- any sequence of well-formed messages, concatenated: each delivered exactly once, complete,
    byte-identical, in the order sent; the reader is idle afterwards -/
theorem C04_frame (msgs : List (List Bytes)) (h : ∀ m ∈ msgs, WFWire m) :
    feedAll RState.idle (msgs.map wireOf).flatten = (RState.idle, msgs.map wireOf) := by
  induction msgs with
  | nil => rfl
  | cons m ms ih =>
    simp only [List.map_cons, List.flatten_cons]
    rw [feedAll_append, feedAll_message m (h m (by simp)), ih (fun x hx => h x (by simp [hx]))]
    simp

/-- with any chunking -/
theorem C04_frame_chunked (msgs : List (List Bytes)) (h : ∀ m ∈ msgs, WFWire m) (chunks : List Bytes)
    (hc : chunks.flatten = (msgs.map wireOf).flatten) :
    feedChunks RState.idle chunks = (RState.idle, msgs.map wireOf) := by
  rw [C04_chunk, hc, C04_frame msgs h]

/-! ### hand-offs: no loss, duplication or reordering for any schedule and any buffer sizes -/

theorem moveStage_inOrder {α} (qs : List (List α)) (i : Nat) : inOrder (moveStage qs i) = inOrder qs := by
  induction qs generalizing i with
  | nil => rfl
  | cons q rest ih =>
    cases rest with
    | nil => rfl
    | cons q' rest' =>
      cases i with
      | zero =>
        cases q with
        | nil => rfl
        | cons x q => simp [moveStage, inOrder, List.append_assoc]
      | succ k =>
        have := ih k
        simp only [moveStage, inOrder, List.reverse_cons, List.flatten_append, List.flatten_cons,
          List.flatten_nil, List.append_nil] at this ⊢
        rw [this]

/-- C04 pipeline: whatever the interleaving of the stages' hand-offs, what has been delivered
    followed by what is in flight, oldest first, is exactly what was sent -/
theorem C04_pipeline {α} (qs : List (List α)) (sched : List Nat) : inOrder (runStages qs sched) = inOrder qs := by
  induction sched generalizing qs with
  | nil => rfl
  | cons i is ih => simp only [runStages]; rw [ih, moveStage_inOrder]

/-- in particular from "everything still at the source": the sink holds a prefix of what was sent -/
theorem C04_delivered_prefix {α} (sent : List α) (k : Nat) (sched : List Nat) :
    ∃ inflight, (runStages (sent :: List.replicate (k + 1) []) sched).getLast?.getD [] ++ inflight = sent := by
  have h := C04_pipeline (sent :: List.replicate (k + 1) []) sched
  have e : inOrder (sent :: List.replicate (k + 1) ([] : List α)) = sent := by
    simp [inOrder, List.flatten_append]
  rw [e] at h
  generalize runStages (sent :: List.replicate (k + 1) []) sched = qs at h
  cases hq : qs.reverse with
  | nil =>
    have : qs = [] := by simpa using hq
    subst this
    exact ⟨sent, by simp⟩
  | cons last rest =>
    refine ⟨rest.flatten, ?_⟩
    have hl : qs.getLast? = some last := by
      rw [← List.head?_reverse, hq]; rfl
    simp only [inOrder, hq, List.flatten_cons] at h
    simp [hl, h]

example : WFWire [[56, 61, 70], [51, 53, 61, 48], [49, 48, 61, 48, 48, 48]] :=
  ⟨by intro f hf; simp at hf; rcases hf with rfl | rfl | rfl <;> decide,
   ⟨[[56, 61, 70], [51, 53, 61, 48]], [49, 48, 61, 48, 48, 48], rfl, by decide, by intro f hf; simp at hf; rcases hf with rfl | rfl <;> decide⟩⟩
