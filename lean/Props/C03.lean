import Proofs.Basic
/-!
# C03 — the integrity check is sound
-/
theorem C03_checksum_width (b : Bytes) : (calcCheckSum b).length = 3 := calcCheckSum_length b
