import Proofs.Integrity
/-!
# C03 — the integrity check is sound

`integrityOK` (in `Spec/Codec.lean`) states, from the bytes alone, that a string is
`BeginString | BodyLength=n | n bytes | CheckSum=c |` with `c` the three-digit sum mod 256 of every
byte before the CheckSum field and CheckSum the last field. `C03_sound`: whatever `validateRaw`
accepts satisfies it — for **every** byte string, not only for damaged copies of valid messages.
`C03_unmarshal_sound`: hence so does everything the decoder accepts, strict or not.
-/

/-- the framing tags are decimal numbers: no delimiter, no '=' -/
def framingTagsOK (m : Msg) : Prop :=
  SOH ∉ m.bsTag ∧ SOH ∉ m.blTag ∧ SOH ∉ m.csTag ∧ EQ ∉ m.bsTag ∧ EQ ∉ m.blTag ∧ EQ ∉ m.csTag

theorem C03_sound (m : Msg) (d : Bytes) (ht : framingTagsOK m) (h : validateRaw m d = .ok ()) :
    integrityOK m.bsTag m.blTag m.csTag d = true := by
  obtain ⟨t1, t2, t3, e1, e2, e3⟩ := ht
  obtain ⟨a⟩ := validateRaw_ok_inv m d h
  exact integrity_core _ _ _ a.bsv a.blv a.csv d a.n t1 t2 t3 e1 e2 e3 a.bsv_soh a.blv_soh a.csv_soh a.atoi_bl a.frame

/-- the decoder accepts nothing the integrity statement does not hold for -/
theorem C03_unmarshal_sound (m m' : Msg) (d : Bytes) (ht : framingTagsOK m) (h : m.unmarshal d = .ok m') :
    integrityOK m.bsTag m.blTag m.csTag d = true := by
  unfold Msg.unmarshal at h
  cases hv : validateRaw m d with
  | ok u => exact C03_sound m d ht hv
  | err => simp [hv] at h
  | panic => simp [hv] at h

/-- non-vacuity: `8=F|9=5|35=0|10=062|` is accepted by the model's `validateRaw` -/
example : validateRaw (Msg.new [56] [57] [49, 48] [51, 53] [70] [48] [] [] [])
    [56,61,70,1, 57,61,53,1, 51,53,61,48,1, 49,48,61,48,54,50,1] = .ok () := by decide
