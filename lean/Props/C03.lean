import Proofs.Insertion
/-!
# C03 — the integrity check is sound

`integrityOK` (in `Spec/Codec.lean`) states, from the bytes alone, that a string is
`BeginString | BodyLength=n | n bytes | CheckSum=c |` with `c` the three-digit sum mod 256 of every
byte before the CheckSum field and CheckSum the last field. `C03_sound`: whatever `validateRaw`
accepts satisfies it — for **every** byte string, not only for damaged copies of valid messages.
`C03_unmarshal_sound`: hence so does everything the decoder accepts, strict or not.
-/

/-- the framing tags are decimal numbers: no delimiter, no '=' -/
def framingTagsOK (m : Msg) : Prop :=
  SOH ∉ m.bsTag ∧ SOH ∉ m.blTag ∧ SOH ∉ m.csTag ∧ EQ ∉ m.bsTag ∧ EQ ∉ m.blTag ∧ EQ ∉ m.csTag

theorem C03_sound (m : Msg) (d : Bytes) (ht : framingTagsOK m) (h : validateRaw m d = .ok ()) :
    integrityOK m.bsTag m.blTag m.csTag d = true := by
  obtain ⟨t1, t2, t3, e1, e2, e3⟩ := ht
  obtain ⟨a⟩ := validateRaw_ok_inv m d h
  exact integrity_core _ _ _ a.bsv a.blv a.csv d a.n t1 t2 t3 e1 e2 e3 a.bsv_soh a.blv_soh a.csv_soh a.atoi_bl a.frame

/-- the decoder accepts nothing the integrity statement does not hold for -/
theorem C03_unmarshal_sound (m m' : Msg) (d : Bytes) (ht : framingTagsOK m) (h : m.unmarshal d = .ok m') :
    integrityOK m.bsTag m.blTag m.csTag d = true := by
  unfold Msg.unmarshal at h
  cases hv : validateRaw m d with
  | ok u => exact C03_sound m d ht hv
  | err => simp [hv] at h
  | panic => simp [hv] at h

/-- **any single-byte substitution is rejected**: if `X ++ a :: Y` is integrity-correct (as every message
    produced by the serializer is) then the same string with any other byte `b` at that position — anywhere:
    framing fields, body, CheckSum digits, delimiters — is not accepted -/
theorem C03_substitution_rejected (m : Msg) (X Y : Bytes) (a b : UInt8) (ht : framingTagsOK m) (hab : a ≠ b)
    (hvalid : integrityOK m.bsTag m.blTag m.csTag (X ++ a :: Y) = true) :
    validateRaw m (X ++ b :: Y) = .err := by
  cases h : validateRaw m (X ++ b :: Y) with
  | err => rfl
  | panic => exact absurd h (validateRaw_ne_panic _ _)
  | ok u =>
    have := C03_sound m _ ht h
    exact absurd (no_single_substitution _ _ _ X Y a b hvalid this) hab

/-- **any truncation is rejected**: no proper prefix of an integrity-correct string is accepted -/
theorem C03_truncation_rejected (m : Msg) (d r : Bytes) (ht : framingTagsOK m) (hr : r ≠ [])
    (hvalid : integrityOK m.bsTag m.blTag m.csTag (d ++ r) = true) :
    validateRaw m d = .err := by
  cases h : validateRaw m d with
  | err => rfl
  | panic => exact absurd h (validateRaw_ne_panic _ _)
  | ok u =>
    have := C03_sound m _ ht h
    exact absurd (no_truncation _ _ _ d r hvalid this) hr

/-- … and therefore by the decoder -/
theorem C03_unmarshal_rejects (m : Msg) (X Y : Bytes) (a b : UInt8) (ht : framingTagsOK m) (hab : a ≠ b)
    (hvalid : integrityOK m.bsTag m.blTag m.csTag (X ++ a :: Y) = true) :
    m.unmarshal (X ++ b :: Y) = .err := by
  unfold Msg.unmarshal
  rw [C03_substitution_rejected m X Y a b ht hab hvalid]
  rfl

/-- the length of the first field of a string (up to its first delimiter) -/
def firstFieldLen (d : Bytes) : Nat := (indexByte SOH d).getD d.length

theorem shape_f0_len {bs bl cs d : Bytes} (s : Shape bs bl cs d) : s.f0.length = firstFieldLen d := by
  unfold firstFieldLen
  have e : d = s.f0 ++ SOH :: (s.f1 ++ SOH :: s.B ++ (cs ++ EQ :: s.vl ++ [SOH])) := by
    have := s.eq
    simpa [List.append_assoc] using this
  have hi : indexByte SOH d = some s.f0.length := by
    have := indexByte_field s.f0 (s.f1 ++ SOH :: s.B ++ (cs ++ EQ :: s.vl ++ [SOH])) s.f0_soh
    exact (congrArg (indexByte SOH) e).trans this
  rw [hi]; rfl

/-- **insertion**: a byte inserted anywhere into an integrity-correct string is rejected — unless it is a NUL inside
    the value of the first (BeginString) field, which changes neither the sum nor the counted length -/
theorem C03_insertion_rejected (m : Msg) (X Y : Bytes) (x : UInt8) (ht : framingTagsOK m)
    (hvalid : integrityOK m.bsTag m.blTag m.csTag (X ++ Y) = true)
    (hx : x ≠ 0 ∨ X.length ≤ m.bsTag.length ∨ firstFieldLen (X ++ Y) < X.length) :
    validateRaw m (X ++ x :: Y) = .err := by
  obtain ⟨_, _, t3, e1, e2, _⟩ := ht
  cases h : validateRaw m (X ++ x :: Y) with
  | err => rfl
  | panic => exact absurd h (validateRaw_ne_panic _ _)
  | ok u =>
    exfalso
    have hi := C03_sound m _ ⟨‹_›, ‹_›, t3, e1, e2, ‹_›⟩ h
    obtain ⟨hx0, s, hlo, hhi⟩ := insertion_char _ _ _ X Y x t3 e1 e2 hvalid hi
    rw [shape_f0_len s] at hhi
    rcases hx with hx | hx | hx
    · exact hx hx0
    · omega
    · omega

/-- **deletion**: deleting a byte from an integrity-correct string is rejected — unless it is a NUL inside the value
    of the first field (the mirror image of the insertion case) -/
theorem C03_deletion_rejected (m : Msg) (X Y : Bytes) (x : UInt8) (ht : framingTagsOK m)
    (hvalid : integrityOK m.bsTag m.blTag m.csTag (X ++ x :: Y) = true)
    (hx : x ≠ 0 ∨ X.length ≤ m.bsTag.length ∨ firstFieldLen (X ++ Y) < X.length) :
    validateRaw m (X ++ Y) = .err := by
  obtain ⟨_, _, t3, e1, e2, _⟩ := ht
  cases h : validateRaw m (X ++ Y) with
  | err => rfl
  | panic => exact absurd h (validateRaw_ne_panic _ _)
  | ok u =>
    exfalso
    have hi := C03_sound m _ ⟨‹_›, ‹_›, t3, e1, e2, ‹_›⟩ h
    obtain ⟨hx0, s, hlo, hhi⟩ := insertion_char _ _ _ X Y x t3 e1 e2 hi hvalid
    rw [shape_f0_len s] at hhi
    rcases hx with hx | hx | hx
    · exact hx hx0
    · omega
    · omega

/-- insertion and deletion are *not* always detectable: a NUL byte inside the BeginString value changes neither
    the byte sum nor the counted length (known finding F-C03-nul-beginstring; inherent to the statement) -/
example : integrityOK [56] [57] [49, 48] [56,61,70,1, 57,61,53,1, 51,53,61,48,1, 49,48,61,48,54,50,1] = true
    ∧ integrityOK [56] [57] [49, 48] [56,61,70,0,1, 57,61,53,1, 51,53,61,48,1, 49,48,61,48,54,50,1] = true := by decide

/-- non-vacuity: `8=F|9=5|35=0|10=062|` is accepted by the model's `validateRaw` -/
example : validateRaw (Msg.new [56] [57] [49, 48] [51, 53] [70] [48] [] [] [])
    [56,61,70,1, 57,61,53,1, 51,53,61,48,1, 49,48,61,48,54,50,1] = .ok () := by decide
