import Props.C13Sys
import FixModel.Sched.Inventory
import FixModel.Generated.Facts
/-!
# C13 — every way a connection can end leaves nothing blocked forever

* `C13_generated`: the inventory of blocking operations regenerated from /repo on this run (every
  channel send / receive, `select` with its arms and `default`, `Wait`, network read / write /
  accept in the root, session and utils packages; function names left out, non-blocking selects left out) equals the inventory the blocking structures
  `ConnSys.acceptor` / `ConnSys.initiator` were written against — a bare send, a dropped
  `ctx.Done()` arm, a new blocking call changes the left-hand side and breaks this obligation.
* `Props/C13Sys.lean`: `C13_acceptor`, `C13_initiator_handler_stopped`, `C13_initiator_partial`,
  `C13_initiator_finding_witness`, `C13_send_returns_acceptor`.
-/

theorem C13_generated : Generated.blockKinds = ConnSys.expectedBlockKinds := by decide
