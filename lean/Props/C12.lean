import FixModel.Gen
/-!
# C12 — generated code is a faithful, deterministic translation of the XML schema

Theorems over the abstract generator `gen` (`FixModel/Gen.lean`); the correspondence run shows
that the real generator emits exactly the declarations `gen` computes, for the shipped schemas
and for seeded mutations of them. "The emitted package compiles" is not expressible here: it is
checked with `go build` on the schemas explored (trusted: the Go compiler) — validated, not proved.
Generation takes no output location at all in the model (the package clause is outside the
abstract package), which is the model-level content of "the same package wherever the output
directory is"; the harness generates into two directories and compares the files.
-/

/-- the i-th accessor of a struct type reads / writes constructor slot i, and is the accessor of
    the i-th member -/
theorem C12_index (g : GenCtx) (ms : List Member) (start : Nat) (accs : List AccD)
    (h : mkAccs g ms start = some accs) :
    accs.length = ms.length ∧
    ∀ k (hk : k < ms.length) (hk' : k < accs.length),
      accs[k].index = start + k ∧ accs[k].name = memberAccName ms[k] ∧ accs[k].kind = ms[k].kind := by
  induction ms generalizing start accs with
  | nil => simp [mkAccs] at h; subst h; simp
  | cons m rest ih =>
    simp only [mkAccs, Option.bind_eq_bind] at h
    cases ht : accType g m with
    | none => simp [ht] at h
    | some t =>
      cases hr : mkAccs g rest (start + 1) with
      | none => simp [ht, hr] at h
      | some r =>
        simp [ht, hr] at h
        subst h
        obtain ⟨l, hi⟩ := ih (start + 1) r hr
        refine ⟨by simp [l], ?_⟩
        intro k hk hk'
        cases k with
        | zero => simp
        | succ j =>
          have := hi j (by simpa using hk) (by simpa using hk')
          simp only [List.getElem_cons_succ]
          exact ⟨by omega, this.2.1, this.2.2⟩

/-- the constructor has one item per member, in member order: a key-value keyed by the member's own
    `Field<Name>` constant, a group constructor, or a component constructor -/
theorem C12_items (g : GenCtx) (ms : List Member) (items : List ItemD) (h : mkItems g ms = some items) :
    items.length = ms.length ∧
    ∀ k (hk : k < ms.length) (hk' : k < items.length),
      match ms[k].kind with
      | .field => ∃ t, items[k] = .kv ("Field" ++ ms[k].name) t
      | .group => items[k] = .grp (grpType ms[k].name)
      | .component => items[k] = .comp ms[k].name := by
  induction ms generalizing items with
  | nil => simp [mkItems] at h; subst h; simp
  | cons m rest ih =>
    simp only [mkItems, Option.bind_eq_bind] at h
    cases hi : memberItem g m with
    | none => simp [hi] at h
    | some it =>
      cases hr : mkItems g rest with
      | none => simp [hi, hr] at h
      | some r =>
        simp [hi, hr] at h
        subst h
        obtain ⟨l, hh⟩ := ih r hr
        refine ⟨by simp [l], ?_⟩
        intro k hk hk'
        cases k with
        | zero =>
          simp only [List.getElem_cons_zero]
          unfold memberItem at hi
          cases hkind : m.kind <;> simp [hkind] at hi ⊢
          · cases hc : g.ctorType m.name with
            | none => simp [hc] at hi
            | some t => simp [hc] at hi; exact ⟨t, hi.symm⟩
          · exact hi.symm
          · exact hi.symm
        | succ j =>
          simp only [List.getElem_cons_succ]
          exact hh j (by simpa using hk) (by simpa using hk')

/-- the arguments of the populating constructor are exactly the required members, in schema order -/
theorem C12_args (g : GenCtx) (ms : List Member) (args : List (String × String)) (h : mkArgs g ms = some args) :
    args.map (·.1) = (ms.filter (·.required)).map fun m => localName m.name := by
  induction ms generalizing args with
  | nil => simp [mkArgs] at h; subst h; rfl
  | cons m rest ih =>
    simp only [mkArgs, Option.bind_eq_bind] at h
    cases hr : mkArgs g rest with
    | none => simp [hr] at h
    | some r =>
      simp only [hr, Option.bind_some] at h
      by_cases hreq : m.required = true
      · simp only [hreq, ite_true] at h
        cases ht : memberGoType g m with
        | none => simp [ht] at h
        | some t =>
          simp [ht] at h
          subst h
          simp [hreq, ih r hr]
      · simp only [hreq] at h
        simp at h
        subst h
        simp [hreq, ih r hr]

/-- the Go type of a field accessor is the type mapping applied to the field's schema type -/
theorem C12_types (g : GenCtx) (m : Member) (hk : m.kind = .field) (t : String) (h : accType g m = some t) :
    ∃ ft, g.makeType m.name = some ft ∧ t = fixTypeToGo ft := by
  unfold accType at h
  simp only [hk] at h
  cases hm : g.makeType m.name with
  | none => simp [hm] at h
  | some ft => simp [hm] at h; exact ⟨ft, rfl, h.symm⟩

/-- schemas with duplicate field numbers or duplicate message types are rejected -/
theorem C12_reject_dups (s : Schema)
    (h : hasDup (s.fields.map (·.number)) = true ∨ hasDup (s.messages.map (·.msgType)) = true) :
    ∃ why, gen s = .reject why := by
  unfold gen
  split
  · exact ⟨_, rfl⟩
  · split
    · exact ⟨_, rfl⟩
    · split
      · exact ⟨_, rfl⟩
      · rename_i h1 h2
        rcases h with h | h <;> simp_all

theorem genBody_consts (s : Schema) (g : GenCtx) (groups : List Member) (cs : List (String × String)) (ps : List ParentD)
    (h : genBody s g groups = some (cs, ps)) :
    (∀ f ∈ s.fields, ("Field" ++ f.name, f.number) ∈ cs) ∧ (∀ m ∈ s.messages, ("MsgType" ++ m.name, m.msgType) ∈ cs) := by
  unfold genBody at h
  simp only [Option.bind_eq_bind, Option.bind_eq_some_iff] at h
  obtain ⟨ec, _, _, _, _, _, _, _, _, _, _, _, _, _, h⟩ := h
  simp only [Option.pure_def, Option.some.injEq, Prod.mk.injEq] at h
  obtain ⟨h1, _⟩ := h
  subst h1
  constructor
  · intro f hf
    simp only [List.mem_append]
    exact Or.inl (Or.inl (List.mem_map.mpr ⟨f, hf, rfl⟩))
  · intro m hm
    simp only [List.mem_append]
    exact Or.inr (List.mem_map.mpr ⟨m, hm, rfl⟩)

/-- accepted schemas: every field-number constant equals the schema's number, every message-type
    constant the schema's message type, and the BeginString is `type.major.minor` -/
theorem C12_consts (s : Schema) (consts : List (String × String)) (bs : String) (ps : List ParentD)
    (h : gen s = .ok consts bs ps) :
    (∀ f ∈ s.fields, ("Field" ++ f.name, f.number) ∈ consts)
    ∧ (∀ m ∈ s.messages, ("MsgType" ++ m.name, m.msgType) ∈ consts)
    ∧ bs = s.typ ++ "." ++ s.major ++ "." ++ s.minor := by
  unfold gen at h
  split at h
  · simp at h
  split at h
  · simp at h
  split at h
  · simp at h
  simp only at h
  split at h
  · simp at h
  split at h
  · simp at h
  split at h
  · simp at h
  split at h
  · simp at h
  split at h
  · simp at h
  · rename_i cs pp hb
    simp only [GenResult.ok.injEq] at h
    obtain ⟨h1, h2, h3⟩ := h
    subst h1 h2 h3
    have := genBody_consts s _ _ _ _ hb
    exact ⟨this.1, this.2, rfl⟩

example : hasDup ["1", "2", "1"] = true := by decide
