import Proofs.SessionInv
/-!
# C07 — nothing but Logon, Logout and Reject is sent to a peer that has not logged on

For every history of peer-driven events and timer expiries (local application sends are the
application's own acts and are excluded), for every initial store content and counters, for
both roles: as long as no *acceptable* Logon has been received, every message the session
emits — numbered or retransmitted — is a Logon, a Logout or a Reject.
-/

open Sess

theorem init_sinv (c : Cfg) (st : Settings) (inC outC : Int) (store : List (Int × OutMsg)) :
    SInv c (Sess.init c st inC outC store).1 := by
  unfold Sess.init
  cases hs : c.side <;> constructor <;> simp [hs]

theorem init_notAuth (c : Cfg) (st : Settings) (inC outC : Int) (store : List (Int × OutMsg)) :
    ¬ Auth (Sess.init c st inC outC store).1 := by
  unfold Sess.init Auth loggedOn
  cases hs : c.side <;> simp

theorem init_bodies (c : Cfg) (st : Settings) (inC outC : Int) (store : List (Int × OutMsg)) :
    ∀ b ∈ outBodies (Sess.init c st inC outC store).2, allowedPre b := by
  unfold Sess.init
  cases hs : c.side <;> simp

theorem C07_preauth (c : Cfg) (st : Settings) (inC outC : Int) (store : List (Int × OutMsg)) (es : List Ev)
    (hno : noAppSend es) (hacc : ∀ m ∈ inboundMsgs es, ¬ acceptable c m) :
    ∀ b ∈ outBodies ((Sess.init c st inC outC store).2 ++ (run c (Sess.init c st inC outC store).1 es).2),
      allowedPre b := by
  intro b hb
  rw [outBodies_append, List.mem_append] at hb
  rcases hb with hb | hb
  · exact init_bodies c st inC outC store b hb
  · exact (run_preauth c _ es (init_sinv c st inC outC store) (init_notAuth c st inC outC store) hno hacc).2 b hb

/-- in particular: a ResendRequest over any range, sent before logon to a session whose store
    already holds messages, retransmits nothing -/
theorem C07_no_resend_before_logon (c : Cfg) (s : Sess) (m : InMsg) (hinv : SInv c s) (hna : ¬ Auth s)
    (hk : m.kind = .resendRequest) :
    ∀ o ∈ (step c s (.inbound m)).2, ∀ x, o ≠ .resend x := by
  intro o ho x hx
  subst hx
  have hacc : ¬ acceptable c m := by intro h; rw [h.1] at hk; cases hk
  rcases step_preauth c s (.inbound m) hinv hna (by intro t h; cases h) with ⟨m', hm', ha⟩ | ⟨_, h2⟩
  · cases hm'; exact hacc ha
  · simp only [step] at ho h2
    split at ho
    · simp at ho
    · rename_i hh
      simp only [hh, ite_false] at h2
      rw [onInbound_eq] at ho h2
      simp only [hk] at ho h2
      obtain ⟨hpl, _⟩ := pre_notLogged s m hna
      unfold onResendRequest at ho
      split at ho
      · simp [rejectMessage_eq] at ho
      · simp [hpl, rejectMessage_eq] at ho

/-- non-vacuity: a history with a refused Logon, a ResendRequest and timer events -/
example : noAppSend [Ev.inbound { kind := .resendRequest, seqTag := .num 1, parseOk := true, beginSeq := 1 }, Ev.inTimer] := by
  intro e he t; simp at he; rcases he with rfl | rfl <;> simp
