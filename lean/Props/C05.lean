import Proofs.SeqLock
import Proofs.Store
import FixModel.Generated.Facts
/-!
# C05 — outbound messages are numbered 1,2,3,… with no gap, duplicate or reordering

Three layers:

1. `C05_consecutive` (generic, every schedule of any number of concurrent sends): when each send
   runs `lock · fetch-and-add · … · enqueue · unlock`, the queue of numbers handed to the transport
   is `c₀+1, c₀+2, …` whatever the interleaving.
2. `C05_generated` (kernel evaluation of the regenerated facts): the code *is* such a program — in every
   exported entry point of package `session` the next number is requested, and the message handed to the handler's
   `Send`, only with `s.mu` held (scopes of deferred unlocks and closure bodies taken into account); in
   `Session.Send` the number is taken before the hand-over; in the root package everything that reaches
   `DefaultHandler.out` does so under the handler's mutex (except through `SendRaw`), after serialization.
3. `C05_sequential` / `C05_header` (session model, every history): the messages a session numbers
   carry consecutive numbers continuing from the stored counter, and each carries the session's
   current sender / target identifiers.
-/

theorem C05_consecutive (c0 : Nat) (sched : List Nat) :
    (slRun { counter := c0 } sched).queue = List.range' (c0 + 1) (slRun { counter := c0 } sched).queue.length :=
  (slRun_inv c0 _ sched (slInv_init c0)).queue

/-- at most one send is between taking its number and enqueueing it -/
theorem C05_one_in_flight (c0 : Nat) (sched : List Nat) (t u : Nat)
    (ht : ((slRun { counter := c0 } sched).ts t).pc = 2) (hu : ((slRun { counter := c0 } sched).ts u).pc = 2) : t = u := by
  have inv := slRun_inv c0 _ sched (slInv_init c0)
  have h1 := (inv.crit t).mp (by omega)
  have h2 := (inv.crit u).mp (by omega)
  rw [h1] at h2
  cases h2; rfl

/-! ### the regenerated call structure (deep skeleton: exported entry points with private helpers, closures and
method values expanded in place; `{ … }` = scope of a helper that defers, `fn{ … }` = code that runs later) -/

structure Frame where
  closure : Bool
  saved : Bool        -- was the mutex held outside (restored when a closure body ends)
  deferred : Bool     -- its unlock is deferred in this scope

/-- walk a deep skeleton row keeping track of whether mutex `m` is held; `false` as soon as `target` occurs without it -/
def heldAtAllAux (m target : String) : List String → Bool → List Frame → Bool
  | [], _, _ => true
  | op :: rest, held, stack =>
    if op == "{" then heldAtAllAux m target rest held ({ closure := false, saved := false, deferred := false } :: stack)
    else if op == "fn{" then heldAtAllAux m target rest false ({ closure := true, saved := held, deferred := false } :: stack)
    else if op == "}" then
      match stack with
      | [] => heldAtAllAux m target rest held []
      | f :: fs => heldAtAllAux m target rest (if f.closure then f.saved else (held && !f.deferred)) fs
    else if op == "lock " ++ m || op == "rlock " ++ m then heldAtAllAux m target rest true stack
    else if op == "unlock " ++ m then heldAtAllAux m target rest false stack
    else if op == "defer-unlock " ++ m then
      match stack with
      | [] => heldAtAllAux m target rest held []
      | f :: fs => heldAtAllAux m target rest held ({ f with deferred := true } :: fs)
    else if op == target then held && heldAtAllAux m target rest held stack
    else heldAtAllAux m target rest held stack

def heldAtAll (m target : String) (row : List String) : Bool := heldAtAllAux m target row false []

def idxOf (l : List String) (x : String) : Option Nat := l.findIdx? (· == x)

def rowOf (sk : List (String × List String)) (name : String) : List String := (sk.lookup name).getD []

/-- in every exported entry point of package `session`, every request for the next sequence number and every hand-over
    to the handler's `Send` happens with the session's send mutex held -/
def numberingUnderLock : Bool :=
  Generated.sessionSkeleton.all fun r =>
    heldAtAll "session.Session.mu" "session.CounterStorage.GetNextSeqNum" r.2
    && heldAtAll "session.Session.mu" "session.Handler.Send" r.2

/-- `Session.Send`: the number is taken (under the lock) before the message is handed to the handler -/
def sendOrderOK : Bool :=
  let p := rowOf Generated.sessionSkeleton "Session.Send"
  match idxOf p "session.CounterStorage.GetNextSeqNum", idxOf p "session.Handler.Send" with
  | some i, some j => i < j
  | _, _ => false

/-- root package: whatever reaches the outgoing channel does so with the handler's mutex held (so that outgoing handlers,
    serialization and enqueueing of one message are not interleaved with another's) — except through `SendRaw`, the
    documented bypass; and serialization comes before the enqueue -/
def enqueueUnderLock : Bool :=
  Generated.connSkeleton.all fun r =>
    r.1 == "DefaultHandler.SendRaw" || heldAtAll "root.DefaultHandler.<mutex>" "chan-send root.DefaultHandler.out" r.2

def serializeBeforeEnqueue (name : String) : Bool :=
  let p := rowOf Generated.connSkeleton name
  match idxOf p "root.SendingMessage.ToBytes", idxOf p "chan-send root.DefaultHandler.out" with
  | some i, some j => i < j
  | _, _ => false

theorem C05_generated :
    numberingUnderLock = true ∧ sendOrderOK = true ∧ enqueueUnderLock = true
    ∧ serializeBeforeEnqueue "DefaultHandler.Send" = true ∧ serializeBeforeEnqueue "DefaultHandler.SendBatch" = true := by
  decide +kernel

/-- the checker has teeth: a number taken before the lock, or a closure body (which runs later, without the caller's
    locks) asking for a number, is refused -/
example : heldAtAll "m" "next" ["next", "{", "lock m", "defer-unlock m", "send", "}"] = false
    ∧ heldAtAll "m" "next" ["{", "lock m", "defer-unlock m", "fn{", "next", "}", "}"] = false
    ∧ heldAtAll "m" "next" ["{", "lock m", "defer-unlock m", "next", "}", "next"] = false
    ∧ heldAtAll "m" "next" ["{", "lock m", "defer-unlock m", "next", "send", "}"] = true := by decide

/-- session level: for every history from any state, the messages the session numbers carry
    `outCounter+1, outCounter+2, …` (in particular a later session re-using a counter store
    continues from the stored counter) -/
theorem C05_sequential (c : Cfg) (s0 : Sess) (es : List Ev) :
    Numbered s0.outCounter (msgsOf (run c s0 es).2) := (trace_run c s0 es).numbered

theorem C05_init_continues (c : Cfg) (st : Settings) (inC outC : Int) (store : List (Int × OutMsg)) (es : List Ev) :
    Numbered outC (msgsOf ((Sess.init c st inC outC store).2 ++ (run c (Sess.init c st inC outC store).1 es).2)) := by
  -- `init` followed by the history is itself a trace from the initial state
  have hinit : Trace ({ state := .waitingLogon, settings := st, inCounter := inC, outCounter := outC, store := store } : Sess)
      (Sess.init c st inC outC store) := by
    unfold Sess.init
    cases c.side
    · exact trace_silent _ _ [] rfl rfl rfl
    · refine trace_from _ _ _ ?_ ?_ (trace_send _ _) <;> rfl
  have h := trace_andThen _ (Sess.init c st inC outC store) (fun s => run c s es) hinit (trace_run c _ es)
  exact h.numbered

/-- every numbered message carries the number just assigned and the session's current identifiers -/
theorem C05_header (s : Sess) (b : OutBody) :
    (s.send b).2 = [.msg { seq := s.outCounter + 1, sender := s.settings.sender, target := s.settings.target, body := b }] := rfl

example : (slRun { counter := 7 } [0, 1, 0, 0, 1, 0, 1, 1, 1]).queue = [8, 9] := by decide
