import Proofs.SeqLock
import Proofs.Store
/-!
# C05 — outbound messages are numbered 1,2,3,… with no gap, duplicate or reordering

Three layers:

1. `C05_consecutive` (generic, every schedule of any number of concurrent sends): when each send
   runs `lock · fetch-and-add · … · enqueue · unlock`, the queue of numbers handed to the transport
   is `c₀+1, c₀+2, …` whatever the interleaving.
2. `C05_generated` (kernel evaluation of the regenerated facts): the code *is* such a program — in every
   exported entry point of package `session` the next number is requested, and the message handed to the handler's
   `Send`, only with `s.mu` held (scopes of deferred unlocks and closure bodies taken into account); in
   `Session.Send` the number is taken before the hand-over; in the root package everything that reaches
   `DefaultHandler.out` does so under the handler's mutex (except through `SendRaw`), after serialization.
3. `C05_sequential` / `C05_header` (session model, every history): the messages a session numbers
   carry consecutive numbers continuing from the stored counter, and each carries the session's
   current sender / target identifiers.
-/

theorem C05_consecutive (c0 : Nat) (sched : List Nat) :
    (slRun { counter := c0 } sched).queue = List.range' (c0 + 1) (slRun { counter := c0 } sched).queue.length :=
  (slRun_inv c0 _ sched (slInv_init c0)).queue

/-- at most one send is between taking its number and enqueueing it -/
theorem C05_one_in_flight (c0 : Nat) (sched : List Nat) (t u : Nat)
    (ht : ((slRun { counter := c0 } sched).ts t).pc = 2) (hu : ((slRun { counter := c0 } sched).ts u).pc = 2) : t = u := by
  have inv := slRun_inv c0 _ sched (slInv_init c0)
  have h1 := (inv.crit t).mp (by omega)
  have h2 := (inv.crit u).mp (by omega)
  rw [h1] at h2
  cases h2; rfl

/-- session level: for every history from any state, the messages the session numbers carry
    `outCounter+1, outCounter+2, …` (in particular a later session re-using a counter store
    continues from the stored counter) -/
theorem C05_sequential (c : Cfg) (s0 : Sess) (es : List Ev) :
    Numbered s0.outCounter (msgsOf (run c s0 es).2) := (trace_run c s0 es).numbered

theorem C05_init_continues (c : Cfg) (st : Settings) (inC outC : Int) (store : List (Int × OutMsg)) (es : List Ev) :
    Numbered outC (msgsOf ((Sess.init c st inC outC store).2 ++ (run c (Sess.init c st inC outC store).1 es).2)) := by
  -- `init` followed by the history is itself a trace from the initial state
  have hinit : Trace ({ state := .waitingLogon, settings := st, inCounter := inC, outCounter := outC, store := store } : Sess)
      (Sess.init c st inC outC store) := by
    unfold Sess.init
    cases c.side
    · exact trace_silent _ _ [] rfl rfl rfl
    · refine trace_from _ _ _ ?_ ?_ (trace_send _ _) <;> rfl
  have h := trace_andThen _ (Sess.init c st inC outC store) (fun s => run c s es) hinit (trace_run c _ es)
  exact h.numbered

/-- every numbered message carries the number just assigned and the session's current identifiers -/
theorem C05_header (s : Sess) (b : OutBody) :
    (s.send b).2 = [.msg { seq := s.outCounter + 1, sender := s.settings.sender, target := s.settings.target, body := b }] := rfl

example : (slRun { counter := 7 } [0, 1, 0, 0, 1, 0, 1, 1, 1]).queue = [8, 9] := by decide
