import Proofs.Basic
/-!
# C18 — a tag is recognised only at a field boundary
-/
theorem C18_placeholder_fieldIndex_prefix (k v rest : Bytes) :
    fieldIndex (k ++ EQ :: v ++ rest) k = some 0 := by
  unfold fieldIndex
  have : (k ++ [EQ]).isPrefixOf (k ++ EQ :: v ++ rest) = true := by
    induction k with
    | nil => simp [List.isPrefixOf]
    | cons c cs ih => simp [List.isPrefixOf, ih]
  simp
