import Proofs.Scan
/-!
# C18 — a tag is recognised only at a field boundary

The decoder and `ValueByTag` never split a message into fields; they search its bytes for
`tag=` at offset 0 or `SOH tag =` anywhere. The theorems say that this search *is* a lookup at
field boundaries, for **every** byte string that ends with the delimiter (`wireFields w = some fs`
holds exactly for those, `fs` being its SOH-separated fields) and every tag without SOH / '=':

* `C18_boundary`  (any bytes at all): a reported offset is 0 or directly after a SOH, and `tag=`
  starts there — never in the middle of a longer tag, never inside a value;
* `C18_scan`: the value `scanKeyValue` extracts is the value of the first field whose *whole* tag
  equals the key (the independent spec `lookupField`: split at SOH, split each field at its first
  '=', compare tags for equality), and the field is reported absent iff no field has that tag;
* `C18_valueByTag`: the same for `fix.ValueByTag`, which prefers fields after the first one.

(End-of-message detection in the stream reader is the other half of this property; its theorems
are `C04_frame*` in `Props/C04.lean`, over the reader model `feed`.)
-/

/-- only at a boundary, only the whole tag — for every byte string -/
theorem C18_boundary (w k : Bytes) (off : Nat) (h : fieldIndex w k = some off) :
    (off = 0 ∨ w[off - 1]? = some SOH) ∧ (k ++ [EQ]).isPrefixOf (w.drop off) = true := by
  unfold fieldIndex at h
  simp only at h
  split at h
  · rename_i hp
    simp at h; subst h
    exact ⟨Or.inl rfl, by simpa using hp⟩
  · cases hi : indexOf (SOH :: (k ++ [EQ])) w with
    | none => simp [hi] at h
    | some j =>
      simp [hi] at h; subst h
      have hp := indexOf_prefix _ _ _ hi
      have hb := indexOf_bound _ _ _ hi
      simp only [List.length_cons] at hb
      have hj : j < w.length := by omega
      rw [List.drop_eq_getElem_cons hj] at hp
      simp only [List.isPrefixOf, Bool.and_eq_true, beq_iff_eq] at hp
      refine ⟨Or.inr ?_, hp.2⟩
      simp [List.getElem?_eq_getElem hj, hp.1]

/-- the decoder's field search is the boundary lookup of the independent spec -/
theorem C18_scan (w k : Bytes) (fs : List Bytes) (hw : wireFields w = some fs)
    (hk : SOH ∉ k) (hk2 : EQ ∉ k) : scanValue w k = .ok (lookupField k fs) := by
  obtain ⟨rfl, hfs⟩ := wireFields_some w fs hw
  rw [scanValue_joinF k hk fs hfs, lookupField_eq k hk2]

/-- `scanKeyValue` on a KeyValue: untouched when no field has the tag, else `FromBytes` of that field's value -/
theorem C18_scanKV (w k : Bytes) (fs : List Bytes) (v : Val) (hw : wireFields w = some fs)
    (hk : SOH ∉ k) (hk2 : EQ ∉ k) :
    scanKV w k v = match lookupField k fs with
      | none => .ok v
      | some b => (match v.fromBytes b with | some v' => .ok v' | none => .err) := by
  unfold scanKV
  rw [C18_scan w k fs hw hk hk2]
  cases lookupField k fs <;> rfl

/-- `fix.ValueByTag` on a message with first field `f0` and further fields `fs` -/
theorem C18_valueByTag (w tag f0 : Bytes) (fs : List Bytes) (hw : wireFields w = some (f0 :: fs))
    (hk : SOH ∉ tag) (hk2 : EQ ∉ tag) :
    valueByTag w tag = match lookupField tag fs with
      | some v => .ok v
      | none => (match lookupField tag [f0] with | some v => .ok v | none => .err) := by
  obtain ⟨rfl, hfs⟩ := wireFields_some w _ hw
  rw [valueByTag_joinF tag hk f0 fs (hfs f0 (by simp)) (fun g hg => hfs g (by simp [hg]))]
  unfold vbtSpec
  rw [lookupField_eq tag hk2 fs, lookupField_eq tag hk2 [f0]]
  cases lookupPref tag fs with
  | some v => rfl
  | none =>
    simp only [lookupPref]
    split <;> rfl

/-- whatever `ValueByTag` returns is the value of a field whose whole tag is the requested one -/
theorem C18_valueByTag_sound (w tag v : Bytes) (fs : List Bytes) (hw : wireFields w = some fs)
    (hk : SOH ∉ tag) (hk2 : EQ ∉ tag) (h : valueByTag w tag = .ok v) : (tag ++ EQ :: v) ∈ fs := by
  have mem_of_lookup : ∀ (l : List Bytes) (x : Bytes), lookupPref tag l = some x → (tag ++ EQ :: x) ∈ l := by
    intro l
    induction l with
    | nil => intro x hx; simp [lookupPref] at hx
    | cons f l ih =>
      intro x hx
      unfold lookupPref at hx
      split at hx
      · rename_i hp
        simp at hx; subst hx
        have := isPrefixOf_drop _ _ hp
        simp only [List.length_append, List.length_singleton, List.append_assoc, List.singleton_append] at this
        simp [← this]
      · simp [ih x hx]
  cases fs with
  | nil =>
    obtain ⟨rfl, _⟩ := wireFields_some w _ hw
    simp [joinF, valueByTag] at h
  | cons f0 fs =>
    rw [C18_valueByTag w tag f0 fs hw hk hk2, lookupField_eq tag hk2 fs, lookupField_eq tag hk2 [f0]] at h
    cases hl : lookupPref tag fs with
    | some x =>
      simp [hl] at h; subst h
      simp [mem_of_lookup fs x hl]
    | none =>
      simp only [hl] at h
      cases hl0 : lookupPref tag [f0] with
      | none => simp [hl0] at h
      | some x =>
        simp [hl0] at h; subst h
        have := mem_of_lookup [f0] x hl0
        simp at this
        simp [this]

/-- non-vacuity and the point of the property: in `8=F|1035=X|35=D|58=35=Z|10=000|` the tag 35 is found in
    the third field — not inside tag 1035, not inside the value of 58 -/
example :
    let w : Bytes := [56,61,70,1, 49,48,51,53,61,88,1, 51,53,61,68,1, 53,56,61,51,53,61,90,1, 49,48,61,48,48,48,1]
    wireFields w = some [[56,61,70], [49,48,51,53,61,88], [51,53,61,68], [53,56,61,51,53,61,90], [49,48,61,48,48,48]]
    ∧ scanValue w [51,53] = .ok (some [68])
    ∧ valueByTag w [51,53] = .ok [68] := by
  decide
