import FixModel.Timer
/-!
# C08 — a logged-on session never stays silent longer than the heartbeat interval

`T` = heartbeat interval, `P` = polling period (`T / 10`). For every well-formed sequence of
refreshes (outbound messages) and polls:

* `C08_upper`: at every moment up to the next poll, less than `T + P` has passed since the last
  outbound message (the loop's own message included) — if nothing else is sent the timer emits.
* `C08_lower`: the timer emits only at a poll `τ` with `τ ≥ last outbound + T` — traffic postpones it.
-/

/-- the poll already seen lies before `last + T` -/
def TInv (T P : Nat) (s : TSt) : Prop := s.start + s.polls * P < s.last + T ∧ s.start ≤ s.last

theorem tstep_inv (T P : Nat) (hT : 0 < T) (s : TSt) (e : TEv) (h : TInv T P s)
    (hwf : match e with | .refresh t => s.refreshOK P t | .poll => True) : TInv T P (tstep T P s e).1 := by
  cases e with
  | refresh t =>
    obtain ⟨h1, _, h3⟩ := hwf
    simp only [tstep, TInv]
    exact ⟨by omega, by have := h.2; omega⟩
  | poll =>
    simp only [tstep]
    split
    · simp only [TInv]; omega
    · rename_i hn
      simp only [TInv, TSt.nextPoll] at *
      exact ⟨by omega, h.2⟩

theorem trun_inv (T P : Nat) (hT : 0 < T) (s : TSt) (es : List TEv) (h : TInv T P s) (hwf : TWF T P s es) :
    TInv T P (trun T P s es).1 := by
  induction es generalizing s with
  | nil => exact h
  | cons e es ih =>
    cases e with
    | refresh t => exact ih _ (tstep_inv T P hT s _ h hwf.1) hwf.2
    | poll => exact ih _ (tstep_inv T P hT s _ h trivial) hwf

/-- after any well-formed history, at any time `now` up to the next poll, the silence since the
    last outbound message is shorter than `T + P` -/
theorem C08_upper (T P : Nat) (hT : 0 < T) (t0 : Nat) (es : List TEv)
    (hwf : TWF T P { start := t0, last := t0 } es) (now : Nat)
    (hnow : now ≤ (trun T P { start := t0, last := t0 } es).1.nextPoll P) :
    now < (trun T P { start := t0, last := t0 } es).1.last + T + P := by
  have inv := trun_inv T P hT _ es (show TInv T P { start := t0, last := t0 } by simp [TInv]; omega) hwf
  simp only [TSt.nextPoll, TInv] at *
  have : (trun T P { start := t0, last := t0 } es).1.start + ((trun T P { start := t0, last := t0 } es).1.polls + 1) * P
      = (trun T P { start := t0, last := t0 } es).1.start + (trun T P { start := t0, last := t0 } es).1.polls * P + P := by
    rw [Nat.add_mul]; omega
  omega

/-- the timer's own message is emitted only at a poll at least `T` after the last outbound message -/
theorem C08_lower (T P : Nat) (s : TSt) (τ : Nat) (h : (tstep T P s .poll).2 = some τ) :
    τ = s.nextPoll P ∧ τ ≥ s.last + T := by
  simp only [tstep] at h
  split at h
  · simp at h; subst h; exact ⟨rfl, by assumption⟩
  · cases h

/-- … and when it does, the next period starts at that moment -/
theorem C08_restart (T P : Nat) (s : TSt) (τ : Nat) (h : (tstep T P s .poll).2 = some τ) :
    (tstep T P s .poll).1 = { start := τ, polls := 0, last := τ } := by
  simp only [tstep] at h ⊢
  split at h
  · simp at h; subst h; simp [*]
  · cases h

/-- non-vacuity: T = 10, P = 1, a send at time 4, then polls: the heartbeat comes at 14 -/
example : (trun 10 1 { start := 0, last := 0 } ([.poll, .poll, .poll, .poll, .refresh 4] ++ List.replicate 10 .poll)).2 = [14] := by decide
