import FixModel.Generated.Facts
/-!
# C05 — T-gen: numbering and enqueueing happen under the lock, in the regenerated call structure
(kept apart from `Props/C05.lean` so that a change of the facts does not touch the scheduling theorems)
-/

/-! ### the regenerated call structure (deep skeleton: exported entry points with private helpers, closures and
method values expanded in place; `{ … }` = scope of a helper that defers, `fn{ … }` = code that runs later) -/

structure Frame where
  closure : Bool
  saved : Bool        -- was the mutex held outside (restored when a closure body ends)
  deferred : Bool     -- its unlock is deferred in this scope

/-- walk a deep skeleton row keeping track of whether mutex `m` is held; `false` as soon as `target` occurs without it -/
def heldAtAllAux (m target : String) : List String → Bool → List Frame → Bool
  | [], _, _ => true
  | op :: rest, held, stack =>
    if op == "{" then heldAtAllAux m target rest held ({ closure := false, saved := false, deferred := false } :: stack)
    else if op == "fn{" then heldAtAllAux m target rest false ({ closure := true, saved := held, deferred := false } :: stack)
    else if op == "}" then
      match stack with
      | [] => heldAtAllAux m target rest held []
      | f :: fs => heldAtAllAux m target rest (if f.closure then f.saved else (held && !f.deferred)) fs
    else if op == "lock " ++ m || op == "rlock " ++ m then heldAtAllAux m target rest true stack
    else if op == "unlock " ++ m then heldAtAllAux m target rest false stack
    else if op == "defer-unlock " ++ m then
      match stack with
      | [] => heldAtAllAux m target rest held []
      | f :: fs => heldAtAllAux m target rest held ({ f with deferred := true } :: fs)
    else if op == target then held && heldAtAllAux m target rest held stack
    else heldAtAllAux m target rest held stack

def heldAtAll (m target : String) (row : List String) : Bool := heldAtAllAux m target row false []

def idxOf (l : List String) (x : String) : Option Nat := l.findIdx? (· == x)

def rowOf (sk : List (String × List String)) (name : String) : List String := (sk.lookup name).getD []

/-- in every exported entry point of package `session`, every request for the next sequence number and every hand-over
    to the handler's `Send` happens with the session's send mutex held -/
def numberingUnderLock : Bool :=
  Generated.sessionSkeleton.all fun r =>
    heldAtAll "session.Session.<mutex>" "session.CounterStorage.GetNextSeqNum" r.2
    && heldAtAll "session.Session.<mutex>" "session.Handler.Send" r.2

/-- `Session.Send`: the number is taken (under the lock) before the message is handed to the handler -/
def sendOrderOK : Bool :=
  let p := rowOf Generated.sessionSkeleton "Session.Send"
  match idxOf p "session.CounterStorage.GetNextSeqNum", idxOf p "session.Handler.Send" with
  | some i, some j => i < j
  | _, _ => false

/-- root package: whatever reaches the outgoing channel does so with the handler's mutex held (so that outgoing handlers,
    serialization and enqueueing of one message are not interleaved with another's) — except through `SendRaw`, the
    documented bypass; and serialization comes before the enqueue -/
def enqueueUnderLock : Bool :=
  Generated.connSkeleton.all fun r =>
    r.1 == "DefaultHandler.SendRaw" || heldAtAll "root.DefaultHandler.<mutex>" "chan-send root.DefaultHandler.out" r.2

def serializeBeforeEnqueue (name : String) : Bool :=
  let p := rowOf Generated.connSkeleton name
  match idxOf p "root.SendingMessage.ToBytes", idxOf p "chan-send root.DefaultHandler.out" with
  | some i, some j => i < j
  | _, _ => false

theorem C05_generated :
    numberingUnderLock = true ∧ sendOrderOK = true ∧ enqueueUnderLock = true
    ∧ serializeBeforeEnqueue "DefaultHandler.Send" = true ∧ serializeBeforeEnqueue "DefaultHandler.SendBatch" = true := by
  decide +kernel

/-- the checker has teeth: a number taken before the lock, or a closure body (which runs later, without the caller's
    locks) asking for a number, is refused -/
example : heldAtAll "m" "next" ["next", "{", "lock m", "defer-unlock m", "send", "}"] = false
    ∧ heldAtAll "m" "next" ["{", "lock m", "defer-unlock m", "fn{", "next", "}", "}"] = false
    ∧ heldAtAll "m" "next" ["{", "lock m", "defer-unlock m", "next", "}", "next"] = false
    ∧ heldAtAll "m" "next" ["{", "lock m", "defer-unlock m", "next", "send", "}"] = true := by decide

