import Proofs.Encode
/-!
# C01 — serialized messages carry a correct BodyLength and CheckSum

For every message `m` (any header / body / trailer trees, any values): `encode m` is
`BeginString | BodyLength=n | body | CheckSum=c |` where `body` has exactly `n` bytes, starts
with the MsgType field, and `c` is the three-digit sum mod 256 of every byte before the CheckSum
field. No hypothesis on the values is needed (SOH-freeness matters only for reading the image
back, see C17/C02).
-/

/-- the message has a BeginString and a MsgType (as every message made by `NewMessage` with
    non-empty arguments has) -/
structure WFMsg (m : Msg) : Prop where
  bs_valid : m.bs.valid = true
  bs_text : m.bs.text ≠ []
  bs_kind : m.bs.kind = .str
  mt_valid : m.mt.valid = true
  mt_text : m.mt.text ≠ []
  mt_kind : m.mt.kind = .str

/-- the framing statement about a wire image `w` -/
def Framed (m : Msg) (w : Bytes) : Prop :=
  ∃ body c,
    w = tagValue m.bsTag m.bs.text ++ SOH :: tagValue m.blTag (natDigits body.length) ++ SOH :: body
          ++ tagValue m.csTag c ++ [SOH]
    ∧ (∃ rest, body = tagValue m.mtTag m.mt.text ++ SOH :: rest)
    ∧ c = pad3 (natDigits (sumBytes (tagValue m.bsTag m.bs.text ++ SOH ::
            tagValue m.blTag (natDigits body.length) ++ SOH :: body) % 256))
    ∧ c.length = 3

theorem C01_framed (m : Msg) (h : WFMsg m) : Framed m m.encode := by
  obtain ⟨hbv, hbt, hbk, hmv, hmt, hmk⟩ := h
  have hmtF : m.mtBytes = some (tagValue m.mtTag m.mt.text) := kvBytes_str _ _ hmv hmt hmk
  have hbsF : kvBytes m.bsTag m.bs = some (tagValue m.bsTag m.bs.text) := kvBytes_str _ _ hbv hbt hbk
  have hpos : 0 < optLen m.mtBytes := by simp [hmtF, optLen, tagValue]; omega
  have hlen := bodyRegion_length m hpos
  refine ⟨m.bodyRegion, calcCheckSum ({ m with bl := Val.newInt m.calcBodyLength } : Msg).bytesWithoutChecksum, ?_, ?_, ?_, ?_⟩
  · rw [encode_eq]
    have := bwc_soh ({ m with bl := Val.newInt m.calcBodyLength } : Msg)
    simp only [bodyRegion_withBl, kvBytes_newInt, hbsF, optBytes, Option.getD_some] at this
    rw [hlen]
    calc _ = (({ m with bl := Val.newInt m.calcBodyLength } : Msg).bytesWithoutChecksum ++ [SOH]) ++
              (tagValue m.csTag (calcCheckSum ({ m with bl := Val.newInt m.calcBodyLength } : Msg).bytesWithoutChecksum) ++ [SOH]) := by
            simp [List.append_assoc]
      _ = _ := by rw [this]; simp [List.append_assoc]
  · refine ⟨seg (optBytes m.headerBytes) ++ seg m.bodyBytes, ?_⟩
    simp [Msg.bodyRegion, hmtF, optBytes]
  · have := bwc_soh ({ m with bl := Val.newInt m.calcBodyLength } : Msg)
    simp only [bodyRegion_withBl, kvBytes_newInt, hbsF, optBytes, Option.getD_some] at this
    rw [hlen, ← this]
    simp [calcCheckSum, SOH]
  · exact calcCheckSum_length _

/-- non-vacuity: a concrete Heartbeat-like message satisfies the hypothesis -/
example : WFMsg (Msg.new [56] [57] [49, 48] [51, 53] [70, 73, 88] [48] [] [.kv [49,49,50] (Val.newString [65])] []) := by
  constructor <;> simp [Msg.new, Val.newString]

/-- the digit count of BodyLength is whatever `natDigits` gives: crossing 9/10, 99/100, 999/1000 -/
theorem C01_digits : (natDigits 9).length = 1 ∧ (natDigits 10).length = 2 ∧ (natDigits 99).length = 2
    ∧ (natDigits 100).length = 3 ∧ (natDigits 999).length = 3 ∧ (natDigits 1000).length = 4 := by
  decide

/-- the CheckSum value always has exactly three characters -/
theorem C01_checksum_width (b : Bytes) : (calcCheckSum b).length = 3 := calcCheckSum_length b
