import Proofs.Store
import Proofs.StoreAlias
/-!
# C10 — a ResendRequest is answered with exactly the requested stored messages

`sent` below is the chronological list of messages the session numbered during the history
`es` (starting from any state `s0`); they carry the numbers `s0.outCounter+1 …`. The objects
retransmitted are the very `OutMsg` values first transmitted, so their wire images are
identical (serialization is a function of the message).
-/
open Sess

/-- the state and the numbered messages after a history -/
def after (c : Cfg) (s0 : Sess) (es : List Ev) : Sess := (run c s0 es).1
def sent (c : Cfg) (s0 : Sess) (es : List Ev) : List OutMsg := msgsOf (run c s0 es).2

theorem lastSent_eq (c : Cfg) (s0 : Sess) (es : List Ev) :
    (after c s0 es).outCounter = s0.outCounter + (sent c s0 es).length := (trace_run c s0 es).counter

/-- what the store answers for a range inside the numbers sent during the history -/
theorem messages_exact (c : Cfg) (s0 : Sess) (es : List Ev) (j cnt : Nat)
    (h : j + cnt ≤ (sent c s0 es).length) (hc : 0 < cnt) :
    (after c s0 es).messages (s0.outCounter + j + 1) (s0.outCounter + j + cnt) =
      some (((sent c s0 es).drop j).take cnt) := by
  have tr := trace_run c s0 es
  unfold Sess.messages
  have h1 : ¬ (s0.outCounter + (j : Int) + 1 > s0.outCounter + j + cnt) := by omega
  have h2 : ¬ (s0.outCounter + (j : Int) + cnt > (after c s0 es).outCounter) := by
    rw [lastSent_eq]; omega
  simp only [h1, h2, ite_false]
  have e : (s0.outCounter + (j : Int) + cnt - (s0.outCounter + j + 1) + 1).toNat = cnt := by omega
  rw [e]
  show rangeMsgs (run c s0 es).1.store _ _ = _
  rw [tr.store]
  exact rangeMsgs_pushAll s0.store s0.outCounter _ tr.numbered j cnt h

/-- C10, closed range: a logged-on session answers ResendRequest(b, e), b ≤ e inside the sent range,
    with exactly the messages first sent under b..e, ascending, and nothing else -/
theorem C10_exact (c : Cfg) (s0 : Sess) (es : List Ev) (m : InMsg) (j cnt : Nat)
    (hlog : (after c s0 es).state = .successfulLogged)
    (hd : (after c s0 es).dead = false) (hr : (after c s0 es).routerStopped = false)
    (hk : m.kind = .resendRequest) (hp : m.parseOk = true)
    (h : j + cnt ≤ (sent c s0 es).length) (hc : 0 < cnt)
    (hb : m.beginSeq = s0.outCounter + j + 1) (he : m.endSeq = s0.outCounter + j + cnt) (he0 : m.endSeq ≠ 0) :
    (step c (after c s0 es) (.inbound m)).2 = (((sent c s0 es).drop j).take cnt).map .resend := by
  have hps : (pre (after c s0 es) m).state = .successfulLogged := by rw [pre_state]; simp [hlog]
  have hmsg : (pre (after c s0 es) m).messages m.beginSeq m.endSeq = some (((sent c s0 es).drop j).take cnt) := by
    have := messages_exact c s0 es j cnt h hc
    unfold Sess.messages at this ⊢
    simpa [hb, he] using this
  simp [step, hd, hr, onInbound_eq, hk, onResendRequest, hp, isLogged, hps, he0, hmsg]

/-- C10, open range: EndSeqNo = 0 means through the last message sent -/
theorem C10_open (c : Cfg) (s0 : Sess) (es : List Ev) (m : InMsg) (j : Nat)
    (hlog : (after c s0 es).state = .successfulLogged)
    (hd : (after c s0 es).dead = false) (hr : (after c s0 es).routerStopped = false)
    (hk : m.kind = .resendRequest) (hp : m.parseOk = true)
    (h : j < (sent c s0 es).length)
    (hb : m.beginSeq = s0.outCounter + j + 1) (he : m.endSeq = 0) :
    (step c (after c s0 es) (.inbound m)).2 = ((sent c s0 es).drop j).map .resend := by
  have hps : (pre (after c s0 es) m).state = .successfulLogged := by rw [pre_state]; simp [hlog]
  have hcnt : j + ((sent c s0 es).length - j) ≤ (sent c s0 es).length := by omega
  have hmsg : (pre (after c s0 es) m).messages m.beginSeq (after c s0 es).outCounter = some ((sent c s0 es).drop j) := by
    have := messages_exact c s0 es j ((sent c s0 es).length - j) hcnt (by omega)
    have e2 : s0.outCounter + (j : Int) + (((sent c s0 es).length - j : Nat) : Int) = (after c s0 es).outCounter := by
      rw [lastSent_eq]; omega
    rw [e2] at this
    unfold Sess.messages at this ⊢
    simp only [pre_outCounter, pre_store, hb]
    rw [this]
    congr 1
    apply List.take_of_length_le
    simp
  simp [step, hd, hr, onInbound_eq, hk, onResendRequest, hp, isLogged, hps, he, hmsg]

/-- every retransmitted message is one that is stored under a number inside the requested range -/
theorem C10_never_outside (s : Sess) (b : Int) (cnt : Nat) (ms : List OutMsg)
    (h : rangeMsgs s.store b cnt = some ms) :
    ms.length = cnt ∧ ∀ k (hk : k < ms.length), lookupStore s.store (b + k) = some ms[k] := by
  induction cnt generalizing b ms with
  | zero => simp [rangeMsgs] at h; subst h; simp
  | succ n ih =>
    simp only [rangeMsgs] at h
    cases h1 : lookupStore s.store b with
    | none => simp [h1] at h
    | some x =>
      cases h2 : rangeMsgs s.store (b + 1) n with
      | none => simp [h1, h2] at h
      | some xs =>
        simp [h1, h2] at h
        subst h
        obtain ⟨i1, i2⟩ := ih (b + 1) xs h2
        refine ⟨by simp [i1], ?_⟩
        intro k hk
        cases k with
        | zero => simpa using h1
        | succ k =>
          have := i2 k (by simpa using hk)
          simp only [List.getElem_cons_succ]
          rw [← this]; congr 1; push_cast; omega

/-- gap at logon: the peer is asked to resend from the first missing number -/
theorem C10_gap (s : Sess) (m : InMsg) (h : s.inCounter + 1 < m.hdrSeq) :
    outBodies (processIncSeq s m).2 = [.resendRequest (s.inCounter + 1) 0] := by
  rw [processIncSeq_bodies]; simp [h]

theorem C10_no_gap (s : Sess) (m : InMsg) (h : ¬ s.inCounter + 1 < m.hdrSeq) :
    outBodies (processIncSeq s m).2 = [] := by
  rw [processIncSeq_bodies]; simp [h]


/-! ### object identity (finding F-C10-reused-object)

The theorems above are about the session model, whose store holds message *values*. The code's store holds the
application's message *objects* (`FixModel/StoreAlias.lean`, tied to the code by the `alias` correspondence of the
resend scenario, which agrees with the implementation on fresh **and** re-used objects). -/

open StoreAlias in
/-- every message sent is an object of its own: a ResendRequest b..e (e = 0: through the last) is answered with
    exactly the first transmissions under those numbers, in ascending order — for every history and every range -/
theorem C10_fresh_objects_exact (sends : List (Nat × Nat)) (hfresh : (sends.map (·.1)).Nodup) (b e : Nat) :
    resend (run sends) b e = wantedFirst (run sends) b e :=
  resend_exact_of_inv _ (run_inv sends {} init_inv hfresh (by intro o _ h; simp at h)) b e

open StoreAlias in
/-- … and each of those carries the number it was first sent under -/
theorem C10_fresh_objects_numbered (sends : List (Nat × Nat)) (hfresh : (sends.map (·.1)).Nodup) (k : Nat) (c : Content)
    (h : firstTx (run sends) k = some c) : c.seq = k :=
  (run_inv sends {} init_inv hfresh (by intro o _ h; simp at h)).seq k c h

open StoreAlias in
/-- the finding, exactly: one object sent twice, then ResendRequest 1..2 — the first number is answered with the
    second content under the second number -/
theorem C10_reused_object_witness :
    resend (run [(0, 10), (0, 11)]) 1 2 = [⟨2, 11⟩, ⟨2, 11⟩] ∧ wantedFirst (run [(0, 10), (0, 11)]) 1 2 = [⟨1, 10⟩, ⟨2, 11⟩] := by
  decide
