import Props.C04
import Props.C17
/-!
# C04 ∘ C17 — what the encoder writes is what the reader hands over

`C04_frame` speaks about *well-formed wire images* (`WFWire`), `C17_wire` about what `Msg.encode` produces. This
module joins the two: the image of every message the encoder can produce (hypotheses of C17, the CheckSum tag is
`10`, no other field has tag `10`) **is** a well-formed wire image, hence any sequence of encoder outputs, cut
into reads in any way, is reassembled by the reader model into exactly those outputs, in order, with the reader idle
afterwards. The hypothesis about tag `10` is necessary, not a convenience: `C04_tag10_in_body_splits` shows the
reader cutting a message in two when a body field carries that tag (inherent to FIX framing, not a defect).
-/

theorem joinF_eq_wireOf (fs : List Bytes) : joinF fs = wireOf fs := by
  induction fs with
  | nil => rfl
  | cons f fs ih => simp [joinF, wireOf, ih]

/-- the encoder's framing is the reader's: CheckSum has tag `10` and no other field of the message has -/
structure No10 (m : Msg) : Prop where
  cs : m.csTag = [49, 48]
  bs : starts10 (tagValue m.bsTag m.bs.text) = false
  bl : ∀ x, starts10 (tagValue m.blTag x) = false
  mt : starts10 (tagValue m.mtTag m.mt.text) = false
  header : ∀ f ∈ leavesList m.header, starts10 f = false
  body : ∀ f ∈ leavesList m.body, starts10 f = false

theorem starts10_cs (c : Bytes) : starts10 (tagValue [49, 48] c) = true := by
  simp [starts10, endOfMsgTag, tagValue, EQ, List.isPrefixOf]

/-- the standard framing tags 8 / 9 / 35 never look like the end-of-message tag -/
theorem starts10_std (x : Bytes) :
    starts10 (tagValue [56] x) = false ∧ starts10 (tagValue [57] x) = false ∧ starts10 (tagValue [51, 53] x) = false := by
  simp [starts10, endOfMsgTag, tagValue, List.isPrefixOf]

/-- the encoder's output is a well-formed wire image in the sense of the reader -/
theorem C04_encode_wellformed (m : Msg) (hp : c17Pre m = true) (ht : tagsOK m) (h10 : No10 m) :
    m.encode = wireOf (wireOfMsg m) ∧ WFWire (wireOfMsg m) := by
  obtain ⟨he, hs⟩ := wireFields_some _ _ (C17_wire m hp ht)
  refine ⟨by rw [he, joinF_eq_wireOf], hs, ?_⟩
  refine ⟨[tagValue m.bsTag m.bs.text, tagValue m.blTag (natDigits m.calcBodyLength), tagValue m.mtTag m.mt.text]
      ++ leavesList m.header ++ leavesList m.body, _, rfl, ?_, ?_⟩
  · rw [h10.cs]; exact starts10_cs _
  · intro f hf
    simp only [List.mem_append, List.mem_cons, List.not_mem_nil, or_false] at hf
    rcases hf with ((hf | hf | hf) | hf) | hf
    · rw [hf]; exact h10.bs
    · rw [hf]; exact h10.bl _
    · rw [hf]; exact h10.mt
    · exact h10.header f hf
    · exact h10.body f hf

/-- one encoded message, fed to an idle reader: handed over whole, reader idle again -/
theorem C04_encode_delivered (m : Msg) (hp : c17Pre m = true) (ht : tagsOK m) (h10 : No10 m) :
    feedAll RState.idle m.encode = (RState.idle, [m.encode]) := by
  obtain ⟨he, hw⟩ := C04_encode_wellformed m hp ht h10
  rw [he]; exact feedAll_message _ hw

/-- **encoder → transport → reader**: any sequence of messages the encoder serializes, written to the connection and
    read back in reads of any sizes (cuts inside fields, inside `10=`, one byte at a time …), comes out as exactly
    those serializations: each once, complete, byte-identical, in order; the reader is idle afterwards -/
theorem C04_encoded_stream (ms : List Msg) (h : ∀ m ∈ ms, c17Pre m = true ∧ tagsOK m ∧ No10 m)
    (chunks : List Bytes) (hc : chunks.flatten = (ms.map Msg.encode).flatten) :
    feedChunks RState.idle chunks = (RState.idle, ms.map Msg.encode) := by
  have e : ms.map Msg.encode = (ms.map wireOfMsg).map wireOf := by
    rw [List.map_map]
    apply List.map_congr_left
    intro m hm
    obtain ⟨a, b, c⟩ := h m hm
    exact (C04_encode_wellformed m a b c).1
  have hw : ∀ w ∈ ms.map wireOfMsg, WFWire w := by
    intro w hwm
    obtain ⟨m, hm, rfl⟩ := List.mem_map.mp hwm
    obtain ⟨a, b, c⟩ := h m hm
    exact (C04_encode_wellformed m a b c).2
  rw [e] at hc ⊢
  exact C04_frame_chunked _ hw chunks hc

/-- a Heartbeat-like message with the standard tags, used for non-vacuity below -/
def c04Sample : Msg :=
  Msg.new [56] [57] [49, 48] [51, 53] [70, 73, 88] [48] [] [.kv [49,49,50] (Val.newString [65])] []

/-- non-vacuity: the sample meets every hypothesis of `C04_encoded_stream` -/
example : c17Pre c04Sample = true ∧ tagsOK c04Sample := by
  refine ⟨by decide, ?_⟩
  simp [tagsOK, c04Sample, Msg.new, SOH]

example : No10 c04Sample := by
  refine ⟨rfl, by decide, fun x => (starts10_std x).2.1, by decide, ?_, ?_⟩
  · intro f hf; simp [c04Sample, Msg.new, leavesList] at hf
  · intro f hf
    have : leavesList c04Sample.body = [[49, 49, 50, 61, 65]] := by decide
    rw [this] at hf
    simp at hf; subst hf; decide

/-- the tag-10 hypothesis is necessary: with a body field `10=A` the reader hands over a truncated message and
    then a second fragment — two deliveries for one message sent -/
theorem C04_tag10_in_body_splits :
    (feedAll RState.idle (wireOf [[56,61,70], [57,61,53], [51,53,61,48], [49,48,61,65], [49,48,61,48,48,48]])).2.length = 2 := by
  decide

/-! ### damage is confined: the reader resynchronises at the next end-of-message field

Whatever complete segments the reader has accumulated (`g`: garbage, a message whose CheckSum field was lost, a
partial write of a peer that died and reconnected through a proxy …), the next well-formed message is handed over
glued to `g` — one delivery, which the integrity check then judges (C03) — and everything after it is delivered
exactly as from the idle state. A reader that kept part of `g`, or delivered twice, would break this. -/

theorem feedAll_message_from (g : Bytes) (fields : List Bytes) (h : WFWire fields) :
    feedAll { seg := [], msg := g } (wireOf fields) = (RState.idle, [g ++ wireOf fields]) := by
  obtain ⟨init, l, rfl, hl, hinit⟩ := h.last
  have hn := h.nosoh
  have e : wireOf (init ++ [l]) = wireOf init ++ (l ++ [SOH]) := by simp [wireOf]
  rw [e, feedAll_append]
  rw [feedAll_fields_no10 g init (fun f hf => hn f (by simp [hf])) hinit]
  simp only [List.nil_append]
  rw [feedAll_field (g ++ wireOf init) l (hn l (by simp))]
  simp [hl, RState.idle, List.append_assoc]

theorem C04_resync (g : Bytes) (m : List Bytes) (ms : List (List Bytes)) (hm : WFWire m) (h : ∀ x ∈ ms, WFWire x)
    (chunks : List Bytes) (hc : chunks.flatten = wireOf m ++ (ms.map wireOf).flatten) :
    feedChunks { seg := [], msg := g } chunks = (RState.idle, (g ++ wireOf m) :: ms.map wireOf) := by
  rw [C04_chunk, hc, feedAll_append, feedAll_message_from g m hm, C04_frame ms h]
  simp

/-- the same when the damage ends inside a segment (`p`: SOH-free bytes already read of a field that does not
    look like `10=` even when completed by the first field of the next message): still exactly one glued delivery -/
theorem C04_resync_midfield (g p f0 : Bytes) (rest : List Bytes) (ms : List (List Bytes))
    (hp : SOH ∉ p) (h0 : SOH ∉ f0) (hpf : starts10 (p ++ f0) = false)
    (hm : WFWire rest) (h : ∀ x ∈ ms, WFWire x) :
    feedAll { seg := p, msg := g } (wireOf (f0 :: rest) ++ (ms.map wireOf).flatten)
      = (RState.idle, (g ++ p ++ wireOf (f0 :: rest)) :: ms.map wireOf) := by
  have e : wireOf (f0 :: rest) = f0 ++ [SOH] ++ wireOf rest := by simp [wireOf]
  have hs : SOH ∉ p ++ f0 := by simp [hp, h0]
  have h1 : feedAll { seg := p, msg := g } (f0 ++ [SOH]) = ({ seg := [], msg := g ++ (p ++ f0 ++ [SOH]) }, []) := by
    have := feedAll_field g (p ++ f0) hs
    rw [hpf] at this
    simp only [Bool.false_eq_true, ite_false] at this
    rw [feedAll_append] at this ⊢
    rw [feedAll_noSOH _ (p ++ f0) hs] at this
    rw [feedAll_noSOH _ f0 h0]
    simpa [List.append_assoc] using this
  rw [e, List.append_assoc, feedAll_append, h1, feedAll_append, feedAll_message_from _ rest hm, C04_frame ms h]
  simp [List.append_assoc]
