import Props.C04
import Props.C17
/-!
# C04 ∘ C17 — what the encoder writes is what the reader hands over

`C04_frame` speaks about *well-formed wire images* (`WFWire`), `C17_wire` about what `Msg.encode` produces. This
module joins the two: the image of every message the encoder can produce (hypotheses of C17, the CheckSum tag is
`10`, no other field has tag `10`) **is** a well-formed wire image, hence any sequence of encoder outputs, cut
into reads in any way, is reassembled by the reader model into exactly those outputs, in order, with the reader idle
afterwards. The hypothesis about tag `10` is necessary, not a convenience: `C04_tag10_in_body_splits` shows the
reader cutting a message in two when a body field carries that tag (inherent to FIX framing, not a defect).
-/

theorem joinF_eq_wireOf (fs : List Bytes) : joinF fs = wireOf fs := by
  induction fs with
  | nil => rfl
  | cons f fs ih => simp [joinF, wireOf, ih]

/-- the encoder's framing is the reader's: CheckSum has tag `10` and no other field of the message has -/
structure No10 (m : Msg) : Prop where
  cs : m.csTag = [49, 48]
  bs : starts10 (tagValue m.bsTag m.bs.text) = false
  bl : ∀ x, starts10 (tagValue m.blTag x) = false
  mt : starts10 (tagValue m.mtTag m.mt.text) = false
  header : ∀ f ∈ leavesList m.header, starts10 f = false
  body : ∀ f ∈ leavesList m.body, starts10 f = false

theorem starts10_cs (c : Bytes) : starts10 (tagValue [49, 48] c) = true := by
  simp [starts10, endOfMsgTag, tagValue, EQ, List.isPrefixOf]

/-- the standard framing tags 8 / 9 / 35 never look like the end-of-message tag -/
theorem starts10_std (x : Bytes) :
    starts10 (tagValue [56] x) = false ∧ starts10 (tagValue [57] x) = false ∧ starts10 (tagValue [51, 53] x) = false := by
  simp [starts10, endOfMsgTag, tagValue, List.isPrefixOf]

/-- the encoder's output is a well-formed wire image in the sense of the reader -/
theorem C04_encode_wellformed (m : Msg) (hp : c17Pre m = true) (ht : tagsOK m) (h10 : No10 m) :
    m.encode = wireOf (wireOfMsg m) ∧ WFWire (wireOfMsg m) := by
  obtain ⟨he, hs⟩ := wireFields_some _ _ (C17_wire m hp ht)
  refine ⟨by rw [he, joinF_eq_wireOf], hs, ?_⟩
  refine ⟨[tagValue m.bsTag m.bs.text, tagValue m.blTag (natDigits m.calcBodyLength), tagValue m.mtTag m.mt.text]
      ++ leavesList m.header ++ leavesList m.body, _, rfl, ?_, ?_⟩
  · rw [h10.cs]; exact starts10_cs _
  · intro f hf
    simp only [List.mem_append, List.mem_cons, List.not_mem_nil, or_false] at hf
    rcases hf with ((hf | hf | hf) | hf) | hf
    · rw [hf]; exact h10.bs
    · rw [hf]; exact h10.bl _
    · rw [hf]; exact h10.mt
    · exact h10.header f hf
    · exact h10.body f hf

/-- one encoded message, fed to an idle reader: handed over whole, reader idle again -/
theorem C04_encode_delivered (m : Msg) (hp : c17Pre m = true) (ht : tagsOK m) (h10 : No10 m) :
    feedAll RState.idle m.encode = (RState.idle, [m.encode]) := by
  obtain ⟨he, hw⟩ := C04_encode_wellformed m hp ht h10
  rw [he]; exact feedAll_message _ hw

/-- **encoder → transport → reader**: any sequence of messages the encoder serializes, written to the connection and
    read back in reads of any sizes (cuts inside fields, inside `10=`, one byte at a time …), comes out as exactly
    those serializations: each once, complete, byte-identical, in order; the reader is idle afterwards -/
theorem C04_encoded_stream (ms : List Msg) (h : ∀ m ∈ ms, c17Pre m = true ∧ tagsOK m ∧ No10 m)
    (chunks : List Bytes) (hc : chunks.flatten = (ms.map Msg.encode).flatten) :
    feedChunks RState.idle chunks = (RState.idle, ms.map Msg.encode) := by
  have e : ms.map Msg.encode = (ms.map wireOfMsg).map wireOf := by
    rw [List.map_map]
    apply List.map_congr_left
    intro m hm
    obtain ⟨a, b, c⟩ := h m hm
    exact (C04_encode_wellformed m a b c).1
  have hw : ∀ w ∈ ms.map wireOfMsg, WFWire w := by
    intro w hwm
    obtain ⟨m, hm, rfl⟩ := List.mem_map.mp hwm
    obtain ⟨a, b, c⟩ := h m hm
    exact (C04_encode_wellformed m a b c).2
  rw [e] at hc ⊢
  exact C04_frame_chunked _ hw chunks hc

/-- a Heartbeat-like message with the standard tags, used for non-vacuity below -/
def c04Sample : Msg :=
  Msg.new [56] [57] [49, 48] [51, 53] [70, 73, 88] [48] [] [.kv [49,49,50] (Val.newString [65])] []

/-- non-vacuity: the sample meets every hypothesis of `C04_encoded_stream` -/
example : c17Pre c04Sample = true ∧ tagsOK c04Sample := by
  refine ⟨by decide, ?_⟩
  simp [tagsOK, c04Sample, Msg.new, SOH]

example : No10 c04Sample := by
  refine ⟨rfl, by decide, fun x => (starts10_std x).2.1, by decide, ?_, ?_⟩
  · intro f hf; simp [c04Sample, Msg.new, leavesList] at hf
  · intro f hf
    have : leavesList c04Sample.body = [[49, 49, 50, 61, 65]] := by decide
    rw [this] at hf
    simp at hf; subst hf; decide

/-- the tag-10 hypothesis is necessary: with a body field `10=A` the reader hands over a truncated message and
    then a second fragment — two deliveries for one message sent -/
theorem C04_tag10_in_body_splits :
    (feedAll RState.idle (wireOf [[56,61,70], [57,61,53], [51,53,61,48], [49,48,61,65], [49,48,61,48,48,48]])).2.length = 2 := by
  decide

/-! ### damage is confined: the reader resynchronises at the next end-of-message field

Whatever complete segments the reader has accumulated (`g`: garbage, a message whose CheckSum field was lost, a
partial write of a peer that died and reconnected through a proxy …), the next well-formed message is handed over
glued to `g` — one delivery, which the integrity check then judges (C03) — and everything after it is delivered
exactly as from the idle state. A reader that kept part of `g`, or delivered twice, would break this. -/

theorem feedAll_message_from (g : Bytes) (fields : List Bytes) (h : WFWire fields) :
    feedAll { seg := [], msg := g } (wireOf fields) = (RState.idle, [g ++ wireOf fields]) := by
  obtain ⟨init, l, rfl, hl, hinit⟩ := h.last
  have hn := h.nosoh
  have e : wireOf (init ++ [l]) = wireOf init ++ (l ++ [SOH]) := by simp [wireOf]
  rw [e, feedAll_append]
  rw [feedAll_fields_no10 g init (fun f hf => hn f (by simp [hf])) hinit]
  simp only [List.nil_append]
  rw [feedAll_field (g ++ wireOf init) l (hn l (by simp))]
  simp [hl, RState.idle, List.append_assoc]

theorem C04_resync (g : Bytes) (m : List Bytes) (ms : List (List Bytes)) (hm : WFWire m) (h : ∀ x ∈ ms, WFWire x)
    (chunks : List Bytes) (hc : chunks.flatten = wireOf m ++ (ms.map wireOf).flatten) :
    feedChunks { seg := [], msg := g } chunks = (RState.idle, (g ++ wireOf m) :: ms.map wireOf) := by
  rw [C04_chunk, hc, feedAll_append, feedAll_message_from g m hm, C04_frame ms h]
  simp

/-- the same when the damage ends inside a segment (`p`: SOH-free bytes already read of a field that does not
    look like `10=` even when completed by the first field of the next message): still exactly one glued delivery -/
theorem C04_resync_midfield (g p f0 : Bytes) (rest : List Bytes) (ms : List (List Bytes))
    (hp : SOH ∉ p) (h0 : SOH ∉ f0) (hpf : starts10 (p ++ f0) = false)
    (hm : WFWire rest) (h : ∀ x ∈ ms, WFWire x) :
    feedAll { seg := p, msg := g } (wireOf (f0 :: rest) ++ (ms.map wireOf).flatten)
      = (RState.idle, (g ++ p ++ wireOf (f0 :: rest)) :: ms.map wireOf) := by
  have e : wireOf (f0 :: rest) = f0 ++ [SOH] ++ wireOf rest := by simp [wireOf]
  have hs : SOH ∉ p ++ f0 := by simp [hp, h0]
  have h1 : feedAll { seg := p, msg := g } (f0 ++ [SOH]) = ({ seg := [], msg := g ++ (p ++ f0 ++ [SOH]) }, []) := by
    have := feedAll_field g (p ++ f0) hs
    rw [hpf] at this
    simp only [Bool.false_eq_true, ite_false] at this
    rw [feedAll_append] at this ⊢
    rw [feedAll_noSOH _ (p ++ f0) hs] at this
    rw [feedAll_noSOH _ f0 h0]
    simpa [List.append_assoc] using this
  rw [e, List.append_assoc, feedAll_append, h1, feedAll_append, feedAll_message_from _ rest hm, C04_frame ms h]
  simp [List.append_assoc]

/-! ### every byte stream: nothing lost, nothing invented, only well-formed frames handed over

The theorems above start from well-formed messages. These two quantify over **every byte stream** (hostile, damaged,
cut anywhere) and every reader state: the bytes handed over followed by the bytes still buffered are exactly the bytes
buffered before followed by the bytes read — no byte is lost, duplicated, reordered or invented — and everything handed
over is a sequence of complete SOH-terminated fields of which the last, and only the last, is an end-of-message field
(so `10=` is recognised only at a field boundary: the reader half of C18). -/
theorem feed_conserve (s : RState) (b : UInt8) :
    (match (feed s b).2 with | some m => m | none => []) ++ ((feed s b).1.msg ++ (feed s b).1.seg) = s.msg ++ s.seg ++ [b] := by
  unfold feed
  dsimp only
  by_cases hb : b = SOH
  · rw [if_pos hb]
    by_cases h3 : (s.seg ++ [b]).length ≥ 3 ∧ (s.seg ++ [b]).take 3 = endOfMsgTag
    · rw [if_pos h3]; simp [List.append_assoc]
    · rw [if_neg h3]; simp [List.append_assoc]
  · rw [if_neg hb]; simp [List.append_assoc]

theorem C04_conservation (s : RState) (bs : Bytes) :
    (feedAll s bs).2.flatten ++ ((feedAll s bs).1.msg ++ (feedAll s bs).1.seg) = s.msg ++ s.seg ++ bs := by
  induction bs generalizing s with
  | nil => simp [feedAll]
  | cons b bs ih =>
    simp only [feedAll]
    have h1 := feed_conserve s b
    have h2 := ih (feed s b).1
    cases hf : (feed s b).2 with
    | none =>
      rw [hf] at h1
      simp only [List.nil_append] at h1 ⊢
      rw [h2, h1]; simp [List.append_assoc]
    | some m =>
      rw [hf] at h1
      simp only [List.flatten_append, List.flatten_cons, List.flatten_nil, List.append_nil, List.append_assoc] at h1 ⊢
      rw [h2, ← List.append_assoc m, ← List.append_assoc m, List.append_assoc m, h1]; simp [List.append_assoc]

/-- reader states reachable from idle: the current segment has no SOH, the accumulated message is a sequence of
    complete SOH-free fields none of which is an end-of-message field -/
def GoodSt (s : RState) : Prop :=
  SOH ∉ s.seg ∧ ∃ fs, s.msg = wireOf fs ∧ (∀ f ∈ fs, SOH ∉ f) ∧ ∀ f ∈ fs, starts10 f = false

theorem wireOf_snoc (fs : List Bytes) (f : Bytes) : wireOf (fs ++ [f]) = wireOf fs ++ (f ++ [SOH]) := by simp [wireOf]

theorem feed_good (s : RState) (b : UInt8) (h : GoodSt s) :
    GoodSt (feed s b).1 ∧ ∀ m, (feed s b).2 = some m → ∃ fields, m = wireOf fields ∧ WFWire fields := by
  obtain ⟨hseg, fs, hmsg, hns, hn10⟩ := h
  unfold feed
  dsimp only
  by_cases hb : b = SOH
  · rw [if_pos hb]
    subst hb
    by_cases h3 : (s.seg ++ [SOH]).length ≥ 3 ∧ (s.seg ++ [SOH]).take 3 = endOfMsgTag
    · rw [if_pos h3]
      have hs := (take3_prefix s.seg).mp h3
      refine ⟨⟨by simp, [], by simp [wireOf], by simp, by simp⟩, ?_⟩
      intro m hm
      simp only [Option.some.injEq] at hm
      refine ⟨fs ++ [s.seg], by rw [← hm, hmsg, wireOf_snoc], ?_, ⟨fs, s.seg, rfl, hs, hn10⟩⟩
      intro f hf
      rcases List.mem_append.mp hf with hf | hf
      · exact hns f hf
      · simp at hf; subst hf; exact hseg
    · rw [if_neg h3]
      have hs : starts10 s.seg = false := by
        cases hh : starts10 s.seg with
        | false => rfl
        | true => exact absurd ((take3_prefix s.seg).mpr hh) h3
      refine ⟨⟨by simp, fs ++ [s.seg], by simp [hmsg, wireOf_snoc], ?_, ?_⟩, by simp⟩
      · intro f hf
        rcases List.mem_append.mp hf with hf | hf
        · exact hns f hf
        · simp at hf; subst hf; exact hseg
      · intro f hf
        rcases List.mem_append.mp hf with hf | hf
        · exact hn10 f hf
        · simp at hf; subst hf; exact hs
  · rw [if_neg hb]
    refine ⟨⟨?_, fs, hmsg, hns, hn10⟩, by simp⟩
    simp only [List.mem_append, List.mem_singleton, not_or]
    exact ⟨hseg, fun h => hb h.symm⟩

/-- **for every byte stream whatsoever** (damaged, hostile, cut anywhere): everything the reader hands over is a
    well-formed frame — complete SOH-terminated fields, the last one and only the last an end-of-message field -/
theorem C04_only_frames (s : RState) (bs : Bytes) (h : GoodSt s) :
    GoodSt (feedAll s bs).1 ∧ ∀ m ∈ (feedAll s bs).2, ∃ fields, m = wireOf fields ∧ WFWire fields := by
  induction bs generalizing s with
  | nil => exact ⟨h, by simp [feedAll]⟩
  | cons b bs ih =>
    obtain ⟨g1, d1⟩ := feed_good s b h
    obtain ⟨g2, d2⟩ := ih (feed s b).1 g1
    simp only [feedAll]
    refine ⟨g2, ?_⟩
    intro m hm
    rcases List.mem_append.mp hm with hm | hm
    · cases hf : (feed s b).2 with
      | none => rw [hf] at hm; simp at hm
      | some m' => rw [hf] at hm; simp at hm; rw [hm]; exact d1 m' hf
    · exact d2 m hm

theorem goodSt_idle : GoodSt RState.idle := ⟨by simp [RState.idle], [], by simp [RState.idle, wireOf], by simp, by simp⟩

/-- from a fresh connection, for every byte stream and every chunking -/
theorem C04_stream_exact (chunks : List Bytes) :
    let r := feedChunks RState.idle chunks
    r.2.flatten ++ (r.1.msg ++ r.1.seg) = chunks.flatten
    ∧ ∀ m ∈ r.2, ∃ fields, m = wireOf fields ∧ WFWire fields := by
  simp only [C04_chunk]
  refine ⟨?_, (C04_only_frames RState.idle chunks.flatten goodSt_idle).2⟩
  have := C04_conservation RState.idle chunks.flatten
  simpa [RState.idle] using this
