import Proofs.SessionInv
/-!
# C15 — Logout is acknowledged once; Stop ends on the peer's answer or the deadline
-/

def ProbeOK' (s : Sess) : Prop := s.state = .waitingTestReqAnswer → s.started > 0

/-- a logged-on session that receives a Logout replies with exactly one Logout and is no longer logged on -/
theorem C15_peer_logout (c : Cfg) (s : Sess) (m : InMsg)
    (hd : s.dead = false) (hr : s.routerStopped = false) (hpo : ProbeOK' s)
    (hk : m.kind = .logout) (hp : m.parseOk = true) (hl : s.loggedOn = true) :
    outBodies (step c s (.inbound m)).2 = [.logout] ∧ (step c s (.inbound m)).1.loggedOn = false := by
  have hst : (Sess.pre s m).state = .successfulLogged := by
    have := Sess.pre_loggedOn s m hpo
    rw [hl] at this
    simpa [Sess.isLogged] using this
  simp only [step, hd, hr, Sess.onInbound_eq, hk, Sess.onLogout, hp, hst, Sess.changeState]
  simp [Sess.backToWaiting, Sess.loggedOn]
  cases c.side <;> simp

/-- a session that sent the Logout itself does not send a second one when the peer's Logout arrives,
    and signals the logout event -/
theorem C15_own_logout (c : Cfg) (s : Sess) (m : InMsg)
    (hd : s.dead = false) (hr : s.routerStopped = false)
    (hk : m.kind = .logout) (hp : m.parseOk = true) (hs : s.state = .waitingLogoutAnswer) :
    outBodies (step c s (.inbound m)).2 = [] ∧ Out.event .logout ∈ (step c s (.inbound m)).2
      ∧ (step c s (.inbound m)).1.loggedOn = false := by
  have hst : (Sess.pre s m).state = .waitingLogoutAnswer := by rw [Sess.pre_state]; simp [hs]
  simp only [step, hd, hr, Sess.onInbound_eq, hk, Sess.onLogout, hp, hst, Sess.changeState]
  cases hsa : (Sess.pre s m).stopArmed <;> simp [Sess.backToWaiting, Sess.loggedOn] <;> cases c.side <;> simp

/-- `Stop()` sends exactly one Logout and arms the answer callback and the deadline -/
theorem C15_stop_sends_logout (c : Cfg) (s : Sess) :
    outBodies (step c s .localStop).2 = [.logout] ∧ (step c s .localStop).1.stopArmed = true
      ∧ (step c s .localStop).1.state = .waitingLogoutAnswer := by
  simp [step, Sess.changeState]

/-- after `Stop()`, the peer's Logout answer cancels the session context in that very step -/
theorem C15_stop_answer (c : Cfg) (s : Sess) (m : InMsg)
    (hd : s.dead = false) (hr : s.routerStopped = false)
    (hk : m.kind = .logout) (hp : m.parseOk = true) (hs : s.state = .waitingLogoutAnswer)
    (ha : s.stopArmed = true) :
    (step c s (.inbound m)).1.cancelled = true ∧ Out.cancel ∈ (step c s (.inbound m)).2 := by
  have hst : (Sess.pre s m).state = .waitingLogoutAnswer := by rw [Sess.pre_state]; simp [hs]
  simp only [step, hd, hr, Sess.onInbound_eq, hk, Sess.onLogout, hp, hst, Sess.changeState]
  simp [ha, Sess.backToWaiting]

/-- … and at the latest the close deadline does, for every close-timeout value -/
theorem C15_stop_deadline (c : Cfg) (s : Sess) (ha : s.stopArmed = true) :
    (step c s .closeDeadline).1.cancelled = true := by
  simp only [step]
  cases hc : s.cancelled <;> simp [ha, hc]

/-- cancellation is permanent: "from the first of {answer, deadline} on", for every later history -/
theorem C15_cancelled_mono (c : Cfg) (s : Sess) (es : List Ev) (h : s.cancelled = true) :
    (run c s es).1.cancelled = true := run_cancelled_mono c s es h

example : ∃ s : Sess, s.stopArmed = true ∧ s.state = .waitingLogoutAnswer :=
  ⟨(step { side := .acceptor, allowedEnc := [], hbLimits := none } { state := .successfulLogged, settings := {} } .localStop).1, by simp [step, Sess.changeState]⟩
