import Proofs.RoundTrip
/-!
# C02 — parsing inverts serialization; re-serialization is byte-exact

**Proved (`C02_flat_*`)**: for every message whose header, body and trailer are built from fields and nested
components (no repeating groups), with pairwise distinct tags free of SOH and '=' and canonical values: parsing
its serialization into a blank twin succeeds and yields exactly its populated fields — every field from its own
bytes, whatever the values spell (`58=35=Z` does not disturb tag 35: that is the scan lemma at work) — and
serializing the result again gives the same bytes.

**Partial**: the same statement for templates with repeating groups (`C02_full`) is *not* proved: the group
branch cuts the entry slices with `splitGroup` by the first entry tag, and the induction over nested groups with
re-occurring tags did not close in the time available. It is validated by the correspondence check (random
templates to depth 5, all tests/fix44 messages) and the population shadow; the building blocks it needs are
proved: the wire image of groups (`C17_wire`), boundary-exact lookups (`C18_scan`), no panic (`C11_unmarshal`).

Known finding F-C02-trailer: populated trailer fields are not serialized, hence cannot come back; the theorem
says what comes back for the trailer (blank).
-/

/-- values: `FromBytes (ToBytes v) = v` for everything a constructor or setter builds -/
theorem C02_values :
    (∀ s, (Val.newString s).Canon) ∧ (∀ b, (Val.newRaw (some b)).Canon) ∧ (∀ b, (Val.newBool b).Canon)
    ∧ (∀ n, int64Min ≤ n → n ≤ int64Max → (Val.newInt n).Canon) ∧ (∀ n, n ≤ uint64Max → (Val.newUint n).Canon)
    ∧ (∀ t, floatOK t = true → (Val.newFloat t).Canon) ∧ (∀ t, timeCanon t = some t → (Val.newTime t).Canon) :=
  ⟨canon_newString, canon_newRaw, canon_newBool, canon_newInt, canon_newUint, canon_newFloat, canon_newTime⟩

theorem C02_value_roundtrip_str (t : Bytes) :
    (Val.blank .str).fromBytes t = some (Val.newString t) ∧ (Val.blank .raw).fromBytes t = some (Val.newRaw (some t)) := by
  simp [Val.fromBytes, Val.blank, Val.newString, Val.newRaw]

/-- **parse ∘ serialize** on flat messages -/
theorem C02_flat_roundtrip (m t : Msg) (h : FlatOK m) (tw : Twin m t)
    (hc : ∀ p ∈ kvsList m.header ++ kvsList m.body, p.2.Canon) :
    t.unmarshal m.encode = .ok m.parsed := unmarshal_encode m t h tw hc

/-- what came back is what was populated: same leaves in header and body, nothing in the trailer -/
theorem C02_flat_same_fields (m : Msg) :
    leavesList m.parsed.header = leavesList m.header ∧ leavesList m.parsed.body = leavesList m.body
    ∧ m.parsed.bs.text = m.bs.text ∧ m.parsed.mt.text = m.mt.text :=
  ⟨leavesList_norm _, leavesList_norm _, rfl, rfl⟩

/-- **serialize ∘ parse ∘ serialize = serialize** on flat messages (byte-exact) -/
theorem C02_flat_reserialize (m t : Msg) (h : FlatOK m) (tw : Twin m t)
    (hc : ∀ p ∈ kvsList m.header ++ kvsList m.body, p.2.Canon) :
    ∃ m', t.unmarshal m.encode = .ok m' ∧ m'.encode = m.encode :=
  ⟨m.parsed, unmarshal_encode m t h tw hc, parsed_encode m h⟩

/-- the integrity check accepts everything the serializer produces (flat messages) -/
theorem C02_accepts_own_output (m t : Msg) (h : FlatOK m)
    (ht : t.bsTag = m.bsTag ∧ t.blTag = m.blTag ∧ t.csTag = m.csTag) : validateRaw t m.encode = .ok () :=
  validateRaw_encode m t h ht

/-- the full statement, groups included — not proved (see above) -/
def C02_full : Prop :=
  ∀ (m t : Msg), c17Pre m = true → (∀ k ∈ m.tags, SOH ∉ k ∧ EQ ∉ k) → m.tags.Nodup →
    t.bsTag = m.bsTag → t.blTag = m.blTag → t.csTag = m.csTag → t.mtTag = m.mtTag →
    t.header = blankList m.header → t.body = blankList m.body → t.trailer = blankList m.trailer →
    ∃ m', t.unmarshal m.encode = .ok m' ∧ m'.encode = m.encode

/-- non-vacuity: a message with a header field, a nested component, an unpopulated field and a value that spells
    another field's tag (`58` holds `35=Z`) satisfies the hypotheses -/
def exMsg : Msg :=
  Msg.new [56] [57] [49, 48] [51, 53] [70, 73, 88] [68]
    [.kv [52, 57] (Val.newString [65])]
    [.kv [53, 56] (Val.newString [51, 53, 61, 90]), .comp [.kv [49, 49] (Val.newInt 7), .kv [49, 50] (Val.blank .str)]]
    [.kv [56, 57] (Val.blank .str)]

example : FlatOK exMsg := by
  constructor <;> decide

example : ∀ p ∈ kvsList exMsg.header ++ kvsList exMsg.body, p.2.Canon := by
  intro p hp
  simp [exMsg, Msg.new, kvsList, Item.kvs] at hp
  rcases hp with rfl | rfl | rfl | rfl
  · exact canon_newString _
  · exact canon_newString _
  · exact canon_newInt 7 (by decide) (by decide)
  · intro h; simp [populated, Val.blank] at h
