import Proofs.Basic
/-!
# C02 — parsing inverts serialization
-/

/-- String, Raw and Bool values: `FromBytes (ToBytes v) = v` -/
theorem C02_value_roundtrip_str (t : Bytes) :
    (Val.blank .str).fromBytes t = some (Val.newString t) ∧ (Val.blank .raw).fromBytes t = some (Val.newRaw (some t)) := by
  simp [Val.fromBytes, Val.blank, Val.newString, Val.newRaw]

theorem C02_value_roundtrip_bool (b : Bool) :
    (Val.blank .bool).fromBytes (Val.newBool b).text = some (Val.newBool b) := by
  cases b <;> simp [Val.fromBytes, Val.blank, Val.newBool]
