import Proofs.RoundTripMsg
import Proofs.DecodedCanon
/-!
# C02 — parsing inverts serialization; re-serialization is byte-exact

**Proved (`C02_flat_*`)**: for every message whose header, body and trailer are built from fields and nested
components (no repeating groups), with pairwise distinct tags free of SOH and '=' and canonical values: parsing
its serialization into a blank twin succeeds and yields exactly its populated fields — every field from its own
bytes, whatever the values spell (`58=35=Z` does not disturb tag 35: that is the scan lemma at work) — and
serializing the result again gives the same bytes.

**Proved (`C02_roundtrip`, `C02_reserialize`)**: the same for templates with repeating groups nested to any depth.
The proof goes through a decoder defined on *lists of fields* (`unmF`): `C02_decoder_is_field_decoder` shows that
the byte-scanning decoder — `scanKeyValue`, the count field, the first entry tag, `splitGroup` — computes exactly
that decoder on every input made of SOH-free `tag=value` fields (hostile or not), and `rt_list` shows that the field
decoder returns the population from its own leaves when tags are pairwise distinct.

Known finding F-C02-trailer: populated trailer fields are not serialized, hence cannot come back; the theorem
says what comes back for the trailer (blank).
-/

/-- values: `FromBytes (ToBytes v) = v` for everything a constructor or setter builds -/
theorem C02_values :
    (∀ s, (Val.newString s).Canon) ∧ (∀ b, (Val.newRaw (some b)).Canon) ∧ (∀ b, (Val.newBool b).Canon)
    ∧ (∀ n, int64Min ≤ n → n ≤ int64Max → (Val.newInt n).Canon) ∧ (∀ n, n ≤ uint64Max → (Val.newUint n).Canon)
    ∧ (∀ t, floatOK t = true → (Val.newFloat t).Canon) ∧ (∀ t, timeCanon t = some t → (Val.newTime t).Canon) :=
  ⟨canon_newString, canon_newRaw, canon_newBool, canon_newInt, canon_newUint, canon_newFloat, canon_newTime⟩

/-- Time: no hypothesis left — the `20060102-15:04:05.000` rendering of every UTC instant at millisecond precision
    with a four-digit year is accepted by the parser model and re-rendered unchanged (`timeFmt` is compared with
    Go's `Format` by the correspondence check, op `tfmt`) -/
theorem C02_time_values (y mo d h mi s ms : Nat) (ok : TimeOK y mo d h mi s ms) :
    (Val.newTime (timeFmt y mo d h mi s ms)).Canon := canon_newTime_fmt y mo d h mi s ms ok

/-- Float: the `'f'` rendering of every finite float64 (`[-]ddd[.ddd]`, magnitude at most MaxFloat64) is accepted by
    the model of `strconv.ParseFloat` and kept as the value's text -/
theorem C02_float_values (neg : Bool) (ip fp : Bytes) (hi : ip ≠ [])
    (hid : ∀ c ∈ ip, isDigit c = true) (hfd : ∀ c ∈ fp, isDigit c = true)
    (m : Nat) (hm : parseNatAux (ip ++ fp) 0 = some m) (hb : m ≤ maxFloat64 * 10 ^ fp.length) :
    (Val.newFloat (plainDec neg ip fp)).Canon := canon_newFloat_plain neg ip fp hi hid hfd m hm hb

-- "-12.5"
example : (Val.newFloat (plainDec true [49, 50] [53])).Canon := by
  refine C02_float_values true [49, 50] [53] (by decide) (by decide) (by decide) 125 (by decide) ?_
  have h13 : 13 ≤ maxFloat64 :=
    Nat.le_trans (Nat.le_trans (by decide : 13 ≤ 2 ^ 4) (Nat.pow_le_pow_right (by decide) (by decide))) maxFloat64_big
  have h10 : (10 : Nat) ^ ([53] : Bytes).length = 10 := rfl
  rw [h10]
  omega

/-- every value the decoder stores, from any bytes at all, is canonical: serializing it and parsing that again
    gives the same value (times are re-rendered to the fixed-point layout, floats keep their source text,
    integers are re-rendered in range) -/
theorem C02_decoded_values (v0 : Val) (d : Bytes) (v : Val) (h : v0.fromBytes d = some v) : v.Canon :=
  fromBytes_canon v0 d v h

/-- in particular the time parser's canonical text is a fixed point -/
theorem C02_time_fixed_point (s t : Bytes) (h : timeCanon s = some t) : timeCanon t = some t := timeCanon_idem s t h

-- 2024-02-29 23:59:59.999 is an instant; 2023-02-29 is not
example : TimeOK 2024 2 29 23 59 59 999 := ⟨by decide, by decide, by decide, by decide, by decide, by decide, by decide⟩
example : ¬ TimeOK 2023 2 29 0 0 0 0 := fun h => by have := h.hd.2; revert this; decide

theorem C02_value_roundtrip_str (t : Bytes) :
    (Val.blank .str).fromBytes t = some (Val.newString t) ∧ (Val.blank .raw).fromBytes t = some (Val.newRaw (some t)) := by
  simp [Val.fromBytes, Val.blank, Val.newString, Val.newRaw]

/-- **parse ∘ serialize** on flat messages -/
theorem C02_flat_roundtrip (m t : Msg) (h : FlatOK m) (tw : Twin m t)
    (hc : ∀ p ∈ kvsList m.header ++ kvsList m.body, p.2.Canon) :
    t.unmarshal m.encode = .ok m.parsed := unmarshal_encode m t h tw hc

/-- what came back is what was populated: same leaves in header and body, nothing in the trailer -/
theorem C02_flat_same_fields (m : Msg) :
    leavesList m.parsed.header = leavesList m.header ∧ leavesList m.parsed.body = leavesList m.body
    ∧ m.parsed.bs.text = m.bs.text ∧ m.parsed.mt.text = m.mt.text :=
  ⟨leavesList_norm _, leavesList_norm _, rfl, rfl⟩

/-- **serialize ∘ parse ∘ serialize = serialize** on flat messages (byte-exact) -/
theorem C02_flat_reserialize (m t : Msg) (h : FlatOK m) (tw : Twin m t)
    (hc : ∀ p ∈ kvsList m.header ++ kvsList m.body, p.2.Canon) :
    ∃ m', t.unmarshal m.encode = .ok m' ∧ m'.encode = m.encode :=
  ⟨m.parsed, unmarshal_encode m t h tw hc, parsed_encode m h⟩

/-- the integrity check accepts everything the serializer produces (flat messages) -/
theorem C02_accepts_own_output (m t : Msg) (h : FlatOK m)
    (ht : t.bsTag = m.bsTag ∧ t.blTag = m.blTag ∧ t.csTag = m.csTag) : validateRaw t m.encode = .ok () :=
  validateRaw_encode m t h ht

/-- **parse ∘ serialize, repeating groups nested to any depth** (hypotheses `MsgOK`: pairwise distinct tags free of
    SOH and '=', SOH-free canonical values, every entry a populated copy of its group's template with its first
    field populated — the property's preconditions) -/
theorem C02_roundtrip (m t : Msg) (h : MsgOK m) (tw : Twin m t) : t.unmarshal m.encode = .ok m.parsedG :=
  h.unmarshal_encode m t tw

/-- what came back is what was populated, entry by entry -/
theorem C02_same_fields (m : Msg) :
    leavesList m.parsedG.header = leavesList m.header ∧ leavesList m.parsedG.body = leavesList m.body :=
  ⟨leavesList_normG _, leavesList_normG _⟩

/-- **serialize ∘ parse ∘ serialize = serialize**, byte-exact, groups included -/
theorem C02_reserialize (m t : Msg) (h : MsgOK m) (tw : Twin m t) :
    ∃ m', t.unmarshal m.encode = .ok m' ∧ m'.encode = m.encode :=
  ⟨m.parsedG, h.unmarshal_encode m t tw, h.parsed_encode m⟩

/-- the decoder on bytes is the decoder on fields — for every template (nested groups included) and every
    sequence of SOH-free `tag=value` fields, whatever they contain (the general form of the scan lemma) -/
theorem C02_decoder_is_field_decoder (is : List Item) (fresh : Bool) (h : Bytes) (L : List Bytes) (e : Bytes)
    (he : e = [] ∨ e = [SOH]) (ht : listTplOK is = true) (hS : ∀ g ∈ h :: L, SOH ∉ g) (hE : ∀ g ∈ L, EQ ∈ g) :
    unmList is fresh (img h L e) = unmListF is fresh (h :: L) := unmList_img is fresh h L e he ht hS hE

/-- non-vacuity: a message with a header field, a nested component, an unpopulated field and a value that spells
    another field's tag (`58` holds `35=Z`) satisfies the hypotheses -/
def exMsg : Msg :=
  Msg.new [56] [57] [49, 48] [51, 53] [70, 73, 88] [68]
    [.kv [52, 57] (Val.newString [65])]
    [.kv [53, 56] (Val.newString [51, 53, 61, 90]), .comp [.kv [49, 49] (Val.newInt 7), .kv [49, 50] (Val.blank .str)]]
    [.kv [56, 57] (Val.blank .str)]

example : FlatOK exMsg := by
  constructor <;> decide

example : ∀ p ∈ kvsList exMsg.header ++ kvsList exMsg.body, p.2.Canon := by
  intro p hp
  simp [exMsg, Msg.new, kvsList, Item.kvs] at hp
  rcases hp with rfl | rfl | rfl | rfl
  · exact canon_newString _
  · exact canon_newString _
  · exact canon_newInt 7 (by decide) (by decide)
  · intro h; simp [populated, Val.blank] at h

/-- non-vacuity for groups: `146` with two entries, the first holding a nested group `711` with two entries, the
    second leaving `48` unpopulated and the nested group empty -/
def exGroupMsg : Msg :=
  Msg.new [56] [57] [49, 48] [51, 53] [70, 73, 88] [87]
    [.kv [52, 57] (Val.newString [65])]
    [.kv [53, 56] (Val.newString [51, 53, 61, 90]),
     .group [49, 52, 54] [.kv [53, 53] (Val.blank .str), .kv [52, 56] (Val.blank .str),
                          .group [55, 49, 49] [.kv [51, 49, 49] (Val.blank .str)] []]
       [[.kv [53, 53] (Val.newString [65]), .kv [52, 56] (Val.newString [66]),
         .group [55, 49, 49] [.kv [51, 49, 49] (Val.blank .str)]
           [[.kv [51, 49, 49] (Val.newString [88])], [.kv [51, 49, 49] (Val.newString [89])]]],
        [.kv [53, 53] (Val.newString [67]), .kv [52, 56] (Val.blank .str),
         .group [55, 49, 49] [.kv [51, 49, 49] (Val.blank .str)] []]]]
    []

example : MsgOK exGroupMsg := by
  have cs : ∀ s, (Val.newString s).Canon := canon_newString
  have cb : ∀ k, (Val.blank k).Canon := by intro k hp; simp [populated, Val.blank] at hp
  constructor
  · decide
  · simp [exGroupMsg, Msg.new, wfList, Item.wf, Val.newString, SOH, EQ]
    exact cs _
  · simp [exGroupMsg, Msg.new, wfList, Item.wf, wfEntries, firstKey, firstPopulated, blankList, Item.blank, populated,
      Val.newString, Val.blank, int64Max, SOH, EQ]
    repeat' constructor
    all_goals first | exact cs _ | (intro hp; simp [populated] at hp)
  · simp [exGroupMsg, Msg.new, blankList, wfList]
  · decide
  · decide
  · decide
  · decide
