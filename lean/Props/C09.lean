import Props.C08
import Proofs.SessionInv
/-!
# C09 — a silent peer is probed, then disconnected; a live peer never is

Timer part (`FixModel/Timer.lean`, timeout `T' = N + max(N/20, 1)` seconds, refreshed by every
inbound message): the probing loop's timer expires only after `T'` of inbound silence and, in
silence, within `T' + P`. Session part (`FixModel/Session.lean`): what each expiry does.
-/

open Sess

/-- the formula of the source: `tolerance := int(math.Max(float64(HeartBtInt/20), 1))`, timeout N + tolerance -/
theorem C09_timeout (n : Nat) : probeTimeout n = n + max (n / 20) 1 ∧ n < probeTimeout n := by
  unfold probeTimeout tolerance
  exact ⟨rfl, by omega⟩

/-- a peer that sends something at least every N seconds never lets the inbound timer expire:
    if at every poll the last inbound message is at most `N` old, no poll fires -/
theorem C09_live (N P : Nat) (s : TSt) (h : s.nextPoll P ≤ s.last + N) :
    (tstep (probeTimeout N) P s .poll).2 = none := by
  have := (C09_timeout N).2
  simp only [tstep]
  split
  · omega
  · rfl

/-- total silence: the timer fires within `T' + P` after the last inbound message (C08_upper for this timer) -/
theorem C09_silence_bound (N P : Nat) (hN : 0 < probeTimeout N) (t0 : Nat) (es : List TEv)
    (hwf : TWF (probeTimeout N) P { start := t0, last := t0 } es) (now : Nat)
    (hnow : now ≤ (trun (probeTimeout N) P { start := t0, last := t0 } es).1.nextPoll P) :
    now < (trun (probeTimeout N) P { start := t0, last := t0 } es).1.last + probeTimeout N + P :=
  C08_upper (probeTimeout N) P hN t0 es hwf now hnow

/-- first expiry while logged on: one TestRequest, and the session starts waiting for the answer -/
theorem C09_probe (c : Cfg) (s : Sess) (hs : s.started > 0) (hc : s.cancelled = false)
    (hst : s.state ≠ .waitingTestReqAnswer) :
    outBodies (step c s .inTimer).2 = [.testRequest (natDigits (s.testReqCounter + 1))]
    ∧ (step c s .inTimer).1.state = .waitingTestReqAnswer := by
  have h0 : ¬ (s.started = 0 ∨ s.cancelled = true) := by simp [hc]; omega
  simp [step, h0, hst]

/-- expiry while still waiting for the answer: the disconnect event is raised, the session context is
    cancelled and the handler is stopped (which makes the serving call close the connection) -/
theorem C09_disconnect (c : Cfg) (s : Sess) (hs : s.started > 0) (hc : s.cancelled = false)
    (hst : s.state = .waitingTestReqAnswer) :
    (step c s .inTimer).2 = [.event .disconnect, .cancel, .routerStop]
    ∧ (step c s .inTimer).1.cancelled = true ∧ (step c s .inTimer).1.routerStopped = true := by
  have h0 : ¬ (s.started = 0 ∨ s.cancelled = true) := by simp [hc]; omega
  simp [step, h0, hst, changeState]

/-- any inbound message of any type while waiting for the answer cancels the pending disconnect:
    the next expiry probes again instead of disconnecting -/
theorem C09_cancel (c : Cfg) (s : Sess) (m : InMsg) (hs : s.started > 0)
    (hst : s.state = .waitingTestReqAnswer) (hd : s.dead = false) (hr : s.routerStopped = false)
    (hk : m.kind = .other ∨ m.kind = .heartbeat) :
    (step c s (.inbound m)).1.state = .successfulLogged := by
  have hp : (pre s m).state = .successfulLogged := by rw [pre_state]; simp [hs, hst]
  rcases hk with hk | hk
  · simp [step, hd, hr, onInbound_eq, hk, hp]
  · simp only [step, hd, hr, onInbound_eq, hk]
    obtain ⟨_, h2, _⟩ := onHeartbeat_cases c (pre s m) m
    simpa [h2] using hp

/-- before logon the probing timer does not exist: an expiry event is a no-op -/
theorem C09_not_before_logon (c : Cfg) (s : Sess) (hs : s.started = 0) : step c s .inTimer = (s, []) := by
  simp [step, hs]

example : probeTimeout 30 = 31 ∧ probeTimeout 1 = 2 ∧ probeTimeout 60 = 63 := by decide
