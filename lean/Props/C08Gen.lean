import FixModel.Generated.Facts
/-!
# C08 — T-gen: the timer arithmetic in the source is the model's (canonical formula facts)
-/

/-- the constants the model uses are the source's (regenerated, in canonical form: locals inlined,
    receiver `$r`, parameter `$0`): polling period = timeout / 10, the ticker runs at that period, the
    outbound timer is built from HeartBtInt seconds, and the session builds exactly two timers -/
theorem C08_consts :
    Generated.consts.lookup "utils.frequency" = some "10"
    ∧ Generated.formulas.contains ("field utils.Timer.checkingTimeout", "$0 / frequency") = true
    ∧ Generated.formulas.contains ("field utils.Timer.timeout", "$0") = true
    ∧ (Generated.formulas.filter (·.1 == "ticker-period")) = [("ticker-period", "$r.checkingTimeout")]
    ∧ Generated.formulas.contains ("timer-arg", "time.Second * time.Duration($r.LogonSettings.HeartBtInt)") = true
    ∧ (Generated.formulas.filter (·.1 == "timer-arg")).length = 2 := by decide

