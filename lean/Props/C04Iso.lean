import Props.C04
/-!
# C04 — per-connection isolation

"… and only messages that arrived on that connection", for any number of simultaneous connections and every
interleaving of the arrivals. The model gives every connection its own reader state and nothing else (that is the
structure of `Acceptor.serve`: one `NewConn`, one `MakeHandler`, one reader goroutine per accepted connection and no
package-level mutable state — pinned by the regenerated connection skeleton, `Props/ConnSkeleton.lean`); the theorem
says that with that structure the deliveries of a connection are a function of its own bytes alone.
-/

/-- several connections, each with its own reader state; bytes arrive in any interleaving, tagged with the
    connection they arrived on -/
def feedMulti (st : Nat → RState) : List (Nat × UInt8) → (Nat → RState) × List (Nat × Bytes)
  | [] => (st, [])
  | (i, b) :: es =>
    let r := feed (st i) b
    let r2 := feedMulti (fun j => if j = i then r.1 else st j) es
    (r2.1, (match r.2 with | some m => [(i, m)] | none => []) ++ r2.2)

/-- what belongs to connection `i`, in order -/
def onConn {α} (i : Nat) (l : List (Nat × α)) : List α := (l.filter (fun p => p.1 == i)).map (·.2)

/-- **per-connection isolation, for every interleaving of arrivals on any number of connections**: what the handler
    of connection `i` is given, and the state of its reader, are those of a reader that saw the bytes of connection
    `i` alone -/
theorem C04_isolation (st : Nat → RState) (es : List (Nat × UInt8)) (i : Nat) :
    onConn i (feedMulti st es).2 = (feedAll (st i) (onConn i es)).2
    ∧ (feedMulti st es).1 i = (feedAll (st i) (onConn i es)).1 := by
  induction es generalizing st with
  | nil => simp [feedMulti, onConn, feedAll]
  | cons e es ih =>
    obtain ⟨j, b⟩ := e
    simp only [feedMulti]
    have h := ih (fun k => if k = j then (feed (st j) b).1 else st k)
    by_cases hji : j = i
    · subst hji
      simp only [↓reduceIte] at h
      have e1 : onConn j ((j, b) :: es) = b :: onConn j es := by simp [onConn]
      rw [e1]
      simp only [feedAll]
      refine ⟨?_, h.2⟩
      rw [← h.1]
      cases (feed (st j) b).2 <;> simp [onConn]
    · have hij : ¬ i = j := fun h => hji h.symm
      simp only [if_neg hij] at h
      have e1 : onConn i ((j, b) :: es) = onConn i es := by simp [onConn, hji]
      rw [e1]
      refine ⟨?_, h.2⟩
      rw [← h.1]
      cases (feed (st j) b).2 <;> simp [onConn, hji]

/-- with well-formed traffic on connection `i` — whatever arrives on the other connections, in whatever
    interleaving — its handler gets exactly its messages, each once, complete, in order -/
theorem C04_isolation_frames (es : List (Nat × UInt8)) (i : Nat) (msgs : List (List Bytes))
    (h : ∀ m ∈ msgs, WFWire m) (hi : onConn i es = (msgs.map wireOf).flatten) :
    onConn i (feedMulti (fun _ => RState.idle) es).2 = msgs.map wireOf := by
  rw [(C04_isolation _ es i).1, hi, C04_frame msgs h]

/-- non-vacuity / witness: two connections, bytes interleaved one by one; each gets its own message -/
example :
    let a : Bytes := wireOf [[56,61,65], [49,48,61,48,48,49]]
    let b : Bytes := wireOf [[56,61,66], [49,48,61,48,48,50]]
    let es := (a.zip b).flatMap (fun p => [(0, p.1), (1, p.2)])
    (feedMulti (fun _ => RState.idle) es).2 = [(0, a), (1, b)] := by decide
