import FixModel.Sched.ConnSkeleton
import FixModel.Generated.Facts
/-!
# the connection models' tie to the source (T-gen), an obligation of C04 C13 C19

Every exported function of the root package the connection models were written against is still there with exactly
the same skeleton (the same operations in the same order: these models are about order — close before wait, handlers
before serialization, …). Exported functions the models do not know are not compared.
-/

theorem conn_skeleton :
    ConnSkeleton.expected.all (fun r => Generated.connSkeleton.lookup r.1 == some r.2) = true := by decide +kernel

-- non-vacuity: the expectation is not empty and is found
example : ConnSkeleton.expected.length > 10 := by decide
