import FixModel.Sched.ConnSkeleton
import FixModel.Generated.Facts
/-!
# the connection models' tie to the source (T-gen), shared by C04 C13 C19 C20
-/

theorem conn_skeleton : Generated.connSkeleton = ConnSkeleton.expected := by decide +kernel
