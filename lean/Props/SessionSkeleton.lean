import FixModel.Sched.Skeleton
import FixModel.Generated.Facts
/-!
# the session model's tie to the source (T-gen), shared by C06 C07 C09 C10 C14 C15 C16
-/

theorem session_skeleton : Generated.sessionSkeleton = SessionSkeleton.expectedSkeleton := by decide
