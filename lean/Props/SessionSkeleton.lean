import FixModel.Sched.Skeleton
import FixModel.Sched.Norm
import FixModel.Generated.Facts
/-!
# the session model's tie to the source (T-gen), shared by C06 C07 C09 C10 C14 C15 C16

Every exported function the model was written against is still there, with an equivalent skeleton (`SkelNorm.covers`:
same closures, same set of operations in every scope); exported functions the model does not know are not compared.
-/

theorem session_skeleton :
    SkelNorm.covers Generated.sessionSkeleton SessionSkeleton.expectedSkeleton = true := by decide +kernel
