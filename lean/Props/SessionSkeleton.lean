import FixModel.Sched.Skeleton
import FixModel.Sched.Norm
import FixModel.Generated.Facts
/-!
# the session model's tie to the source (T-gen), shared by C06 C07 C09 C10 C14 C15 C16

The skeleton regenerated from /repo is equivalent (`SkelNorm.equiv`: same closures, same set of operations in every
scope) to the one the model was written against.
-/

theorem session_skeleton :
    SkelNorm.equiv Generated.sessionSkeleton SessionSkeleton.expectedSkeleton = true := by decide +kernel
