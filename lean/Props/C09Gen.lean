import FixModel.Generated.Facts
/-!
# C09 — T-gen: the probe timer is built from HeartBtInt + max(HeartBtInt/20, 1) seconds in the source
(`probeTimeout`, `Props/C09.lean: C09_timeout`)
-/

/-- … and that is the formula in the source -/
theorem C09_consts :
    Generated.formulas.contains ("timer-arg",
      "time.Second * time.Duration($r.LogonSettings.HeartBtInt+int(math.Max(float64($r.LogonSettings.HeartBtInt/20), 1)))") = true
    ∧ (Generated.formulas.filter (·.1 == "timer-arg")).length = 2 := by decide

