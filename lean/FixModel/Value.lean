import FixModel.Decimal
/-!
# Value — the seven `fix.Value` implementations

A value is `(kind, valid, text)`: `text` is the canonical wire text the value
serializes to when it is valid (String: the string; Int/Uint: decimal digits;
Bool: Y/N; Float: the source text it was parsed from, or Go's
`FormatFloat(v,'f',-1,64)` for a value set by the application; Time: the
`20060102-15:04:05.000` rendering; Raw: the bytes, `valid = (value != nil)`).
The *number* behind a Float and the *instant* behind a Time never enter the model:
`strconv.ParseFloat`/`FormatFloat` and `time.Parse`/`Format` are modelled only as
acceptance + canonical text (see DESIGN §3, trusted base).
-/

inductive VKind | str | int | uint | float | time | bool | raw
deriving DecidableEq, Repr, Inhabited

structure Val where
  kind : VKind
  valid : Bool
  text : Bytes
deriving DecidableEq, Repr, Inhabited

namespace Val

/-- `&fix.String{}`, `&fix.Int{}` … : the zero value used in templates -/
def blank (k : VKind) : Val := ⟨k, false, []⟩

def isNull (v : Val) : Bool := !v.valid

/-- `Value.ToBytes()`; `none` is the nil slice. -/
def toBytes (v : Val) : Option Bytes :=
  match v.kind with
  | .str => if v.valid && !v.text.isEmpty then some v.text else none
  | _ => if v.valid then some v.text else none

end Val

/-! ### strconv.ParseFloat(s, 64) acceptance (decimal syntax, inf/nan, overflow ⇒ error) -/

def lowerB (c : UInt8) : UInt8 := if 65 ≤ c && c ≤ 90 then c + 32 else c

def eqFold (s : Bytes) (t : String) : Bool := s.map lowerB == strBytes t

/-- threshold at and above which a decimal rounds to +Inf: 2^1024 − 2^970 -/
def floatOverflowT : Nat := 2^1024 - 2^970

/-- scan digits; returns (mantissa, number of digits read, rest) -/
def scanDigits : Bytes → Nat → Nat → Nat × Nat × Bytes
  | [], m, n => (m, n, [])
  | c :: cs, m, n => if isDigit c then scanDigits cs (m * 10 + digitVal c) (n + 1) else (m, n, c :: cs)

/-- does `mant × 10^e` overflow float64? -/
def decOverflows (mant : Nat) (e : Int) : Bool :=
  if mant = 0 then false
  else if e > 400 then true
  else if e < -1200 then false
  else if e ≥ 0 then mant * 10 ^ e.toNat ≥ floatOverflowT
  else mant ≥ floatOverflowT * 10 ^ (-e).toNat

def floatOK (s : Bytes) : Bool :=
  let body := match s with
    | c :: cs => if c = 43 || c = 45 then cs else s
    | [] => []
  let signed := body.length < s.length
  if eqFold body "inf" || eqFold body "infinity" then true
  else if !signed && eqFold s "nan" then true
  else
    let (m1, n1, r1) := scanDigits body 0 0
    let (m2, n2, r2) := match r1 with
      | c :: cs => if c = 46 then scanDigits cs m1 0 else (m1, 0, r1)
      | [] => (m1, 0, [])
    if n1 + n2 = 0 then false
    else
      match r2 with
      | [] => !decOverflows m2 (-(n2 : Int))
      | c :: cs =>
        if c = 101 || c = 69 then
          let (neg, ds) := match cs with
            | d :: ds => if d = 43 then (false, ds) else if d = 45 then (true, ds) else (false, cs)
            | [] => (false, [])
          let (ev, en, r3) := scanDigits ds 0 0
          if en = 0 || !r3.isEmpty then false
          else
            let e : Int := if neg then -(ev : Int) else ev
            !decOverflows m2 (e - n2)
        else false

/-! ### time.Parse("20060102-15:04:05.000", s) acceptance and canonical re-rendering -/

def twoDigits (n : Nat) : Bytes := [digitChar (n / 10), digitChar (n % 10)]

def daysIn (month year : Nat) : Nat :=
  if month = 2 then (if year % 4 = 0 && (year % 100 ≠ 0 || year % 400 = 0) then 29 else 28)
  else if month = 4 || month = 6 || month = 9 || month = 11 then 30 else 31

/-- fixed two-digit number -/
def getnum2 : Bytes → Option (Nat × Bytes)
  | a :: b :: rest => if isDigit a && isDigit b then some (digitVal a * 10 + digitVal b, rest) else none
  | _ => none

/-- `getnum(value, false)`: one or two digits -/
def getnum12 : Bytes → Option (Nat × Bytes)
  | a :: b :: rest =>
    if isDigit a then (if isDigit b then some (digitVal a * 10 + digitVal b, rest) else some (digitVal a, b :: rest))
    else none
  | [a] => if isDigit a then some (digitVal a, []) else none
  | [] => none

def expectByte (b : UInt8) : Bytes → Option Bytes
  | c :: cs => if c = b then some cs else none
  | [] => none

/-- canonical text of a successfully parsed time, `none` if `time.Parse` fails -/
def timeCanon (s : Bytes) : Option Bytes := do
  let (y, s) ← match s with
    | a :: b :: c :: d :: rest =>
      if isDigit a && isDigit b && isDigit c && isDigit d
      then some (digitVal a * 1000 + digitVal b * 100 + digitVal c * 10 + digitVal d, rest) else none
    | _ => none
  let (mo, s) ← getnum2 s
  if mo = 0 || mo > 12 then none
  let (d, s) ← getnum2 s
  let s ← expectByte 45 s
  let (h, s) ← getnum12 s
  if h ≥ 24 then none
  let s ← expectByte 58 s
  let (mi, s) ← getnum2 s
  if mi ≥ 60 then none
  let s ← expectByte 58 s
  let (sec, s) ← getnum2 s
  if sec ≥ 60 then none
  let ms ← match s with
    | [p, a, b, c] =>
      if p = 46 || p = 44 then
        (if isDigit a && isDigit b && isDigit c then some (digitVal a * 100 + digitVal b * 10 + digitVal c)
         else if a = 43 && isDigit b && isDigit c then some (digitVal b * 10 + digitVal c)
         else none)
      else none
    | _ => none
  if d < 1 || d > daysIn mo y then none
  some ([digitChar (y / 1000), digitChar (y / 100 % 10), digitChar (y / 10 % 10), digitChar (y % 10)]
    ++ twoDigits mo ++ twoDigits d ++ [45] ++ twoDigits h ++ [58] ++ twoDigits mi ++ [58] ++ twoDigits sec
    ++ [46, digitChar (ms / 100), digitChar (ms / 10 % 10), digitChar (ms % 10)])

/-! ### FromBytes -/

/-- `Value.FromBytes(d)` for a non-nil `d` (the decoder never passes nil):
    the new value, or `none` when the call returns an error. -/
def Val.fromBytes (v : Val) (d : Bytes) : Option Val :=
  match v.kind with
  | .str => some ⟨.str, true, d⟩
  | .raw => some ⟨.raw, true, d⟩
  | .int => (atoi d).map fun n => ⟨.int, true, itoa n⟩
  | .uint => (parseUint d).map fun n => ⟨.uint, true, natDigits n⟩
  | .bool => some ⟨.bool, true, if d = [89] then [89] else [78]⟩
  | .float => if floatOK d then some ⟨.float, true, d⟩ else none
  | .time => (timeCanon d).map fun t => ⟨.time, true, t⟩

/-! ### constructors and `Set` (what an application can build) -/

def Val.newString (s : Bytes) : Val := ⟨.str, true, s⟩
def Val.newInt (n : Int) : Val := ⟨.int, true, itoa n⟩
def Val.newUint (n : Nat) : Val := ⟨.uint, true, natDigits n⟩
def Val.newBool (b : Bool) : Val := ⟨.bool, true, if b then [89] else [78]⟩
/-- `NewRaw(v)`: `none` = nil -/
def Val.newRaw : Option Bytes → Val
  | none => ⟨.raw, false, []⟩
  | some b => ⟨.raw, true, b⟩
/-- `NewFloat(x)` / `NewTime(t)` with `txt` the text Go's formatter gives for the argument -/
def Val.newFloat (txt : Bytes) : Val := ⟨.float, true, txt⟩
def Val.newTime (txt : Bytes) : Val := ⟨.time, true, txt⟩
