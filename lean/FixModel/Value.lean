import FixModel.Decimal
/-!
# Value — the seven `fix.Value` implementations

A value is `(kind, valid, text)`: `text` is the canonical wire text the value
serializes to when it is valid (String: the string; Int/Uint: decimal digits;
Bool: Y/N; Float: the source text it was parsed from, or Go's
`FormatFloat(v,'f',-1,64)` for a value set by the application; Time: the
`20060102-15:04:05.000` rendering; Raw: the bytes, `valid = (value != nil)`).
The *number* behind a Float and the *instant* behind a Time never enter the model:
`strconv.ParseFloat`/`FormatFloat` and `time.Parse`/`Format` are modelled only as
acceptance + canonical text (see DESIGN §3, trusted base).
-/

inductive VKind | str | int | uint | float | time | bool | raw
deriving DecidableEq, Repr, Inhabited

structure Val where
  kind : VKind
  valid : Bool
  text : Bytes
deriving DecidableEq, Repr, Inhabited

namespace Val

/-- `&fix.String{}`, `&fix.Int{}` … : the zero value used in templates -/
def blank (k : VKind) : Val := ⟨k, false, []⟩

def isNull (v : Val) : Bool := !v.valid

/-- `Value.ToBytes()`; `none` is the nil slice. -/
def toBytes (v : Val) : Option Bytes :=
  match v.kind with
  | .str => if v.valid && !v.text.isEmpty then some v.text else none
  | _ => if v.valid then some v.text else none

end Val

/-! ### strconv.ParseFloat(s, 64) acceptance

`special` (inf / infinity / nan), then `readFloat`: optional sign, optional `0x` prefix (only when something
follows it), digits with at most one `.`, `_` anywhere among them (validated afterwards by `underscoreOK`), an
exponent (`e` for decimal, mandatory `p` for hexadecimal) whose digits are accumulated only while the value is below
10000, the whole string consumed; finally the range check: the correctly rounded value must be finite. The mantissa
is kept exactly here (Go truncates it to 19 / 16 digits with a sticky flag and still rounds correctly). -/

def lowerB (c : UInt8) : UInt8 := if 65 ≤ c && c ≤ 90 then c + 32 else c

/-- case-insensitive comparison with a lower-case word given as bytes -/
def eqFold (s t : Bytes) : Bool := s.map lowerB == t

def wInf : Bytes := [105, 110, 102]                                -- "inf"
def wInfinity : Bytes := [105, 110, 102, 105, 110, 105, 116, 121]  -- "infinity"
def wNan : Bytes := [110, 97, 110]                                 -- "nan"

/-- threshold at and above which a number rounds to +Inf: 2^1024 − 2^970 -/
def floatOverflowT : Nat := 2^1024 - 2^970

/-- does `mant × base^e` round to infinity? (`base` = 10 or 2) -/
def overflows (base mant : Nat) (e : Int) : Bool :=
  if mant = 0 then false
  else if e ≥ 0 then (if e > 1100 then true else mant * base ^ e.toNat ≥ floatOverflowT)
  else mant ≥ floatOverflowT * base ^ (-e).toNat

def isHexLetter (c : UInt8) : Bool := 97 ≤ lowerB c && lowerB c ≤ 102

structure RF where
  mant : Nat := 0        -- every mantissa digit, exactly
  frac : Nat := 0        -- number of digits after the point
  sawDigits : Bool := false
  sawDot : Bool := false
  us : Bool := false     -- an underscore was skipped

/-- the mantissa loop of `readFloat`; returns the state and the unread rest -/
def mantLoop (hex : Bool) : Bytes → RF → RF × Bytes
  | [], st => (st, [])
  | c :: cs, st =>
    if c = 95 then mantLoop hex cs { st with us := true }
    else if c = 46 then (if st.sawDot then (st, c :: cs) else mantLoop hex cs { st with sawDot := true })
    else if isDigit c then
      mantLoop hex cs { st with sawDigits := true, mant := st.mant * (if hex then 16 else 10) + digitVal c,
                                frac := if st.sawDot then st.frac + 1 else st.frac }
    else if hex && isHexLetter c then
      mantLoop hex cs { st with sawDigits := true, mant := st.mant * 16 + ((lowerB c).toNat - 87),
                                frac := if st.sawDot then st.frac + 1 else st.frac }
    else (st, c :: cs)

/-- exponent digits (and underscores); the value stops growing at 10000 -/
def expLoop : Bytes → Nat → Bool → Nat × Bool × Bytes
  | [], e, us => (e, us, [])
  | c :: cs, e, us =>
    if isDigit c then expLoop cs (if e < 10000 then e * 10 + digitVal c else e) us
    else if c = 95 then expLoop cs e true
    else (e, us, c :: cs)

/-- `underscoreOK`: underscores only between digits (a base prefix counts as a digit). `saw`: 0 = start,
    1 = digit or prefix, 2 = underscore, 3 = anything else -/
def usLoop (hex : Bool) : Bytes → Nat → Bool
  | [], saw => saw != 2
  | c :: cs, saw =>
    if isDigit c || (hex && isHexLetter c) then usLoop hex cs 1
    else if c = 95 then (if saw != 1 then false else usLoop hex cs 2)
    else if saw = 2 then false
    else usLoop hex cs 3

def underscoreOK (s : Bytes) : Bool :=
  let s := match s with
    | c :: cs => if c = 45 || c = 43 then cs else s
    | [] => []
  match s with
  | 48 :: p :: rest =>
    if lowerB p = 98 || lowerB p = 111 || lowerB p = 120 then usLoop (lowerB p = 120) rest 1
    else usLoop false s 0
  | _ => usLoop false s 0

def stripSign (s : Bytes) : Bytes :=
  match s with
  | c :: cs => if c = 43 || c = 45 then cs else s
  | [] => []

/-- a `0x` / `0X` prefix counts only when something follows it -/
def isHexPrefix : Bytes → Bool
  | 48 :: x :: _ :: _ => lowerB x = 120
  | _ => false

/-- after the mantissa: the exponent, the end of the string, the underscore rule, the range -/
def floatTail (hex : Bool) (s : Bytes) (st : RF) (r : Bytes) : Bool :=
  let base := if hex then 2 else 10
  let scale : Int := if hex then 4 * (st.frac : Int) else st.frac
  match r with
  | [] => if hex then false else if st.us && !underscoreOK s then false else !overflows base st.mant (-scale)
  | c :: cs =>
    if lowerB c = (if hex then 112 else 101) then
      let (neg, ds) := match cs with
        | d :: ds => if d = 43 then (false, ds) else if d = 45 then (true, ds) else (false, cs)
        | [] => (false, [])
      match ds with
      | [] => false
      | d0 :: _ =>
        if !isDigit d0 then false
        else
          let (ev, us, r3) := expLoop ds 0 st.us
          if !r3.isEmpty then false
          else if us && !underscoreOK s then false
          else
            let e : Int := if neg then -(ev : Int) else ev
            !overflows base st.mant (e - scale)
    else false

def floatNum (s body : Bytes) : Bool :=
  let hex := isHexPrefix body
  let p := mantLoop hex (if hex then body.drop 2 else body) {}
  if !p.1.sawDigits then false else floatTail hex s p.1 p.2

def floatOK (s : Bytes) : Bool :=
  let body := stripSign s
  let signed := body.length < s.length
  if eqFold body wInf || eqFold body wInfinity then true
  else if !signed && eqFold s wNan then true
  else floatNum s body

/-! ### time.Parse("20060102-15:04:05.000", s) acceptance and canonical re-rendering -/

def twoDigits (n : Nat) : Bytes := [digitChar (n / 10), digitChar (n % 10)]

def daysIn (month year : Nat) : Nat :=
  if month = 2 then (if year % 4 = 0 && (year % 100 ≠ 0 || year % 400 = 0) then 29 else 28)
  else if month = 4 || month = 6 || month = 9 || month = 11 then 30 else 31

/-- fixed two-digit number -/
def getnum2 : Bytes → Option (Nat × Bytes)
  | a :: b :: rest => if isDigit a && isDigit b then some (digitVal a * 10 + digitVal b, rest) else none
  | _ => none

/-- `getnum(value, false)`: one or two digits -/
def getnum12 : Bytes → Option (Nat × Bytes)
  | a :: b :: rest =>
    if isDigit a then (if isDigit b then some (digitVal a * 10 + digitVal b, rest) else some (digitVal a, b :: rest))
    else none
  | [a] => if isDigit a then some (digitVal a, []) else none
  | [] => none

def expectByte (b : UInt8) : Bytes → Option Bytes
  | c :: cs => if c = b then some cs else none
  | [] => none

/-- a range check of the parser: failing it fails the parse -/
def check (b : Bool) : Option Unit := if b then some () else none

/-- four-digit year -/
def getYear : Bytes → Option (Nat × Bytes)
  | a :: b :: c :: d :: rest =>
    if isDigit a && isDigit b && isDigit c && isDigit d
    then some (digitVal a * 1000 + digitVal b * 100 + digitVal c * 10 + digitVal d, rest) else none
  | _ => none

/-- the fractional second: `.` or `,` and three digits; Go reads them with its internal `atoi`, which accepts a
    sign: a `+` may stand for the first digit, and so may a `-` as long as the value is not negative (`-00`) -/
def getMillis : Bytes → Option Nat
  | [p, a, b, c] =>
    if p = 46 || p = 44 then
      (if isDigit a && isDigit b && isDigit c then some (digitVal a * 100 + digitVal b * 10 + digitVal c)
       else if a = 43 && isDigit b && isDigit c then some (digitVal b * 10 + digitVal c)
       else if a = 45 && b = 48 && c = 48 then some 0
       else none)
    else none
  | _ => none

/-- canonical text of a successfully parsed time, `none` if `time.Parse` fails -/
def timeCanon (s : Bytes) : Option Bytes := do
  let (y, s) ← getYear s
  let (mo, s) ← getnum2 s
  check (!(mo = 0 || mo > 12))
  let (d, s) ← getnum2 s
  let s ← expectByte 45 s
  let (h, s) ← getnum12 s
  check (h < 24)
  let s ← expectByte 58 s
  let (mi, s) ← getnum2 s
  check (mi < 60)
  let s ← expectByte 58 s
  let (sec, s) ← getnum2 s
  check (sec < 60)
  let ms ← getMillis s
  check (1 ≤ d && d ≤ daysIn mo y)
  some ([digitChar (y / 1000), digitChar (y / 100 % 10), digitChar (y / 10 % 10), digitChar (y % 10)]
    ++ twoDigits mo ++ twoDigits d ++ [45] ++ twoDigits h ++ [58] ++ twoDigits mi ++ [58] ++ twoDigits sec
    ++ [46, digitChar (ms / 100), digitChar (ms / 10 % 10), digitChar (ms % 10)])

def fourDigits (y : Nat) : Bytes :=
  [digitChar (y / 1000), digitChar (y / 100 % 10), digitChar (y / 10 % 10), digitChar (y % 10)]

def threeDigits (n : Nat) : Bytes := [digitChar (n / 100), digitChar (n / 10 % 10), digitChar (n % 10)]

/-- `t.Format("20060102-15:04:05.000")` for year `y`, month `mo`, … millisecond `ms` -/
def timeFmt (y mo d h mi s ms : Nat) : Bytes :=
  fourDigits y ++ twoDigits mo ++ twoDigits d ++ [45] ++ twoDigits h ++ [58] ++ twoDigits mi ++ [58]
    ++ twoDigits s ++ [46] ++ threeDigits ms

/-! ### FromBytes -/

/-- `Value.FromBytes(d)` for a non-nil `d` (the decoder never passes nil):
    the new value, or `none` when the call returns an error. -/
def Val.fromBytes (v : Val) (d : Bytes) : Option Val :=
  match v.kind with
  | .str => some ⟨.str, true, d⟩
  | .raw => some ⟨.raw, true, d⟩
  | .int => (atoi d).map fun n => ⟨.int, true, itoa n⟩
  | .uint => (parseUint d).map fun n => ⟨.uint, true, natDigits n⟩
  | .bool => some ⟨.bool, true, if d = [89] then [89] else [78]⟩
  | .float => if floatOK d then some ⟨.float, true, d⟩ else none
  | .time => (timeCanon d).map fun t => ⟨.time, true, t⟩

/-! ### constructors and `Set` (what an application can build) -/

def Val.newString (s : Bytes) : Val := ⟨.str, true, s⟩
def Val.newInt (n : Int) : Val := ⟨.int, true, itoa n⟩
def Val.newUint (n : Nat) : Val := ⟨.uint, true, natDigits n⟩
def Val.newBool (b : Bool) : Val := ⟨.bool, true, if b then [89] else [78]⟩
/-- `NewRaw(v)`: `none` = nil -/
def Val.newRaw : Option Bytes → Val
  | none => ⟨.raw, false, []⟩
  | some b => ⟨.raw, true, b⟩
/-- `NewFloat(x)` / `NewTime(t)` with `txt` the text Go's formatter gives for the argument -/
def Val.newFloat (txt : Bytes) : Val := ⟨.float, true, txt⟩
def Val.newTime (txt : Bytes) : Val := ⟨.time, true, txt⟩
