import FixModel.Bytes
/-!
# Pool — `HandlerPool` ranges and `DefaultHandler.send` / `serve`

Handlers are kept per message type in registration order. A handler is modelled by its
identity (registration index) and its verdict on the message at hand.
-/

structure H where
  id : Nat
  verdict : Bool
deriving Repr, DecidableEq

/-- `OutgoingHandlerPool.Range`: call handlers in order until one refuses; (call log, all accepted?) -/
def rangeOut : List H → List Nat × Bool
  | [] => ([], true)
  | h :: r => if h.verdict then ((rangeOut r).1.cons h.id, (rangeOut r).2) else ([h.id], false)

/-- `IncomingHandlerPool.Range`: the same, the result is dropped by the caller -/
def rangeIn (hs : List H) : List Nat := (rangeOut hs).1

/-- `DefaultHandler.send(msg)`: all-types handlers, then the handlers of the message's type, then
    `ToBytes`, then enqueue. Result: call log, the bytes enqueued (none = nothing transmitted, the
    call returns an error). -/
def handlerSend (allH typedH : List H) (bytes : Option Bytes) : List Nat × Option Bytes :=
  let a := rangeOut allH
  if !a.2 then (a.1, none)
  else
    let t := rangeOut typedH
    if !t.2 then (a.1 ++ t.1, none) else (a.1 ++ t.1, bytes)

/-- `DefaultHandler.serve(msg)`: all-types handlers, then the handlers of the message's own type -/
def handlerServe (allH typedH : List H) : List Nat := rangeIn allH ++ rangeIn typedH
