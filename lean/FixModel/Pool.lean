import FixModel.Bytes
import FixModel.Decimal
/-!
# Pool — `HandlerPool` ranges and `DefaultHandler.send` / `serve`

Handlers are kept per message type in registration order. A handler is modelled by its
identity (registration index) and its verdict on the message at hand.
-/

structure H where
  id : Nat
  verdict : Bool
deriving Repr, DecidableEq

/-- `OutgoingHandlerPool.Range`: call handlers in order until one refuses; (call log, all accepted?) -/
def rangeOut : List H → List Nat × Bool
  | [] => ([], true)
  | h :: r => if h.verdict then ((rangeOut r).1.cons h.id, (rangeOut r).2) else ([h.id], false)

/-- `IncomingHandlerPool.Range`: the same, the result is dropped by the caller -/
def rangeIn (hs : List H) : List Nat := (rangeOut hs).1

/-- `DefaultHandler.send(msg)`: all-types handlers, then the handlers of the message's type, then
    `ToBytes`, then enqueue. Result: call log, the bytes enqueued (none = nothing transmitted, the
    call returns an error). -/
def handlerSend (allH typedH : List H) (bytes : Option Bytes) : List Nat × Option Bytes :=
  let a := rangeOut allH
  if !a.2 then (a.1, none)
  else
    let t := rangeOut typedH
    if !t.2 then (a.1 ++ t.1, none) else (a.1 ++ t.1, bytes)

/-- `DefaultHandler.serve(msg)`: all-types handlers, then the handlers of the message's own type -/
def handlerServe (allH typedH : List H) : List Nat := rangeIn allH ++ rangeIn typedH

/-! ### handlers that complete the message

`HandleOutgoing` is where an application (and the session itself: the store handler) may still modify the message.
`HT α` is a handler over an abstract message type `α`: it returns the message as it leaves it and its verdict.
`handlerSendT` threads the message through the all-types handlers, then through the handlers of its type, and
serializes **what the last handler left** — so every handler sees the message that is about to be transmitted, as
completed by the handlers before it. -/

structure HT (α : Type) where
  id : Nat
  run : α → α × Bool

/-- `Range` over message-transforming handlers: (call log, message as left by the last handler called, all accepted?) -/
def rangeOutT {α} : List (HT α) → α → List Nat × α × Bool
  | [], m => ([], m, true)
  | h :: r, m =>
    let (m', ok) := h.run m
    if ok then
      let (log, m'', ok') := rangeOutT r m'
      (h.id :: log, m'', ok')
    else ([h.id], m', false)

/-- `DefaultHandler.send` with message-transforming handlers; `ser` is `ToBytes` (`none` = it fails) -/
def handlerSendT {α} (allH typedH : List (HT α)) (m : α) (ser : α → Option Bytes) : List Nat × Option Bytes :=
  let a := rangeOutT allH m
  if !a.2.2 then (a.1, none)
  else
    let t := rangeOutT typedH a.2.1
    if !t.2.2 then (a.1 ++ t.1, none) else (a.1 ++ t.1, ser t.2.1)

/-- the message each handler is given: the original one as completed by the handlers before it -/
def seenBy {α} : List (HT α) → α → List (Nat × α)
  | [], _ => []
  | h :: r, m => (h.id, m) :: seenBy r (h.run m).1

/-- the message after every handler of the list ran -/
def afterAll {α} (hs : List (HT α)) (m : α) : α := hs.foldl (fun m h => (h.run m).1) m

/-- the harness's handlers: verdict fixed, a stamping handler appends `58=h<id>SOH` -/
def stampH (id : Nat) (verdict stamp : Bool) : HT Bytes :=
  { id, run := fun m => (if stamp then m ++ [53, 56, 61, 104] ++ natDigits id ++ [SOH] else m, verdict) }
