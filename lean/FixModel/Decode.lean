import FixModel.Message
/-!
# Decode — `fix/encoding`: scanKeyValue, splitGroup, unmarshal, validateRaw, DefaultValidator;
and `fix.ValueByTag`.

Every Go slice expression is a *checked* operation (`sliceFrom`, `sliceTo`, …) so a
run-time panic of the real code is the value `Res.panic` here.
-/

/-- `fieldIndex(data, key)`: offset at which the field `key=` starts — at offset 0, or right
    after the first `SOH key =` — `none` for "not found". -/
def fieldIndex (data key : Bytes) : Option Nat :=
  let q := key ++ [EQ]
  if q.isPrefixOf data then some 0
  else (indexOf (SOH :: q) data).map (· + 1)

/-- the value-locating half of `scanKeyValue`: `none` = field absent (item left untouched) -/
def scanValue (data key : Bytes) : Res (Option Bytes) :=
  match fieldIndex data key with
  | none => .ok none
  | some ki => do
    let d ← sliceFrom data ((ki : Int) + (key.length + 1 : Nat))
    let e := match indexByte SOH d with
      | none => d.length
      | some e => e
    let v ← sliceTo d e
    pure (some v)

/-- `scanKeyValue` on a KeyValue with value `v` -/
def scanKV (data key : Bytes) (v : Val) : Res Val := do
  match ← scanValue data key with
  | none => pure v
  | some b =>
    match v.fromBytes b with
    | some v' => pure v'
    | none => .err

/-- `splitGroup(line, firstTag)` -/
def splitGroup (firstTag : Bytes) (line : Bytes) : Res (List Bytes) :=
  match line with
  | [] => .panic                                   -- `line[1:]` on an empty slice
  | c :: rest =>
    match indexOf firstTag rest with
    | none => .ok [c :: rest]
    | some next =>
      match splitGroup firstTag ((c :: rest).drop (next + 1)) with
      | .ok tl => .ok ((c :: rest).take (next + 1) :: tl)
      | .err => .err
      | .panic => .panic
termination_by line.length
decreasing_by simp [List.length_drop]; omega

/-- run `f` over a list, stopping at the first error / panic -/
def mapRes {α β} (f : α → Res β) : List α → Res (List β)
  | [] => .ok []
  | a :: as =>
    match f a with
    | .ok b => (match mapRes f as with
        | .ok bs => .ok (b :: bs)
        | .err => .err
        | .panic => .panic)
    | .err => .err
    | .panic => .panic

/-- the group branch of `unmarshal`, given the parser of one entry slice -/
def unmGroupBody (parseEntry : Bytes → Res (List Item)) (data n : Bytes)
    (t0 : List Item) (es0 : List (List Item)) : Res Item := do
  -- noKv := NewKeyValue(noTag, &Int{}); s.unmarshal(data, noKv)
  let cntV ← scanKV data n (Val.blank .int)
  let cnt : Int := (atoi cntV.text).getD 0
  match fieldIndex data n with
  | none => pure (.group n t0 es0)
  | some startNoTag => do
    let afterNo ← sliceFrom data startNoTag
    match indexByte SOH afterNo with
    | none => .err
    | some startFirst => do
      let arrayString ← sliceFrom data ((startNoTag + startFirst : Nat) : Int)
      match indexByte EQ arrayString with
      | none => .err
      | some endFirst => do
        let firstTag ← sliceTo arrayString ((endFirst + 1 : Nat) : Int)
        let arrayItems ← splitGroup firstTag arrayString
        if arrayItems.length = 0 then .err
        else if (arrayItems.length : Int) ≠ cnt then .err
        else do
          let newEs ← mapRes parseEntry arrayItems
          pure (.group n t0 (es0 ++ newEs))

mutual
  /-- `state.unmarshal(data, item)`. `fresh = true` parses into `AsTemplate()` of the item
      (what the group branch does for every entry). -/
  def Item.unm : Item → Bool → Bytes → Res Item
    | .kv k v, fresh, data => do
        let v' ← scanKV data k (if fresh then Val.blank v.kind else v)
        pure (.kv k v')
    | .comp items, fresh, data => do
        let is ← unmList items fresh data
        pure (.comp is)
    | .group n t es, fresh, data =>
        unmGroupBody (fun s => unmList t true s) data n
          (if fresh then blankList t else t) (if fresh then [] else es)
  def unmList : List Item → Bool → Bytes → Res (List Item)
    | [], _, _ => pure []
    | i :: is, fresh, data => do
        let a ← i.unm fresh data
        let b ← unmList is fresh data
        pure (a :: b)
end

/-- the framing half of `validateRaw`: `head` = BeginString and BodyLength fields with their delimiters,
    `tail` = CheckSum field with its delimiter, as re-serialized from the values found -/
def validateFrame (d head tail csText : Bytes) (bodyLength : Int) : Res Unit :=
  if d.length < head.length + tail.length then .err
  else if !(head.isPrefixOf d) then .err
  else if !(tail.isSuffixOf d) then .err
  else do
    let offset : Int := head.length
    let length : Int := (d.length : Int) - offset - tail.length
    let last ← byteAt d (offset + length - 1)
    if last ≠ SOH then .err
    else if length ≠ bodyLength then .err
    else do
      let pre ← sliceTo d (offset + length - 1)
      if csText ≠ calcCheckSum pre then .err else pure ()

/-- `validateRaw` (the `strict` argument is never read by the code) -/
def validateRaw (m : Msg) (d : Bytes) : Res Unit := do
  let bs ← scanKV d m.bsTag (Val.newRaw none)
  let bl ← scanKV d m.blTag (Val.newRaw none)
  let cs ← scanKV d m.csTag (Val.newRaw none)
  -- blVal.FromBytes(bl.Load().ToBytes())
  match bl.toBytes with
  | none => .err                                   -- "value is empty"
  | some blb =>
    match atoi blb with
    | none => .err
    | some bodyLength =>
      match kvBytes m.bsTag bs, kvBytes m.blTag bl, kvBytes m.csTag cs with
      | some bsB, some blB, some csB =>
        validateFrame d (bsB ++ SOH :: blB ++ [SOH]) (csB ++ [SOH]) cs.text bodyLength
      | _, _, _ => .err

def intIsZero (v : Val) : Bool := v.text = [] || v.text = [48]

/-- `DefaultValidator.Do` -/
def validatorOk (m : Msg) : Bool :=
  !m.bs.isNull && !intIsZero m.bl && !m.mt.text.isEmpty && !m.cs.text.isEmpty

/-- `unmarshalItems(msg.Items(), d, strict)` -/
def Msg.unmarshalItems (m : Msg) (d : Bytes) : Res Msg := do
  let bs ← scanKV d m.bsTag m.bs
  let bl ← scanKV d m.blTag m.bl
  let mt ← scanKV d m.mtTag m.mt
  let header ← unmList m.header false d
  let body ← unmList m.body false d
  let trailer ← unmList m.trailer false d
  let cs ← scanKV d m.csTag m.cs
  pure { m with bs, bl, mt, header, body, trailer, cs }

/-- `DefaultUnmarshaller.Unmarshal` / `encoding.Unmarshal` -/
def Msg.unmarshal (m : Msg) (d : Bytes) : Res Msg := do
  validateRaw m d
  let m' ← m.unmarshalItems d
  if validatorOk m' then pure m' else .err

/-- `fix.ValueByTag(msg, tag)` -/
def valueByTag (msg tag : Bytes) : Res Bytes :=
  let start0 : Int := idxInt (indexOf (SOH :: tag ++ [EQ]) msg)
  if msg.length ≤ tag.length then .err
  else do
    let pre ← sliceTo msg ((tag.length + 1 : Nat) : Int)
    if start0 = -1 ∧ pre ≠ tag ++ [EQ] then .err
    else do
      let start := start0 + tag.length + 2
      let rest ← sliceFrom msg start
      let e : Int := match indexByte SOH rest with
        | none => msg.length
        | some e => (e : Int) + start
      sliceRange msg start e
