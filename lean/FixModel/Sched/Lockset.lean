import FixModel.Facts
/-!
# Lockset — mutual exclusion from a lock discipline (C20)

Locks are `sync.Mutex` / `sync.RWMutex`: a lock has any number of shared holders or exactly one
exclusive holder. A goroutine can be inside an access site only while it holds the site's locks.
`Disciplined` is the decidable condition on the access table; `no_concurrent_conflict` says that
under it no two different goroutines are ever inside conflicting accesses at the same time, for
every interleaving of lock operations.
-/

/-- lock state: holders (goroutine, exclusive?) of every lock -/
structure LockSt where
  holders : Nat → List (Nat × Bool)

def LockSt.init : LockSt := ⟨fun _ => []⟩

inductive LStep : LockSt → LockSt → Prop
  | lock (s : LockSt) (t l : Nat) : s.holders l = [] →
      LStep s ⟨fun l' => if l' = l then [(t, true)] else s.holders l'⟩
  | rlock (s : LockSt) (t l : Nat) : (∀ h ∈ s.holders l, h.2 = false) →
      LStep s ⟨fun l' => if l' = l then (t, false) :: s.holders l else s.holders l'⟩
  | unlock (s : LockSt) (t l : Nat) (e : Bool) :
      LStep s ⟨fun l' => if l' = l then (s.holders l).erase (t, e) else s.holders l'⟩

inductive LReach : LockSt → Prop
  | init : LReach LockSt.init
  | step (s s' : LockSt) : LReach s → LStep s s' → LReach s'

/-- an exclusive holder is the only holder -/
def LockInv (s : LockSt) : Prop :=
  ∀ l t u e, (t, true) ∈ s.holders l → (u, e) ∈ s.holders l → u = t ∧ e = true

theorem lreach_inv (s : LockSt) (h : LReach s) : LockInv s := by
  induction h with
  | init => intro l t u e h; simp [LockSt.init] at h
  | step s s' _ hs ih =>
    cases hs with
    | lock t l hfree =>
      intro l' t' u e h1 h2
      by_cases hl : l' = l
      · simp only [hl, ite_true, List.mem_singleton, Prod.mk.injEq] at h1 h2
        exact ⟨by rw [h2.1, h1.1], h2.2⟩
      · simp only [hl, ite_false] at h1 h2
        exact ih l' t' u e h1 h2
    | rlock t l hsh =>
      intro l' t' u e h1 h2
      by_cases hl : l' = l
      · simp only [hl, ite_true, List.mem_cons, Prod.mk.injEq] at h1 h2
        rcases h1 with ⟨_, hf⟩ | h1
        · cases hf
        · have := hsh _ h1; simp at this
      · simp only [hl, ite_false] at h1 h2
        exact ih l' t' u e h1 h2
    | unlock t l e0 =>
      intro l' t' u e h1 h2
      by_cases hl : l' = l
      · simp only [hl, ite_true] at h1 h2
        exact ih l t' u e (List.mem_of_mem_erase h1) (List.mem_of_mem_erase h2)
      · simp only [hl, ite_false] at h1 h2
        exact ih l' t' u e h1 h2

/-- goroutine `t` holds every lock of the list (in at least the listed mode) -/
def holdsAll (s : LockSt) (t : Nat) (locks : List (Nat × Bool)) : Prop :=
  ∀ p ∈ locks, (t, p.2) ∈ s.holders p.1

/-- the two sites share a lock that every writing side holds exclusively -/
def shareLock (a b : AccessSite) : Bool :=
  a.locks.any fun la => b.locks.any fun lb =>
    la.1 == lb.1 && (la.2 || lb.2) && (!a.write || la.2) && (!b.write || lb.2)

/-- two access sites of one location can never hurt each other -/
def compatible (a b : AccessSite) : Bool :=
  (!a.write && !b.write) || (a.atomic && b.atomic) || a.ctor || b.ctor || shareLock a b

def pairwise (sites : List AccessSite) : Bool :=
  sites.all fun a => sites.all fun b => compatible a b

/-- the table is disciplined outside the exempted locations -/
def Disciplined (tbl : List LocAccess) (exempt : Nat → Bool) : Bool :=
  tbl.all fun la => exempt la.loc || pairwise la.sites

/-- C20 core: if two sites share a lock with the required exclusivity, two goroutines holding the
    sites' locks at the same time are the same goroutine -/
theorem no_concurrent_conflict (s : LockSt) (hr : LReach s) (a b : AccessSite) (t u : Nat)
    (hsh : shareLock a b = true) (ha : holdsAll s t a.locks) (hb : holdsAll s u b.locks) : t = u := by
  have inv := lreach_inv s hr
  unfold shareLock at hsh
  rw [List.any_eq_true] at hsh
  obtain ⟨la, hla, hsh⟩ := hsh
  rw [List.any_eq_true] at hsh
  obtain ⟨lb, hlb, hsh⟩ := hsh
  simp only [Bool.and_eq_true, beq_iff_eq, Bool.or_eq_true] at hsh
  obtain ⟨⟨⟨hl, hex⟩, _⟩, _⟩ := hsh
  have h1 := ha la hla
  have h2 := hb lb hlb
  rw [← hl] at h2
  rcases hex with he | he
  · rw [he] at h1
    exact (inv la.1 t u lb.2 h1 h2).1.symm
  · rw [he] at h2
    exact (inv la.1 u t la.2 h2 h1).1

/-- table level: in a disciplined table, for every non-exempt location, any two conflicting
    non-atomic, non-constructor access sites exclude each other in every reachable lock state -/
theorem disciplined_excludes (tbl : List LocAccess) (exempt : Nat → Bool) (hd : Disciplined tbl exempt = true)
    (la : LocAccess) (hla : la ∈ tbl) (hne : exempt la.loc = false)
    (a b : AccessSite) (ha : a ∈ la.sites) (hb : b ∈ la.sites)
    (hconf : a.write = true ∨ b.write = true) (hat : ¬ (a.atomic = true ∧ b.atomic = true))
    (hct : a.ctor = false ∧ b.ctor = false)
    (s : LockSt) (hr : LReach s) (t u : Nat) (hta : holdsAll s t a.locks) (hub : holdsAll s u b.locks) : t = u := by
  unfold Disciplined at hd
  rw [List.all_eq_true] at hd
  have h1 := hd la hla
  simp only [hne, Bool.false_or] at h1
  unfold pairwise at h1
  rw [List.all_eq_true] at h1
  have h2 := h1 a ha
  rw [List.all_eq_true] at h2
  have h3 := h2 b hb
  unfold compatible at h3
  simp only [Bool.or_eq_true, Bool.and_eq_true, Bool.not_eq_true'] at h3
  rcases h3 with (((h | h) | h) | h) | h
  · rcases hconf with hc | hc <;> simp_all
  · exact absurd h hat
  · simp_all
  · simp_all
  · exact no_concurrent_conflict s hr a b t u h hta hub
