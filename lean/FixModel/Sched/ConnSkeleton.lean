/-!
# ConnSkeleton — the call structure of the connection code (root package) the blocking-structure
model (`ConnSys`), the pipeline model (`Framing`) and the pool model were written against

For every function, method and closure of the root package: calls into the library, deferred
calls, channel sends, channel closes, mutex operations, error-group and once operations, in source
order. `Props/ConnSkeleton.lean` checks on every run that the skeleton regenerated from /repo is
this one. Dropping `defer processRemainingErrors` from `Run`, closing a channel somewhere else,
not stopping the handler after `Conn.serve` returns, sending without the handler mutex, … all
change it, and the goroutine structure proved escape-complete in `Props/C13Sys.lean` is then no
longer known to be the code's.
-/
namespace ConnSkeleton

def expected : List (String × List String) := [
  (".NewAcceptorHandler", ["root.NewIncomingHandlerPool", "root.NewOutgoingHandlerPool"]),
  (".NewIncomingHandlerPool", ["root.NewHandlerPool"]),
  (".NewInitiator", ["root.NewConn"]),
  (".NewInitiatorHandler", ["root.NewIncomingHandlerPool", "root.NewOutgoingHandlerPool"]),
  (".NewOutgoingHandlerPool", ["root.NewHandlerPool"]),
  ("Acceptor.Close", ["field:root.Acceptor.cancel"]),
  ("Acceptor.ListenAndServe", ["defer root.Acceptor.Close", "defer net.Listener.Close"]),
  ("Acceptor.ListenAndServe$1", ["net.Listener.Accept", "chan-send listenErr", "root.Acceptor.serve"]),
  ("Acceptor.serve", ["root.NewConn", "defer root.Conn.Close", "root.HandlerFactory.MakeHandler", "defer root.AcceptorHandler.CloseErrorChan", "golang.org/x/sync/errgroup.Group.Go", "field:root.Acceptor.handleNewClient", "golang.org/x/sync/errgroup.Group.Go", "golang.org/x/sync/errgroup.Group.Go", "golang.org/x/sync/errgroup.Group.Go", "golang.org/x/sync/errgroup.Group.Wait"]),
  ("Acceptor.serve$1", ["root.Conn.Close"]),
  ("Acceptor.serve$2", ["root.Conn.serve", "root.AcceptorHandler.StopWithError"]),
  ("Acceptor.serve$3", ["root.AcceptorHandler.Run"]),
  ("Acceptor.serve$4", ["root.Conn.Write"]),
  ("Acceptor.serve$5", ["root.AcceptorHandler.ServeIncoming"]),
  ("AcceptorHandlerFactory.MakeHandler", ["root.NewAcceptorHandler"]),
  ("Conn.Write", ["net.Conn.SetWriteDeadline", "field:root.Conn.cancel", "net.Conn.Write", "field:root.Conn.cancel"]),
  ("Conn.runReader", ["defer field:root.Conn.cancel", "bufio.Reader.ReadBytes", "chan-send root.Conn.reader"]),
  ("Conn.serve", ["defer close root.Conn.writer", "defer close root.Conn.reader", "golang.org/x/sync/errgroup.Group.Go", "golang.org/x/sync/errgroup.Group.Wait"]),
  ("DefaultHandler.CloseErrorChan", ["close root.DefaultHandler.errors"]),
  ("DefaultHandler.HandleIncoming", ["root.IncomingHandlerPool.Add"]),
  ("DefaultHandler.HandleOutgoing", ["root.OutgoingHandlerPool.Add"]),
  ("DefaultHandler.OnConnect", ["utils.EventHandlerPool.Handle"]),
  ("DefaultHandler.OnDisconnect", ["utils.EventHandlerPool.Handle"]),
  ("DefaultHandler.OnStopped", ["utils.EventHandlerPool.Handle"]),
  ("DefaultHandler.RemoveIncomingHandler", ["root.IncomingHandlerPool.Remove"]),
  ("DefaultHandler.RemoveOutgoingHandler", ["root.OutgoingHandlerPool.Remove"]),
  ("DefaultHandler.Run", ["utils.EventHandlerPool.Trigger", "defer root.DefaultHandler.processRemainingErrors", "root.DefaultHandler.serve", "root.DefaultHandler.processRemainingIncoming", "utils.EventHandlerPool.Trigger", "root.DefaultHandler.processRemainingIncoming", "utils.EventHandlerPool.Trigger"]),
  ("DefaultHandler.Send", ["lock root.DefaultHandler.mu", "defer-unlock root.DefaultHandler.mu", "root.DefaultHandler.send"]),
  ("DefaultHandler.SendBatch", ["lock root.DefaultHandler.mu", "defer-unlock root.DefaultHandler.mu", "root.DefaultHandler.send"]),
  ("DefaultHandler.SendRaw", ["root.DefaultHandler.sendRaw"]),
  ("DefaultHandler.ServeIncoming", ["chan-send root.DefaultHandler.incoming"]),
  ("DefaultHandler.Stop", ["field:root.DefaultHandler.cancel"]),
  ("DefaultHandler.StopWithError", ["chan-send root.DefaultHandler.errors"]),
  ("DefaultHandler.processRemainingIncoming", ["root.DefaultHandler.serve"]),
  ("DefaultHandler.send", ["root.OutgoingHandlerPool.Range", "root.OutgoingHandlerPool.Range", "root.SendingMessage.MsgType", "root.SendingMessage.ToBytes", "root.DefaultHandler.sendRaw"]),
  ("DefaultHandler.sendRaw", ["chan-send root.DefaultHandler.out"]),
  ("DefaultHandler.serve", ["fix.ValueByTag", "root.IncomingHandlerPool.Range", "root.IncomingHandlerPool.Range"]),
  ("HandlerPool.Add", ["root.HandlerPool.add"]),
  ("HandlerPool.Remove", ["lock root.HandlerPool.mu", "defer-unlock root.HandlerPool.mu", "root.HandlerPool.free"]),
  ("HandlerPool.add", ["lock root.HandlerPool.mu", "defer-unlock root.HandlerPool.mu"]),
  ("HandlerPool.handlersByMsgType", ["rlock root.HandlerPool.mu", "defer-unlock root.HandlerPool.mu"]),
  ("IncomingHandlerPool.Add", ["root.IncomingHandlerPool.add"]),
  ("IncomingHandlerPool.Range", ["root.IncomingHandlerPool.handlersByMsgType"]),
  ("Initiator.Close", ["root.Conn.Close", "field:root.Initiator.cancel"]),
  ("Initiator.Send", ["root.InitiatorHandler.Send"]),
  ("Initiator.Serve", ["defer root.Initiator.Close", "defer root.InitiatorHandler.CloseErrorChan", "golang.org/x/sync/errgroup.Group.Go", "golang.org/x/sync/errgroup.Group.Go", "golang.org/x/sync/errgroup.Group.Go", "golang.org/x/sync/errgroup.Group.Go", "golang.org/x/sync/errgroup.Group.Go", "golang.org/x/sync/errgroup.Group.Wait"]),
  ("Initiator.Serve$1", ["defer root.Initiator.Close", "root.Conn.serve", "defer sync.Once.Do"]),
  ("Initiator.Serve$1$1", ["root.InitiatorHandler.StopWithError"]),
  ("Initiator.Serve$2", ["defer root.Initiator.Close", "root.InitiatorHandler.Run"]),
  ("Initiator.Serve$3", ["defer root.Initiator.Close", "root.Conn.Write", "root.InitiatorHandler.Stop"]),
  ("Initiator.Serve$4", ["defer root.Initiator.Close"]),
  ("Initiator.Serve$5", ["defer root.Initiator.Close", "root.InitiatorHandler.ServeIncoming"]),
  ("OutgoingHandlerPool.Range", ["root.OutgoingHandlerPool.handlersByMsgType"])
]

end ConnSkeleton
