/-!
# ConnSkeleton — the call structure of the connection code (root package) the blocking-structure
model (`ConnSys`), the pipeline model (`Framing`) and the pool model were written against

For every exported function and method of the root package: calls into the library, deferred calls, channel sends,
channel closes, mutex operations, error-group and once operations, in evaluation order; unexported helpers, closures
and method values expanded in place (see `Skeleton.lean` for the notation). `Props/ConnSkeleton.lean` checks on every run that the skeleton regenerated from /repo is
this one. Dropping `defer processRemainingErrors` from `Run`, closing a channel somewhere else,
not stopping the handler after `Conn.serve` returns, sending without the handler mutex, … all
change it, and the goroutine structure proved escape-complete in `Props/C13Sys.lean` is then no
longer known to be the code's.
-/
namespace ConnSkeleton

def expected : List (String × List String) := [
  (".NewAcceptorHandler", ["root.NewIncomingHandlerPool", "root.NewOutgoingHandlerPool"]),
  (".NewIncomingHandlerPool", ["root.NewHandlerPool"]),
  (".NewInitiator", ["root.NewConn"]),
  (".NewInitiatorHandler", ["root.NewIncomingHandlerPool", "root.NewOutgoingHandlerPool"]),
  (".NewOutgoingHandlerPool", ["root.NewHandlerPool"]),
  ("Acceptor.Close", ["field:root.Acceptor.cancel"]),
  ("Acceptor.ListenAndServe", ["defer root.Acceptor.Close", "defer net.Listener.Close", "go", "fn{", "net.Listener.Accept", "chan-send <local>", "go", "fn{", "root.NewConn", "defer root.Conn.Close", "fn{", "root.Conn.Close", "}", "root.HandlerFactory.MakeHandler", "defer root.AcceptorHandler.CloseErrorChan", "fn{", "{", "defer close root.Conn.writer", "defer close root.Conn.reader", "fn{", "defer field:root.Conn.cancel", "bufio.Reader.ReadBytes", "chan-send root.Conn.reader", "}", "golang.org/x/sync/errgroup.Group.Go", "golang.org/x/sync/errgroup.Group.Wait", "}", "root.AcceptorHandler.StopWithError", "}", "golang.org/x/sync/errgroup.Group.Go", "field:root.Acceptor.handleNewClient", "fn{", "root.AcceptorHandler.Run", "}", "golang.org/x/sync/errgroup.Group.Go", "fn{", "root.Conn.Write", "}", "golang.org/x/sync/errgroup.Group.Go", "fn{", "root.AcceptorHandler.ServeIncoming", "}", "golang.org/x/sync/errgroup.Group.Go", "golang.org/x/sync/errgroup.Group.Wait", "}", "}"]),
  ("AcceptorHandlerFactory.MakeHandler", ["root.NewAcceptorHandler"]),
  ("Conn.Write", ["net.Conn.SetWriteDeadline", "field:root.Conn.cancel", "net.Conn.Write", "field:root.Conn.cancel"]),
  ("DefaultHandler.CloseErrorChan", ["close root.DefaultHandler.errors"]),
  ("DefaultHandler.HandleIncoming", ["root.IncomingHandlerPool.Add"]),
  ("DefaultHandler.HandleOutgoing", ["root.OutgoingHandlerPool.Add"]),
  ("DefaultHandler.OnConnect", ["utils.EventHandlerPool.Handle"]),
  ("DefaultHandler.OnDisconnect", ["utils.EventHandlerPool.Handle"]),
  ("DefaultHandler.OnStopped", ["utils.EventHandlerPool.Handle"]),
  ("DefaultHandler.RemoveIncomingHandler", ["root.IncomingHandlerPool.Remove"]),
  ("DefaultHandler.RemoveOutgoingHandler", ["root.OutgoingHandlerPool.Remove"]),
  ("DefaultHandler.Run", ["utils.EventHandlerPool.Trigger", "defer", "fn{", "go", "}", "fix.ValueByTag", "root.IncomingHandlerPool.Range", "root.IncomingHandlerPool.Range", "fix.ValueByTag", "root.IncomingHandlerPool.Range", "root.IncomingHandlerPool.Range", "utils.EventHandlerPool.Trigger", "fix.ValueByTag", "root.IncomingHandlerPool.Range", "root.IncomingHandlerPool.Range", "utils.EventHandlerPool.Trigger"]),
  ("DefaultHandler.Send", ["lock root.DefaultHandler.<mutex>", "defer-unlock root.DefaultHandler.<mutex>", "root.OutgoingHandlerPool.Range", "root.SendingMessage.MsgType", "root.OutgoingHandlerPool.Range", "root.SendingMessage.ToBytes", "chan-send root.DefaultHandler.out"]),
  ("DefaultHandler.SendBatch", ["lock root.DefaultHandler.<mutex>", "defer-unlock root.DefaultHandler.<mutex>", "root.OutgoingHandlerPool.Range", "root.SendingMessage.MsgType", "root.OutgoingHandlerPool.Range", "root.SendingMessage.ToBytes", "chan-send root.DefaultHandler.out"]),
  ("DefaultHandler.SendRaw", ["chan-send root.DefaultHandler.out"]),
  ("DefaultHandler.ServeIncoming", ["chan-send root.DefaultHandler.incoming"]),
  ("DefaultHandler.Stop", ["field:root.DefaultHandler.cancel"]),
  ("DefaultHandler.StopWithError", ["chan-send root.DefaultHandler.errors"]),
  ("HandlerPool.Add", ["{", "lock root.HandlerPool.<rwmutex>", "defer-unlock root.HandlerPool.<rwmutex>", "}"]),
  ("HandlerPool.Remove", ["lock root.HandlerPool.<rwmutex>", "defer-unlock root.HandlerPool.<rwmutex>"]),
  ("IncomingHandlerPool.Add", ["root.IncomingHandlerPool.add"]),
  ("IncomingHandlerPool.Range", ["root.IncomingHandlerPool.handlersByMsgType"]),
  ("Initiator.Close", ["root.Conn.Close", "field:root.Initiator.cancel"]),
  ("Initiator.Send", ["root.InitiatorHandler.Send"]),
  ("Initiator.Serve", ["defer root.Initiator.Close", "defer root.InitiatorHandler.CloseErrorChan", "fn{", "defer root.Initiator.Close", "{", "defer close root.Conn.writer", "defer close root.Conn.reader", "fn{", "defer field:root.Conn.cancel", "bufio.Reader.ReadBytes", "chan-send root.Conn.reader", "}", "golang.org/x/sync/errgroup.Group.Go", "golang.org/x/sync/errgroup.Group.Wait", "}", "defer sync.Once.Do", "fn{", "root.InitiatorHandler.StopWithError", "}", "}", "golang.org/x/sync/errgroup.Group.Go", "fn{", "defer root.Initiator.Close", "root.InitiatorHandler.Run", "}", "golang.org/x/sync/errgroup.Group.Go", "fn{", "defer root.Initiator.Close", "root.Conn.Write", "root.InitiatorHandler.Stop", "}", "golang.org/x/sync/errgroup.Group.Go", "fn{", "defer root.Initiator.Close", "}", "golang.org/x/sync/errgroup.Group.Go", "fn{", "defer root.Initiator.Close", "root.InitiatorHandler.ServeIncoming", "}", "golang.org/x/sync/errgroup.Group.Go", "golang.org/x/sync/errgroup.Group.Wait"]),
  ("OutgoingHandlerPool.Range", ["root.OutgoingHandlerPool.handlersByMsgType"])
]

end ConnSkeleton
