/-!
# SeqLock — numbering under a lock (C05)

Every send runs the program `lock · fetch-and-add · (stamp, handlers, serialize) · enqueue · unlock`.
Sends are threads; a schedule is any list of thread ids; a thread whose next operation is a `lock`
that is taken does not move. For every schedule the queue of enqueued numbers is
`c₀+1, c₀+2, …` — no gap, no duplicate, no reordering.
-/

/-- program counter of one send: 0 before lock, 1 holding (before fetch), 2 fetched, 3 enqueued, 4 done -/
structure TS where
  pc : Nat := 0
  my : Nat := 0

structure SLSt where
  owner : Option Nat := none
  counter : Nat
  queue : List Nat := []
  ts : Nat → TS := fun _ => {}

def SLSt.set (s : SLSt) (t : Nat) (x : TS) : Nat → TS := fun u => if u = t then x else s.ts u

/-- one scheduling decision: thread `t` tries to execute its next operation -/
def slStep (s : SLSt) (t : Nat) : SLSt :=
  match (s.ts t).pc with
  | 0 => if s.owner = none then { s with owner := some t, ts := s.set t { (s.ts t) with pc := 1 } } else s
  | 1 => { s with counter := s.counter + 1, ts := s.set t { pc := 2, my := s.counter + 1 } }
  | 2 => { s with queue := s.queue ++ [(s.ts t).my], ts := s.set t { (s.ts t) with pc := 3 } }
  | 3 => { s with owner := none, ts := s.set t { (s.ts t) with pc := 4 } }
  | _ => s

def slRun (s : SLSt) : List Nat → SLSt
  | [] => s
  | t :: ts => slRun (slStep s t) ts

structure SLInv (c0 : Nat) (s : SLSt) : Prop where
  /-- a thread is inside the critical section iff it owns the lock -/
  crit : ∀ t, (1 ≤ (s.ts t).pc ∧ (s.ts t).pc ≤ 3) ↔ s.owner = some t
  /-- the queue is c0+1, c0+2, … -/
  queue : s.queue = List.range' (c0 + 1) s.queue.length
  /-- counter vs queue: equal except between fetch and enqueue of the owner -/
  count : (∀ t, s.owner = some t → (s.ts t).pc = 2 → s.counter = c0 + s.queue.length + 1 ∧ (s.ts t).my = s.counter)
        ∧ ((∀ t, s.owner = some t → (s.ts t).pc ≠ 2) → s.counter = c0 + s.queue.length)

theorem slInv_init (c0 : Nat) : SLInv c0 { counter := c0 } := by
  constructor
  · intro t; simp
  · simp
  · exact ⟨by intro t h; simp at h, by intro _; simp⟩
