/-!
# Norm — skeleton rows compared up to branch merging and reordering inside a scope

A skeleton row lists the kept operations of an exported function with private helpers expanded in place,
`fn{ … }` around code that runs later (handler, goroutine, deferred call) and `{ … }` around a helper that defers.
Two rows are *equivalent* when they have the same closures, in the same order, and every scope (the row itself and
each closure) contains the same *set* of operations.  Merging two identical branches, hoisting a call out of an
`if/else`, or turning `if a {x}; if b {x}` into `if a || b {x}` keeps a row equivalent; adding or dropping an
operation, moving one into or out of a closure or goroutine, or adding/removing a closure does not.

Orders that matter to a property are checked by dedicated checkers on the raw regenerated skeleton
(`Props/C05.lean`: numbering and enqueueing under the lock, serialisation before enqueueing).
-/
namespace SkelNorm

structure Scope where
  isFn : Bool
  ops : List String
deriving Repr, DecidableEq

/-- `go` directly before a closure labels the closure's scope instead of the parent's -/
def scopesAux : List String → (prevGo : Bool) → (stack : List Scope) → (done : List (List String)) → List (List String)
  | [], _, stack, done => done ++ stack.map (·.ops)
  | "fn{" :: rest, prevGo, stack, done =>
      scopesAux rest false ({ isFn := true, ops := if prevGo then ["<goroutine>"] else [] } :: stack) done
  | "{" :: rest, _, stack, done => scopesAux rest false ({ isFn := false, ops := [] } :: stack) done
  | "}" :: rest, _, stack, done =>
      match stack with
      | [] => scopesAux rest false [] (done ++ [["<unbalanced>"]])
      | top :: below =>
        if top.isFn then scopesAux rest false below (done ++ [top.ops])
        else match below with
          | [] => scopesAux rest false [] (done ++ [["<unbalanced>"]])
          | p :: below' => scopesAux rest false ({ p with ops := p.ops ++ top.ops } :: below') done
  | "go" :: rest, _, stack, done => scopesAux rest true stack done
  | op :: rest, prevGo, stack, done =>
      let op' := if prevGo then ["go", op] else [op]
      match stack with
      | [] => scopesAux rest false [{ isFn := false, ops := op' }] done
      | top :: below => scopesAux rest false ({ top with ops := top.ops ++ op' } :: below) done

def scopes (row : List String) : List (List String) := scopesAux row false [{ isFn := false, ops := [] }] []

def sameSet (a b : List String) : Bool := a.all b.contains && b.all a.contains

def sameScopes : List (List String) → List (List String) → Bool
  | [], [] => true
  | a :: as, b :: bs => sameSet a b && sameScopes as bs
  | _, _ => false

/-- rows matched by position and name -/
def equiv : List (String × List String) → List (String × List String) → Bool
  | [], [] => true
  | (n, r) :: as, (m, q) :: bs => n == m && sameScopes (scopes r) (scopes q) && equiv as bs
  | _, _ => false

/-- every row of `exp` has an equivalent row of the same name in `gen`; rows of `gen` that `exp` does not know (a new
    exported function) are not compared: the models describe the API they were written against -/
def covers (gen exp : List (String × List String)) : Bool :=
  exp.all fun (n, r) => match gen.lookup n with
    | some q => sameScopes (scopes q) (scopes r)
    | none => false

theorem sameSet_refl (a : List String) : sameSet a a = true := by
  simp [sameSet]

theorem sameScopes_refl : ∀ s : List (List String), sameScopes s s = true
  | [] => rfl
  | a :: as => by simp [sameScopes, sameSet_refl, sameScopes_refl as]

theorem equiv_refl : ∀ s : List (String × List String), equiv s s = true
  | [] => rfl
  | (n, r) :: as => by simp [equiv, sameScopes_refl, equiv_refl as]

theorem sameSet_symm (a b : List String) : sameSet a b = sameSet b a := by
  simp [sameSet, Bool.and_comm]

theorem sameSet_trans (a b c : List String) (h1 : sameSet a b = true) (h2 : sameSet b c = true) : sameSet a c = true := by
  simp only [sameSet, Bool.and_eq_true, List.all_eq_true, List.contains_iff_mem] at *
  exact ⟨fun x hx => h2.1 x (h1.1 x hx), fun x hx => h1.2 x (h2.2 x hx)⟩

theorem sameScopes_symm : ∀ s t : List (List String), sameScopes s t = sameScopes t s
  | [], [] => rfl
  | [], _ :: _ => rfl
  | _ :: _, [] => rfl
  | a :: as, b :: bs => by simp [sameScopes, sameSet_symm a b, sameScopes_symm as bs]

theorem sameScopes_trans : ∀ s t u : List (List String), sameScopes s t = true → sameScopes t u = true → sameScopes s u = true
  | [], [], [], _, _ => rfl
  | [], [], _ :: _, _, h => by simp [sameScopes] at h
  | [], _ :: _, _, h, _ => by simp [sameScopes] at h
  | _ :: _, [], _, h, _ => by simp [sameScopes] at h
  | _ :: _, _ :: _, [], _, h => by simp [sameScopes] at h
  | a :: as, b :: bs, c :: cs, h1, h2 => by
    simp only [sameScopes, Bool.and_eq_true] at *
    exact ⟨sameSet_trans a b c h1.1 h2.1, sameScopes_trans as bs cs h1.2 h2.2⟩

/-- `equiv` is an equivalence relation (reflexive above) -/
theorem equiv_symm : ∀ s t : List (String × List String), equiv s t = equiv t s
  | [], [] => rfl
  | [], _ :: _ => rfl
  | _ :: _, [] => rfl
  | (n, r) :: as, (m, q) :: bs => by
    simp only [equiv, sameScopes_symm (scopes r) (scopes q), equiv_symm as bs]
    have : (n == m) = (m == n) := by simp [Bool.beq_comm]
    rw [this]

theorem equiv_trans : ∀ s t u : List (String × List String), equiv s t = true → equiv t u = true → equiv s u = true
  | [], [], [], _, _ => rfl
  | [], [], _ :: _, _, h => by simp [equiv] at h
  | [], _ :: _, _, h, _ => by simp [equiv] at h
  | _ :: _, [], _, h, _ => by simp [equiv] at h
  | _ :: _, _ :: _, [], _, h => by simp [equiv] at h
  | (n, r) :: as, (m, q) :: bs, (k, p) :: cs, h1, h2 => by
    simp only [equiv, Bool.and_eq_true, beq_iff_eq] at *
    exact ⟨⟨h1.1.1.trans h2.1.1, sameScopes_trans _ _ _ h1.1.2 h2.1.2⟩, equiv_trans as bs cs h1.2 h2.2⟩

example : covers [("f", ["a", "b"]), ("new", ["x"])] [("f", ["b", "a"])] = true := by decide
example : covers [("g", ["a"])] [("f", ["a"])] = false := by decide

-- branch merging and reordering inside a scope keep a row equivalent; dropping an operation does not
example : equiv [("f", ["a", "x", "b", "x", "fn{", "c", "}"])] [("f", ["b", "a", "x", "fn{", "c", "}"])] = true := by decide
example : equiv [("f", ["a", "x", "b", "x"])] [("f", ["a", "b"])] = false := by decide
-- moving an operation into a goroutine changes the row
example : equiv [("f", ["a", "go", "fn{", "c", "}"])] [("f", ["go", "fn{", "a", "c", "}"])] = false := by decide
example : equiv [("f", ["a", "go", "fn{", "c", "}"])] [("f", ["a", "fn{", "c", "}"])] = false := by decide

end SkelNorm
