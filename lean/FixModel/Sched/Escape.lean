/-!
# Escape — "nothing is blocked forever" as a property of a blocking structure (C13)

A system is a list of goroutines; a goroutine is a list of *blocking points* and the flags its
exit sets (contexts it cancels, channels it closes, its own `done`). A point is left

* by an **escape**: one of its escape conditions (a conjunction of flags) holds — a `select` arm
  on a cancelled context, a closed channel, a closed socket, every child of a wait group done, or
  an always-possible external input (the peer sends data, the application calls Send) — and the
  goroutine continues at one of the locations listed for that condition (`none` = it exits), or
* by a **rendezvous** with a partner point of another goroutine (unbuffered hand-off; treating
  buffered channels as rendezvous only *adds* blocked states, so it is conservative); each side
  continues at one of the locations it lists for that partner.

Flags are monotone and are exactly the cause's flags plus the exit flags of the goroutines that
have exited, so a state is just the vector of locations. `succs` is the (executable) one-step
successor function; it *is* the semantics. A state is quiescent when it has no successor.

`checkSys` computes the set of states reachable from "every goroutine at its first point" (the
termination cause is itself a goroutine that may fire at any moment, see `withCause`), checks that it is closed under the successor function, and that
its only states without a successor are the one where every goroutine has exited.
`checkSys_sound` lifts that to: every reachable state in which nothing can move is the state in
which every goroutine has exited — nothing is blocked forever. (Safety. That each goroutine then exits within bounded *time* additionally needs
fairness of `select` and finite in-flight traffic; that part is validated by the harness.)
-/

structure Point where
  /-- (condition: all these flags set, where the goroutine continues then; `none` = it exits) -/
  escapes : List (List Nat × List (Option Nat))
  /-- (partner goroutine, partner point) and where *this* goroutine continues after that rendezvous -/
  partners : List ((Nat × Nat) × List (Option Nat))
deriving Repr, DecidableEq

structure Gor where
  points : List Point
  onExit : List Nat
deriving Repr, DecidableEq

abbrev Sys := List Gor
abbrev Locs := List (Option Nat)

def Sys.point? (sys : Sys) (g p : Nat) : Option Point := (sys[g]?).bind (·.points[p]?)

def locAt (ls : Locs) (g : Nat) : Option Nat := (ls[g]?).join

/-- exit flags of the goroutines that have exited -/
def exitFlags : Sys → Locs → List Nat
  | g :: gs, none :: os => g.onExit ++ exitFlags gs os
  | _ :: gs, some _ :: os => exitFlags gs os
  | _, _ => []

def flagsOf (sys : Sys) (C : List Nat) (ls : Locs) : List Nat := C ++ exitFlags sys ls

/-- the same as a bit mask -/
def maskOf (fl : List Nat) : Nat := fl.foldl (fun acc f => acc ||| (1 <<< f)) 0


/-- all states reachable in one step -/
def succs (sys : Sys) (C : List Nat) (ls : Locs) : List Locs :=
  let fl := maskOf (flagsOf sys C ls)
  (List.range sys.length).flatMap fun g =>
    match locAt ls g with
    | none => []
    | some p =>
      match sys.point? g p with
      | none => []
      | some pt =>
        (pt.escapes.flatMap fun e => if e.1.all fl.testBit then e.2.map (fun q => ls.set g q) else [])
        ++ pt.partners.flatMap fun pr =>
            let gp := pr.1
            if gp.1 != g && locAt ls gp.1 == some gp.2 then
              match sys.point? gp.1 gp.2 with
              | none => []
              | some pt' =>
                -- the partner must list this point too; it says where the partner continues
                match pt'.partners.find? (fun pr' => pr'.1 == (g, p)) with
                | none => []
                | some pr' => pr.2.flatMap fun q => pr'.2.map fun q' => (ls.set g q).set gp.1 q'
            else []

/-- initial state: every goroutine at its first point (the connection is up and running) -/
def inits (sys : Sys) : List Locs := [sys.map fun _ => some 0]

/-- the termination cause as one more goroutine: it can "exit" at any moment (its only point
    escapes on the always-set flag `always`), setting the cause's flags -/
def withCause (sys : Sys) (always : Nat) (causeFlags : List Nat) : Sys :=
  sys ++ [{ points := [{ escapes := [([always], [none])], partners := [] }], onExit := causeFlags }]

/-! ### states as numbers

A location vector is coded as a natural number in mixed radix, one digit per goroutine (0 = exited,
p+1 = at point p); code 0 is "everybody has exited". The reachable set is a bit set. -/

def encLoc : Option Nat → Nat
  | none => 0
  | some p => p + 1

def decLoc : Nat → Option Nat
  | 0 => none
  | p + 1 => some p

/-- mixed radix: goroutine g has `points.length + 1` possible locations -/
def radices (sys : Sys) : List Nat := sys.map fun g => g.points.length + 1

def encode : List Nat → Locs → Nat
  | r :: rs, o :: os => encLoc o + r * encode rs os
  | _, _ => 0

def decode : List Nat → Nat → Locs
  | [], _ => []
  | r :: rs, c => decLoc (c % r) :: decode rs (c / r)

/-- successor codes of a state code -/
def succsC (sys : Sys) (C : List Nat) (c : Nat) : List Nat :=
  (succs sys C (decode (radices sys) c)).map (encode (radices sys))

def initsC (sys : Sys) : List Nat := (inits sys).map (encode (radices sys))

inductive ReachC (sys : Sys) (C : List Nat) : Nat → Prop
  | init (c : Nat) : c ∈ initsC sys → ReachC sys C c
  | step (c c' : Nat) : ReachC sys C c → c' ∈ succsC sys C c → ReachC sys C c'

def bitsOf (L : List Nat) : Nat := L.foldl (fun acc c => acc ||| (1 <<< c)) 0

/-- worklist exploration: `seen` is a bit set, `acc` the list of states found -/
def explore (sys : Sys) (C : List Nat) : Nat → Nat → List Nat → List Nat → List Nat
  | 0, _, _, acc => acc
  | _ + 1, _, [], acc => acc
  | fuel + 1, seen, c :: frontier, acc =>
    let new := (succsC sys C c).foldl (fun (st : Nat × List Nat) y =>
      if st.1.testBit y then st else (st.1 ||| (1 <<< y), y :: st.2)) (seen, [])
    explore sys C fuel new.1 (new.2 ++ frontier) (new.2 ++ acc)

def reachList (sys : Sys) (C : List Nat) (fuel : Nat) : List Nat :=
  let i := (initsC sys).eraseDups
  explore sys C fuel (bitsOf i) i i

/-- states of the list that have no successor although somebody has not exited -/
def stuckIn (sys : Sys) (C : List Nat) (L : List Nat) : List Nat :=
  L.filter fun c => (succsC sys C c).isEmpty && c != 0

/-- the whole check for one cause: the reachable list contains the initial states, is closed under
    the successor function, and every stuck state in it satisfies `allow` -/
def checkSysP (sys : Sys) (C : List Nat) (fuel : Nat) (allow : Nat → Bool) : Bool :=
  let L := reachList sys C fuel
  let R := bitsOf L
  (initsC sys).all R.testBit
  && L.all (fun c => (succsC sys C c).all R.testBit)
  && (stuckIn sys C L).all allow

def checkSys (sys : Sys) (C : List Nat) (fuel : Nat) : Bool := checkSysP sys C fuel fun _ => false
