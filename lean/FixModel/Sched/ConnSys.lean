import FixModel.Sched.Escape
/-!
# ConnSys — the blocking structure of one connection, accepting and initiating side

Hand-written from `acceptor.go`, `initiator.go`, `conn.go`, `handler.go`; every point below is one
entry of the regenerated inventory `Generated.blocks` (`expectedBlocks` is the inventory this
description was written against — `Props/C13.lean` checks that the two are equal on every run).

Flags.
-/

namespace ConnSys

def fSock : Nat := 0         -- the socket has been closed locally (`Conn.Close`)
def fPeer : Nat := 1         -- the peer closed / reset the connection, or a read failed
def fConnCtx : Nat := 2      -- `Conn.ctx` cancelled
def fServeCtx : Nat := 3     -- acceptor: `serve`'s ctx; initiator: `Initiator.ctx`
def fHandlerCtx : Nat := 4   -- `DefaultHandler.ctx` cancelled
def fErrClosed : Nat := 6    -- `CloseErrorChan` has run
def fOnce : Nat := 7         -- initiator: the `stopHandler` Once has completed
def fDone (g : Nat) : Nat := 10 + g

def fData : Nat := 8         -- the peer may send more data at any time (always set)
def fApp : Nat := 9          -- the application may call Send at any time (always set)

/-- always-possible external inputs -/
def ext : List Nat := [fData, fApp]

def pt (escapes : List (List Nat × List (Option Nat))) (partners : List ((Nat × Nat) × List (Option Nat))) : Point :=
  { escapes, partners }

/-! ## accepting side (`Acceptor.serve`) — `cancelFun` = `conn.Close()` + `cancel()`; the handler's
context is a child of `serve`'s ctx, so cancelling that also cancels the handler's. -/

def cancelFun : List Nat := [fSock, fConnCtx, fServeCtx, fHandlerCtx]

def acceptor : Sys := [
  -- 0: Conn.runReader. p0 = r.ReadBytes: returns on data (→ maybe a complete message → p1), on a closed
  --    socket / peer close / error (→ exit). p1 = select { c.reader <- msg ; <-c.ctx.Done() }
  { points := [ pt [([fSock], [none]), ([fPeer], [none]), ([fData], [some 0, some 1])] [],
                pt [([fConnCtx], [none])] [((5, 0), [some 0])] ],
    onExit := [fConnCtx, fDone 0] },
  -- 1: serve$1: p0 = conn.serve() waiting for runReader; then either returns or p1 = handler.StopWithError(err)
  { points := [ pt [([fDone 0], [some 1, none])] [],
                pt [([fErrClosed], [none])] [((2, 0), [none]), ((3, 1), [none])] ],     -- h.errors <- err
    onExit := cancelFun ++ [fDone 1] },
  -- 2: serve$2 = handler.Run(): select { incoming ; ctx.Done ; errors }: an error ends the loop; a message
  --    is served and the loop goes on, or (no MsgType field) `serve` fails and Run returns its error
  { points := [ pt [([fHandlerCtx], [none])] [((1, 1), [none]), ((5, 1), [some 0, none])] ],
    onExit := cancelFun ++ [fDone 2] },
  -- 3: processRemainingErrors$1: p0 = not started (until Run returns); p1 = <-h.errors until closed
  { points := [ pt [([fDone 2], [some 1])] [],
                pt [([fErrClosed], [none])] [((1, 1), [some 1])] ],
    onExit := [fDone 3] },
  -- 4: serve$4 writer: select { ctx.Done ; handler.Outgoing() } ; a message → conn.Write (deadline) → back or fail
  { points := [ pt [([fServeCtx], [none]), ([fApp], [some 0, none])] [] ],
    onExit := cancelFun ++ [fDone 4] },
  -- 5: serve$5 forwarder: p0 = select { ctx.Done ; conn.Reader() } ; p1 = ServeIncoming: select { incoming <- msg ; h.ctx.Done }
  { points := [ pt [([fServeCtx], [none])] [((0, 1), [some 1])],
                pt [([fHandlerCtx], [some 0])] [((2, 0), [some 0])] ],
    onExit := cancelFun ++ [fDone 5] },
  -- 6: Acceptor.serve itself: eg.Wait (all four children), then deferred CloseErrorChan / conn.Close / cancel
  { points := [ pt [([fDone 1, fDone 2, fDone 4, fDone 5], [none])] [] ],
    onExit := [fErrClosed] ++ cancelFun ++ [fDone 6] } ]

/-- termination causes on the accepting side, as the flags they set -/
def acceptorCauses : List (String × List Nat) := [
  ("peer closes or resets / read fails", [fPeer]),
  ("handler.Stop() (local stop, session disconnect)", [fHandlerCtx]),
  ("Acceptor.Close()", [fConnCtx, fServeCtx, fHandlerCtx]),
  ("write fails or times out (peer stops reading)", cancelFun) ]

/-- the accepting side with a termination cause that may strike at any moment -/
def acceptorWith (cause : List Nat) : Sys := withCause acceptor fData cause

/-! ## initiating side (`Initiator.Serve`) — `Close` = `conn.Close()` + `cancel()`; the handler's
context is the application's, *not* a child of the initiator's. -/

def closeI : List Nat := [fSock, fConnCtx, fServeCtx]

def initiator : Sys := [
  -- 0: Conn.runReader
  { points := [ pt [([fSock], [none]), ([fPeer], [none]), ([fData], [some 0, some 1])] [],
                pt [([fConnCtx], [none])] [((5, 0), [some 0])] ],
    onExit := [fConnCtx, fDone 0] },
  -- 1: Serve$1: p0 = conn.serve() (returns an error, or nil when the context was cancelled);
  --    p1 = deferred stopHandler.Do(StopWithError(err)): either it runs the Once body (rendezvous with
  --    the body, goroutine 8) and then waits for it (p2), or the Once is already done
  { points := [ pt [([fDone 0], [some 1, none])] [],
                pt [([fOnce], [none])] [((8, 0), [some 2])],
                pt [([fOnce], [none])] [] ],
    onExit := closeI ++ [fDone 1] },
  -- 2: Serve$2: handler.Run() (a message without MsgType makes it return, see the accepting side)
  { points := [ pt [([fHandlerCtx], [none])] [((8, 1), [none]), ((5, 1), [some 0, none])] ],
    onExit := closeI ++ [fDone 2] },
  -- 3: processRemainingErrors$1
  { points := [ pt [([fDone 2], [some 1])] [],
                pt [([fErrClosed], [none])] [((8, 1), [some 1])] ],
    onExit := [fDone 3] },
  -- 4: Serve$4: p0 = select { handler.Context().Done → p2 ; c.ctx.Done → p1 };
  --    p1 = stopHandler.Do(StopWithError(nil)) (then p3 = waiting for the body); p2 = stopHandler.Do(no-op)
  { points := [ pt [([fHandlerCtx], [some 2]), ([fServeCtx], [some 1])] [],
                pt [([fOnce], [none])] [((8, 0), [some 3])],
                pt [([fOnce], [none])] [((8, 0), [none])],
                pt [([fOnce], [none])] [] ],
    onExit := closeI ++ [fDone 4] },
  -- 5: Serve$5 forwarder: p1 = ServeIncoming — only the handler's own context releases it
  { points := [ pt [([fServeCtx], [none])] [((0, 1), [some 1])],
                pt [([fHandlerCtx], [some 0])] [((2, 0), [some 0])] ],
    onExit := closeI ++ [fDone 5] },
  -- 6: Initiator.Serve: p0 = eg.Wait (five children); p1 = stopHandler.Do(StopWithError(err)) (p2 = waiting); then
  --    CloseErrorChan, Close
  { points := [ pt [([fDone 1, fDone 2, fDone 7, fDone 4, fDone 5], [some 1, none])] [],
                pt [([fOnce], [none])] [((8, 0), [some 2])],
                pt [([fOnce], [none])] [] ],
    onExit := [fErrClosed] ++ closeI ++ [fDone 6] },
  -- 7: Serve$3 writer: select { c.ctx.Done ; handler.Outgoing() }. (A failed write also stops the handler; that
  --    path is the cause "write fails" below. Not crediting fHandlerCtx on the other paths is conservative.)
  { points := [ pt [([fServeCtx], [none]), ([fApp], [some 0, none])] [] ],
    onExit := closeI ++ [fDone 7] },
  -- 8: the body of the `stopHandler` sync.Once: p0 = not run yet (whoever calls Do first starts it; the no-op
  --    caller finishes it at once); p1 = StopWithError: `h.errors <- err`
  { points := [ pt [] [((1, 1), [some 1]), ((4, 1), [some 1]), ((4, 2), [none]), ((6, 1), [some 1])],
                pt [([fErrClosed], [none])] [((2, 0), [none]), ((3, 1), [none])] ],
    onExit := [fOnce, fDone 8] } ]

def initiatorCauses : List (String × List Nat) := [
  ("peer closes or resets / read fails", [fPeer]),
  ("Initiator.Close()", closeI),
  ("application stops the handler", [fHandlerCtx]),
  ("write fails (Serve$3 stops the handler and closes)", [fHandlerCtx] ++ closeI) ]

def initiatorWith (cause : List Nat) : Sys := withCause initiator fData cause

end ConnSys
