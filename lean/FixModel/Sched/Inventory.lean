import FixModel.Facts
/-!
# Inventory — the blocking operations `ConnSys` was written against

Kept apart from `ConnSys.lean` so that updating the expectation after a reviewed source change
does not re-run the kernel evaluation of the blocking structures.
-/
namespace ConnSys

/-- the inventory of blocking operations this description was written against -/
def expectedBlocks : List BlockSite := [
  ⟨"root.Acceptor.ListenAndServe", "select", "", ["recv:listenErr", "recv:root.Acceptor.ctx.Done()"], false⟩,
  ⟨"root.Acceptor.ListenAndServe$1", "accept", "root.Acceptor.listener", [], false⟩,
  ⟨"root.Acceptor.ListenAndServe$1", "send", "listenErr", [], false⟩,
  ⟨"root.Acceptor.serve", "wait", "errgroup", [], false⟩,
  ⟨"root.Acceptor.serve$4", "select", "", ["recv:AcceptorHandler.Outgoing()", "recv:ctx.Done()"], false⟩,
  ⟨"root.Acceptor.serve$5", "select", "", ["recv:Conn.Reader()", "recv:ctx.Done()"], false⟩,
  ⟨"root.Conn.Write", "select", "", ["recv:root.Conn.ctx.Done()"], true⟩,
  ⟨"root.Conn.Write", "netwrite", "root.Conn.conn", [], false⟩,
  ⟨"root.Conn.runReader", "select", "", ["recv:root.Conn.ctx.Done()"], true⟩,
  ⟨"root.Conn.runReader", "netread", "r", [], false⟩,
  ⟨"root.Conn.runReader", "select", "", ["recv:root.Conn.ctx.Done()", "send:root.Conn.reader"], false⟩,
  ⟨"root.Conn.serve", "wait", "errgroup", [], false⟩,
  ⟨"root.DefaultHandler.Run", "select", "", ["recv:root.DefaultHandler.ctx.Done()", "recv:root.DefaultHandler.errors", "recv:root.DefaultHandler.incoming"], false⟩,
  ⟨"root.DefaultHandler.ServeIncoming", "select", "", ["recv:root.DefaultHandler.ctx.Done()"], true⟩,
  ⟨"root.DefaultHandler.ServeIncoming", "select", "", ["recv:root.DefaultHandler.ctx.Done()", "send:root.DefaultHandler.incoming"], false⟩,
  ⟨"root.DefaultHandler.StopWithError", "send", "root.DefaultHandler.errors", [], false⟩,
  ⟨"root.DefaultHandler.processRemainingErrors$1", "recv", "root.DefaultHandler.errors", [], false⟩,
  ⟨"root.DefaultHandler.processRemainingIncoming", "select", "", ["recv:root.DefaultHandler.incoming"], true⟩,
  ⟨"root.DefaultHandler.sendRaw", "select", "", ["recv:root.DefaultHandler.ctx.Done()", "send:root.DefaultHandler.out"], false⟩,
  ⟨"root.Initiator.Serve", "wait", "errgroup", [], false⟩,
  ⟨"root.Initiator.Serve$3", "select", "", ["recv:root.Initiator.ctx.Done()", "recv:root.Initiator.handler.Outgoing()"], false⟩,
  ⟨"root.Initiator.Serve$4", "select", "", ["recv:root.Initiator.ctx.Done()", "recv:root.Initiator.handler.Context().Done()"], false⟩,
  ⟨"root.Initiator.Serve$5", "select", "", ["recv:root.Initiator.conn.Reader()", "recv:root.Initiator.ctx.Done()"], false⟩,
  ⟨"session.Session.start$3", "select", "", ["recv:session.Session.ctx.Done()"], true⟩,
  ⟨"session.Session.start$4", "select", "", ["recv:session.Session.ctx.Done()"], true⟩,
  ⟨"utils.TimedWaitGroup.WaitWithTimeout", "select", "", ["recv:ch", "recv:time.After"], false⟩,
  ⟨"utils.TimedWaitGroup.WaitWithTimeout$1", "wait", "TimedWaitGroup", [], false⟩,
  ⟨"utils.Timer.TakeTimeout", "select", "", ["recv:ticker.C", "recv:utils.Timer.ctx.Done()"], false⟩ ]


/-- the same inventory without the names of the functions the operations sit in, without the selects that have a
    `default` arm (they never block), sorted: what `Props/C13.lean` compares with the regenerated facts — moving a
    blocking operation into a helper or renaming a function leaves it unchanged; a bare send, a dropped `ctx.Done()` arm
    or a new blocking call does not -/
def expectedBlockKinds : List (String × String × List String × Bool) := [
  ("accept", "root.Acceptor.listener", [], false),
  ("netread", "<local>", [], false),
  ("netwrite", "root.Conn.conn", [], false),
  ("recv", "root.DefaultHandler.errors", [], false),
  ("select", "", ["recv:<local>", "recv:root.Acceptor.ctx.Done()"], false),
  ("select", "", ["recv:<local>", "recv:time.After"], false),
  ("select", "", ["recv:AcceptorHandler.Outgoing()", "recv:ctx.Done()"], false),
  ("select", "", ["recv:Conn.Reader()", "recv:ctx.Done()"], false),
  ("select", "", ["recv:root.Conn.ctx.Done()", "send:root.Conn.reader"], false),
  ("select", "", ["recv:root.DefaultHandler.ctx.Done()", "recv:root.DefaultHandler.errors", "recv:root.DefaultHandler.incoming"], false),
  ("select", "", ["recv:root.DefaultHandler.ctx.Done()", "send:root.DefaultHandler.incoming"], false),
  ("select", "", ["recv:root.DefaultHandler.ctx.Done()", "send:root.DefaultHandler.out"], false),
  ("select", "", ["recv:root.Initiator.conn.Reader()", "recv:root.Initiator.ctx.Done()"], false),
  ("select", "", ["recv:root.Initiator.ctx.Done()", "recv:root.Initiator.handler.Context().Done()"], false),
  ("select", "", ["recv:root.Initiator.ctx.Done()", "recv:root.Initiator.handler.Outgoing()"], false),
  ("select", "", ["recv:ticker.C", "recv:utils.Timer.ctx.Done()"], false),
  ("send", "<local>", [], false),
  ("send", "root.DefaultHandler.errors", [], false),
  ("wait", "<local>", [], false),
  ("wait", "errgroup", [], false),
  ("wait", "errgroup", [], false),
  ("wait", "errgroup", [], false)
]

end ConnSys
