/-!
# Skeleton — the call structure of the session code the session model was written against

For every method and handler closure of `session.Session`: the calls that drive the model, in
source order — state changes and queries, rejects and sends, `start`, the logon callback, the
unmarshaller, the stores, the timers, message construction (`Build` / `New`), mutex operations.
`Props/SessionSkeleton.lean` checks on every run that the skeleton regenerated from /repo is this
one: starting the timers before the logon callback, dropping a state reset from a handler,
building a message outside its loop, … all change it.
-/
namespace SessionSkeleton

def expectedSkeleton : List (String × List String) := [
  ("HandlerError", ["field:session.Session.errorHandler"]),
  ("IsLogged", ["rlock session.Session.stateMu", "defer-unlock session.Session.stateMu"]),
  ("LogonRequest", ["session.Session.changeState", "field:session.Session.logonRequest", "session.messages.LogonBuilder.Build", "session.Session.sendWithErrorCheck"]),
  ("Logout", ["session.Session.changeState", "session.Session.sendWithErrorCheck", "session.messages.LogoutBuilder.Build"]),
  ("MakeReject", ["session.messages.RejectBuilder.Build"]),
  ("RejectMessage", ["session.Session.MakeReject", "session.Session.sendWithErrorCheck", "session.Session.sendWithErrorCheck", "session.Session.sendWithErrorCheck"]),
  ("Run", ["session.Session.changeState", "session.Session.OnChangeState", "session.Session.LogonRequest", "session.Session.OnChangeState"]),
  ("Run$1", ["field:session.Session.cancel", "session.Handler.Stop"]),
  ("Run$2", ["session.Session.start"]),
  ("Run$3", ["session.messages.LogonBuilder.New", "session.Unmarshaller.Unmarshal", "session.Session.RejectMessage", "session.Session.currentState", "session.Session.checkLogonParams", "session.Session.sendWithErrorCheck", "session.Session.MakeReject", "field:session.Session.LogonHandler", "session.Session.sendWithErrorCheck", "session.Session.MakeReject", "session.Session.start", "session.Session.sendWithErrorCheck", "session.Session.MakeReject", "session.messages.LogonBuilder.Build", "session.Session.changeState", "session.Session.sendWithErrorCheck", "session.Session.processIncSeq", "session.Session.changeState", "session.Session.processIncSeq", "session.Session.sendWithErrorCheck", "session.Session.MakeReject"]),
  ("Run$4", ["session.Unmarshaller.Unmarshal", "session.messages.LogoutBuilder.New", "session.Session.RejectMessage", "session.Session.currentState", "session.Session.changeState", "session.Session.changeState", "session.Session.changeState", "session.Session.sendWithErrorCheck", "session.messages.LogoutBuilder.Build", "session.Session.RejectMessage", "session.Session.changeState", "session.Session.changeState"]),
  ("Run$5", ["session.messages.HeartbeatBuilder.New", "session.Unmarshaller.Unmarshal", "session.Session.RejectMessage", "session.Session.IsLogged", "session.Session.RejectMessage", "session.Session.currentState", "session.Session.changeState"]),
  ("Run$6", ["session.messages.TestRequestBuilder.New", "session.Unmarshaller.Unmarshal", "session.Session.RejectMessage", "session.Session.IsLogged", "session.Session.RejectMessage", "session.Session.sendWithErrorCheck", "session.messages.HeartbeatBuilder.Build"]),
  ("Send", ["session.Session.send"]),
  ("StartWaiting", ["session.Session.changeState"]),
  ("Stop", ["session.Session.OnChangeState", "session.Session.Logout"]),
  ("Stop$1", ["field:session.Session.cancel"]),
  ("Stop$2", ["field:session.Session.cancel"]),
  ("changeState", ["lock session.Session.stateMu", "unlock session.Session.stateMu"]),
  ("currentState", ["rlock session.Session.stateMu", "defer-unlock session.Session.stateMu"]),
  ("processIncSeq", ["session.CounterStorage.GetCurrSeqNum", "session.messages.ResendRequestBuilder.New", "session.Session.sendWithErrorCheck", "session.CounterStorage.SetSeqNum"]),
  ("send", ["lock session.Session.mu", "defer-unlock session.Session.mu", "session.CounterStorage.GetNextSeqNum", "session.Session.CurrentTime", "session.Handler.Send"]),
  ("sendWithErrorCheck", ["session.Session.HandlerError", "session.Session.send"]),
  ("setStorageCallbacks$1", ["session.MessageStorage.Save"]),
  ("setStorageCallbacks$2", ["session.Session.currentState", "session.CounterStorage.SetSeqNum"]),
  ("setStorageCallbacks$3", ["session.messages.ResendRequestBuilder.New", "session.Unmarshaller.Unmarshal", "session.Session.RejectMessage", "session.Session.IsLogged", "session.Session.RejectMessage", "session.CounterStorage.GetCurrSeqNum", "session.MessageStorage.Messages", "session.Handler.SendBatch"]),
  ("start", ["utils.NewTimer", "utils.NewTimer"]),
  ("start$1", ["utils.Timer.Refresh", "session.Session.currentState", "session.Session.changeState"]),
  ("start$2", ["utils.Timer.Refresh"]),
  ("start$3", ["defer utils.Timer.Close", "utils.Timer.TakeTimeout", "session.Session.currentState", "session.Session.changeState", "session.messages.TestRequestBuilder.Build", "session.Session.changeState", "session.Session.sendWithErrorCheck"]),
  ("start$4", ["defer utils.Timer.Close", "utils.Timer.TakeTimeout", "session.messages.HeartbeatBuilder.Build", "session.Session.sendWithErrorCheck"])
]

end SessionSkeleton
