/-!
# Facts — the types of the tables regenerated from /repo's source (`Generated/Facts.lean`)
-/

/-- one access site of a struct field: write?, via sync/atomic?, inside a constructor (object not
    yet shared)?, locks held (lock id, held exclusively?), enclosing function id -/
structure AccessSite where
  write : Bool
  atomic : Bool
  ctor : Bool
  locks : List (Nat × Bool)
  func : Nat
deriving Repr, DecidableEq

structure LocAccess where
  loc : Nat
  sites : List AccessSite
deriving Repr, DecidableEq

/-- a potentially blocking operation: `send` / `recv` / `range` on a channel, a `select`
    (with its arms and whether it has a `default`), a `Wait`, a network read / write / accept -/
structure BlockSite where
  func : String
  kind : String
  chan : String
  arms : List String
  dflt : Bool
deriving Repr, DecidableEq
