/-!
# Bytes — byte strings and the `bytes` package functions the library uses

Model of Go `[]byte` as `List UInt8`, of `bytes.Index`, `bytes.Join(…, SOH)`,
`bytes.HasPrefix`, and of *checked* slice expressions (`Res`), so that "this code
cannot panic" is a statement with content (C11).
-/

abbrev Bytes := List UInt8

def SOH : UInt8 := 1
def EQ : UInt8 := 61

/-- Result of a Go call that may return normally, return an error, or panic. -/
inductive Res (α : Type) where
  | ok (a : α)
  | err
  | panic
deriving Repr, DecidableEq

namespace Res
@[inline] def bind {α β} (r : Res α) (f : α → Res β) : Res β :=
  match r with
  | ok a => f a
  | err => err
  | panic => panic
instance : Monad Res where
  pure := Res.ok
  bind := Res.bind

@[simp] theorem bind_ok {α β} (a : α) (f : α → Res β) : (Res.ok a >>= f) = f a := rfl
@[simp] theorem bind_err {α β} (f : α → Res β) : ((Res.err : Res α) >>= f) = Res.err := rfl
@[simp] theorem bind_panic {α β} (f : α → Res β) : ((Res.panic : Res α) >>= f) = Res.panic := rfl
@[simp] theorem pure_eq {α} (a : α) : (pure a : Res α) = Res.ok a := rfl

def isOk {α} : Res α → Bool
  | ok _ => true
  | _ => false
def isPanic {α} : Res α → Bool
  | panic => true
  | _ => false
end Res

/-- `bytes.Index(s, pat)`: offset of the first occurrence, `none` for -1. -/
def indexOf (pat : Bytes) : Bytes → Option Nat
  | [] => if pat = [] then some 0 else none
  | c :: cs => if pat.isPrefixOf (c :: cs) then some 0 else (indexOf pat cs).map (· + 1)

/-- `bytes.IndexByte` / `bytes.Index(s, []byte{b})`. -/
def indexByte (b : UInt8) : Bytes → Option Nat
  | [] => none
  | c :: cs => if c = b then some 0 else (indexByte b cs).map (· + 1)

/-- Checked `s[lo:]`. -/
def sliceFrom (s : Bytes) (lo : Int) : Res Bytes :=
  if 0 ≤ lo ∧ lo ≤ s.length then .ok (s.drop lo.toNat) else .panic

/-- Checked `s[:hi]` (with `cap = len`, the worst case for panics). -/
def sliceTo (s : Bytes) (hi : Int) : Res Bytes :=
  if 0 ≤ hi ∧ hi ≤ s.length then .ok (s.take hi.toNat) else .panic

/-- Go's `-1 / index` convention for `bytes.Index` as an `Int`. -/
def idxInt : Option Nat → Int
  | none => -1
  | some n => n

/-- `bytes.Join(parts, []byte{1})` -/
def joinSOH : List Bytes → Bytes
  | [] => []
  | [b] => b
  | b :: bs => b ++ SOH :: joinSOH bs

/-- the bytes up to (not including) the first SOH, or everything -/
def takeField : Bytes → Bytes
  | [] => []
  | c :: cs => if c = SOH then [] else c :: takeField cs

/-- Σ of byte values (Go: `sum += int(b)`) -/
def sumBytes : Bytes → Nat
  | [] => 0
  | c :: cs => c.toNat + sumBytes cs

/-- split at every SOH (`bytes.Split(s, SOH)`): used by the independent specs only -/
def splitSOH : Bytes → List Bytes
  | [] => [[]]
  | c :: cs =>
    match splitSOH cs with
    | [] => [[]]       -- unreachable
    | p :: ps => if c = SOH then [] :: p :: ps else (c :: p) :: ps

def strBytes (s : String) : Bytes := s.toUTF8.toList

/-- Checked `s[lo:hi]`. -/
def sliceRange (s : Bytes) (lo hi : Int) : Res Bytes :=
  if 0 ≤ lo ∧ lo ≤ hi ∧ hi ≤ s.length then .ok ((s.take hi.toNat).drop lo.toNat) else .panic

/-- Checked `s[i]`. -/
def byteAt (s : Bytes) (i : Int) : Res UInt8 :=
  if 0 ≤ i then (match s[i.toNat]? with | some b => .ok b | none => .panic) else .panic
