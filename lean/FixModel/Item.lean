import FixModel.Value
/-!
# Item — `fix.KeyValue | fix.Group | fix.Component` trees, `ToBytes`, `AsTemplate`
-/

/-- mirrors `fix.Item`: a group carries its template and its entries (`[]Items`) -/
inductive Item where
  | kv (key : Bytes) (v : Val)
  | group (noTag : Bytes) (template : List Item) (entries : List (List Item))
  | comp (items : List Item)
deriving Repr, Inhabited

/-- `makeTagValue` / `KeyValue.ToBytes` on a non-nil value -/
def tagValue (k v : Bytes) : Bytes := k ++ EQ :: v

/-- `KeyValue.ToBytes` -/
def kvBytes (k : Bytes) (v : Val) : Option Bytes :=
  if v.isNull then none else
  match v.toBytes with
  | none => none
  | some t => if t.isEmpty then none else some (tagValue k t)

mutual
  /-- `Item.ToBytes`; `none` = nil -/
  def Item.toBytes : Item → Option Bytes
    | .kv k v => kvBytes k v
    | .comp items =>
        let parts := itemsParts items
        if parts.isEmpty then none else some (joinSOH parts)
    | .group noTag _ entries =>
        if entries.isEmpty then none
        else some (joinSOH (tagValue noTag (itoa entries.length) :: entriesParts entries))
  /-- the non-nil `ToBytes` of a list of items, in order -/
  def itemsParts : List Item → List Bytes
    | [] => []
    | i :: is => match i.toBytes with
        | none => itemsParts is
        | some b => b :: itemsParts is
  /-- one part per entry: `Items.ToBytes` of the entry (never nil, possibly empty) -/
  def entriesParts : List (List Item) → List Bytes
    | [] => []
    | e :: es => joinSOH (itemsParts e) :: entriesParts es
end

/-- `Items.ToBytes` (never nil) -/
def itemsBytes (is : List Item) : Bytes := joinSOH (itemsParts is)

mutual
  /-- `AsTemplate` of one item: same shape, blank values, no entries -/
  def Item.blank : Item → Item
    | .kv k v => .kv k (Val.blank v.kind)
    | .comp items => .comp (blankList items)
    | .group n t _ => .group n (blankList t) []
  def blankList : List Item → List Item
    | [] => []
    | i :: is => i.blank :: blankList is
end
