import FixModel.Session
/-!
# SessionBridge — from raw inbound bytes to `InMsg`, from `OutMsg` to wire fields

`abstractIn` is what the session's incoming handlers compute from a raw message with
`fix.ValueByTag`, `strconv.Atoi` and `Unmarshal` into the generated admin-message templates
(passed in by the harness as blank `Msg` values). `renderOut` lists the `tag=value` fields the
generated builders put on the wire for an `OutMsg`, SendingTime and framing left out.
-/

structure Templates where
  logon : Msg
  logout : Msg
  heartbeat : Msg
  testRequest : Msg
  resendRequest : Msg
deriving Inhabited

/-- first key-value with the given tag among items and nested components (not inside groups) -/
def findKVFuel : Nat → List Item → Bytes → Option Val
  | 0, _, _ => none
  | _, [], _ => none
  | f + 1, .kv k v :: rest, tag => if k = tag then some v else findKVFuel f rest tag
  | f + 1, .comp is :: rest, tag =>
      match findKVFuel f is tag with
      | some v => some v
      | none => findKVFuel f rest tag
  | f + 1, .group _ _ _ :: rest, tag => findKVFuel f rest tag

def findKV (items : List Item) (tag : String) : Val :=
  (findKVFuel 100000 items (strBytes tag)).getD (Val.blank .str)

/-- typed getters of the generated code: the Go zero value when the field is unset -/
def valStr (v : Val) : Bytes := v.text
def valInt (v : Val) : Int := (atoi v.text).getD 0

inductive Bridge
  | noType
  | panic
  | msg (m : InMsg)
deriving Repr

def mkSeqField (data : Bytes) (tag : Bytes) : Option SeqField :=
  match valueByTag data tag with
  | .panic => none
  | .err => some .missing
  | .ok v => match atoi v with
    | none => some .nonNumeric
    | some n => some (.num n)

def abstractIn (t : Templates) (mtTag seqTag : Bytes) (approve : Bool) (data : Bytes) : Bridge :=
  match valueByTag data mtTag with
  | .panic => .panic
  | .err => .noType
  | .ok mt =>
    match mkSeqField data seqTag with
    | none => .panic
    | some sf =>
      let mk (kind : AdminKind) (tm : Msg) : Bridge :=
        match tm.unmarshal data with
        | .panic => .panic
        | .err => .msg { kind, seqTag := sf, parseOk := false }
        | .ok m =>
          let all := m.header ++ m.body
          .msg { kind, seqTag := sf, parseOk := true,
                 hdrSeq := valInt (findKV m.header "34"),
                 hb := valInt (findKV all "108"), enc := valStr (findKV all "98"),
                 user := valStr (findKV all "553"), pass := valStr (findKV all "554"),
                 sender := valStr (findKV m.header "49"), target := valStr (findKV m.header "56"),
                 testReqID := valStr (findKV all "112"),
                 beginSeq := valInt (findKV all "7"), endSeq := valInt (findKV all "16"),
                 approve }
      if mt = t.logon.mt.text then mk .logon t.logon
      else if mt = t.logout.mt.text then mk .logout t.logout
      else if mt = t.heartbeat.mt.text then mk .heartbeat t.heartbeat
      else if mt = t.testRequest.mt.text then mk .testRequest t.testRequest
      else if mt = t.resendRequest.mt.text then mk .resendRequest t.resendRequest
      else .msg { kind := .other, seqTag := sf, parseOk := false }

def optField (tag : String) (v : Bytes) : List (Bytes × Bytes) :=
  if v.isEmpty then [] else [(strBytes tag, v)]

/-- the fields of an outbound message in wire order (BeginString, BodyLength, SendingTime, CheckSum omitted) -/
def renderOut (m : OutMsg) : List (Bytes × Bytes) :=
  let hdr := optField "49" m.sender ++ optField "56" m.target ++ [(strBytes "34", itoa m.seq)]
  match m.body with
  | .logon hb enc user pass =>
      [(strBytes "35", strBytes "A")] ++ hdr ++ optField "98" enc ++ [(strBytes "108", itoa hb)]
        ++ optField "553" user ++ optField "554" pass
  | .logout => [(strBytes "35", strBytes "5")] ++ hdr
  | .heartbeat id => [(strBytes "35", strBytes "0")] ++ hdr ++ optField "112" id
  | .testRequest id => [(strBytes "35", strBytes "1")] ++ hdr ++ optField "112" id
  | .reject refSeq reason refTag =>
      [(strBytes "35", strBytes "3")] ++ hdr ++ [(strBytes "45", itoa refSeq)]
        ++ (match refTag with | some t => [(strBytes "371", itoa t)] | none => [])
        ++ optField "373" reason
  | .resendRequest b e =>
      [(strBytes "35", strBytes "2")] ++ hdr ++ [(strBytes "7", itoa b), (strBytes "16", itoa e)]
  | .app tag => [(strBytes "35", strBytes "app")] ++ hdr ++ [(strBytes "app", natDigits tag)]
