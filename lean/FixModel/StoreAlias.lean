/-!
# StoreAlias — the message store keeps message *objects* (C10, finding F-C10-reused-object)

`memory.Storage.Save` stores the `SendingMessage` it is given — a pointer to the application's object — and
`Session.send` stamps the sequence number into that very object. This small model keeps object identity explicit:
an object has a current content (the header's MsgSeqNum and a body); a send stamps and transmits the object and
files *the object* under its number; a resend transmits the current content of the objects filed under the
requested numbers.
-/

namespace StoreAlias

structure Content where
  seq : Nat
  body : Nat
deriving DecidableEq, Repr, Inhabited

structure St where
  next : Nat := 1                          -- next sequence number
  objs : List (Nat × Content) := []        -- object id ↦ current content (first match wins)
  slots : List (Nat × Nat) := []           -- sequence number ↦ object id (first match wins)
  wire : List Content := []                -- first transmissions, oldest first
deriving Repr, Inhabited

def setObj (objs : List (Nat × Content)) (o : Nat) (c : Content) : List (Nat × Content) :=
  (o, c) :: objs.filter (·.1 != o)

/-- `Session.Send(obj)` with the object's body set to `body` by the application beforehand -/
def send (s : St) (o body : Nat) : St :=
  let c : Content := ⟨s.next, body⟩
  { next := s.next + 1, objs := setObj s.objs o c, slots := (s.next, o) :: s.slots, wire := s.wire ++ [c] }

/-- what a ResendRequest b..e (e = 0: through the last number) puts on the wire -/
def resend (s : St) (b e : Nat) : List Content :=
  let hi := if e = 0 then s.next - 1 else e
  if b = 0 ∨ b > hi ∨ hi ≥ s.next then []
  else (List.range (hi + 1 - b)).filterMap fun i =>
    (s.slots.lookup (b + i)).bind fun o => s.objs.lookup o

/-- what the property demands: the first transmissions under b..e -/
def wanted (s : St) (b e : Nat) : List Content :=
  let hi := if e = 0 then s.next - 1 else e
  if b = 0 ∨ b > hi ∨ hi ≥ s.next then []
  else s.wire.filter fun c => b ≤ c.seq ∧ c.seq ≤ hi

def run (sends : List (Nat × Nat)) : St := sends.foldl (fun s ob => send s ob.1 ob.2) {}

end StoreAlias
