import FixModel.Decode
/-!
# Spec/Codec — independent, decidable statements of the codec properties

These predicates look only at *bytes on the wire* and at the *description of what the
application populated*; they do not call the model's encoder or decoder. The theorems in
`Props/` say the model always satisfies them; the check driver evaluates them on what the
Go implementation actually produced.
-/

/-- split a wire image that must end with SOH into its fields (without the delimiters) -/
def wireFields (w : Bytes) : Option (List Bytes) :=
  match (splitSOH w).reverse with
  | [] :: rest => some rest.reverse
  | _ => none

/-- `tag=value` split at the first '=' -/
def splitTag (f : Bytes) : Option (Bytes × Bytes) :=
  match indexByte EQ f with
  | none => none
  | some i => some (f.take i, f.drop (i + 1))

def fieldHasTag (f tag : Bytes) : Bool :=
  match splitTag f with
  | some (t, _) => t == tag
  | none => false

/-- C01: framing of a wire image `w` for framing tags `bs bl cs mt`:
    first three fields are BeginString, BodyLength, MsgType; last is CheckSum;
    BodyLength counts the bytes after its delimiter up to and including the delimiter before
    CheckSum; CheckSum is the 3-digit sum mod 256 of everything before the CheckSum field. -/
def framedOK (bsTag blTag csTag mtTag : Bytes) (w : Bytes) : Bool :=
  match wireFields w with
  | none => false
  | some fs =>
    match fs with
    | f0 :: f1 :: f2 :: rest =>
      match rest.reverse with
      | [] => false
      | fl :: _ =>
        match splitTag f1, splitTag fl with
        | some (t1, v1), some (tl, vl) =>
          let before := w.length - (fl.length + 1)          -- bytes preceding the CheckSum field
          let bodyLen := before - (f0.length + 1) - (f1.length + 1)
          fieldHasTag f0 bsTag && t1 == blTag && fieldHasTag f2 mtTag && tl == csTag
            && v1 == natDigits bodyLen
            && vl.length == 3
            && vl == pad3 (natDigits (sumBytes (w.take before) % 256))
        | _, _ => false
    | _ => false

/-! ### C17: what the application populated, as a flat list of `tag=value` -/

def populated (v : Val) : Bool := v.valid && !v.text.isEmpty

mutual
  def Item.leaves : Item → List Bytes
    | .kv k v => if populated v then [tagValue k v.text] else []
    | .comp is => leavesList is
    | .group n _ es => if es.isEmpty then [] else tagValue n (natDigits es.length) :: leavesEntries es
  def leavesList : List Item → List Bytes
    | [] => []
    | i :: is => i.leaves ++ leavesList is
  def leavesEntries : List (List Item) → List Bytes
    | [] => []
    | e :: es => leavesList e ++ leavesEntries es
end

-- every group entry has at least one populated leaf, recursively (C17/C02 precondition)
mutual
  def Item.entriesNonEmpty : Item → Bool
    | .kv _ _ => true
    | .comp is => listEntriesNonEmpty is
    | .group _ _ es => entriesAllNonEmpty es
  def listEntriesNonEmpty : List Item → Bool
    | [] => true
    | i :: is => i.entriesNonEmpty && listEntriesNonEmpty is
  def entriesAllNonEmpty : List (List Item) → Bool
    | [] => true
    | e :: es => !(leavesList e).isEmpty && listEntriesNonEmpty e && entriesAllNonEmpty es
end

-- no populated value contains SOH
mutual
  def Item.sohFree : Item → Bool
    | .kv k v => !k.contains SOH && !v.text.contains SOH
    | .comp is => listSohFree is
    | .group n t es => !n.contains SOH && listSohFree t && entriesSohFree es
  def listSohFree : List Item → Bool
    | [] => true
    | i :: is => i.sohFree && listSohFree is
  def entriesSohFree : List (List Item) → Bool
    | [] => true
    | e :: es => listSohFree e && entriesSohFree es
end

/-- C17: the wire image consists of the three framing fields, then exactly the populated
    leaves of header, body, trailer in template order, then the CheckSum field. -/
def fieldsOK (m : Msg) (w : Bytes) : Bool :=
  match wireFields w with
  | none => false
  | some fs =>
    match fs with
    | _ :: _ :: _ :: rest =>
      rest.dropLast == leavesList m.header ++ leavesList m.body ++ leavesList m.trailer
        && rest.length ≥ 1
    | _ => false

/-- the same with the trailer's leaves left out: distinguishes the known finding
    "populated trailer fields are never serialized" from any other C17 failure -/
def fieldsOKNoTrailer (m : Msg) (w : Bytes) : Bool :=
  match wireFields w with
  | none => false
  | some fs =>
    match fs with
    | _ :: _ :: _ :: rest =>
      rest.dropLast == leavesList m.header ++ leavesList m.body && rest.length ≥ 1
    | _ => false

def c17Pre (m : Msg) : Bool :=
  listSohFree m.header && listSohFree m.body && listSohFree m.trailer
    && listEntriesNonEmpty m.header && listEntriesNonEmpty m.body && listEntriesNonEmpty m.trailer
    && populated m.bs && populated m.mt && !m.bs.text.contains SOH && !m.mt.text.contains SOH

/-! ### C03: integrity of a byte string, from the bytes alone -/

/-- `d` = BeginString field, BodyLength field, `n` bytes (empty or ending in SOH), CheckSum
    field as the last field, where `n` is the BodyLength value and the CheckSum value is the
    3-digit sum mod 256 of every byte before the CheckSum field. -/
def integrityOK (bsTag blTag csTag : Bytes) (d : Bytes) : Bool :=
  match wireFields d with
  | none => false
  | some fs =>
    match fs with
    | f0 :: f1 :: rest =>
      match rest.reverse with
      | [] => false
      | fl :: _ =>
        match splitTag f0, splitTag f1, splitTag fl with
        | some (t0, _), some (t1, v1), some (tl, vl) =>
          let before := d.length - (fl.length + 1)
          let bodyLen : Int := (before : Int) - (f0.length + 1 : Nat) - (f1.length + 1 : Nat)
          t0 == bsTag && t1 == blTag && tl == csTag
            && atoi v1 == some bodyLen
            && vl == pad3 (natDigits (sumBytes (d.take before) % 256))
        | _, _, _ => false
    | _ => false

/-! ### C18: field lookup at field boundaries only -/

/-- value of the first field whose whole tag equals `k` -/
def lookupField (k : Bytes) : List Bytes → Option Bytes
  | [] => none
  | f :: fs =>
    match splitTag f with
    | some (t, v) => if t == k then some v else lookupField k fs
    | none => lookupField k fs

/-- split without requiring a trailing SOH (a last unterminated field is kept) -/
def looseFields (w : Bytes) : List Bytes :=
  match (splitSOH w).reverse with
  | [] :: rest => rest.reverse
  | other => other.reverse
