import FixModel.Decode
/-!
# Session — `session.Session` + `DefaultHandler` dispatch as a state machine

`step : Cfg → Sess → Ev → Sess × List Out`. One event is one of: an inbound message as the
handlers see it (`InMsg`, computed from raw bytes by `FixModel.SessionBridge`), a local act of
the application (send, Logout, Stop), a timer expiry, the close deadline. Outputs are the
messages handed to the handler's outgoing channel, session events, context cancellation.

What is atomic here is atomic in the code: `DefaultHandler.Run` dispatches one inbound message
at a time through the all-types handlers and then the handlers of its type, in registration
order; `Session.send` runs under `s.mu`.
-/

inductive Side | acceptor | initiator
deriving DecidableEq, Repr, Inhabited

/-- `session.LogonState`, in declaration order (checked against the source by `Generated.Consts`) -/
inductive LState
  | waitingLogon | successfulLogged | waitingLogonAnswer | waitingLogoutAnswer
  | receivedLogoutAnswer | waitingTestReqAnswer | disconnect
deriving DecidableEq, Repr, Inhabited

inductive AdminKind | logon | logout | heartbeat | testRequest | resendRequest | other
deriving DecidableEq, Repr, Inhabited

/-- result of `fix.ValueByTag(msg, MsgSeqNum)` followed by `strconv.Atoi` -/
inductive SeqField
  | missing | nonNumeric | num (n : Int)
deriving DecidableEq, Repr, Inhabited

/-- an inbound message as the session's handlers see it -/
structure InMsg where
  kind : AdminKind
  seqTag : SeqField
  /-- `Unmarshal` into the template of `kind` succeeded (integrity, fields, validator) -/
  parseOk : Bool
  /-- header MsgSeqNum of the parsed message (0 when the field is absent) -/
  hdrSeq : Int := 0
  hb : Int := 0
  enc : Bytes := []
  user : Bytes := []
  pass : Bytes := []
  sender : Bytes := []
  target : Bytes := []
  testReqID : Bytes := []
  beginSeq : Int := 0
  endSeq : Int := 0
  /-- verdict of the application's logon callback for this Logon -/
  approve : Bool := true
deriving Repr, Inhabited

inductive OutBody
  | logon (hb : Int) (enc user pass : Bytes)
  | logout
  | heartbeat (testReqID : Bytes)
  | testRequest (id : Bytes)
  | reject (refSeq : Int) (reason : Bytes) (refTag : Option Int)
  | resendRequest (b e : Int)
  | app (tag : Nat)
deriving DecidableEq, Repr, Inhabited

structure OutMsg where
  seq : Int
  sender : Bytes
  target : Bytes
  body : OutBody
deriving DecidableEq, Repr, Inhabited

inductive SEvent | logon | logoutReq | logout | disconnect
deriving DecidableEq, Repr, Inhabited

inductive Out
  | msg (m : OutMsg)          -- a message numbered by `Session.send`
  | resend (m : OutMsg)       -- a stored message retransmitted by `SendBatch`
  | event (e : SEvent)
  | cancel                    -- the session context is cancelled
  | routerStop                -- `Router.Stop()`
deriving DecidableEq, Repr, Inhabited

structure Settings where
  hb : Int := 0
  enc : Bytes := []
  user : Bytes := []
  pass : Bytes := []
  sender : Bytes := []
  target : Bytes := []
deriving DecidableEq, Repr, Inhabited

structure Cfg where
  side : Side
  allowedEnc : List Bytes
  hbLimits : Option (Int × Int)
  codeIncorrect : Int := 5
  codeOther : Int := 99
  tagMsgSeqNum : Int := 34
  tagHeartBtInt : Int := 108
  tagEncrypt : Int := 98
deriving Repr, Inhabited

structure Sess where
  state : LState
  settings : Settings
  /-- number of `start()` calls so far: timer pairs running, refresh handlers registered -/
  started : Nat := 0
  inCounter : Int := 0
  outCounter : Int := 0
  /-- message store: most recent save first -/
  store : List (Int × OutMsg) := []
  cancelled : Bool := false
  routerStopped : Bool := false
  /-- `Stop()` has been called: its EventLogout callback and deadline are armed -/
  stopArmed : Bool := false
  /-- number of TestRequests issued by the probing timer -/
  testReqCounter : Nat := 0
  /-- the handler's `Run` loop has returned (message without MsgType) -/
  dead : Bool := false
deriving Repr, Inhabited

inductive Ev
  | inbound (m : InMsg)
  | inboundNoType              -- a message whose MsgType cannot be found: `Run` returns an error
  | appSend (tag : Nat)
  | localLogout
  | localStop
  | closeDeadline
  | inTimer
  | outTimer
deriving Repr, Inhabited

namespace Sess

def isLogged (s : Sess) : Bool := s.state = .successfulLogged

/-- `Storage.Messages(from, to)`: `none` = error -/
def lookupStore (store : List (Int × OutMsg)) (i : Int) : Option OutMsg :=
  (store.find? (·.1 = i)).map (·.2)

def rangeMsgs (store : List (Int × OutMsg)) (b : Int) : Nat → Option (List OutMsg)
  | 0 => some []
  | n + 1 =>
    match lookupStore store b, rangeMsgs store (b + 1) n with
    | some m, some ms => some (m :: ms)
    | _, _ => none

def messages (s : Sess) (b e : Int) : Option (List OutMsg) :=
  if b > e then none
  else if e > s.outCounter then none
  else rangeMsgs s.store b (e - b + 1).toNat

/-- `Session.send`: take the next number, stamp the header, save, enqueue -/
def send (s : Sess) (body : OutBody) : Sess × List Out :=
  let n := s.outCounter + 1
  let m : OutMsg := { seq := n, sender := s.settings.sender, target := s.settings.target, body }
  ({ s with outCounter := n, store := (n, m) :: s.store }, [.msg m])

/-- sequencing of effects -/
def andThen (r : Sess × List Out) (f : Sess → Sess × List Out) : Sess × List Out :=
  let r2 := f r.1
  (r2.1, r.2 ++ r2.2)

/-- `changeState(st, true)` including the session's own event callbacks
    (EventDisconnect → cancel + Router.Stop; EventLogout → Stop()'s callback;
     EventLogon on the initiator → start()) -/
def changeState (c : Cfg) (s : Sess) (st : LState) : Sess × List Out :=
  let s1 := { s with state := st }
  match st with
  | .successfulLogged =>
      (if c.side = .initiator then { s1 with started := s1.started + 1 } else s1, [.event .logon])
  | .waitingLogoutAnswer => (s1, [.event .logoutReq])
  | .receivedLogoutAnswer =>
      if s1.stopArmed then ({ s1 with cancelled := true }, [.event .logout, .cancel])
      else (s1, [.event .logout])
  | .disconnect => ({ s1 with cancelled := true, routerStopped := true }, [.event .disconnect, .cancel, .routerStop])
  | _ => (s1, [])

/-- the Reject that `RejectMessage(data)` builds: by sequence number, or naming the MsgSeqNum tag
    when that number is missing or not numeric -/
def rejectFor (c : Cfg) (m : InMsg) : OutBody :=
  match m.seqTag with
  | .missing => .reject 0 (itoa c.codeOther) (some c.tagMsgSeqNum)
  | .nonNumeric => .reject 0 (itoa 5) (some c.tagMsgSeqNum)
  | .num n => .reject n (itoa c.codeOther) none

/-- `RejectMessage(data)` -/
def rejectMessage (c : Cfg) (s : Sess) (m : InMsg) : Sess × List Out := s.send (rejectFor c m)

/-- `MakeReject(reason, tag, seq)` then send -/
def sendReject (s : Sess) (reason : Int) (tag : Int) (seq : Int) : Sess × List Out :=
  s.send (.reject seq (itoa reason) (if tag = 0 then none else some tag))

/-- `processIncSeq` -/
def processIncSeq (s : Sess) (m : InMsg) : Sess × List Out :=
  let r := if s.inCounter + 1 < m.hdrSeq then s.send (.resendRequest (s.inCounter + 1) 0) else (s, [])
  ({ r.1 with inCounter := m.hdrSeq }, r.2)

/-- the all-types incoming handler registered at construction: track the peer's sequence number -/
def trackSeq (s : Sess) (m : InMsg) : Sess :=
  if s.state ≠ .waitingLogonAnswer ∧ s.state ≠ .waitingLogon then
    match m.seqTag with
    | .num n => { s with inCounter := n }
    | _ => s
  else s

/-- the all-types incoming handlers registered by `start()`: refresh the timer, leave the probing state -/
def refreshIn (s : Sess) : Sess :=
  if s.started > 0 ∧ s.state = .waitingTestReqAnswer then { s with state := .successfulLogged } else s

def checkLogonParams (c : Cfg) (m : InMsg) : Option (Int × Int) :=
  if ¬ (m.enc ∈ c.allowedEnc) then some (c.tagEncrypt, c.codeIncorrect)
  else match c.hbLimits with
    | none => none
    | some (lo, hi) => if m.hb < lo ∨ m.hb > hi then some (c.tagHeartBtInt, c.codeIncorrect) else none

def onLogon (c : Cfg) (s : Sess) (m : InMsg) : Sess × List Out :=
  if ¬ m.parseOk then rejectMessage c s m else
  match s.state with
  | .waitingLogon =>
    let st : Settings :=
      if c.side = .acceptor then { hb := m.hb, enc := m.enc, user := m.user, pass := m.pass, sender := m.target, target := m.sender }
      else { hb := m.hb, enc := m.enc, user := m.user, pass := m.pass, sender := m.sender, target := m.target }
    let s1 := { s with settings := st }
    match checkLogonParams c m with
    | some (tag, code) => sendReject s1 code tag m.hdrSeq
    | none =>
      if ¬ m.approve then sendReject s1 c.codeOther 0 m.hdrSeq
      else if m.hb ≤ 0 then sendReject s1 c.codeIncorrect c.tagHeartBtInt m.hdrSeq   -- start() fails
      else
        let s2 := { s1 with started := s1.started + 1 }
        andThen (andThen (changeState c s2 .successfulLogged)
          (fun s => s.send (.logon st.hb st.enc [] []))) (fun s => processIncSeq s m)
  | .waitingLogonAnswer =>
    andThen (changeState c s .successfulLogged) (fun s => processIncSeq s m)
  | .successfulLogged => sendReject s c.codeOther 0 m.hdrSeq
  | _ => (s, [])

def backToWaiting (c : Cfg) (s : Sess) : Sess :=
  { s with state := if c.side = .initiator then .waitingLogonAnswer else .waitingLogon }

def onLogout (c : Cfg) (s : Sess) (m : InMsg) : Sess × List Out :=
  if ¬ m.parseOk then rejectMessage c s m else
  let r := match s.state with
    | .waitingLogoutAnswer =>
      andThen (changeState c s .receivedLogoutAnswer) (fun s => changeState c s .waitingLogon)
    | .successfulLogged =>
      andThen (changeState c s .waitingLogoutAnswer) (fun s => s.send .logout)
    | _ => rejectMessage c s m
  (backToWaiting c r.1, r.2)

def onHeartbeat (c : Cfg) (s : Sess) (m : InMsg) : Sess × List Out :=
  if ¬ m.parseOk then rejectMessage c s m
  else if ¬ s.isLogged then rejectMessage c s m
  else (s, [])

def onTestRequest (c : Cfg) (s : Sess) (m : InMsg) : Sess × List Out :=
  if ¬ m.parseOk then rejectMessage c s m
  else if ¬ s.isLogged then rejectMessage c s m
  else s.send (.heartbeat m.testReqID)

def onResendRequest (c : Cfg) (s : Sess) (m : InMsg) : Sess × List Out :=
  if ¬ m.parseOk then rejectMessage c s m
  else if ¬ s.isLogged then rejectMessage c s m
  else
    let e := if m.endSeq = 0 then s.outCounter else m.endSeq
    match s.messages m.beginSeq e with
    | none => (s, [])
    | some ms => (s, ms.map .resend)

def onInbound (c : Cfg) (s : Sess) (m : InMsg) : Sess × List Out :=
  let s1 := refreshIn (trackSeq s m)
  match m.kind with
  | .resendRequest => onResendRequest c s1 m
  | .logon => onLogon c s1 m
  | .logout => onLogout c s1 m
  | .heartbeat => onHeartbeat c s1 m
  | .testRequest => onTestRequest c s1 m
  | .other => (s1, [])

end Sess

open Sess in
def step (c : Cfg) (s : Sess) : Ev → Sess × List Out
  | .inbound m => if s.dead ∨ s.routerStopped then (s, []) else onInbound c s m
  | .inboundNoType => if s.routerStopped then (s, []) else ({ s with dead := true }, [])
  | .appSend tag => s.send (.app tag)
  | .localLogout => andThen (changeState c s .waitingLogoutAnswer) (fun s => s.send .logout)
  | .localStop =>
      let r := andThen (changeState c s .waitingLogoutAnswer) (fun s => s.send .logout)
      ({ r.1 with stopArmed := true }, r.2)
  | .closeDeadline => if s.stopArmed ∧ ¬ s.cancelled then ({ s with cancelled := true }, [.cancel]) else (s, [])
  | .inTimer =>
      if s.started = 0 ∨ s.cancelled then (s, [])
      else if s.state = .waitingTestReqAnswer then changeState c s .disconnect
      else
        let k := s.testReqCounter + 1
        let s1 := { s with testReqCounter := k, state := .waitingTestReqAnswer }
        s1.send (.testRequest (natDigits k))
  | .outTimer =>
      if s.started = 0 ∨ s.cancelled then (s, [])
      else s.send (.heartbeat [])

/-- state after `Run()` -/
def Sess.init (c : Cfg) (st : Settings) (inC outC : Int) (store : List (Int × OutMsg)) : Sess × List Out :=
  let s0 : Sess := { state := .waitingLogon, settings := st, inCounter := inC, outCounter := outC, store }
  match c.side with
  | .acceptor => (s0, [])
  | .initiator =>
    ({ s0 with state := .waitingLogonAnswer }).send (.logon st.hb st.enc st.user st.pass)

def run (c : Cfg) (s : Sess) : List Ev → Sess × List Out
  | [] => (s, [])
  | e :: es =>
    let r := step c s e
    let r2 := run c r.1 es
    (r2.1, r.2 ++ r2.2)
