import FixModel.Bytes
/-!
# Decimal — `strconv.Itoa`, `strconv.Atoi`, `strconv.ParseUint(·,10,64)`, `fmt "%03s"`
-/

def digitChar (d : Nat) : UInt8 := UInt8.ofNat (48 + d)

/-- decimal digits with explicit fuel (structural, so the kernel can evaluate it) -/
def natDigitsFuel : Nat → Nat → Bytes
  | 0, n => [digitChar (n % 10)]
  | f + 1, n => if n < 10 then [digitChar n] else natDigitsFuel f (n / 10) ++ [digitChar (n % 10)]

/-- decimal digits of a natural number, most significant first (`strconv.FormatUint`) -/
def natDigits (n : Nat) : Bytes := natDigitsFuel n n

theorem natDigitsFuel_eq : ∀ (f n : Nat), n ≤ f → natDigitsFuel f n = natDigitsFuel n n := by
  intro f
  induction f using Nat.strongRecOn with
  | _ f ih =>
    intro n hn
    cases f with
    | zero =>
      have : n = 0 := by omega
      subst this; rfl
    | succ f =>
      cases n with
      | zero => simp [natDigitsFuel, digitChar]
      | succ k =>
        simp only [natDigitsFuel]
        split
        · rfl
        · have h1 : (k + 1) / 10 ≤ f := by omega
          have h2 : (k + 1) / 10 ≤ k := by omega
          rw [ih f (by omega) _ h1, ih k (by omega) _ h2]

/-- the defining equation of `natDigits` -/
theorem natDigits_eq (n : Nat) :
    natDigits n = if n < 10 then [digitChar n] else natDigits (n / 10) ++ [digitChar (n % 10)] := by
  unfold natDigits
  cases n with
  | zero => simp [natDigitsFuel, digitChar]
  | succ k =>
    simp only [natDigitsFuel]
    split
    · rfl
    · rw [natDigitsFuel_eq k ((k + 1) / 10) (by omega)]

/-- `strconv.Itoa` -/
def itoa (i : Int) : Bytes :=
  if i < 0 then 45 :: natDigits i.natAbs else natDigits i.natAbs

def isDigit (c : UInt8) : Bool := 48 ≤ c && c ≤ 57
def digitVal (c : UInt8) : Nat := c.toNat - 48

/-- value of a digit string read left to right with accumulator; `none` on a non-digit -/
def parseNatAux : Bytes → Nat → Option Nat
  | [], acc => some acc
  | c :: cs, acc => if isDigit c then parseNatAux cs (acc * 10 + digitVal c) else none

/-- non-empty all-digit string -/
def parseNat (s : Bytes) : Option Nat :=
  if s.isEmpty then none else parseNatAux s 0

def int64Max : Int := 9223372036854775807
def int64Min : Int := -9223372036854775808
def uint64Max : Nat := 18446744073709551615

/-- `strconv.Atoi` on a 64-bit platform: optional sign, ≥ 1 digit, no underscores, range-checked -/
def atoi (s : Bytes) : Option Int :=
  match s with
  | [] => none
  | c :: cs =>
    if c = 45 then
      match parseNat cs with
      | some n => if -(n : Int) < int64Min then none else some (-(n : Int))
      | none => none
    else if c = 43 then
      match parseNat cs with
      | some n => if (n : Int) > int64Max then none else some n
      | none => none
    else
      match parseNat (c :: cs) with
      | some n => if (n : Int) > int64Max then none else some n
      | none => none

/-- `strconv.ParseUint(s, 10, 64)`: no sign, ≥ 1 digit, range-checked -/
def parseUint (s : Bytes) : Option Nat :=
  match parseNat s with
  | some n => if n > uint64Max then none else some n
  | none => none

/-- `fmt.Sprintf("%03s", s)` -/
def pad3 (s : Bytes) : Bytes := List.replicate (3 - s.length) 48 ++ s
