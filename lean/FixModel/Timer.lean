/-!
# Timer — `utils.Timer.TakeTimeout` and the two timer loops of `Session.start`

Time is a natural number (any unit). A timer has timeout `T` and polls every `P = T / 10`
(`frequency = 10`, checked against the source by `Generated.consts`). `TakeTimeout` starts with a
`Refresh` (`last := now`) and returns at the first poll `τ = start + k·P`, `k ≥ 1`, with
`τ ≥ last + T`; `Refresh` (called for every outbound, resp. inbound, message) moves `last`.
The loop then emits its message (Heartbeat / TestRequest) and calls `TakeTimeout` again.

State: when the current `TakeTimeout` started, how many polls have happened since, and the last
refresh. Events: `refresh t` — at a time between the last poll and the next one — and `poll`.
"expiry decision + emit" is one step; the runtime can interleave a send between them
(scheduling slack, named in the property).
-/

structure TSt where
  start : Nat
  polls : Nat := 0
  last : Nat
deriving Repr, DecidableEq

inductive TEv
  | refresh (t : Nat)
  | poll
deriving Repr, DecidableEq

/-- time of the next poll -/
def TSt.nextPoll (P : Nat) (s : TSt) : Nat := s.start + (s.polls + 1) * P

/-- a refresh happens no earlier than the last poll and no later than the next one, and time does not run backwards -/
def TSt.refreshOK (P : Nat) (s : TSt) (t : Nat) : Prop :=
  s.start + s.polls * P ≤ t ∧ t ≤ s.nextPoll P ∧ s.last ≤ t

/-- one event; the `Option Nat` is the time at which the loop's message is emitted -/
def tstep (T P : Nat) (s : TSt) : TEv → TSt × Option Nat
  | .refresh t => ({ s with last := t }, none)
  | .poll =>
    let τ := s.nextPoll P
    if τ ≥ s.last + T then ({ start := τ, polls := 0, last := τ }, some τ)   -- expiry: emit, TakeTimeout again
    else ({ s with polls := s.polls + 1 }, none)

/-- well-formed event sequences -/
def TWF (T P : Nat) : TSt → List TEv → Prop
  | _, [] => True
  | s, .refresh t :: es => s.refreshOK P t ∧ TWF T P (tstep T P s (.refresh t)).1 es
  | s, .poll :: es => TWF T P (tstep T P s .poll).1 es

def trun (T P : Nat) (s : TSt) : List TEv → TSt × List Nat
  | [] => (s, [])
  | e :: es =>
    let r := tstep T P s e
    let r2 := trun T P r.1 es
    (r2.1, (match r.2 with | some t => [t] | none => []) ++ r2.2)

/-- `tolerance := int(math.Max(float64(HeartBtInt/20), 1))` -/
def tolerance (n : Nat) : Nat := max (n / 20) 1

/-- timeout of the inbound-silence timer, in seconds -/
def probeTimeout (n : Nat) : Nat := n + tolerance n

/-- the event sequence of an ideal run: polls at `start + k·P`, the given refresh times (sorted)
    slotted between them; stops at the first expiry or when fuel runs out -/
def idealRun (T P : Nat) : Nat → TSt → List Nat → Option Nat
  | 0, _, _ => none
  | fuel + 1, s, rs =>
    match rs with
    | r :: rest =>
      if r ≤ s.nextPoll P then idealRun T P fuel (tstep T P s (.refresh r)).1 rest
      else
        match tstep T P s .poll with
        | (_, some τ) => some τ
        | (s', none) => idealRun T P fuel s' (r :: rest)
    | [] =>
      match tstep T P s .poll with
      | (_, some τ) => some τ
      | (s', none) => idealRun T P fuel s' []
