import FixModel.Item
/-!
# Message — `fix.Message`: CalcBodyLength, BytesWithoutChecksum, CalcCheckSum, Prepare/ToBytes

The trailer component is *not* serialized by the library (`CalcBodyLength` and
`BytesWithoutChecksum` never look at it, and an existing test pins that); the model mirrors
the code — this is the known finding C17-trailer.
-/

structure Msg where
  bsTag : Bytes
  blTag : Bytes
  csTag : Bytes
  mtTag : Bytes
  bs : Val
  bl : Val
  mt : Val
  cs : Val
  header : List Item
  body : List Item
  trailer : List Item
deriving Repr, Inhabited

/-- `fix.NewMessage(bsTag, blTag, csTag, mtTag, beginString, msgType)` + SetHeader/SetBody/SetTrailer -/
def Msg.new (bsTag blTag csTag mtTag bs mt : Bytes) (h b t : List Item) : Msg :=
  { bsTag, blTag, csTag, mtTag,
    bs := Val.newString bs, bl := Val.blank .int, mt := Val.newString mt, cs := Val.blank .str,
    header := h, body := b, trailer := t }

def optLen (o : Option Bytes) : Nat := (o.map List.length).getD 0
def optBytes (o : Option Bytes) : Bytes := o.getD []

/-- `fix.CalcCheckSum` -/
def calcCheckSum (body : Bytes) : Bytes := pad3 (natDigits ((sumBytes body + 1) % 256))

namespace Msg

def headerBytes (m : Msg) : Option Bytes := (Item.comp m.header).toBytes
def trailerBytes (m : Msg) : Option Bytes := (Item.comp m.trailer).toBytes
def bodyBytes (m : Msg) : Bytes := itemsBytes m.body
def mtBytes (m : Msg) : Option Bytes := kvBytes m.mtTag m.mt

/-- one `if len(x) > 0 { length += len(x) + 1 }` step -/
def lenPlus (n : Nat) : Nat := if n > 0 then n + 1 else 0

def calcBodyLength (m : Msg) : Nat :=
  lenPlus (optLen m.mtBytes) + lenPlus m.bodyBytes.length + lenPlus (optLen m.headerBytes)

/-- one `if len(x) > 0 { bm = Join([bm, x], SOH) }` step -/
def appendPart (bm x : Bytes) : Bytes := if x.length > 0 then bm ++ SOH :: x else bm

def bytesWithoutChecksum (m : Msg) : Bytes :=
  let bm := joinSOH [optBytes (kvBytes m.bsTag m.bs), optBytes (kvBytes m.blTag m.bl), optBytes m.mtBytes]
  appendPart (appendPart bm (optBytes m.headerBytes)) m.bodyBytes

/-- `Prepare`: the message with BodyLength and CheckSum stamped, and the wire bytes -/
def prepare (m : Msg) : Msg × Bytes :=
  let m1 := { m with bl := Val.newInt m.calcBodyLength }
  let byteMsg := m1.bytesWithoutChecksum
  let c := calcCheckSum byteMsg
  let m2 := { m1 with cs := ⟨m1.cs.kind, true, c⟩ }
  (m2, byteMsg ++ SOH :: tagValue m.csTag c ++ [SOH])

def encode (m : Msg) : Bytes := m.prepare.2

/-- `Message.Items()` -/
def items (m : Msg) : List Item :=
  [.kv m.bsTag m.bs, .kv m.blTag m.bl, .kv m.mtTag m.mt, .comp m.header] ++ m.body ++
  [.comp m.trailer, .kv m.csTag m.cs]

end Msg
