/-!
# Gen — abstract model of `generator.Generator` (schema → declarations of the emitted package)

The emitted Go text is abstracted to *declarations*: constants, and for every generated struct
type (message, component, header, trailer, repeating group, group entry) the ordered items of its
constructor, the arguments and setter calls of its populating constructor, and its accessors with
the index each one reads / writes. `render` turns them into canonical lines; the harness extracts
the same lines from the files the real generator writes.
-/

inductive MKind | field | group | component
deriving DecidableEq, Repr, Inhabited

structure Member where
  kind : MKind
  name : String
  required : Bool
  members : List Member := []
deriving Repr, Inhabited

structure Comp where
  name : String
  msgType : String := ""
  members : List Member
deriving Repr, Inhabited

structure FieldDef where
  number : String
  name : String
  type : String
  values : List (String × String) := []     -- (enum, description)
deriving Repr, Inhabited

structure Schema where
  typ : String
  major : String
  minor : String
  header : Comp
  trailer : Comp
  messages : List Comp
  components : List Comp
  fields : List FieldDef
  types : List (String × String)            -- type name → cast (String Int Float Bool Raw Time)
deriving Repr, Inhabited

inductive ItemD
  | kv (fieldConst fixType : String)
  | grp (ty : String)
  | comp (ty : String)
deriving DecidableEq, Repr

structure AccD where
  name : String
  index : Nat
  goType : String
  kind : MKind
deriving DecidableEq, Repr

structure ParentD where
  /-- "msg" | "comp" | "group" | "entry" -/
  sort : String
  name : String
  extra : String := ""              -- message type constant / group count field
  items : List ItemD
  args : List (String × String)
  setters : List String
  accs : List AccD
  fieldSetters : List (String × String) := []   -- SetField<Name> with Go type (standard pipelines)
deriving Repr

def excluded : List String := ["BeginString", "BodyLength", "MsgType", "CheckSum"]
def requiredHeader : List String := ["BeginString", "BodyLength", "MsgType", "SenderCompID", "TargetCompID", "MsgSeqNum", "SendingTime"]
def requiredTrailer : List String := ["CheckSum"]
/-- header setters emitted for the session pipelines: required header fields minus the excluded ones, sorted -/
def headerFlow : List String := ["MsgSeqNum", "SenderCompID", "SendingTime", "TargetCompID"]
def defaultFlow : List (String × List String) := [
  ("Logon", ["HeartBtInt", "EncryptMethod", "Password", "Username", "ResetSeqNumFlag"]),
  ("Logout", []), ("Heartbeat", ["TestReqID"]), ("TestRequest", ["TestReqID"]),
  ("ResendRequest", ["BeginSeqNo", "EndSeqNo"]), ("SequenceReset", ["NewSeqNo", "GapFillFlag"]),
  ("Reject", ["SessionRejectReason", "RefSeqNum", "RefTagID"]), ("ExecutionReport", []),
  ("NewOrderSingle", []), ("MarketDataRequest", []), ("OrderCancelRequest", [])]

def allowedGo : List (String × String) :=
  [("Float", "float64"), ("Int", "int"), ("Raw", "[]byte"), ("Bool", "bool"), ("String", "string"), ("Time", "time.Time")]

def fixTypeToGo (t : String) : String := (allowedGo.lookup t).getD "string"

structure GenCtx where
  typeCast : List (String × String)
  /-- fields with enumerated values whose type is not Bool -/
  enums : List FieldDef
  fields : List FieldDef

def GenCtx.isEnum (g : GenCtx) (name : String) : Bool := g.enums.any (·.name == name)
def GenCtx.field? (g : GenCtx) (name : String) : Option FieldDef := g.fields.find? (·.name == name)
def GenCtx.enum? (g : GenCtx) (name : String) : Option FieldDef := g.enums.find? (·.name == name)

/-- `typeToFix`: `none` = panic -/
def GenCtx.typeToFix (g : GenCtx) (t : String) : Option String :=
  match g.typeCast.lookup t with
  | some c => some c
  | none => if g.isEnum t then some "Raw" else none

/-- `makeType(fieldName)` -/
def GenCtx.makeType (g : GenCtx) (fieldName : String) : Option String :=
  match g.field? fieldName with
  | some f => g.typeToFix f.type
  | none => if g.isEnum fieldName then some ("Enum" ++ fieldName) else none

/-- `makeTypeConstructor`: the fix.Value type of the constructor item -/
def GenCtx.ctorType (g : GenCtx) (fieldName : String) : Option String :=
  match g.field? fieldName with
  | some f => g.typeToFix f.type
  | none => if g.isEnum fieldName then some "String" else none

def localName (s : String) : String :=
  match s.toList with
  | [] => ""
  | c :: cs => String.ofList (c.toLower :: cs)

/-- `strings.Replace(name, "No", "", 1)` -/
def dropFirstNo (s : String) : String :=
  let rec go : List Char → List Char
    | 'N' :: 'o' :: rest => rest
    | c :: rest => c :: go rest
    | [] => []
  String.ofList (go s.toList)

def grpType (name : String) : String := dropFirstNo name ++ "Grp"
def entryType (name : String) : String := dropFirstNo name ++ "Entry"

def memberGoType (g : GenCtx) (m : Member) : Option String :=
  match m.kind with
  | .component => some ("*" ++ m.name)
  | .group => some ("*" ++ grpType m.name)
  | .field => (g.makeType m.name).map fixTypeToGo

def memberItem (g : GenCtx) (m : Member) : Option ItemD :=
  match m.kind with
  | .component => some (.comp m.name)
  | .group => some (.grp (grpType m.name))
  | .field => (g.ctorType m.name).map fun t => .kv ("Field" ++ m.name) t

def memberAccName (m : Member) : String :=
  match m.kind with
  | .group => grpType m.name
  | _ => m.name

def accType (g : GenCtx) (m : Member) : Option String :=
  match m.kind with
  | .component => some m.name
  | .group => some (grpType m.name)
  | .field => (g.makeType m.name).map fixTypeToGo

/-- accessors of a member list: the i-th member gets index i -/
def mkAccs (g : GenCtx) : List Member → Nat → Option (List AccD)
  | [], _ => some []
  | m :: ms, i => do
    let t ← accType g m
    let rest ← mkAccs g ms (i + 1)
    pure ({ name := memberAccName m, index := i, goType := t, kind := m.kind } :: rest)

def mkItems (g : GenCtx) : List Member → Option (List ItemD)
  | [] => some []
  | m :: ms => do
    let it ← memberItem g m
    let rest ← mkItems g ms
    pure (it :: rest)

def mkArgs (g : GenCtx) : List Member → Option (List (String × String))
  | [] => some []
  | m :: ms => do
    let rest ← mkArgs g ms
    if m.required then
      let t ← memberGoType g m
      pure ((localName m.name, t) :: rest)
    else pure rest

def mkSetters (ms : List Member) : List String :=
  (ms.filter (·.required)).map fun m => "Set" ++ memberAccName m ++ "(" ++ localName m.name ++ ")"

/-- one generated struct type from its (already filtered) member list -/
def mkParent (g : GenCtx) (sort name extra : String) (ms : List Member) (withArgs : Bool) : Option ParentD := do
  let items ← mkItems g ms
  let accs ← mkAccs g ms 0
  let args ← if withArgs then mkArgs g ms else some []
  pure { sort, name, extra, items, args, setters := if withArgs then mkSetters ms else [], accs }

def notExcluded (ms : List Member) : List Member := ms.filter fun m => !excluded.contains m.name

mutual
  /-- groups in the order `prepare` grabs them (a later definition of the same name replaces an earlier one) -/
  def grabGroups : Member → List Member
    | ⟨k, n, r, ms⟩ => (if k == .group then [⟨k, n, r, ms⟩] else []) ++ grabList ms
  def grabList : List Member → List Member
    | [] => []
    | c :: cs => (if c.kind == .group then [c] else []) ++ grabGroups c ++ grabList cs
end

def allGroups (s : Schema) : List Member :=
  (s.messages.flatMap fun c => c.members.flatMap grabGroups)
  ++ (s.components.flatMap fun c => c.members.flatMap grabGroups)
  ++ s.header.members.flatMap grabGroups ++ s.trailer.members.flatMap grabGroups

/-- last definition per name, in first-appearance order of the names -/
def lastByName {α} (key : α → String) (l : List α) : List α :=
  let names := (l.map key).eraseDups
  names.filterMap fun n => (l.reverse.find? fun x => key x == n)

def hasDup (l : List String) : Bool := l.length != l.eraseDups.length

def capitalizePart (p : String) : Option String :=
  match p.toList with
  | [] => none                                    -- `part[0]` on an empty part panics
  | c :: cs => some (String.ofList (c :: cs.map Char.toLower))

def enumVariantName (enumName desc : String) : Option String := do
  let parts ← (desc.splitOn "_").mapM capitalizePart
  pure (enumName ++ String.join parts)

inductive GenResult
  | reject (why : String)
  | ok (consts : List (String × String)) (beginString : String) (parents : List ParentD)

def flowSetters (g : GenCtx) (names : List String) : Option (List (String × String)) :=
  names.mapM fun n => do
    let t ← g.makeType n
    pure (n, fixTypeToGo t)

def fieldConsts (s : Schema) : List (String × String) := s.fields.map fun f => ("Field" ++ f.name, f.number)
def msgConsts (s : Schema) : List (String × String) := s.messages.map fun m => ("MsgType" ++ m.name, m.msgType)

def enumConsts (g : GenCtx) : Option (List (String × String)) := do
  let l ← g.enums.mapM fun f => f.values.mapM fun v => do
    let n ← enumVariantName ("Enum" ++ f.name) v.2
    pure (n, v.1)
  pure l.flatten

/-- constants and struct types of an accepted schema (`none` = the generator panics on an unknown field or type) -/
def genBody (s : Schema) (g : GenCtx) (groups : List Member) : Option (List (String × String) × List ParentD) := do
  let ec ← enumConsts g
  let header ← mkParent g "comp" "Header" "" (notExcluded s.header.members) true
  let hflow ← flowSetters g headerFlow
  let trailer ← mkParent g "comp" "Trailer" "" (notExcluded s.trailer.members) true
  let msgs ← s.messages.mapM fun m => do
    let p ← mkParent g "msg" m.name m.msgType m.members true
    match defaultFlow.lookup m.name with
    | some fl => do
      let fs ← flowSetters g fl
      pure { p with fieldSetters := fs }
    | none => pure p
  let comps ← (lastByName (·.name) s.components).mapM fun c => mkParent g "comp" c.name "" (notExcluded c.members) true
  let grps ← groups.mapM fun gr => do
    let a ← mkParent g "group" (grpType gr.name) ("Field" ++ gr.name) gr.members false
    let e ← mkParent g "entry" (entryType gr.name) "" gr.members false
    pure [{ a with accs := [] }, e]
  pure (fieldConsts s ++ ec ++ msgConsts s,
        [{ header with fieldSetters := hflow }, trailer] ++ msgs ++ comps ++ grps.flatten)

/-- the generator -/
def gen (s : Schema) : GenResult :=
  -- initTypes
  if s.types.any (fun t => t.2 == "" || !(allowedGo.map (·.1)).contains t.2) then .reject "type mapping" else
  -- prepare
  if hasDup (s.fields.map (·.number)) then .reject "duplicate field number" else
  if hasDup (s.messages.map (·.msgType)) then .reject "duplicate msgtype" else
  let typeCast := lastByName (·.1) s.types
  let enums := s.fields.filter fun f => !f.values.isEmpty && typeCast.lookup f.type != some "Bool"
  let fields := s.fields.filter fun f => !( !f.values.isEmpty && typeCast.lookup f.type != some "Bool")
  let g : GenCtx := { typeCast, enums := lastByName (·.name) enums, fields := lastByName (·.name) fields }
  let groups := lastByName (·.name) (allGroups s)
  if groups.any (fun gr => gr.name == "" || gr.members.isEmpty) then .reject "empty group" else
  -- header / trailer validation
  if s.header.members.isEmpty then .reject "empty header" else
  if !(requiredHeader.all fun r => s.header.members.any (·.name == r)) then .reject "header fields" else
  if !(requiredTrailer.all fun r => s.trailer.members.any (·.name == r)) then .reject "trailer fields" else
  match genBody s g groups with
  | none => .reject "unknown field or type"
  | some (consts, parents) => .ok consts (s.typ ++ "." ++ s.major ++ "." ++ s.minor) parents

/-! ### canonical rendering -/

def kindStr : MKind → String
  | .field => "field" | .group => "group" | .component => "comp"

def renderItem : ItemD → String
  | .kv c t => "kv:" ++ c ++ ":" ++ t
  | .grp t => "grp:" ++ t
  | .comp t => "comp:" ++ t

def renderParent (p : ParentD) : List String :=
  [p.sort ++ " " ++ p.name ++ " " ++ p.extra ++ " : " ++ ",".intercalate (p.items.map renderItem)]
  ++ (if p.sort == "msg" || p.sort == "comp" then
        ["new " ++ p.name ++ " (" ++ ", ".intercalate (p.args.map fun a => a.1 ++ " " ++ a.2) ++ ") : " ++ ",".intercalate p.setters]
      else [])
  ++ (p.accs.map fun a => "acc " ++ p.name ++ "." ++ a.name ++ " idx=" ++ toString a.index ++ " type=" ++ a.goType ++ " kind=" ++ kindStr a.kind)
  ++ (p.fieldSetters.map fun f => "setfield " ++ p.name ++ ".SetField" ++ f.1 ++ " type=" ++ f.2)

def renderGen : GenResult → List String
  | .reject _ => ["reject"]
  | .ok consts bs parents =>
    (consts.map fun c => "const " ++ c.1 ++ "=" ++ c.2) ++ ["var beginString=" ++ bs] ++ parents.flatMap renderParent
