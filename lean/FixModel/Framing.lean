import FixModel.Bytes
/-!
# Framing — `Conn.runReader` as a byte-fed state machine, and FIFO pipelines (C04)

`bufio.Reader.ReadBytes(SOH)` returns everything up to and including the next SOH, however the
transport chunked it, so the reader is a function of the byte stream alone: it collects a segment
until SOH, appends it to the current message, and hands the message over when the segment is at
least three bytes long and starts with `10=`.
-/

def endOfMsgTag : Bytes := [49, 48, 61]   -- "10="

structure RState where
  seg : Bytes := []     -- bytes of the current segment read so far
  msg : Bytes := []     -- complete segments of the current message
deriving Repr, DecidableEq

def RState.idle : RState := {}

/-- one byte arrives -/
def feed (s : RState) (b : UInt8) : RState × Option Bytes :=
  let seg := s.seg ++ [b]
  if b = SOH then
    let msg := s.msg ++ seg
    if seg.length ≥ 3 ∧ seg.take 3 = endOfMsgTag then ({ seg := [], msg := [] }, some msg)
    else ({ seg := [], msg := msg }, none)
  else ({ s with seg := seg }, none)

/-- a chunk of bytes arrives: new state and the messages completed, in order -/
def feedAll (s : RState) : Bytes → RState × List Bytes
  | [] => (s, [])
  | b :: bs =>
    let r := feed s b
    let r2 := feedAll r.1 bs
    (r2.1, (match r.2 with | some m => [m] | none => []) ++ r2.2)

/-- feed a list of chunks (reads) one after the other -/
def feedChunks (s : RState) : List Bytes → RState × List Bytes
  | [] => (s, [])
  | c :: cs =>
    let r := feedAll s c
    let r2 := feedChunks r.1 cs
    (r2.1, r.2 ++ r2.2)

/-- the wire image of a message given as its fields (without delimiters) -/
def wireOf (fields : List Bytes) : Bytes := fields.flatMap (· ++ [SOH])

/-! ### pipelines of FIFO hand-offs -/

/-- stage `i` hands its oldest element to stage `i+1` (nothing happens if it has none or there is no
    next stage) -/
def moveStage {α} : List (List α) → Nat → List (List α)
  | [], _ => []
  | [q], _ => [q]
  | (x :: q) :: q' :: rest, 0 => q :: (q' ++ [x]) :: rest
  | [] :: q' :: rest, 0 => [] :: q' :: rest
  | q :: q' :: rest, i + 1 => q :: moveStage (q' :: rest) i

def runStages {α} (qs : List (List α)) : List Nat → List (List α)
  | [] => qs
  | i :: is => runStages (moveStage qs i) is

/-- everything in the pipeline, most advanced first -/
def inOrder {α} (qs : List (List α)) : List α := qs.reverse.flatten
