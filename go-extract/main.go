// extract: reads /repo's source (go/packages: parser + type checker) and regenerates the Lean
// fact tables the concurrency theorems are instantiated with.
//
//	extract -repo /repo -out DIR      writes DIR/Facts.lean and DIR/facts.json
package main

import (
	"encoding/json"
	"flag"
	"fmt"
	"go/ast"
	"go/constant"
	"go/token"
	"go/types"
	"os"
	"path/filepath"
	"sort"
	"strings"

	"golang.org/x/tools/go/packages"
)

var (
	repo = flag.String("repo", "/repo", "")
	out  = flag.String("out", "", "")

	modelledFile = flag.String("modelled", "/verif/go-extract/modelled_funcs.txt", "functions known to the hand-written expectations")
	dumpFuncs    = flag.Bool("dump-funcs", false, "print the names of all functions of the analysed packages and exit")
)

const modPath = "github.com/b2broker/simplefix-go"

type access struct {
	Loc    string   `json:"loc"`
	Write  bool     `json:"write"`
	Atomic bool     `json:"atomic"`
	Func   string   `json:"func"`
	Ctor   bool     `json:"ctor"`
	Locks  []string `json:"locks"` // "name" (exclusive) or "name:r" (shared)
	Pos    string   `json:"pos"`
}

type block struct {
	Func    string   `json:"func"`
	Kind    string   `json:"kind"` // send recv select range wait
	Chan    string   `json:"chan"`
	Arms    []string `json:"arms"`
	Default bool     `json:"default"`
	Pos     string   `json:"pos"`
}

type facts struct {
	Access   []access            `json:"access"`
	Blocks   []block             `json:"blocks"`
	Paths    map[string][]string `json:"paths"`
	Consts   map[string]string   `json:"consts"`
	GoStarts []string            `json:"go_starts"`
	Callers  map[string][]string `json:"callers"`
	Raw      map[string][]string `json:"-"`
	Formulas []formula           `json:"formulas"`
}

var fset *token.FileSet

func shortPkg(p *types.Package) string {
	if p == nil {
		return ""
	}
	s := strings.TrimPrefix(p.Path(), modPath)
	s = strings.TrimPrefix(s, "/")
	if s == "" {
		return "root"
	}
	return strings.ReplaceAll(s, "/", ".")
}

func inRepo(p *types.Package) bool { return p != nil && strings.HasPrefix(p.Path(), modPath) }

// namedOf returns the named struct type behind t (through pointers).
func namedOf(t types.Type) *types.Named {
	for {
		switch x := t.(type) {
		case *types.Pointer:
			t = x.Elem()
		case *types.Named:
			return x
		default:
			return nil
		}
	}
}

// fieldName: "pkg.Type.field" for a selector that denotes a struct field of a repo type.
func fieldName(info *types.Info, sel *ast.SelectorExpr) (string, bool) {
	s, ok := info.Selections[sel]
	if !ok || s.Kind() != types.FieldVal {
		return "", false
	}
	v, ok := s.Obj().(*types.Var)
	if !ok || !v.IsField() || !inRepo(v.Pkg()) {
		return "", false
	}
	// owner type: walk the selection path
	recv := s.Recv()
	n := namedOf(recv)
	owner := "?"
	if n != nil {
		owner = n.Obj().Name()
		// embedded path: find the struct that declares the field
		idx := s.Index()
		t := n.Underlying()
		for i := 0; i < len(idx)-1; i++ {
			st, ok := t.(*types.Struct)
			if !ok {
				break
			}
			f := st.Field(idx[i])
			if nn := namedOf(f.Type()); nn != nil {
				owner = nn.Obj().Name()
				t = nn.Underlying()
			}
		}
	}
	fname := v.Name()
	if isMutex(v.Type()) && n != nil {
		// the only mutex of a struct is named by its role, not by its identifier
		t := n.Underlying()
		idx := s.Index()
		for i := 0; i < len(idx)-1; i++ {
			if st, ok := t.(*types.Struct); ok {
				if nn := namedOf(st.Field(idx[i]).Type()); nn != nil {
					t = nn.Underlying()
				}
			}
		}
		if st, ok := t.(*types.Struct); ok {
			// a struct's only sync.Mutex is <mutex>, its only sync.RWMutex is <rwmutex>, whatever they are called
			kind := func(t types.Type) string { return t.(*types.Named).Obj().Name() }
			cnt := 0
			for i := 0; i < st.NumFields(); i++ {
				if isMutex(st.Field(i).Type()) && kind(st.Field(i).Type()) == kind(v.Type()) {
					cnt++
				}
			}
			if cnt == 1 {
				fname = "<" + strings.ToLower(kind(v.Type())) + ">"
			}
		}
	}
	return shortPkg(v.Pkg()) + "." + owner + "." + fname, true
}

func isMutex(t types.Type) bool {
	n, ok := t.(*types.Named)
	return ok && n.Obj().Pkg() != nil && n.Obj().Pkg().Path() == "sync" && (n.Obj().Name() == "Mutex" || n.Obj().Name() == "RWMutex")
}

type walker struct {
	info  *types.Info
	pkg   *types.Package
	f     *facts
	fn    string
	ctor  bool
	locks []string
	calls map[string]bool
}

func pos(p token.Pos) string {
	pp := fset.Position(p)
	return filepath.Base(pp.Filename) + ":" + fmt.Sprint(pp.Line)
}

func (w *walker) exprName(e ast.Expr) string {
	switch x := e.(type) {
	case *ast.SelectorExpr:
		if n, ok := fieldName(w.info, x); ok {
			return n
		}
		return w.exprName(x.X) + "." + x.Sel.Name
	case *ast.Ident:
		if obj := w.info.Uses[x]; obj != nil {
			if v, ok := obj.(*types.Var); ok && !v.IsField() {
				if n := namedOf(v.Type()); n != nil && inRepo(n.Obj().Pkg()) {
					return n.Obj().Name()
				}
				return x.Name
			}
		}
		return x.Name
	case *ast.CallExpr:
		return w.exprName(x.Fun) + "()"
	case *ast.StarExpr:
		return w.exprName(x.X)
	case *ast.UnaryExpr:
		return w.exprName(x.X)
	}
	return "?"
}

// chanName: a channel expression -> "pkg.Type.field" or "X.Done()" form.
func (w *walker) chanName(e ast.Expr) string {
	if c, ok := e.(*ast.CallExpr); ok {
		// ctx.Done(), h.Outgoing(), conn.Reader(), time.After(..)
		if s, ok := c.Fun.(*ast.SelectorExpr); ok {
			base := w.exprName(s.X)
			if s.Sel.Name == "After" {
				return "time.After"
			}
			return base + "." + s.Sel.Name + "()"
		}
	}
	if id, ok := e.(*ast.Ident); ok {
		if v, ok := w.info.Uses[id].(*types.Var); ok && !v.IsField() && v.Parent() != nil && v.Parent() != v.Pkg().Scope() {
			return "<local>" // a local channel variable: its name is nobody's business
		}
	}
	return w.exprName(e)
}

func isSyncMethod(info *types.Info, call *ast.CallExpr) (recv ast.Expr, name string, ok bool) {
	s, isSel := call.Fun.(*ast.SelectorExpr)
	if !isSel {
		return nil, "", false
	}
	sel, has := info.Selections[s]
	if !has {
		return nil, "", false
	}
	fn, isFn := sel.Obj().(*types.Func)
	if !isFn || fn.Pkg() == nil {
		return nil, "", false
	}
	if fn.Pkg().Path() == "sync" {
		return s.X, fn.Name(), true
	}
	return nil, "", false
}

func (w *walker) record(sel *ast.SelectorExpr, write, atomic bool) {
	name, ok := fieldName(w.info, sel)
	if !ok {
		return
	}
	// a field of a local struct VALUE (`clone := *settings; clone.f = …`, a by-value parameter) is the function's own
	// memory, not shared state: it cannot take part in a race before its address leaves the function
	if id, isID := sel.X.(*ast.Ident); isID {
		if v, isVar := w.info.Uses[id].(*types.Var); isVar && !v.IsField() && v.Parent() != nil && v.Pkg() != nil && v.Parent() != v.Pkg().Scope() {
			if _, isStruct := v.Type().Underlying().(*types.Struct); isStruct {
				return
			}
		}
	}
	// skip accesses to the mutex / waitgroup / once fields themselves and to method values
	if v, ok := w.info.Selections[sel].Obj().(*types.Var); ok {
		if n := namedOf(v.Type()); n != nil && n.Obj().Pkg() != nil && n.Obj().Pkg().Path() == "sync" {
			return
		}
	}
	w.f.Access = append(w.f.Access, access{Loc: name, Write: write, Atomic: atomic, Func: w.fn, Ctor: w.ctor,
		Locks: append([]string{}, w.locks...), Pos: pos(sel.Pos())})
}

func (w *walker) hold(name string) {
	w.locks = append(w.locks, name)
}

func (w *walker) release(name string) {
	for i := len(w.locks) - 1; i >= 0; i-- {
		if strings.TrimSuffix(w.locks[i], ":r") == name {
			w.locks = append(w.locks[:i], w.locks[i+1:]...)
			return
		}
	}
}

// walkExpr records reads in e; writes are recorded by the statement walker.
func (w *walker) walkExpr(e ast.Expr) {
	if e == nil {
		return
	}
	switch x := e.(type) {
	case *ast.FuncLit:
		w.closure(x)
		return
	case *ast.CallExpr:
		// sync/atomic on &x.f
		if s, ok := x.Fun.(*ast.SelectorExpr); ok {
			if id, ok := s.X.(*ast.Ident); ok {
				if pn, ok := w.info.Uses[id].(*types.PkgName); ok && pn.Imported().Path() == "sync/atomic" {
					for _, a := range x.Args {
						if u, ok := a.(*ast.UnaryExpr); ok && u.Op == token.AND {
							if sel, ok := u.X.(*ast.SelectorExpr); ok {
								w.record(sel, !strings.HasPrefix(s.Sel.Name, "Load"), true)
								w.walkExpr(sel.X)
								continue
							}
						}
						w.walkExpr(a)
					}
					return
				}
			}
		}
		if recv, name, ok := isSyncMethod(w.info, x); ok {
			ln := w.exprName(recv)
			switch name {
			case "Lock":
				w.hold(ln)
				w.f.Paths[w.fn] = append(w.f.Paths[w.fn], "lock "+ln)
			case "RLock":
				w.hold(ln + ":r")
				w.f.Paths[w.fn] = append(w.f.Paths[w.fn], "rlock "+ln)
			case "Unlock", "RUnlock":
				w.release(ln)
				w.f.Paths[w.fn] = append(w.f.Paths[w.fn], "unlock "+ln)
			case "Wait":
				w.f.Blocks = append(w.f.Blocks, block{Func: w.fn, Kind: "wait", Chan: ln, Pos: pos(x.Pos())})
			}
			return
		}
		// close(ch)
		if id, ok := x.Fun.(*ast.Ident); ok && id.Name == "close" && len(x.Args) == 1 {
			w.f.Paths[w.fn] = append(w.f.Paths[w.fn], "close "+w.chanName(x.Args[0]))
		}
		// delete(x.f, k) writes the map held in the field
		if id, ok := x.Fun.(*ast.Ident); ok && id.Name == "delete" && len(x.Args) == 2 {
			if sel, ok := x.Args[0].(*ast.SelectorExpr); ok {
				w.record(sel, true, false)
				w.walkExpr(sel.X)
				w.walkExpr(x.Args[1])
				return
			}
		}
		// errgroup.Group.Go(f) starts a goroutine
		if s, ok := x.Fun.(*ast.SelectorExpr); ok && s.Sel.Name == "Go" && len(x.Args) == 1 {
			if t := w.info.TypeOf(s.X); t != nil && strings.Contains(t.String(), "errgroup") {
				if _, isLit := x.Args[0].(*ast.FuncLit); isLit {
					w.f.GoStarts = append(w.f.GoStarts, w.fn+" -> "+fmt.Sprintf("%s$%d", w.fn, closureCount[w.fn]+1)+" (errgroup)")
				} else {
					w.f.GoStarts = append(w.f.GoStarts, w.fn+" -> "+w.exprName(x.Args[0])+" (errgroup)")
				}
			}
		}
		// record the call (qualified callee) for the path tables
		if callee := w.calleeName(x); callee != "" {
			switch callee {
			case "bufio.Reader.ReadBytes", "net.Conn.Read":
				w.f.Blocks = append(w.f.Blocks, block{Func: w.fn, Kind: "netread", Chan: w.exprName(x.Fun.(*ast.SelectorExpr).X), Pos: pos(x.Pos())})
			case "net.Conn.Write":
				w.f.Blocks = append(w.f.Blocks, block{Func: w.fn, Kind: "netwrite", Chan: w.exprName(x.Fun.(*ast.SelectorExpr).X), Pos: pos(x.Pos())})
			case "net.Listener.Accept":
				w.f.Blocks = append(w.f.Blocks, block{Func: w.fn, Kind: "accept", Chan: w.exprName(x.Fun.(*ast.SelectorExpr).X), Pos: pos(x.Pos())})
			}
			w.calls[callee] = true
			callSiteLocks[callee] = append(callSiteLocks[callee], append([]string{}, w.locks...))
		}
		// receiver and arguments are evaluated before the call happens
		if fs, ok := x.Fun.(*ast.SelectorExpr); ok {
			w.record(fs, false, false)
			w.walkExpr(fs.X)
		} else {
			w.walkExpr(x.Fun)
		}
		for _, a := range x.Args {
			// a func-typed field handed over as a callback (time.AfterFunc(d, s.cancel)) is `func() { s.cancel() }`
			if as, ok := a.(*ast.SelectorExpr); ok {
				if sel, ok := w.info.Selections[as]; ok && sel.Kind() == types.FieldVal {
					if _, isFunc := sel.Type().Underlying().(*types.Signature); isFunc {
						if n, ok := fieldName(w.info, as); ok {
							w.f.Paths[w.fn] = append(w.f.Paths[w.fn], "fnfield "+n)
						}
					}
				}
			}
			w.walkExpr(a)
		}
		if callee := w.calleeName(x); callee != "" {
			w.f.Paths[w.fn] = append(w.f.Paths[w.fn], "call "+callee)
			if strings.HasSuffix(callee, ".Wait") && strings.Contains(callee, "errgroup") {
				w.f.Blocks = append(w.f.Blocks, block{Func: w.fn, Kind: "wait", Chan: "errgroup", Pos: pos(x.Pos())})
			}
		}
		return
	case *ast.SelectorExpr:
		// a method value (s.onLogout passed as a handler, go-ed or deferred later): code that runs on behalf of this function
		if sel, ok := w.info.Selections[x]; ok && sel.Kind() == types.MethodVal {
			if fn, ok := sel.Obj().(*types.Func); ok && inRepo(fn.Pkg()) {
				if n := namedOf(sel.Recv()); n != nil {
					w.f.Paths[w.fn] = append(w.f.Paths[w.fn], "fn "+shortPkg(fn.Pkg())+"."+n.Obj().Name()+"."+fn.Name())
				}
			}
		}
		w.record(x, false, false)
		w.walkExpr(x.X)
		return
	case *ast.UnaryExpr:
		if x.Op == token.ARROW {
			w.f.Blocks = append(w.f.Blocks, block{Func: w.fn, Kind: "recv", Chan: w.chanName(x.X), Pos: pos(x.Pos())})
		}
		w.walkExpr(x.X)
		return
	}
	ast.Inspect(e, func(n ast.Node) bool {
		if n == e {
			return true
		}
		if ex, ok := n.(ast.Expr); ok {
			w.walkExpr(ex)
			return false
		}
		return true
	})
}

func (w *walker) calleeName(c *ast.CallExpr) string {
	switch f := c.Fun.(type) {
	case *ast.SelectorExpr:
		if sel, ok := w.info.Selections[f]; ok && sel.Kind() == types.FieldVal {
			if n, ok := fieldName(w.info, f); ok {
				return "field:" + n
			}
		}
		if sel, ok := w.info.Selections[f]; ok {
			if fn, ok := sel.Obj().(*types.Func); ok {
				recv := ""
				if n := namedOf(sel.Recv()); n != nil {
					recv = n.Obj().Name()
				} else if it, ok := sel.Recv().Underlying().(*types.Interface); ok && it != nil {
					recv = w.exprName(f.X)
				}
				pk := ""
				if fn.Pkg() != nil {
					pk = shortPkgAny(fn.Pkg())
				}
				return pk + "." + recv + "." + fn.Name()
			}
		}
		if id, ok := f.X.(*ast.Ident); ok {
			if pn, ok := w.info.Uses[id].(*types.PkgName); ok {
				return shortPkgAny(pn.Imported()) + "." + f.Sel.Name
			}
		}
	case *ast.Ident:
		if fn, ok := w.info.Uses[f].(*types.Func); ok {
			return shortPkgAny(fn.Pkg()) + "." + fn.Name()
		}
	}
	return ""
}

func shortPkgAny(p *types.Package) string {
	if p == nil {
		return ""
	}
	if inRepo(p) {
		return shortPkg(p)
	}
	return p.Path()
}

var closureCount = map[string]int{}

// locks held at every call site of a function (for unexported helpers that run under their caller's lock)
var callSiteLocks = map[string][][]string{}

func (w *walker) closure(fl *ast.FuncLit) {
	closureCount[w.fn]++
	sub := &walker{info: w.info, pkg: w.pkg, f: w.f, fn: fmt.Sprintf("%s$%d", w.fn, closureCount[w.fn]), ctor: false, calls: map[string]bool{}}
	w.f.Paths[w.fn] = append(w.f.Paths[w.fn], "fn "+sub.fn)
	sub.walkBlock(fl.Body)
	w.f.Callers[sub.fn] = keys(sub.calls)
}

func keys(m map[string]bool) []string {
	var out []string
	for k := range m {
		out = append(out, k)
	}
	sort.Strings(out)
	return out
}

func (w *walker) walkLHS(e ast.Expr) {
	switch x := e.(type) {
	case *ast.SelectorExpr:
		w.record(x, true, false)
		w.walkExpr(x.X)
	case *ast.IndexExpr:
		// m[k] = v writes the map held in the field
		if sel, ok := x.X.(*ast.SelectorExpr); ok {
			w.record(sel, true, false)
			w.walkExpr(sel.X)
		} else {
			w.walkExpr(x.X)
		}
		w.walkExpr(x.Index)
	case *ast.StarExpr:
		w.walkExpr(x.X)
	case *ast.Ident:
	default:
		w.walkExpr(e)
	}
}

func (w *walker) commArm(s ast.Stmt) string {
	switch c := s.(type) {
	case *ast.SendStmt:
		w.walkExpr(c.Value)
		return "send:" + w.chanName(c.Chan)
	case *ast.ExprStmt:
		if u, ok := c.X.(*ast.UnaryExpr); ok && u.Op == token.ARROW {
			return "recv:" + w.chanName(u.X)
		}
	case *ast.AssignStmt:
		if len(c.Rhs) == 1 {
			if u, ok := c.Rhs[0].(*ast.UnaryExpr); ok && u.Op == token.ARROW {
				return "recv:" + w.chanName(u.X)
			}
		}
	}
	return "?"
}

func (w *walker) walkStmt(s ast.Stmt) {
	switch x := s.(type) {
	case nil:
	case *ast.BlockStmt:
		w.walkBlock(x)
	case *ast.ExprStmt:
		w.walkExpr(x.X)
	case *ast.AssignStmt:
		for _, r := range x.Rhs {
			w.walkExpr(r)
		}
		for _, l := range x.Lhs {
			if x.Tok != token.ASSIGN && x.Tok != token.DEFINE {
				// op-assign also reads
				w.walkExpr(l)
			}
			w.walkLHS(l)
		}
	case *ast.IncDecStmt:
		w.walkExpr(x.X)
		w.walkLHS(x.X)
	case *ast.SendStmt:
		w.walkExpr(x.Value)
		w.f.Blocks = append(w.f.Blocks, block{Func: w.fn, Kind: "send", Chan: w.chanName(x.Chan), Pos: pos(x.Pos())})
		w.f.Paths[w.fn] = append(w.f.Paths[w.fn], "chan-send "+w.chanName(x.Chan))
		w.walkExpr(x.Chan)
	case *ast.GoStmt:
		w.f.GoStarts = append(w.f.GoStarts, w.fn+" -> "+w.goTarget(x.Call))
		w.f.Paths[w.fn] = append(w.f.Paths[w.fn], "go")
		w.walkExpr(x.Call)
	case *ast.DeferStmt:
		// defer atomic.AddInt64(&x.f, -1): an atomic access like any other
		if fs, ok := x.Call.Fun.(*ast.SelectorExpr); ok {
			if id, ok := fs.X.(*ast.Ident); ok {
				if pn, ok := w.info.Uses[id].(*types.PkgName); ok && pn.Imported().Path() == "sync/atomic" {
					w.walkExpr(x.Call)
					return
				}
			}
		}
		// defer mu.Unlock(): the lock stays held to the end of the function
		if _, name, ok := isSyncMethod(w.info, x.Call); ok && (name == "Unlock" || name == "RUnlock") {
			w.f.Paths[w.fn] = append(w.f.Paths[w.fn], "defer-unlock "+w.exprName(x.Call.Fun.(*ast.SelectorExpr).X))
			return
		}
		if fl, ok := x.Call.Fun.(*ast.FuncLit); ok {
			w.f.Paths[w.fn] = append(w.f.Paths[w.fn], "defer-closure")
			w.closure(fl)
			return
		}
		if callee := w.calleeName(x.Call); callee != "" {
			w.f.Paths[w.fn] = append(w.f.Paths[w.fn], "defer "+callee)
		} else if id, ok := x.Call.Fun.(*ast.Ident); ok && id.Name == "close" && len(x.Call.Args) == 1 {
			w.f.Paths[w.fn] = append(w.f.Paths[w.fn], "defer close "+w.chanName(x.Call.Args[0]))
		}
		for _, a := range x.Call.Args {
			w.walkExpr(a)
		}
		if s, ok := x.Call.Fun.(*ast.SelectorExpr); ok {
			w.walkExpr(s.X)
		}
	case *ast.ReturnStmt:
		for _, r := range x.Results {
			w.walkExpr(r)
		}
	case *ast.IfStmt:
		w.walkStmt(x.Init)
		w.walkExpr(x.Cond)
		saved := append([]string{}, w.locks...)
		w.walkBlock(x.Body)
		w.locks = append([]string{}, saved...)
		w.walkStmt(x.Else)
		w.locks = saved
	case *ast.ForStmt:
		w.walkStmt(x.Init)
		w.walkExpr(x.Cond)
		w.walkStmt(x.Post)
		w.walkBlock(x.Body)
	case *ast.RangeStmt:
		if t, ok := w.info.TypeOf(x.X).Underlying().(*types.Chan); ok && t != nil {
			w.f.Blocks = append(w.f.Blocks, block{Func: w.fn, Kind: "range", Chan: w.chanName(x.X), Pos: pos(x.Pos())})
		}
		w.walkExpr(x.X)
		w.walkBlock(x.Body)
	case *ast.SwitchStmt:
		w.walkStmt(x.Init)
		w.walkExpr(x.Tag)
		for _, c := range x.Body.List {
			cc := c.(*ast.CaseClause)
			for _, e := range cc.List {
				w.walkExpr(e)
			}
			saved := append([]string{}, w.locks...)
			for _, st := range cc.Body {
				w.walkStmt(st)
			}
			w.locks = saved
		}
	case *ast.TypeSwitchStmt:
		w.walkStmt(x.Init)
		w.walkStmt(x.Assign)
		for _, c := range x.Body.List {
			cc := c.(*ast.CaseClause)
			saved := append([]string{}, w.locks...)
			for _, st := range cc.Body {
				w.walkStmt(st)
			}
			w.locks = saved
		}
	case *ast.SelectStmt:
		b := block{Func: w.fn, Kind: "select", Pos: pos(x.Pos())}
		for _, c := range x.Body.List {
			cc := c.(*ast.CommClause)
			if cc.Comm == nil {
				b.Default = true
			} else {
				b.Arms = append(b.Arms, w.commArm(cc.Comm))
			}
		}
		sort.Strings(b.Arms)
		w.f.Blocks = append(w.f.Blocks, b)
		for _, a := range b.Arms {
			if strings.HasPrefix(a, "send:") {
				w.f.Paths[w.fn] = append(w.f.Paths[w.fn], "chan-send "+strings.TrimPrefix(a, "send:"))
			}
		}
		for _, c := range x.Body.List {
			cc := c.(*ast.CommClause)
			saved := append([]string{}, w.locks...)
			for _, st := range cc.Body {
				w.walkStmt(st)
			}
			w.locks = saved
		}
	case *ast.DeclStmt:
		if gd, ok := x.Decl.(*ast.GenDecl); ok {
			for _, sp := range gd.Specs {
				if vs, ok := sp.(*ast.ValueSpec); ok {
					for _, v := range vs.Values {
						w.walkExpr(v)
					}
				}
			}
		}
	case *ast.LabeledStmt:
		w.walkStmt(x.Stmt)
	case *ast.BranchStmt, *ast.EmptyStmt:
	default:
	}
}

func (w *walker) goTarget(c *ast.CallExpr) string {
	if _, ok := c.Fun.(*ast.FuncLit); ok {
		return fmt.Sprintf("%s$%d", w.fn, closureCount[w.fn]+1)
	}
	return w.calleeName(c)
}

func (w *walker) walkBlock(b *ast.BlockStmt) {
	if b == nil {
		return
	}
	for _, s := range b.List {
		w.walkStmt(s)
	}
}

func funcName(pkg *types.Package, fd *ast.FuncDecl) (string, string) {
	recv := ""
	if fd.Recv != nil && len(fd.Recv.List) > 0 {
		t := fd.Recv.List[0].Type
		if s, ok := t.(*ast.StarExpr); ok {
			t = s.X
		}
		if id, ok := t.(*ast.Ident); ok {
			recv = id.Name
		}
	}
	return shortPkg(pkg) + "." + recv + "." + fd.Name.Name, recv
}

var isRepoFunc = map[string]bool{}

// loadModelled reads the list of functions the hand-written expectations were written against
// (one name per line, next to the extractor's source or given with -modelled).
func loadModelled() map[string]bool {
	b, err := os.ReadFile(*modelledFile)
	if err != nil {
		return nil
	}
	m := map[string]bool{}
	for _, l := range strings.Split(string(b), "\n") {
		if l = strings.TrimSpace(l); l != "" {
			m[l] = true
		}
	}
	return m
}

func main() {
	flag.Parse()
	if *out == "" {
		fmt.Fprintln(os.Stderr, "need -out")
		os.Exit(2)
	}
	fset = token.NewFileSet()
	cfg := &packages.Config{Mode: packages.NeedName | packages.NeedFiles | packages.NeedSyntax | packages.NeedTypes | packages.NeedTypesInfo | packages.NeedImports | packages.NeedDeps,
		Dir: *repo, Fset: fset, Env: append(os.Environ(), "GOFLAGS=-mod=mod", "GOPROXY=off", "GOSUMDB=off", "GOTOOLCHAIN=local")}
	pkgs, err := packages.Load(cfg, ".", "./session", "./storages/memory", "./utils", "./fix")
	if err != nil {
		fmt.Fprintln(os.Stderr, err)
		os.Exit(1)
	}
	f := &facts{Paths: map[string][]string{}, Consts: map[string]string{}, Callers: map[string][]string{}}
	// a fixed package order, so that the generated file is byte-identical from run to run on the same source
	sort.Slice(pkgs, func(i, j int) bool { return pkgs[i].PkgPath < pkgs[j].PkgPath })
	for _, p := range pkgs {
		if len(p.Errors) > 0 {
			fmt.Fprintln(os.Stderr, "type errors in", p.PkgPath, p.Errors)
			os.Exit(1)
		}
		// constants
		sc := p.Types.Scope()
		for _, n := range sc.Names() {
			if c, ok := sc.Lookup(n).(*types.Const); ok {
				v := c.Val()
				s := v.ExactString()
				if v.Kind() == constant.String {
					s = constant.StringVal(v)
				}
				f.Consts[shortPkg(p.Types)+"."+n] = s
			}
		}
		if shortPkg(p.Types) == "fix" {
			continue // only constants from fix
		}
		for _, file := range p.Syntax {
			if strings.HasSuffix(fset.Position(file.Pos()).Filename, "_test.go") {
				continue
			}
			for _, d := range file.Decls {
				fd, ok := d.(*ast.FuncDecl)
				if !ok || fd.Body == nil {
					continue
				}
				name, _ := funcName(p.Types, fd)
				isRepoFunc[name] = true
				recordFormulas(p.TypesInfo, fd, &f.Formulas)
				ctor := fd.Recv == nil && (strings.HasPrefix(fd.Name.Name, "New") || strings.HasPrefix(fd.Name.Name, "new"))
				w := &walker{info: p.TypesInfo, pkg: p.Types, f: f, fn: name, ctor: ctor, calls: map[string]bool{}}
				w.walkBlock(fd.Body)
				f.Callers[name] = keys(w.calls)
			}
		}
	}
	if *dumpFuncs {
		var names []string
		for n := range isRepoFunc {
			names = append(names, n)
		}
		sort.Strings(names)
		fmt.Println(strings.Join(names, "\n"))
		return
	}
	// helper functions the models do not know (extracted by a later refactor) are inlined into their callers'
	// op lists: `modelled_funcs.txt` lists every function that existed when the expectations were written
	f.Raw = map[string][]string{}
	for k, v := range f.Paths {
		f.Raw[k] = append([]string{}, v...)
	}
	if modelled := loadModelled(); modelled != nil {
		var expand func(fn string, depth int) []string
		expand = func(fn string, depth int) []string {
			var outOps []string
			for _, op := range f.Paths[fn] {
				callee := strings.TrimPrefix(op, "call ")
				if callee != op && depth < 6 && !modelled[callee] && !strings.Contains(callee, "$") {
					if _, known := f.Paths[callee]; known || isRepoFunc[callee] {
						outOps = append(outOps, expand(callee, depth+1)...)
						continue
					}
				}
				outOps = append(outOps, op)
			}
			return outOps
		}
		np := map[string][]string{}
		for fn := range f.Paths {
			if modelled[fn] || strings.Contains(fn, "$") {
				np[fn] = expand(fn, 0)
			}
		}
		// closures of modelled functions keep their own lists; unknown helpers disappear from the tables
		f.Paths = np
		// … and what an unknown helper calls is called by its callers
		for round := 0; round < 6; round++ {
			for fn, cs := range f.Callers {
				var ncs []string
				seen := map[string]bool{}
				for _, c := range cs {
					if !modelled[c] && isRepoFunc[c] && !strings.Contains(c, "$") {
						for _, cc := range f.Callers[c] {
							if !seen[cc] {
								seen[cc] = true
								ncs = append(ncs, cc)
							}
						}
						continue
					}
					if !seen[c] {
						seen[c] = true
						ncs = append(ncs, c)
					}
				}
				f.Callers[fn] = ncs
			}
		}
		for fn := range f.Callers {
			if !modelled[fn] && isRepoFunc[fn] && !strings.Contains(fn, "$") {
				delete(f.Callers, fn)
			}
		}
	}
	// an unexported method inherits the locks all of its call sites hold
	for i := range f.Access {
		a := &f.Access[i]
		parts := strings.Split(a.Func, ".")
		name := parts[len(parts)-1]
		if name == "" || strings.Contains(name, "$") || !(name[0] >= 'a' && name[0] <= 'z') {
			continue
		}
		sites := callSiteLocks[a.Func]
		if len(sites) == 0 {
			continue
		}
		common := map[string]int{}
		for _, ls := range sites {
			seen := map[string]bool{}
			for _, l := range ls {
				if !seen[l] {
					seen[l] = true
					common[l]++
				}
			}
		}
		for l, n := range common {
			if n == len(sites) {
				has := false
				for _, x := range a.Locks {
					has = has || x == l
				}
				if !has {
					a.Locks = append(a.Locks, l)
				}
			}
		}
	}
	sort.SliceStable(f.Access, func(i, j int) bool {
		a, b := f.Access[i], f.Access[j]
		if a.Loc != b.Loc {
			return a.Loc < b.Loc
		}
		if a.Func != b.Func {
			return a.Func < b.Func
		}
		return a.Pos < b.Pos
	})
	sort.SliceStable(f.Blocks, func(i, j int) bool {
		a, b := f.Blocks[i], f.Blocks[j]
		if a.Func != b.Func {
			return a.Func < b.Func
		}
		return a.Pos < b.Pos
	})
	sort.Strings(f.GoStarts)
	_ = os.MkdirAll(*out, 0o755)
	js, _ := json.MarshalIndent(f, "", " ")
	_ = os.WriteFile(filepath.Join(*out, "facts.json"), js, 0o644)
	writeLean(f, filepath.Join(*out, "Facts.lean"))
}
