package main

// Formula facts: the expressions that fix the timer arithmetic, printed in a canonical form that does
// not depend on the names of locals, parameters or receivers:
//   - a local defined exactly once by `x := e` (and never assigned again) is replaced by `e`
//   - the receiver is printed as $r, the i-th parameter as $i
// so that renaming a local or a parameter, or inlining/introducing a temporary, leaves the facts unchanged.

import (
	"go/ast"
	"go/parser"
	"go/printer"
	"go/token"
	"go/types"
	"sort"
	"strconv"
	"strings"

	"golang.org/x/tools/go/ast/astutil"
)

type formula struct{ Key, Val string }

func exprText(e ast.Expr) string {
	var sb strings.Builder
	_ = printer.Fprint(&sb, token.NewFileSet(), e)
	return strings.Join(strings.Fields(sb.String()), " ")
}

// localDefs maps the names a function declares once (and never reassigns) to their defining expressions,
// and its receiver / parameters to $r / $i.
func localDefs(fd *ast.FuncDecl) (defs map[string]ast.Expr, names map[string]string) {
	defs, names = map[string]ast.Expr{}, map[string]string{}
	count := map[string]int{}
	ast.Inspect(fd.Body, func(n ast.Node) bool {
		switch s := n.(type) {
		case *ast.AssignStmt:
			for i, l := range s.Lhs {
				id, ok := l.(*ast.Ident)
				if !ok {
					continue
				}
				count[id.Name]++
				if s.Tok == token.DEFINE && len(s.Lhs) == len(s.Rhs) {
					defs[id.Name] = s.Rhs[i]
				}
			}
		case *ast.IncDecStmt:
			if id, ok := s.X.(*ast.Ident); ok {
				count[id.Name] += 2
			}
		case *ast.RangeStmt:
			for _, l := range []ast.Expr{s.Key, s.Value} {
				if id, ok := l.(*ast.Ident); ok {
					count[id.Name] += 2
				}
			}
		}
		return true
	})
	for n, c := range count {
		if c != 1 {
			delete(defs, n)
		}
	}
	if fd.Recv != nil && len(fd.Recv.List) == 1 && len(fd.Recv.List[0].Names) == 1 {
		names[fd.Recv.List[0].Names[0].Name] = "$r"
	}
	i := 0
	for _, p := range fd.Type.Params.List {
		for _, n := range p.Names {
			names[n.Name] = "$" + strconv.Itoa(i)
			i++
		}
	}
	return
}

func canonExpr(fd *ast.FuncDecl, e ast.Expr) string {
	defs, names := localDefs(fd)
	var rec func(e ast.Expr, depth int) ast.Expr
	rec = func(e ast.Expr, depth int) ast.Expr {
		cp, err := parser.ParseExpr(exprText(e))
		if err != nil {
			return e
		}
		holder := &ast.ParenExpr{X: cp}
		astutil.Apply(holder, func(c *astutil.Cursor) bool {
			id, ok := c.Node().(*ast.Ident)
			if !ok {
				return true
			}
			switch p := c.Parent().(type) {
			case *ast.SelectorExpr:
				if p.Sel == id {
					return true
				}
			case *ast.KeyValueExpr:
				if p.Key == id {
					return true
				}
			}
			if r, ok := names[id.Name]; ok {
				c.Replace(ast.NewIdent(r))
				return false
			}
			if d, ok := defs[id.Name]; ok && depth < 6 {
				sub := rec(d, depth+1)
				if _, bin := sub.(*ast.BinaryExpr); bin && c.Parent() != holder {
					sub = &ast.ParenExpr{X: sub}
				}
				c.Replace(sub)
				return false
			}
			return true
		}, nil)
		return holder.X
	}
	return exprText(rec(e, 0))
}

func isDuration(t types.Type) bool {
	n, ok := t.(*types.Named)
	return ok && n.Obj().Pkg() != nil && n.Obj().Pkg().Path() == "time" && n.Obj().Name() == "Duration"
}

func calleeOf(info *types.Info, call *ast.CallExpr) *types.Func {
	var id *ast.Ident
	switch f := call.Fun.(type) {
	case *ast.Ident:
		id = f
	case *ast.SelectorExpr:
		id = f.Sel
	}
	if id == nil {
		return nil
	}
	fn, _ := info.Uses[id].(*types.Func)
	return fn
}

// recordFormulas collects, from one function: the arguments of utils.NewTimer, the periods of
// time.NewTicker, and the values given to time.Duration fields of the repository's structs.
func recordFormulas(info *types.Info, fd *ast.FuncDecl, out *[]formula) {
	add := func(k string, e ast.Expr) { *out = append(*out, formula{k, canonExpr(fd, e)}) }
	fieldKey := func(v *types.Var, owner types.Type) string {
		if p, ok := owner.(*types.Pointer); ok {
			owner = p.Elem()
		}
		if n, ok := owner.(*types.Named); ok {
			return shortPkg(n.Obj().Pkg()) + "." + n.Obj().Name() + "." + v.Name()
		}
		return v.Name()
	}
	ast.Inspect(fd.Body, func(n ast.Node) bool {
		switch s := n.(type) {
		case *ast.CallExpr:
			if fn := calleeOf(info, s); fn != nil && fn.Pkg() != nil && len(s.Args) == 1 {
				switch {
				case fn.Pkg().Path() == modPath+"/utils" && fn.Name() == "NewTimer":
					add("timer-arg", s.Args[0])
				case fn.Pkg().Path() == "time" && fn.Name() == "NewTicker":
					add("ticker-period", s.Args[0])
				}
			}
		case *ast.CompositeLit:
			tv, ok := info.Types[s]
			if !ok {
				return true
			}
			for _, el := range s.Elts {
				kv, ok := el.(*ast.KeyValueExpr)
				if !ok {
					continue
				}
				id, ok := kv.Key.(*ast.Ident)
				if !ok {
					continue
				}
				if v, ok := info.Uses[id].(*types.Var); ok && v.IsField() && isDuration(v.Type()) && strings.HasPrefix(v.Pkg().Path(), modPath) {
					add("field "+fieldKey(v, tv.Type), kv.Value)
				}
			}
		case *ast.AssignStmt:
			if len(s.Lhs) != len(s.Rhs) {
				return true
			}
			for i, l := range s.Lhs {
				sel, ok := l.(*ast.SelectorExpr)
				if !ok {
					continue
				}
				if v, ok := info.Uses[sel.Sel].(*types.Var); ok && v.IsField() && isDuration(v.Type()) && v.Pkg() != nil && strings.HasPrefix(v.Pkg().Path(), modPath) {
					add("field "+fieldKey(v, info.Types[sel.X].Type), s.Rhs[i])
				}
			}
		}
		return true
	})
}

func sortFormulas(fs []formula) {
	sort.Slice(fs, func(i, j int) bool {
		if fs[i].Key != fs[j].Key {
			return fs[i].Key < fs[j].Key
		}
		return fs[i].Val < fs[j].Val
	})
}
