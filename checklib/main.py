import argparse, json, os, re, subprocess, sys, time, hashlib, shutil, glob

ROOT = os.path.dirname(os.path.dirname(os.path.abspath(__file__)))
LEAN = os.path.join(ROOT, "lean")
GO = os.path.join(ROOT, "go")
BIN = os.path.join(ROOT, "bin")
WORK = os.path.join(ROOT, "work")
REPO = os.environ.get("VERIF_REPO", "/repo")
DRIVER = os.path.join(LEAN, ".lake", "build", "bin", "fixdriver")
ALLOWED_AXIOMS = {"propext", "Classical.choice", "Quot.sound"}

GOENV = dict(os.environ, GOFLAGS="-mod=mod", GOPROXY="off", GOSUMDB="off", GOTOOLCHAIN="local",
             CGO_ENABLED=os.environ.get("CGO_ENABLED", "1"))


def sh(cmd, cwd=None, env=None, timeout=None, stdin=None):
    try:
        p = subprocess.run(cmd, cwd=cwd, env=env, timeout=timeout, stdin=stdin,
                           stdout=subprocess.PIPE, stderr=subprocess.STDOUT, text=True, errors="replace")
    except subprocess.TimeoutExpired as e:
        out = e.stdout.decode(errors="replace") if isinstance(e.stdout, bytes) else (e.stdout or "")
        return 124, out + f"\n[timed out after {timeout} s]"
    return p.returncode, p.stdout


class Ctx:
    def __init__(self, prop, tier, seed):
        self.prop, self.tier, self.seed = prop, tier, seed
        self.t0 = time.time()
        self.work = os.path.join(WORK, f"{prop}-{tier}")
        shutil.rmtree(self.work, ignore_errors=True)
        os.makedirs(self.work, exist_ok=True)
        self.violations = []      # dicts: {sig, detail, replay(dict)}
        self.broken = []          # broken obligations: {name, detail}
        self.obligations = []     # (name, ok)
        self.cov = {"evaluations": 0, "distinct_nontrivial": 0, "samples": [], "stats": {}}
        self.notes = []
        self.rules = []

    def oblige(self, name, ok, detail=""):
        self.obligations.append((name, bool(ok)))
        if not ok:
            self.broken.append({"name": name, "detail": detail[-4000:]})


# ------------------------------------------------------------------ build steps

def build_go(ctx, race=False):
    """(re)build the harness binaries against /repo's current working tree."""
    os.makedirs(BIN, exist_ok=True)
    try:
        shutil.copyfile(os.path.join(REPO, "go.sum"), os.path.join(GO, "go.sum"))
    except OSError:
        pass
    rc, out = sh(["go", "build", "-tags", "verif", "-o", BIN + "/", "./cmd/..."], cwd=GO, env=GOENV, timeout=900)
    ctx.oblige("harness builds against /repo working tree (go build -tags verif)", rc == 0, out)
    rc2, out2 = sh(["go", "build", "-o", os.path.join(BIN, "extract"), "."], cwd=os.path.join(ROOT, "go-extract"), env=GOENV, timeout=900)
    ctx.oblige("extractor builds (go/packages, offline)", rc2 == 0, out2)
    return rc == 0 and rc2 == 0


def regen_tables(ctx):
    """run the extractor: /repo source -> lean/FixModel/Generated/*.lean (rewritten only on change)."""
    ext = os.path.join(BIN, "extract")
    gen_dir = os.path.join(LEAN, "FixModel", "Generated")
    os.makedirs(gen_dir, exist_ok=True)
    if not os.path.exists(ext):
        return True
    tmp = os.path.join(ctx.work, "generated")
    os.makedirs(tmp, exist_ok=True)
    rc, out = sh([ext, "-repo", REPO, "-out", tmp], env=GOENV, timeout=300)
    ctx.oblige("extractor reads /repo source (go/parser + go/types)", rc == 0, out)
    if rc != 0:
        return False
    # stale files removed, changed files replaced
    new = {f for f in os.listdir(tmp) if f.endswith(".lean")}
    for f in os.listdir(gen_dir):
        if f.endswith(".lean") and f not in new:
            os.remove(os.path.join(gen_dir, f))
    for f in new:
        a, b = os.path.join(tmp, f), os.path.join(gen_dir, f)
        if not os.path.exists(b) or open(a).read() != open(b).read():
            shutil.copyfile(a, b)
    fj = os.path.join(tmp, "facts.json")
    if os.path.exists(fj):
        shutil.copyfile(fj, os.path.join(ctx.work, "facts.json"))
    return True


def lake_build(ctx, targets):
    rc, out = sh(["lake", "build"] + targets, cwd=LEAN, timeout=3000)
    return rc == 0, out


def theorems_of(module):
    path = os.path.join(LEAN, *module.split(".")) + ".lean"
    if not os.path.exists(path):
        return []
    src = open(path).read()
    src = re.sub(r"/-.*?-/", "", src, flags=re.S)
    return re.findall(r"^\s*theorem\s+([A-Za-z0-9_.']+)", src, flags=re.M)


def forbidden_tokens(module):
    path = os.path.join(LEAN, *module.split(".")) + ".lean"
    src = open(path).read()
    src = re.sub(r"/-.*?-/", "", src, flags=re.S)
    src = re.sub(r"--.*", "", src)
    bad = re.findall(r"\b(sorry|admit|native_decide|bv_decide|implemented_by|unsafe)\b|^\s*axiom\s|maxHeartbeats\s+0", src, flags=re.M)
    return [b for b in bad if b]


def lean_obligations(ctx, modules):
    """build the property's Lean modules; audit every theorem's axioms."""
    ok, out = lake_build(ctx, modules + ["fixdriver"])
    thms = []
    for m in modules:
        thms += [(m, t) for t in theorems_of(m)]
    if not ok:
        # attribute the failure: build the modules one by one
        bad_modules = []
        for m in modules:
            okm, outm = lake_build(ctx, [m])
            if not okm:
                bad_modules.append(m)
                for mm, t in thms:
                    if mm == m:
                        ctx.oblige(f"theorem {m}.{t}", False, outm)
                if not theorems_of(m):
                    ctx.oblige(f"module {m} builds", False, outm)
        okd, outd = lake_build(ctx, ["fixdriver"])
        if not okd:
            ctx.oblige("Lean driver builds", False, outd)
        ctx.notes.append("lake build failed: " + ", ".join(bad_modules))
        modules = [m for m in modules if m not in bad_modules]
        thms = [(m, t) for (m, t) in thms if m in modules]
        if not modules:
            return False
    # axiom audit
    adir = os.path.join(LEAN, ".audit")
    os.makedirs(adir, exist_ok=True)
    afile = os.path.join(adir, ctx.prop + ".lean")
    with open(afile, "w") as f:
        for m in modules:
            f.write(f"import {m}\n")
        for m, t in thms:
            f.write(f"#print axioms {t}\n")
    rc, out = sh(["lake", "env", "lean", afile], cwd=LEAN, timeout=900)
    axioms = {}
    for mm in re.finditer(r"'([^']+)' depends on axioms: \[([^\]]*)\]", out):
        axioms[mm.group(1)] = {a.strip() for a in mm.group(2).replace("\n", " ").split(",") if a.strip()}
    for mm in re.finditer(r"'([^']+)' does not depend on any axioms", out):
        axioms[mm.group(1)] = set()
    allok = True
    for m, t in thms:
        ax = axioms.get(t)
        good = ax is not None and ax <= ALLOWED_AXIOMS
        ctx.oblige(f"theorem {m}.{t} (axioms: {sorted(ax) if ax is not None else 'not found'})", good, out)
        allok &= good
    for m in modules:
        bad = forbidden_tokens(m)
        ctx.oblige(f"no sorry/admit/axiom/native_decide/bv_decide/unsafe in {m}", not bad, str(bad))
        allok &= not bad
    if ctx.tier == "thorough":
        # the toolchain's independent re-checker replays the compiled declarations of each property module
        for m in modules:
            rc, outc = sh(["lake", "env", "leanchecker", m], cwd=LEAN, timeout=1800)
            ctx.oblige(f"leanchecker re-checks {m}", rc == 0, outc)
            allok &= rc == 0
    return allok


# ------------------------------------------------------------------ correspondence

def run_harness(ctx, name, binary, args, timeout=None, env=None):
    """run a harness that writes ops.txt/exp.txt/meta.json into a fresh dir; pipe ops to the Lean
    driver; compare. Returns dict with counts; registers violations / broken obligations on ctx."""
    if timeout is None:
        timeout = 6000 if ctx.tier == "thorough" else 900   # a harness that hangs must not hang the check
    d = os.path.join(ctx.work, name)
    shutil.rmtree(d, ignore_errors=True)
    os.makedirs(d)
    e = dict(GOENV)
    if env:
        e.update(env)
    rc, out = sh([os.path.join(BIN, binary)] + args + ["-out", d], env=e, timeout=timeout)
    if rc != 0 or not os.path.exists(os.path.join(d, "meta.json")):
        ctx.oblige(f"harness run {name}", False, out)
        return None
    res = compare(ctx, name, d)
    if res is not None:
        res["harness"] = {"binary": binary, "args": args}
    return res


def compare(ctx, name, d):
    ops_path = os.path.join(d, "ops.txt")
    got_path = os.path.join(d, "got.txt")
    with open(ops_path) as fi, open(got_path, "w") as fo:
        p = subprocess.run([DRIVER], stdin=fi, stdout=fo, stderr=subprocess.PIPE, timeout=3000)
    if p.returncode != 0:
        ctx.oblige(f"Lean driver run {name}", False, p.stderr.decode(errors="replace"))
        return None
    meta = json.load(open(os.path.join(d, "meta.json")))
    ncorr = nspec = 0
    corr_bad, spec_bad = [], []
    with open(ops_path) as fo, open(os.path.join(d, "exp.txt")) as fe, open(got_path) as fg:
        for i, (op, exp, got) in enumerate(zip(fo, fe, fg)):
            exp = exp.rstrip("\n"); got = got.rstrip("\n"); op = op.rstrip("\n")
            cls, prop, want = exp.split(" ", 2)
            if cls == "near":
                ncorr += 1
                meas, tol = [float(x) for x in want.split()]
                try:
                    model = float(got.split()[1])
                    okn = abs(model - meas) <= tol
                except Exception:
                    okn = False
                if not okn:
                    corr_bad.append((prop, op, f"measured expiry {meas} ms (tolerance {tol})", got))
            elif cls == "corr":
                ncorr += 1
                if got != want:
                    corr_bad.append((prop, op, want, got))
            else:
                nspec += 1
                if got != want and got != "skip":
                    spec_bad.append((prop, op, want, got))
    for k, v in meta.get("stats", {}).items():
        ctx.cov["stats"][f"{name}.{k}"] = v
    res = {"meta": meta, "ncorr": ncorr, "nspec": nspec, "corr_bad": corr_bad, "spec_bad": spec_bad, "dir": d}
    ctx.cov["evaluations"] += ncorr + nspec
    return res


def _fail_keys(res, props, kinds=None):
    """the failures of a harness run that belong to `props`, as comparable keys (property, class, kind)."""
    keys = set()
    for c in res["corr_bad"]:
        if c[0] in props:
            keys.add((c[0], "corr", c[1].split(" ", 1)[0]))
    known = [k for k in load_known() if k.get("status") == "known"]
    for g in (res["meta"].get("gofails") or []):
        if g["property"] in props and (kinds is None or g["kind"] in kinds):
            sig = f"{g['property']} {g['kind']} {g['detail']}"
            if any(k.get("property") == g["property"] and re.search(k["match"], sig) for k in known):
                continue  # a recorded finding: reported as such, nothing to re-measure
            keys.add((g["property"], "go", g["kind"]))
    return keys


def run_realtime(ctx, name, binary, args, props, attempts=3, kinds=None, timeout=None):
    """a harness whose oracles compare against the wall clock: a failure counts only if the same kind of failure
    shows up in every one of `attempts` runs of the same seed (a defect in the code is there every time; a late
    goroutine on a loaded machine is not). What was discarded is written into the evidence notes."""
    res = run_harness(ctx, name, binary, args, timeout=timeout)
    if res is None:
        return None
    keys = _fail_keys(res, props, kinds)
    tries = 1
    while keys and tries < attempts:
        again = run_harness(ctx, f"{name}-retry{tries}", binary, args, timeout=timeout)
        tries += 1
        if again is None:
            break
        keys2 = _fail_keys(again, props, kinds)
        dropped = keys - keys2
        if dropped:
            ctx.notes.append(f"real-time harness {name}: {sorted(dropped)} reported by one attempt, not reproduced by the next run of the same seed: treated as timing noise")
        keys &= keys2
        res = again
    # keep only the persistent wall-clock failures (and every failure of a kind that is not wall-clock)
    def keep_corr(c):
        return c[0] not in props or (c[0], "corr", c[1].split(" ", 1)[0]) in keys
    def keep_go(g):
        if g["property"] not in props:
            return True
        if kinds is not None and g["kind"] not in kinds:
            return True
        sig = f"{g['property']} {g['kind']} {g['detail']}"
        if any(k.get("property") == g["property"] and k.get("status") == "known" and re.search(k["match"], sig) for k in load_known()):
            return True
        return (g["property"], "go", g["kind"]) in keys
    res["corr_bad"] = [c for c in res["corr_bad"] if keep_corr(c)]
    res["meta"]["gofails"] = [g for g in (res["meta"].get("gofails") or []) if keep_go(g)]
    return res


def fold(ctx, res, props, corr_name):
    """turn a comparison result into obligations / violations for the properties in `props`."""
    if res is None:
        return
    meta = res["meta"]
    mine = lambda p: p in props
    cb = [c for c in res["corr_bad"] if mine(c[0])]
    sb = [s for s in res["spec_bad"] if mine(s[0])]
    gf = [g for g in (meta.get("gofails") or []) if mine(g["property"])]
    ctx.oblige(f"correspondence {corr_name}: model output = implementation output on every generated case", not cb,
               "\n".join(f"op: {c[1][:400]}\n impl: {c[2][:400]}\n model: {c[3][:400]}" for c in cb[:3]))
    hz = res.get("harness")
    for prop, op, want, got in sb[:20]:
        ctx.violations.append({"sig": f"{prop} spec-oracle {op.split(' ',1)[0]} {got}", "detail": f"spec predicate {op.split(' ',1)[0]} fails on the implementation's output (want {want}, got {got})",
                               "replay": {"ops": [op], "expected": [want], "model": [got], "harness": hz, "kind": f"spec-oracle {op.split(' ',1)[0]}"}})
    for g in gf[:50]:
        ctx.violations.append({"sig": f"{g['property']} {g['kind']} {g['detail']}", "detail": f"{g['kind']}: {g['detail']}",
                               "replay": {"ops": g.get("replay", []), "go_oracle": g["kind"], "harness": hz, "kind": g["kind"]}})
    # a disagreement with the session model on an output the property is about is a concrete failing history: the model's
    # output is proved to satisfy the property (C10_gap: resend from the first missing number; C05_header: the identifiers
    # of the latest accepted Logon), so an implementation that differs *there* violates it. The replay is the history.
    if cb and ctx.prop in ("C10", "C05", "C06"):
        ops_path = os.path.join(res["dir"], "ops.txt")
        all_ops = open(ops_path).read().split("\n") if os.path.exists(ops_path) else []
        def msgs(line):
            out = []
            for part in line.split(" | ")[0].split(" ; "):
                f = part.split()
                if f and f[0] == "M":
                    out.append(dict(x.split("=", 1) for x in f[1:] if "=" in x))
            return out
        for prop, op, want, got in cb[:200]:
            if prop != "SESS" or not op.startswith("sess "):
                continue
            impl, model = msgs(want), msgs(got)
            sid = op.split()[2] if len(op.split()) > 2 else ""
            hist = [o for o in all_ops[:all_ops.index(op) + 1] if o.startswith("sess ") and len(o.split()) > 2 and o.split()[2] == sid] if op in all_ops else [op]
            if ctx.prop == "C10":
                gi = [(m.get("7"), m.get("16")) for m in impl if m.get("35") == "32"]
                gm = [(m.get("7"), m.get("16")) for m in model if m.get("35") == "32"]
                if gm != gi and " in " in op:
                    ctx.violations.append({"sig": f"C10 gap-resend-differs model={gm} impl={gi}", "detail": f"gap-resend-differs: after this history the session must ask for a resend {gm} (BeginSeqNo, EndSeqNo in hex; session model, theorem C10_gap), the implementation sent {gi}",
                                           "replay": {"ops": hist[-60:], "expected": [want], "model": [got], "harness": res.get("harness"), "kind": "gap-resend-differs"}})
            if ctx.prop == "C06" and " in " in op:
                # "… | S <logged> …": the model logs on (an acceptable, approved Logon: theorem C06_acceptor_reply) and the
                # implementation does not, or the other way round
                def logged(line):
                    part = [x for x in line.split(" | ") if x.startswith("S ")]
                    return part[0].split()[1] if part else None
                li, lm = logged(want), logged(got)
                if li is not None and lm is not None and li != lm:
                    what = "acceptable-logon-refused" if lm == "1" else "logged-on-without-acceptable-logon"
                    ctx.violations.append({"sig": f"C06 {what} model-logged={lm} impl-logged={li} {op[:120]}", "detail": f"{what}: after this Logon the session must report logged-on={lm} (session model, theorems C06_acceptor_reply / C06_logged_only_after_acceptable_logon), the implementation reports {li}; its answer: {want.split(' | ')[0][:200]}",
                                           "replay": {"ops": hist[-60:], "expected": [want], "model": [got], "harness": res.get("harness"), "kind": what}})
            if ctx.prop == "C05":
                ni, nm = [m.get("34") for m in impl], [m.get("34") for m in model]
                if len(ni) == len(nm) and ni != nm:
                    ctx.violations.append({"sig": f"C05 sequence-numbers-differ model={nm} impl={ni}", "detail": f"sequence-numbers-differ: the messages sent here must carry MsgSeqNum {nm} (hex digits; numbering continues from the stored counter: session model, theorem C05_sequential), the implementation sent {ni}",
                                           "replay": {"ops": hist[-60:], "expected": [want], "model": [got], "harness": res.get("harness"), "kind": "sequence-numbers-differ"}})
                ii = [(m.get("49"), m.get("56")) for m in impl]
                im = [(m.get("49"), m.get("56")) for m in model]
                if len(ii) == len(im) and ii != im:
                    ctx.violations.append({"sig": f"C05 wrong-identifiers model={im} impl={ii}", "detail": f"wrong-identifiers: SenderCompID/TargetCompID of the messages sent here must be {im} (hex; those of the latest accepted Logon, theorem C05_header), the implementation sent {ii}",
                                           "replay": {"ops": hist[-60:], "expected": [want], "model": [got], "harness": res.get("harness"), "kind": "wrong-identifiers"}})
    if cb:
        ctx.corr_bad = getattr(ctx, "corr_bad", []) + cb
    for p in props:
        ctx.cov["distinct_nontrivial"] += meta.get("distinct", {}).get(p, 0)
        for s in meta.get("samples", {}).get(p, [])[:3]:
            if len(ctx.cov["samples"]) < 8:
                ctx.cov["samples"].append(s)


# ------------------------------------------------------------------ findings, evidence, verdict

def load_known():
    path = os.path.join(ROOT, "known_findings.jsonl")
    out = []
    if os.path.exists(path):
        for line in open(path):
            line = line.strip()
            if line and not line.startswith("#"):
                out.append(json.loads(line))
    return out


def finish(ctx, level, technique_note, trusted, assumptions, checker_cmd):
    known = [k for k in load_known() if k.get("property") == ctx.prop and k.get("status") == "known"]
    reported, known_hit = [], {}
    for v in ctx.violations:
        hit = None
        for k in known:
            if re.search(k["match"], v["sig"]):
                hit = k
                break
        if hit:
            known_hit.setdefault(hit["id"], (hit, 0))
            known_hit[hit["id"]] = (hit, known_hit[hit["id"]][1] + 1)
        else:
            reported.append(v)
    # broken obligations without a concrete failing input
    broken = list(ctx.broken)
    # a broken obligation that a known finding explains (listed by obligation name)
    still = []
    for b in broken:
        hit = None
        for k in known:
            if k.get("match_obligation") and re.search(k["match_obligation"], b["name"]):
                hit = k
        if hit:
            known_hit.setdefault(hit["id"], (hit, 0))
            known_hit[hit["id"]] = (hit, known_hit[hit["id"]][1] + 1)
        else:
            still.append(b)
    os.makedirs(os.path.join(ROOT, "replays"), exist_ok=True)
    lines = []
    nviol = 0
    if reported:
        # one replay file per distinct signature class (first 5)
        seen = set()
        for v in reported:
            key = re.sub(r"[0-9a-fx]{16,}", "…", v["sig"])[:120]
            if key in seen:
                continue
            seen.add(key)
            if len(seen) > 5:
                break
            path = os.path.join(ROOT, "replays", f"{ctx.prop}-{ctx.seed}-{len(seen)}.json")
            json.dump({"property": ctx.prop, "seed": ctx.seed, "tier": ctx.tier, "what": v["detail"], **v["replay"],
                       "broken_obligations": [b["name"] for b in still]}, open(path, "w"), indent=1)
            lines.append(f"VIOLATION property={ctx.prop} replay={path}")
            nviol += 1
    elif still:
        path = os.path.join(ROOT, "replays", f"{ctx.prop}-{ctx.seed}-obligation.json")
        cb = getattr(ctx, "corr_bad", [])
        json.dump({"property": ctx.prop, "seed": ctx.seed, "tier": ctx.tier,
                   "what": "a proof obligation or the model/implementation correspondence no longer checks; the failing-input search found no input on which the property itself fails",
                   "broken_obligations": still,
                   "correspondence_disagreements": [{"op": c[1], "implementation": c[2], "model": c[3]} for c in cb[:5]]},
                  open(path, "w"), indent=1)
        lines.append(f"VIOLATION property={ctx.prop} replay={path} no-failing-input-found")
        nviol += 1
    out_lines = []
    for kid, (k, n) in known_hit.items():
        out_lines.append(f"KNOWN-FINDING: property={ctx.prop} {k['what']} [{kid}; {n} instance(s) this run]")
    nobl = len(ctx.obligations)
    ndis = sum(1 for _, ok in ctx.obligations if ok)
    cov = {
        "obligations": nobl, "discharged": ndis,
        "checker_cmd": checker_cmd,
        "trusted_base": trusted,
        "obligation_list": [{"name": n, "ok": ok} for n, ok in ctx.obligations],
        "evaluations": ctx.cov["evaluations"],
        "distinct_nontrivial": ctx.cov["distinct_nontrivial"],
        "rule": " ; ".join(ctx.rules),
        "samples": ctx.cov["samples"] or ["(no samples)"],
        "input_distribution": ctx.cov["stats"],
        "known_findings_hit": {kid: n for kid, (k, n) in known_hit.items()},
        "notes": ctx.notes,
    }
    ev = {"property_id": ctx.prop, "tier": ctx.tier, "seed": ctx.seed, "level": level, "coverage": cov,
          "assumptions": assumptions, "wall_s": round(time.time() - ctx.t0, 2), "violations": nviol,
          "technique": technique_note}
    os.makedirs(os.path.join(ROOT, "evidence"), exist_ok=True)
    json.dump(ev, open(os.path.join(ROOT, "evidence", ctx.prop + ".json"), "w"), indent=1)
    out_lines += lines
    out_lines.append(f"{ctx.prop} [{ctx.tier}] obligations {ndis}/{nobl}, evaluations {ctx.cov['evaluations']}, "
                     f"violations {nviol}, known {len(known_hit)}, {ev['wall_s']}s")
    ctx.out_lines = out_lines
    ctx.outcome = "concrete" if reported else ("obligation-only" if still else "clean")
    return 1 if nviol else 0


def main(argv):
    ap = argparse.ArgumentParser()
    ap.add_argument("prop")
    ap.add_argument("--tier", default=os.environ.get("VERIF_TIER", "quick"))
    ap.add_argument("--seed", type=int, default=int(os.environ.get("VERIF_SEED", "1")))
    ap.add_argument("--replay")
    a = ap.parse_args(argv)
    import props
    if a.prop == "setup":
        return props.setup()
    if a.prop not in props.PROPS:
        print("unknown property", a.prop)
        return 2
    ctx = Ctx(a.prop, a.tier, a.seed)
    if a.replay:
        return props.replay(ctx, a.replay)
    rc = props.PROPS[a.prop](ctx)
    hung = any(n.startswith("harness run") and not ok for n, ok in ctx.obligations)
    quick_enough = (time.time() - ctx.t0) < 60   # the escalated search costs about six times the first run
    if rc != 0 and getattr(ctx, "outcome", "") == "obligation-only" and a.tier == "quick" and not hung and quick_enough and not os.environ.get("VERIF_NO_ESCALATE"):
        # an obligation or the correspondence broke but no input was found on which the property fails: search harder
        # (larger generators, three seeds) before reporting `no-failing-input-found`
        print(f"{a.prop}: an obligation no longer checks and the quick generators found no failing input; escalating the search")
        ctx2 = Ctx(a.prop, a.tier, a.seed)
        ctx2.search = True
        ctx2.notes.append("failing-input search escalated after a broken obligation (sizes x3, two seeds)")
        rc2 = props.PROPS[a.prop](ctx2)
        if getattr(ctx2, "outcome", "") == "concrete":
            ctx, rc = ctx2, rc2
        else:
            # keep the first run's evidence file? the second run rewrote it with the larger coverage: fine, same verdict
            ctx, rc = ctx2, rc2
    for l in getattr(ctx, "out_lines", []):
        print(l)
    return rc
