import os, json, subprocess
from main import (Ctx, build_go, regen_tables, lean_obligations, run_harness, run_realtime, fold, finish, load_known as load_known_findings, sh, ROOT, LEAN, GO, BIN,
                  DRIVER, GOENV, lake_build)

TRUSTED_COMMON = [
    "Lean 4.33.0 kernel; axioms propext, Classical.choice, Quot.sound only (audited per theorem with #print axioms)",
    "hand-written Lean model of the Go code (lean/FixModel), tied to /repo by the correspondence run of this check",
    "Go harness /verif/go (generators, canonicalisation) and the compiled Lean driver (leanc lowering)",
    "Go runtime and standard library (bytes, strconv, fmt, time) modelled, not verified",
]
CHECKER = "lake build Props.<id> && lake env lean .audit/<id>.lean (#print axioms) && bin/<harness> | lean/.lake/build/bin/fixdriver | diff"


def setup():
    """MANIFEST.setup_cmd: build everything from files on disk."""
    c = Ctx("setup", "quick", 0)
    ok = build_go(c)
    regen_tables(c)
    rc, out = sh(["lake", "build"], cwd=LEAN, timeout=3600)
    print(out[-3000:])
    if rc != 0 or not ok:
        print("setup failed")
        return 1
    print("setup ok")
    return 0


def sizes(ctx, quick, thorough):
    if ctx.tier == "thorough":
        return thorough
    if getattr(ctx, "search", False):
        return max(quick, min(thorough, quick * 3))
    return quick


def seeds(ctx):
    if ctx.tier == "thorough":
        return [ctx.seed * 1000 + k for k in range(4)]
    if getattr(ctx, "search", False):
        return [ctx.seed, ctx.seed + 7919]
    return [ctx.seed]


def common_prelude(ctx, modules):
    ok = build_go(ctx)
    regen_tables(ctx)
    lean_obligations(ctx, modules)
    return ok


def codec_runs(ctx, mode, props, n_quick, n_thorough, depth=(3, 5), name=None):
    n = sizes(ctx, n_quick, n_thorough)
    d = sizes(ctx, depth[0], depth[1])
    for s in seeds(ctx):
        res = run_harness(ctx, f"{name or mode}-{s}", "codec", ["-mode", mode, "-seed", str(s), "-n", str(n), "-depth", str(d)])
        fold(ctx, res, props, f"codec/{mode} seed {s}")


def C01(ctx):
    if common_prelude(ctx, ["Props.C01"]):
        codec_runs(ctx, "enc", ["C01"], 4000, 60000)
        # messages filled by the parser (into an object constructed for another MsgType) and serialized again
        codec_runs(ctx, "rt", ["C01"], 1500, 20000, name="rt-reser")
    ctx.rules.append("random templates (depth<=3 quick / 5 thorough) and every tests/fix44 message type, random populations through every "
                     "constructor/setter route, long values to cross BodyLength digit boundaries; non-trivial = distinct wire image with > 4 fields")
    return finish(ctx, "proof", "Lean theorem C01_framed over the codec model + model/implementation correspondence on generated messages + spec oracle framedOK on implementation output",
                  TRUSTED_COMMON, ["values contain no SOH (property quantifier)", "header and trailer are set (a nil header makes the library itself panic)"], CHECKER)


def C17(ctx):
    if common_prelude(ctx, ["Props.C17"]):
        codec_runs(ctx, "enc", ["C17"], 4000, 60000)
        codec_runs(ctx, "rt", ["C17"], 2000, 30000, name="rt-set")
    ctx.rules.append("as C01; additionally the library's own view of the population (IsNull/ToBytes of every field) is compared with the generator's intended population "
                     "(constructor / setter / FromBytes / FromBytes-then-Set routes); non-trivial = distinct wire image with > 4 fields")
    return finish(ctx, "proof", "Lean theorem C17_fields (wire fields = framing ++ populated leaves ++ checksum) + correspondence + spec oracle fieldsOK on implementation output",
                  TRUSTED_COMMON, ["values are non-empty and SOH-free; every group entry populates at least one field"], CHECKER)


def C02(ctx):
    if common_prelude(ctx, ["Props.C02"]):
        codec_runs(ctx, "rt", ["C02"], 2500, 40000)
        codec_runs(ctx, "val", ["C02"], 1500, 30000)
    ctx.rules.append("serialize a random population (adversarial values spelling 'tag=' of the same template) then parse into a blank twin: model and implementation must produce the same tree; "
                     "go-side oracle: parsed tree = intended population and re-serialisation byte-identical (strict and non-strict); non-trivial = distinct wire image of a template with pairwise distinct tags; "
                     "value codec (mode val): FromBytes/ToBytes of all seven value types on near-valid texts (boundary integers, signs, exponents, inf/nan, hex floats, underscores, damaged time renderings) must equal Val.fromBytes; "
                     "timeFmt must equal Go's Format for random UTC instants (leap days, year 0..9999); go-side: NewTime/NewFloat renderings are fixed points and NewFloat renders [-]ddd[.ddd] of magnitude <= MaxFloat64 (the shape C02_float_values assumes)")
    return finish(ctx, "proof", "Lean round-trip theorems over the decoder model + correspondence + round-trip oracle on the implementation",
                  TRUSTED_COMMON, ["tags pairwise distinct in a template, first field of each group entry populated, no empty value (property preconditions)",
                                   "Time: proved for every UTC instant at millisecond precision with a four-digit year (C02_time_values); Float: proved for every plain decimal rendering of magnitude <= MaxFloat64 (C02_float_values); that strconv.FormatFloat / time.Format produce these renderings is validated value by value, not proved"], CHECKER)


def C18(ctx):
    if common_prelude(ctx, ["Props.C18", "Props.C04", "Props.C04Gen"]):
        codec_runs(ctx, "rt", ["C18"], 2000, 30000)
        codec_runs(ctx, "vbt", ["C18"], 1500, 20000)
        # end-of-message detection (conn.go): the reader under real Initiator / Acceptor
        n = sizes(ctx, 200, 3000)
        for sd in seeds(ctx):
            res = run_harness(ctx, f"frame-{sd}", "conn", ["-mode", "frame", "-seed", str(sd), "-n", str(n)])
            fold(ctx, res, ["C18", "C04"], f"framing model vs real Conn, seed {sd}")
    ctx.rules.append("messages with values spelling 'tag=' for template tags and with foreign fields whose tags are decimal extensions/truncations of template tags (re-framed): "
                     "decode must equal the intended population; ValueByTag must equal the field-boundary lookup lookupField; non-trivial = distinct (tag, image) with a successful lookup or unique-tag decode")
    return finish(ctx, "proof", "Lean scan lemma (first SOH·tag·= occurrence is at a field boundary) + correspondence + lookupField oracle on implementation output",
                  TRUSTED_COMMON, ["message starts with BeginString; values SOH-free"], CHECKER)


def C03(ctx):
    if common_prelude(ctx, ["Props.C03"]):
        codec_runs(ctx, "dmg", ["C03"], 12, 150)
    ctx.rules.append("per valid message: EVERY single-byte substitution (255 x len), every interior insertion (256 x (len-1)), every deletion, every proper prefix, strict or non-strict; "
                     "plus arbitrary bodies under a correct frame and near-correct frames (soundness: accepted => integrityOK); non-trivial = distinct base message / distinct accepted string")
    return finish(ctx, "proof", "Lean theorem C03_sound (accept => Integrity) + exhaustive single-byte damage neighbourhood on the implementation + correspondence",
                  TRUSTED_COMMON, ["valid message = as produced by the library's own serializer"], CHECKER)


def C11(ctx):
    if common_prelude(ctx, ["Props.C11"]):
        codec_runs(ctx, "fuzz", ["C11"], 4000, 60000)
    ctx.rules.append("all strings of length <= 3 over {SOH,=,8,1,0,9} against 3 templates; random strings; correctly framed messages with mutated bodies (dropped '=', dropped fields, "
                     "repeated SOH, junk segments, broken group counts, truncated nested groups) against random and all fix44 templates; each with ValueByTag lookups; non-trivial = distinct framed input")
    return finish(ctx, "proof", "Lean theorems: every checked slice expression of the decoder model is in bounds (result != panic) and every function terminates + correspondence incl. panics",
                  TRUSTED_COMMON, ["header and trailer components are set on the target message"], CHECKER)


SESS_RULE = ("random histories against the real Session + DefaultHandler + memory store, both roles, random heartbeat limits: inbound Logon (in/out-of-range "
             "heartbeat, allowed/disallowed/missing encryption, approved/refused, sequence gaps), Logout, Heartbeat, TestRequest (adversarial ids), ResendRequest "
             "(all range shapes), application/unknown types, each optionally damaged (checksum, body length, non-numeric field, missing/non-numeric MsgSeqNum); local sends, "
             "Logout, Stop followed by the peer's answer or the deadline; a second session on the same store. Model and implementation compared after every step "
             "(messages, events, logged/cancelled/stopped); property oracles evaluated on the implementation's own outputs")


def sess_runs(ctx, props, n_quick, n_thorough, ln=(30, 60)):
    n = sizes(ctx, n_quick, n_thorough)
    l = sizes(ctx, ln[0], ln[1])
    for s in seeds(ctx):
        res = run_realtime(ctx, f"sess-{s}", "sess", ["-seed", str(s), "-n", str(n), "-len", str(l)], props + ["SESS"],
                           kinds={"stop-not-ended-by-peer-answer", "stop-deadline"})
        fold(ctx, res, props + ["SESS"], f"session model vs real Session, seed {s}")


REALTIME = {"C06", "C07", "C10", "C14", "C15", "C16"}


def sess_prop(pid, modules, technique, assumptions, nontrivial):
    def run(ctx):
        if common_prelude(ctx, modules):
            sess_runs(ctx, [pid], 120, 1500)
            if pid in REALTIME:
                # histories that need real time to pass (timers firing): refused logon then waiting, several
                # timer heartbeats then a ResendRequest, a TestRequest while our own probe is pending
                n = sizes(ctx, 5, 40)
                for sd in seeds(ctx):
                    res = run_realtime(ctx, f"timers-{sd}", "timers", ["-seed", str(sd), "-n", str(n)], [pid])
                    fold(ctx, res, [pid], f"real-time session scenarios (N = 1 s), seed {sd}")
        ctx.rules.append(SESS_RULE + "; non-trivial for this property = " + nontrivial)
        return finish(ctx, "proof", technique, TRUSTED_COMMON + [
            "timer expiries are events of the model but are not injected into the real session in this correspondence (intervals far longer than a history); they are exercised by the C08/C09 check"],
            assumptions, CHECKER)
    return run


C06 = sess_prop("C06", ["Props.C06", "Props.SessionSkeleton", "Props.SessionOrders"], "Lean invariant by induction over all event histories (run_preauth / C06_*) + step-by-step correspondence with the real Session + logon oracles",
                ["no outgoing handler refuses and the store does not fail (C19's case)"], "distinct (Logon bytes, logged-before, approve) triples")
C07 = sess_prop("C07", ["Props.C07", "Props.SessionSkeleton", "Props.SessionOrders"], "Lean theorem C07_preauth over all histories, stores and counters + correspondence + pre-logon output oracle",
                ["local application sends are the application's own acts"], "distinct inbound messages processed before any successful logon")
C10 = sess_prop("C10", ["Props.C10", "Props.SessionSkeleton", "Props.SessionOrders"], "Lean theorems C10_exact/open/never_outside/gap from the store-trace invariant + correspondence + byte-identity oracle on retransmissions",
                ["messages are not mutated by the application after sending (store keeps the object)"], "distinct (begin, end, last-sent) triples while logged on, and gap logons")
C14 = sess_prop("C14", ["Props.C14", "Props.SessionSkeleton", "Props.SessionOrders"], "Lean theorem C14_echo + correspondence + echo oracle with adversarial TestReqIDs",
                [], "distinct TestReqID values answered while logged on")
C15 = sess_prop("C15", ["Props.C15", "Props.SessionSkeleton", "Props.SessionOrders"], "Lean theorems C15_* (peer logout, own logout, stop/answer, stop/deadline, cancellation permanent) + correspondence + wall-clock oracle for Stop",
                ["wall-clock: the close deadline is observed with a tolerance of 1 s"], "peer-logout / own-logout-answer / stop-answer / stop-deadline scenarios")
C16 = sess_prop("C16", ["Props.C16", "Props.SessionSkeleton", "Props.SessionOrders"], "Lean theorems C16_reject_* (every admin kind x every damage/state) + correspondence + reject-by-sequence-number oracle",
                [], "distinct (damaged or not-permitted admin message, logged-before) pairs")

def C19(ctx):
    if common_prelude(ctx, ["Props.C19", "Props.ConnSkeleton"]):
        n = sizes(ctx, 600, 6000)
        for sd in seeds(ctx):
            res = run_harness(ctx, f"pool-{sd}", "pool", ["-seed", str(sd), "-n", str(n)])
            fold(ctx, res, ["C19"], f"pool model vs real DefaultHandler, seed {sd}")
        # real sessions: every message that leaves is saved under its own number first, also after the application set
        # the counter back
        sess_runs(ctx, ["C19"], 60, 600)
    ctx.rules.append("random sets of all-types and type-specific outgoing / incoming handlers with random accept/refuse verdicts and a failing ToBytes on the real DefaultHandler (call log + "
                     "what reaches the outgoing channel compared with the model); real Session with a store failing on the k-th Save and a handler refusing the j-th message "
                     "(go-side oracles: stored before later handlers run, handler sees the transmitted bytes, refused/unsaved => error and nothing transmitted, number consumed); "
                     "non-trivial = distinct (verdict pattern) / (failAt, refuseAt, index)")
    return finish(ctx, "proof", "Lean theorems C19_order / veto / pass / save_first / inbound over the pool model and C19_saved from the session store-trace + correspondence + store/handler oracles",
                  TRUSTED_COMMON, ["the session registers its save handler at construction, before any user handler can be registered (checked by the session scenario)"], CHECKER)


def C05(ctx):
    if common_prelude(ctx, ["Props.C05", "Props.C05Gen"]):
        sess_runs(ctx, ["C05"], 60, 600)
        n = sizes(ctx, 12, 150)
        for sd in seeds(ctx):
            res = run_harness(ctx, f"stress-{sd}", "stress", ["-seed", str(sd), "-n", str(n)])
            fold(ctx, res, ["C05"], f"concurrent senders on the real Session, seed {sd}")
    ctx.rules.append("T-gen: Session.send / DefaultHandler.Send path facts regenerated from source and decided in Lean; session-model correspondence (numbering, identifiers) on random histories; "
                     "failing-schedule search: 1..16 sender goroutines x 1..40 messages, GOMAXPROCS in {1,2,16}, outgoing buffer in {0,1,10}, jittering counter/message store and outgoing handler, "
                     "both roles, inbound test requests answered concurrently, the 1 s heartbeat timer firing, a second session re-using the counter store; an independent tokenizer checks 34=, 49=, 56=, 52= of "
                     "everything on the outgoing channel; non-trivial = distinct (role, threads, per-thread, GOMAXPROCS, buffer, wire length)")
    return finish(ctx, "proof", "Lean theorem C05_consecutive over all schedules of the lock/fetch/enqueue/unlock program + regenerated path facts (C05_generated, decide) + session trace invariant + concurrent stress search",
                  TRUSTED_COMMON + ["the extractor's reading of Session.send / DefaultHandler.Send (statement order, lock/defer-unlock, call sites)", "sync.Mutex provides mutual exclusion; channel sends are FIFO"],
                  ["no outgoing handler refuses and the stores do not fail (C19's case)"], CHECKER)


def disciplined_locs(facts):
    """python mirror of Lean `compatible`, used only to *name* undisciplined locations in reports"""
    by = {}
    for a in facts["access"]:
        by.setdefault(a["loc"], []).append(a)
    bad = {}
    for loc, sites in by.items():
        if not any(a["write"] and not a["ctor"] for a in sites):
            continue
        for a in sites:
            for b in sites:
                if (not a["write"] and not b["write"]) or (a["atomic"] and b["atomic"]) or a["ctor"] or b["ctor"]:
                    continue
                ok = False
                for la in a["locks"]:
                    for lb in b["locks"]:
                        na, ea = la.replace(":r", ""), not la.endswith(":r")
                        nb, eb = lb.replace(":r", ""), not lb.endswith(":r")
                        if na == nb and (ea or eb) and (not a["write"] or ea) and (not b["write"] or eb):
                            ok = True
                if not ok:
                    bad.setdefault(loc, []).append((a, b))
    return bad


JUSTIFIED = {"session.Session.errorHandler", "session.Session.logonRequest", "session.Session.unmarshaller"}


def C20(ctx):
    import re as _re
    if common_prelude(ctx, ["Props.C20"]):
        fj = os.path.join(ctx.work, "facts.json")
        facts = json.load(open(fj))
        bad = disciplined_locs(facts)
        ctx.cov["evaluations"] += len(facts["access"])
        ctx.cov["distinct_nontrivial"] += len({a["loc"] for a in facts["access"] if a["write"] and not a["ctor"]})
        ctx.cov["samples"].append({"location": "session.Session.state", "sites": [a for a in facts["access"] if a["loc"] == "session.Session.state"][:4]})
        for loc, pairs in sorted(bad.items()):
            if loc in JUSTIFIED:
                continue
            a, b = pairs[0]
            ctx.violations.append({"sig": f"C20 undisciplined {loc}", "detail": f"conflicting accesses to {loc} share no mutex: {a['func']} ({a['pos']}, locks {a['locks']}) vs {b['func']} ({b['pos']}, locks {b['locks']})",
                                   "replay": {"table_pair": [a, b]}})
        # failing-schedule search: the -race build of the scenario driver
        rc, out = sh(["go", "build", "-race", "-tags", "verif", "-o", os.path.join(BIN, "race_scn"), "./cmd/race"], cwd=GO, env=GOENV, timeout=900)
        ctx.oblige("race scenario driver builds with -race against /repo working tree", rc == 0, out)
        if rc == 0:
            runs = sizes(ctx, 1, 4)
            posmap = {}
            for a in facts["access"]:
                posmap.setdefault(a["pos"], a["loc"])
            for k in range(runs):
                p = subprocess.run([os.path.join(BIN, "race_scn")], stdout=subprocess.PIPE, stderr=subprocess.PIPE, text=True, timeout=600,
                                   env=dict(GOENV, GORACE="halt_on_error=0"))
                ctx.cov["evaluations"] += 1
                ctx.oblige(f"race scenario run {k} completed", "race scenario finished" in p.stdout, p.stderr[-2000:])
                for rep in p.stderr.split("WARNING: DATA RACE")[1:]:
                    frames = _re.findall(r"/repo/([\w/\.]+\.go):(\d+)", rep)
                    locs = []
                    for fpath, line in frames[:12]:
                        key = os.path.basename(fpath) + ":" + line
                        if key in posmap:
                            locs.append(posmap[key])
                    loc = locs[0] if locs else (frames[0][0] + ":" + frames[0][1] if frames else "unknown")
                    ctx.violations.append({"sig": f"C20 race-detector {loc}", "detail": "go race detector report: " + rep[:1500],
                                           "replay": {"cmd": "bin/race_scn (go build -race ./cmd/race)", "report": rep[:3000]}})
    ctx.rules.append("T-gen: every read/write of every struct field of root/session/storages.memory/utils written outside constructors, with locks held (intraprocedural + callers' locks for private helpers), "
                     "regenerated from source and decided in Lean (C20_generated); search: -race build of a scenario with 4 senders, inbound logon / test / resend requests / logout / second logon, both timers expiring at N=1, "
                     "state queries, handler and event-handler registration, Stop, both roles; non-trivial = locations written outside constructors")
    return finish(ctx, "proof", "Lean lockset theorem (disciplined table => conflicting accesses mutually exclusive, all interleavings) + regenerated access table decided by kernel evaluation + go race detector scenario as failing-schedule search",
                  TRUSTED_COMMON + ["the extractor's lockset computation and constructor classification (table printed in work/facts.json)",
                                    "justified list (config setters called before Run): " + ", ".join(sorted(JUSTIFIED)),
                                    "data race = simultaneous conflicting access under modelled Mutex/RWMutex/atomic semantics (Go memory model modelled, not derived)"],
                  ["intended use: OnError / SetLogonRequest / SetUnmarshaller are called before Run"], CHECKER)


def C04(ctx):
    if common_prelude(ctx, ["Props.C04", "Props.C04Enc", "Props.C04Iso", "Props.C04E2E", "Props.C04Gen", "Props.ConnSkeleton"]):
        n = sizes(ctx, 250, 4000)
        for sd in seeds(ctx):
            res = run_harness(ctx, f"frame-{sd}", "conn", ["-mode", "frame", "-seed", str(sd), "-n", str(n)])
            fold(ctx, res, ["C04"], f"framing model vs real Conn under Initiator/Acceptor, seed {sd}")
    ctx.rules.append("real Initiator and Acceptor (1-3 simultaneous connections) over in-memory pipes with a recording handler: 1-8 random well-formed messages per connection (values containing '10=', "
                     "'110=', fields longer than bufio's 4096-byte buffer; a quarter of the cases with 1-3 damaged segments before the first message, a quarter ending inside a message), streams cut into 1-byte / tiny / medium / large writes, channel buffers 0/1/10; the handler must get exactly the messages sent "
                     "(one call at a time) and the model's frame op must agree; outbound: messages handed to Outgoing() must appear on the peer's side whole and in order; non-trivial = distinct chunked streams")
    return finish(ctx, "proof", "Lean theorems C04_chunk / C04_frame (reader state machine, all message sequences and all chunkings) and C04_pipeline (FIFO hand-offs, all schedules), C04_encoded_stream (every sequence of encoder outputs under every chunking is reassembled exactly: C17_wire composed with C04_frame), C04_resync (damage confined to one delivery from any reader state), C04_conservation / C04_only_frames (every byte stream), C04_isolation (every interleaving of arrivals on any number of connections), C04_end_to_end (both pipelines under any schedules, any chunking) + regenerated channel facts (C04_channels) + correspondence over scripted transports",
                  TRUSTED_COMMON + ["bufio.Reader.ReadBytes returns everything up to and including the delimiter independent of read chunking; Go channels are FIFO",
                                    "the extractor's inventory of channel sends/receives (one sender per hand-off channel)"],
                  ["messages are well-formed: no field other than the last starts with '10='"], CHECKER)


def C13(ctx):
    if common_prelude(ctx, ["Props.C13", "Props.ConnSkeleton"]):
        # the recorded stuck states of the initiating side (theorems C13_initiator_partial + _finding_witness hold)
        if not ctx.broken:
            ctx.violations.append({"sig": "C13 model initiator forwarder-in-ServeIncoming (C13_initiator_finding_witness)",
                                   "detail": "the blocking structure of the initiating side has reachable stuck states: forwarder in ServeIncoming while the handler's context is never cancelled",
                                   "replay": {"theorem": "Props.C13Sys.C13_initiator_finding_witness"}})
        n = sizes(ctx, 30, 400)
        for sd in seeds(ctx):
            res = run_realtime(ctx, f"faults-{sd}", "conn", ["-mode", "faults", "-seed", str(sd), "-n", str(n)], ["C13"])
            fold(ctx, res, ["C13"], f"fault injection on real Initiator/Acceptor, seed {sd}")
    ctx.rules.append("T-gen: inventory of every blocking operation (channel send/recv, select arms + default, Wait, net read/write/accept) regenerated from source and compared in Lean with the inventory the blocking "
                     "structures were written against; search: real Initiator / Acceptor + DefaultHandler over in-memory pipes, causes {peer close, handler stop, local close, write timeout} injected at a random moment with "
                     "inbound flood and/or outbound sends in flight, slow application handler, buffers 0/1/10; afterwards: goroutine profile filtered for library frames, Serve returned, socket closed, "
                     "disconnect/stopped notification, later sends return; non-trivial = distinct (role, cause, buffer, traffic) combinations")
    return finish(ctx, "proof", "Lean: generic soundness of the reachable-stuck-state check (checkSysP_sound) + kernel evaluation on the accepting and initiating blocking structures per termination cause + regenerated blocking inventory (C13_generated) + fault-injection search",
                  TRUSTED_COMMON + ["the hand-written blocking structures ConnSys.acceptor / ConnSys.initiator (points, escapes, partners, exit flags) — tied to the source only through the regenerated inventory of blocking operations",
                                    "a Lock is non-blocking (every critical section terminates); code between blocking points terminates; conn.Write returns at its deadline",
                                    "safety only: bounded settling time is measured by the fault harness (2.5 s budget), not proved"],
                  ["liveness (each goroutine actually exits once it can) needs fairness of select"], CHECKER)


def timer_prop(pid, modules, technique, nontrivial):
    def run(ctx):
        if common_prelude(ctx, modules):
            n = sizes(ctx, 6, 60)
            for sd in seeds(ctx):
                ps = [pid] + (["C08"] if pid == "C09" else [])
                res = run_realtime(ctx, f"timers-{sd}", "timers", ["-seed", str(sd), "-n", str(n), "-long", str(sizes(ctx, 4, 24))], ps)
                fold(ctx, res, ps, f"timer model vs real utils.Timer / Session timers, seed {sd}")
        ctx.rules.append("real time: utils.Timer at T in {30,50,100} ms with random refresh schedules — measured expiry must lie in [last refresh + T, + T/10 + 100 ms slack] and within one polling period + slack of the "
                         "model's ideal expiry for the observed refresh times; whole sessions at N = 1 s, both roles: heartbeat spacing with idle / send near the deadline / burst / random sends while the peer talks; "
                         "probe scenarios: total silence (TestRequest at ~2 s, disconnect ~2 s later, handler stopped, context cancelled), an answer of any type in the second period, a message just before the "
                         "deadline, a live peer (something every <= 1 s for 5 s: never probed); timer formula literals tied to the source text by the extractor; non-trivial = " + nontrivial)
        return finish(ctx, "proof", technique, TRUSTED_COMMON + [
            "time.Ticker / time.Now realise a poll within the stated slack (100 ms): timing is measured, the timer logic is proved",
            "expiry decision and message emission are one atomic step in the model (the runtime can interleave a send: scheduling slack named in the property)"],
            ["N >= 1 s; timers are exercised at N = 1 and T in {30,50,100} ms (random refreshes) and T = 3 s (refreshes mid-period, expiry compared with the model's poll within the slack)"], CHECKER)
    return run


C08 = timer_prop("C08", ["Props.C08", "Props.C08Gen", "Props.SessionSkeleton", "Props.SessionOrders"], "Lean theorems C08_upper / C08_lower over all refresh/poll sequences of the timer model + constants and formula text regenerated from source + real-time validation", "distinct refresh schedules / send patterns")
C09 = timer_prop("C09", ["Props.C09", "Props.C08Gen", "Props.C09Gen", "Props.SessionSkeleton", "Props.SessionOrders"], "Lean theorems C09_live / silence_bound (timer) and C09_probe / disconnect / cancel (session model) + formula text regenerated from source + real-time probe/disconnect scenarios", "distinct inbound arrival patterns")

def C12(ctx):
    if common_prelude(ctx, ["Props.C12"]):
        n = sizes(ctx, 16, 200)
        b = sizes(ctx, 3, 12)
        for sd in seeds(ctx):
            res = run_harness(ctx, f"gen-{sd}", "gen", ["-seed", str(sd), "-n", str(n), "-build", str(b), "-repo", os.environ.get("VERIF_REPO", "/repo")])
            fold(ctx, res, ["C12"], f"generator model vs real generator, seed {sd}")
    ctx.rules.append("the real generator (as a library, Doc/Config structures) on source/fix44.xml, on generator/testdata/fix.4.4.xml with and without its deliberate duplicates, and on seeded mutations "
                     "(remove / shuffle / add / rename members and fields, toggle required, retype the type mapping, add groups, duplicate numbers / msgtypes, shuffle the header around the excluded framing fields); "
                     "the emitted files are parsed (go/parser) into canonical declaration lines and compared with the Lean model's output for the same schema (1000-5900 declarations per schema); go-side oracles: "
                     "two generations into different (nested) directories are byte-identical, tests/fix44 equals a fresh generation declaration for declaration, every setter of the reference package puts "
                     "<schema number>=<value> on the wire and the getter returns it, getter and setter use the same index, every group occurrence gets its own members, selected packages compile (go build); "
                     "non-trivial = distinct schema variants")
    return finish(ctx, "proof", "Lean theorems over the abstract generator (C12_index, C12_items, C12_args, C12_types, C12_consts, C12_reject_dups) + correspondence of emitted declarations with the model + compile / determinism / reference-package oracles",
                  TRUSTED_COMMON + ["go/parser-based abstraction of the emitted files to declaration lines (harness cmd/gen)",
                                    "'the emitted package compiles' is checked with the Go compiler on the schemas explored, not proved"],
                  ["schemas keep identifiers unique and Go-safe (enum descriptions, names)"], CHECKER)


PROPS = {"C12": C12, "C08": C08, "C09": C09, "C04": C04, "C13": C13, "C05": C05, "C20": C20, "C19": C19, "C06": C06, "C07": C07, "C10": C10, "C14": C14, "C15": C15, "C16": C16, "C01": C01, "C17": C17, "C02": C02, "C18": C18, "C03": C03, "C11": C11}


def replay(ctx, path):
    """re-run, against the current /repo tree, the deterministic harness batch that produced the violation recorded in
    `path` (same binary, same seed and sizes: the generators derive every choice from the seed), and report whether a
    violation of the same kind shows up again. A replay file without a harness record (a broken obligation) re-runs the
    property's quick check."""
    r = json.load(open(path))
    prop = r.get("property", ctx.prop)
    hz = r.get("harness")
    if not hz:
        print(f"replay {path}: no harness record (broken obligation: {r.get('broken_obligations')}); re-running the quick check")
        return PROPS[prop](ctx)
    if not build_go(ctx):
        print("harness does not build against the current tree")
        return 1
    if hz["binary"] == "race_scn":
        return PROPS[prop](ctx)
    res = run_harness(ctx, "replay", hz["binary"], hz["args"])
    if res is None:
        print(f"VIOLATION property={prop} replay={path} (the harness run itself failed)")
        return 1
    kind = r.get("kind", "")
    again = []
    for p_, op, want, got in res["spec_bad"]:
        if p_ == prop and kind == f"spec-oracle {op.split(' ', 1)[0]}":
            again.append(f"spec predicate {op.split(' ', 1)[0]} fails again on the implementation's output")
    for g in (res["meta"].get("gofails") or []):
        if g["property"] == prop and g["kind"] == kind:
            again.append(f"{g['kind']}: {g['detail'][:300]}")
    known = [k for k in load_known_findings() if k.get("property") == prop and k.get("status") == "known"]
    import re as _re
    again = [a for a in again if not any(_re.search(k["match"], f"{prop} {a.replace(': ', ' ', 1)}") for k in known)]
    if again:
        print(f"replayed {hz['binary']} {' '.join(hz['args'])}: reproduced ({len(again)} instance(s)), e.g. {again[0]}")
        print(f"VIOLATION property={prop} replay={path}")
        return 1
    print(f"replayed {hz['binary']} {' '.join(hz['args'])}: the recorded violation ({kind}) does not occur on the current tree")
    return 0
