import os, json, subprocess
from main import (Ctx, build_go, regen_tables, lean_obligations, run_harness, fold, finish, sh, ROOT, LEAN, GO, BIN,
                  DRIVER, GOENV, lake_build)

TRUSTED_COMMON = [
    "Lean 4.33.0 kernel; axioms propext, Classical.choice, Quot.sound only (audited per theorem with #print axioms)",
    "hand-written Lean model of the Go code (lean/FixModel), tied to /repo by the correspondence run of this check",
    "Go harness /verif/go (generators, canonicalisation) and the compiled Lean driver (leanc lowering)",
    "Go runtime and standard library (bytes, strconv, fmt, time) modelled, not verified",
]
CHECKER = "lake build Props.<id> && lake env lean .audit/<id>.lean (#print axioms) && bin/<harness> | lean/.lake/build/bin/fixdriver | diff"


def setup():
    """MANIFEST.setup_cmd: build everything from files on disk."""
    c = Ctx("setup", "quick", 0)
    ok = build_go(c)
    regen_tables(c)
    rc, out = sh(["lake", "build"], cwd=LEAN, timeout=3600)
    print(out[-3000:])
    if rc != 0 or not ok:
        print("setup failed")
        return 1
    print("setup ok")
    return 0


def sizes(ctx, quick, thorough):
    return thorough if ctx.tier == "thorough" else quick


def seeds(ctx):
    if ctx.tier == "thorough":
        return [ctx.seed * 1000 + k for k in range(4)]
    return [ctx.seed]


def common_prelude(ctx, modules):
    ok = build_go(ctx)
    regen_tables(ctx)
    lean_obligations(ctx, modules)
    return ok


def codec_runs(ctx, mode, props, n_quick, n_thorough, depth=(3, 5), name=None):
    n = sizes(ctx, n_quick, n_thorough)
    d = sizes(ctx, depth[0], depth[1])
    for s in seeds(ctx):
        res = run_harness(ctx, f"{name or mode}-{s}", "codec", ["-mode", mode, "-seed", str(s), "-n", str(n), "-depth", str(d)])
        fold(ctx, res, props, f"codec/{mode} seed {s}")


def C01(ctx):
    if common_prelude(ctx, ["Props.C01"]):
        codec_runs(ctx, "enc", ["C01"], 4000, 60000)
    ctx.rules.append("random templates (depth<=3 quick / 5 thorough) and every tests/fix44 message type, random populations through every "
                     "constructor/setter route, long values to cross BodyLength digit boundaries; non-trivial = distinct wire image with > 4 fields")
    return finish(ctx, "proof", "Lean theorem C01_framed over the codec model + model/implementation correspondence on generated messages + spec oracle framedOK on implementation output",
                  TRUSTED_COMMON, ["values contain no SOH (property quantifier)", "header and trailer are set (a nil header makes the library itself panic)"], CHECKER)


def C17(ctx):
    if common_prelude(ctx, ["Props.C17"]):
        codec_runs(ctx, "enc", ["C17"], 4000, 60000)
    ctx.rules.append("as C01; additionally the library's own view of the population (IsNull/ToBytes of every field) is compared with the generator's intended population "
                     "(constructor / setter / FromBytes / FromBytes-then-Set routes); non-trivial = distinct wire image with > 4 fields")
    return finish(ctx, "proof", "Lean theorem C17_fields (wire fields = framing ++ populated leaves ++ checksum) + correspondence + spec oracle fieldsOK on implementation output",
                  TRUSTED_COMMON, ["values are non-empty and SOH-free; every group entry populates at least one field"], CHECKER)


def C02(ctx):
    if common_prelude(ctx, ["Props.C02"]):
        codec_runs(ctx, "rt", ["C02"], 2500, 40000)
    ctx.rules.append("serialize a random population (adversarial values spelling 'tag=' of the same template) then parse into a blank twin: model and implementation must produce the same tree; "
                     "go-side oracle: parsed tree = intended population and re-serialisation byte-identical (strict and non-strict); non-trivial = distinct wire image of a template with pairwise distinct tags")
    return finish(ctx, "proof", "Lean round-trip theorems over the decoder model + correspondence + round-trip oracle on the implementation",
                  TRUSTED_COMMON, ["tags pairwise distinct in a template, first field of each group entry populated, no empty value (property preconditions)",
                                   "Float/Time: strconv / time round-trip laws validated, not proved"], CHECKER)


def C18(ctx):
    if common_prelude(ctx, ["Props.C18"]):
        codec_runs(ctx, "rt", ["C18"], 2000, 30000)
        codec_runs(ctx, "vbt", ["C18"], 1500, 20000)
    ctx.rules.append("messages with values spelling 'tag=' for template tags and with foreign fields whose tags are decimal extensions/truncations of template tags (re-framed): "
                     "decode must equal the intended population; ValueByTag must equal the field-boundary lookup lookupField; non-trivial = distinct (tag, image) with a successful lookup or unique-tag decode")
    return finish(ctx, "proof", "Lean scan lemma (first SOH·tag·= occurrence is at a field boundary) + correspondence + lookupField oracle on implementation output",
                  TRUSTED_COMMON, ["message starts with BeginString; values SOH-free"], CHECKER)


def C03(ctx):
    if common_prelude(ctx, ["Props.C03"]):
        codec_runs(ctx, "dmg", ["C03"], 12, 150)
    ctx.rules.append("per valid message: EVERY single-byte substitution (255 x len), every interior insertion (256 x (len-1)), every deletion, every proper prefix, strict or non-strict; "
                     "plus arbitrary bodies under a correct frame and near-correct frames (soundness: accepted => integrityOK); non-trivial = distinct base message / distinct accepted string")
    return finish(ctx, "proof", "Lean theorem C03_sound (accept => Integrity) + exhaustive single-byte damage neighbourhood on the implementation + correspondence",
                  TRUSTED_COMMON, ["valid message = as produced by the library's own serializer"], CHECKER)


def C11(ctx):
    if common_prelude(ctx, ["Props.C11"]):
        codec_runs(ctx, "fuzz", ["C11"], 4000, 60000)
    ctx.rules.append("all strings of length <= 3 over {SOH,=,8,1,0,9} against 3 templates; random strings; correctly framed messages with mutated bodies (dropped '=', dropped fields, "
                     "repeated SOH, junk segments, broken group counts, truncated nested groups) against random and all fix44 templates; each with ValueByTag lookups; non-trivial = distinct framed input")
    return finish(ctx, "proof", "Lean theorems: every checked slice expression of the decoder model is in bounds (result != panic) and every function terminates + correspondence incl. panics",
                  TRUSTED_COMMON, ["header and trailer components are set on the target message"], CHECKER)


PROPS = {"C01": C01, "C17": C17, "C02": C02, "C18": C18, "C03": C03, "C11": C11}


def replay(ctx, path):
    r = json.load(open(path))
    ops = r.get("ops", [])
    build_go(ctx)
    d = os.path.join(ctx.work, "replay")
    os.makedirs(d, exist_ok=True)
    open(os.path.join(d, "ops.txt"), "w").write("\n".join(ops) + "\n")
    p = subprocess.run([DRIVER], input="\n".join(ops) + "\n", stdout=subprocess.PIPE, text=True)
    print("model:")
    print(p.stdout)
    rc, out = sh([os.path.join(BIN, "replay"), "-ops", os.path.join(d, "ops.txt")], env=GOENV)
    print("implementation:")
    print(out)
    same = p.stdout.strip().split("\n") == out.strip().split("\n")
    print("agree" if same else "DISAGREE")
    return 0 if same else 1
