// Package gen: seeded generators of templates, populations and values, built from the
// library's own constructors.
package gen

import (
	"encoding/hex"
	"fmt"
	"math"
	"math/rand"
	"strconv"
	"strings"
	"time"

	"github.com/b2broker/simplefix-go/fix"
	"github.com/b2broker/simplefix-go/session/messages"
	fixgen "github.com/b2broker/simplefix-go/tests/fix44"
)

// T describes a template item so that fresh copies can be built repeatedly.
type T struct {
	Kind  byte // 'K', 'G', 'C'
	Tag   string
	VKind byte // s i u f t b r
	Kids  []*T
}

func NewValue(k byte) fix.Value {
	switch k {
	case 's':
		return &fix.String{}
	case 'i':
		return &fix.Int{}
	case 'u':
		return &fix.Uint{}
	case 'f':
		return &fix.Float{}
	case 't':
		return &fix.Time{}
	case 'b':
		return &fix.Bool{}
	}
	return &fix.Raw{}
}

func (t *T) Build() fix.Item {
	switch t.Kind {
	case 'K':
		return fix.NewKeyValue(t.Tag, NewValue(t.VKind))
	case 'C':
		return fix.NewComponent(BuildAll(t.Kids)...)
	default:
		return fix.NewGroup(t.Tag, BuildAll(t.Kids)...)
	}
}

func BuildAll(ts []*T) []fix.Item {
	out := make([]fix.Item, len(ts))
	for i, t := range ts {
		out[i] = t.Build()
	}
	return out
}

// MsgT is a whole message template.
type MsgT struct {
	BsTag, BlTag, CsTag, MtTag string
	Bs, Mt                     string
	Header, Body, Trailer      []*T
}

func (m *MsgT) Build() *fix.Message {
	return fix.NewMessage(m.BsTag, m.BlTag, m.CsTag, m.MtTag, m.Bs, m.Mt).
		SetHeader(fix.NewComponent(BuildAll(m.Header)...)).
		SetBody(BuildAll(m.Body)...).
		SetTrailer(fix.NewComponent(BuildAll(m.Trailer)...))
}

// Tags hands out pairwise distinct tag numbers, some of them decimal prefixes/suffixes
// of tags handed out before (146 / 1146 / 14 / 46).
type Tags struct {
	R    *rand.Rand
	Used map[string]bool
	List []string
}

func NewTags(r *rand.Rand) *Tags { return &Tags{R: r, Used: map[string]bool{}} }

func (g *Tags) Next() string {
	for {
		var t string
		switch {
		case len(g.List) > 0 && g.R.Intn(4) == 0:
			base := g.List[g.R.Intn(len(g.List))]
			switch g.R.Intn(4) {
			case 0:
				t = strconv.Itoa(1+g.R.Intn(9)) + base
			case 1:
				t = base + strconv.Itoa(g.R.Intn(10))
			case 2:
				if len(base) > 1 {
					t = base[1:]
				}
			default:
				if len(base) > 1 {
					t = base[:len(base)-1]
				}
			}
		default:
			t = strconv.Itoa(1 + g.R.Intn(2000))
		}
		if t == "" || t[0] == '0' || g.Used[t] {
			continue
		}
		g.Used[t] = true
		g.List = append(g.List, t)
		return t
	}
}

var kinds = []byte("sssiufTbr") // T = time

func randKind(r *rand.Rand) byte {
	k := kinds[r.Intn(len(kinds))]
	if k == 'T' {
		return 't'
	}
	return k
}

// RandItems generates a list of template items; depth bounds nesting.
func RandItems(r *rand.Rand, g *Tags, n, depth int) []*T {
	out := make([]*T, 0, n)
	for i := 0; i < n; i++ {
		c := r.Intn(10)
		switch {
		case depth > 0 && c == 0:
			out = append(out, &T{Kind: 'C', Kids: RandItems(r, g, r.Intn(4), depth-1)})
		case depth > 0 && c <= 2:
			kids := RandItems(r, g, 1+r.Intn(3), depth-1)
			// the first member of a group template is a plain field (FIX: the delimiter field)
			kids[0] = &T{Kind: 'K', Tag: g.Next(), VKind: randKind(r)}
			out = append(out, &T{Kind: 'G', Tag: g.Next(), Kids: kids})
		default:
			out = append(out, &T{Kind: 'K', Tag: g.Next(), VKind: randKind(r)})
		}
	}
	return out
}

func RandMsgT(r *rand.Rand, depth int, std bool) *MsgT {
	g := NewTags(r)
	m := &MsgT{}
	if std || r.Intn(3) > 0 {
		m.BsTag, m.BlTag, m.CsTag, m.MtTag = "8", "9", "10", "35"
		for _, t := range []string{"8", "9", "10", "35"} {
			g.Used[t] = true
			g.List = append(g.List, t)
		}
	} else {
		m.BsTag, m.BlTag, m.CsTag, m.MtTag = g.Next(), g.Next(), g.Next(), g.Next()
	}
	m.Bs = []string{"FIX.4.4", "FIX.4.2", "FIXT.1.1", "F"}[r.Intn(4)]
	m.Mt = []string{"0", "A", "D", "V", "AB", "8", "W"}[r.Intn(7)]
	m.Header = RandItems(r, g, r.Intn(4), depth-1)
	m.Body = RandItems(r, g, r.Intn(7), depth)
	if r.Intn(3) == 0 {
		m.Trailer = RandItems(r, g, r.Intn(3), 0)
	}
	return m
}

// ---- values ---------------------------------------------------------------

// Opts steers the value generator.
type Opts struct {
	AllowEmpty bool     // also generate empty strings / raws
	Hints      []string // tags of the template, to spell "tag=" inside values
	Long       bool     // occasionally generate long values (BodyLength digit boundaries)
}

var alphabet = []byte("ABCxyz0123456789= .-_/:;,|\x00\x02\xff")

func RandText(r *rand.Rand, o *Opts) []byte {
	if o.AllowEmpty && r.Intn(20) == 0 {
		return []byte{}
	}
	n := 1 + r.Intn(8)
	if o.Long && r.Intn(6) == 0 {
		n = r.Intn(1200)
		if n == 0 {
			n = 1
		}
	}
	b := make([]byte, 0, n+8)
	for len(b) < n {
		if len(o.Hints) > 0 && r.Intn(5) == 0 {
			h := o.Hints[r.Intn(len(o.Hints))]
			b = append(b, h...)
			b = append(b, '=')
			if r.Intn(2) == 0 {
				b = append(b, byte('0'+r.Intn(10)))
			}
			continue
		}
		if r.Intn(8) == 0 {
			b = append(b, "10="...)
			continue
		}
		b = append(b, alphabet[r.Intn(len(alphabet))])
	}
	return b
}

func RandInt(r *rand.Rand) int {
	switch r.Intn(8) {
	case 0:
		return 0
	case 1:
		return math.MaxInt64
	case 2:
		return math.MinInt64
	case 3:
		return -r.Intn(1000)
	case 4:
		return int(r.Uint64())
	}
	return r.Intn(100000)
}

func RandUint(r *rand.Rand) uint64 {
	switch r.Intn(6) {
	case 0:
		return 0
	case 1:
		return math.MaxUint64
	case 2:
		return r.Uint64()
	}
	return uint64(r.Intn(100000))
}

func RandFloat(r *rand.Rand) float64 {
	switch r.Intn(10) {
	case 0:
		return 0
	case 1:
		return math.Copysign(0, -1)
	case 2:
		return math.MaxFloat64
	case 3:
		return math.SmallestNonzeroFloat64
	case 4:
		return -math.MaxFloat64
	case 5:
		for {
			f := math.Float64frombits(r.Uint64())
			if !math.IsNaN(f) && !math.IsInf(f, 0) {
				return f
			}
		}
	case 6:
		return float64(r.Intn(1000000)) / 100
	}
	return (r.Float64() - 0.5) * math.Pow(10, float64(r.Intn(12)-3))
}

func RandTime(r *rand.Rand) time.Time {
	y := 1 + r.Intn(9999)
	if r.Intn(3) > 0 {
		y = 1990 + r.Intn(60)
	}
	return time.Date(y, time.Month(1+r.Intn(12)), 1+r.Intn(31), r.Intn(24), r.Intn(60), r.Intn(60),
		r.Intn(1000)*1000000, time.UTC)
}

// S is the shadow of one item: what the generator *intended* to populate, computed without
// consulting the library (canonical texts come from strconv / time directly).
type S struct {
	Kind    byte // K G C
	Tag     string
	VKind   byte
	Valid   bool
	Text    []byte
	Kids    []*S   // component members / group template (blank)
	Entries [][]*S // group entries
}

// SetValue populates kv with a random value of its own kind through one of the public
// routes (typed Set, a value constructor, FromBytes of the canonical text, or for a few
// kinds FromBytes followed by Set) and returns the canonical text the field must carry.
func SetValue(r *rand.Rand, kv *fix.KeyValue, o *Opts) []byte {
	route := r.Intn(4)
	switch v := kv.Value.(type) {
	case *fix.String:
		s := string(RandText(r, o))
		switch route {
		case 0:
			_ = v.Set(s)
		case 1:
			kv.Set(fix.NewString(s))
		case 2:
			_ = v.FromBytes([]byte(s))
		default:
			_ = v.FromBytes(RandText(r, o))
			_ = v.Set(s)
		}
		return []byte(s)
	case *fix.Int:
		n := RandInt(r)
		switch route {
		case 0:
			_ = v.Set(n)
		case 1:
			kv.Set(fix.NewInt(n))
		case 2:
			_ = v.FromBytes([]byte(strconv.Itoa(n)))
		default:
			_ = v.FromBytes([]byte(strconv.Itoa(RandInt(r))))
			_ = v.Set(n)
		}
		return []byte(strconv.Itoa(n))
	case *fix.Uint:
		n := RandUint(r)
		switch route {
		case 0:
			_ = v.Set(n)
		case 1:
			kv.Set(fix.NewUint(n))
		case 2:
			_ = v.FromBytes([]byte(strconv.FormatUint(n, 10)))
		default:
			_ = v.FromBytes([]byte(strconv.FormatUint(RandUint(r), 10)))
			_ = v.Set(n)
		}
		return []byte(strconv.FormatUint(n, 10))
	case *fix.Float:
		f := RandFloat(r)
		txt := strconv.FormatFloat(f, 'f', -1, 64)
		switch route {
		case 0:
			_ = v.Set(f)
		case 1:
			kv.Set(fix.NewFloat(f))
		case 2:
			_ = v.FromBytes([]byte(txt))
		default:
			_ = v.FromBytes([]byte(strconv.FormatFloat(RandFloat(r), 'f', -1, 64)))
			_ = v.Set(f)
		}
		return []byte(txt)
	case *fix.Time:
		t := RandTime(r)
		txt := t.Format("20060102-15:04:05.000")
		switch route {
		case 0:
			_ = v.Set(t)
		case 1:
			kv.Set(fix.NewTime(t))
		case 2:
			_ = v.FromBytes([]byte(txt))
		default:
			_ = v.FromBytes([]byte(RandTime(r).Format("20060102-15:04:05.000")))
			_ = v.Set(t)
		}
		return []byte(txt)
	case *fix.Bool:
		b := r.Intn(2) == 0
		txt := "N"
		if b {
			txt = "Y"
		}
		switch route {
		case 2:
			_ = v.FromBytes([]byte(txt))
		case 3:
			_ = v.FromBytes([]byte("Y"))
			_ = v.Set(b)
		default:
			_ = v.Set(b)
		}
		return []byte(txt)
	case *fix.Raw:
		b := RandText(r, o)
		switch route {
		case 0:
			_ = v.Set(b)
		case 1:
			kv.Set(fix.NewRaw(b))
		default:
			_ = v.FromBytes(b)
		}
		return b
	}
	return nil
}

// Populate fills a random subset of the fields of items and returns the shadow of the
// whole list. Every populated group gets 1..3 entries, each a populated AsTemplate() copy
// whose first field is always populated when firstAlways is set.
func Populate(r *rand.Rand, items []fix.Item, o *Opts, p float64, first, firstAlways bool) []*S {
	out := make([]*S, len(items))
	for i, it := range items {
		switch el := it.(type) {
		case *fix.KeyValue:
			s := &S{Kind: 'K', Tag: el.Key, VKind: wireKind(el.Value)}
			if (first && i == 0) || r.Float64() < p {
				s.Text = SetValue(r, el, o)
				s.Valid = true
			}
			out[i] = s
		case *fix.Component:
			out[i] = &S{Kind: 'C', Kids: Populate(r, el.Items(), o, p, first && i == 0, firstAlways)}
		case *fix.Group:
			s := &S{Kind: 'G', Tag: el.NoTag(), Kids: Blank(el.AsTemplate())}
			if r.Float64() < p+0.2 {
				n := 1 + r.Intn(3)
				for k := 0; k < n; k++ {
					e := el.AsTemplate()
					if r.Intn(3) == 0 {
						// the route the generated code takes for "add the entry, then fill it in": the entry is a component whose
						// item list the group is given; values are set in place and one slot is replaced through Component.Set
						comp := fix.NewComponent(e...)
						el.AddEntry(comp.Items())
						sh := Populate(r, comp.Items(), o, p, firstAlways, firstAlways)
						for j, it := range comp.Items() {
							if kv, ok := it.(*fix.KeyValue); ok && r.Intn(2) == 0 {
								nk := fix.NewKeyValue(kv.Key, NewValue(wireKind(kv.Value)))
								sh[j].Text = SetValue(r, nk, o)
								sh[j].Valid = true
								comp.Set(j, nk)
								break
							}
						}
						s.Entries = append(s.Entries, sh)
						continue
					}
					sh := Populate(r, e, o, p, firstAlways, firstAlways)
					if k > 0 && r.Intn(2) == 0 {
						alignEntry(e, sh, s.Entries[k-1])
					}
					s.Entries = append(s.Entries, sh)
					el.AddEntry(e)
				}
			}
			out[i] = s
		}
	}
	return out
}

// flatLeaves lists the field shadows of an entry in wire order (components are entered, groups are not).
func flatLeaves(sh []*S, out *[]*S) bool {
	for _, x := range sh {
		switch x.Kind {
		case 'K':
			*out = append(*out, x)
		case 'C':
			if !flatLeaves(x.Kids, out) {
				return false
			}
		default:
			return false // a nested group: offsets behind it are not computed here
		}
	}
	return true
}

// alignEntry makes the first (string) field of an entry carry text that spells `K=` for a later field K of the same
// template, placed so that it ends at exactly the offset at which K's value started in the previous entry — the
// adversarial alignment for any decoder that remembers where it found a field last time.
func alignEntry(e []fix.Item, sh []*S, prev []*S) {
	kv, ok := e[0].(*fix.KeyValue)
	if !ok || len(sh) == 0 || sh[0].Kind != 'K' {
		return
	}
	var pl []*S
	flatLeaves(prev, &pl)
	off := 1 // the entry slice starts with the delimiter
	for j, l := range pl {
		if !l.Valid || len(l.Text) == 0 {
			continue
		}
		if j > 0 && l.Tag != kv.Key {
			// candidate K: its value started at off + len(tag) + 1 in the previous entry
			pv := off + len(l.Tag) + 1
			x := pv - (len(kv.Key) + len(l.Tag) + 3)
			if x >= 0 && x < 200 {
				text := strings.Repeat("a", x) + l.Tag + "=zz"
				switch v := kv.Value.(type) {
				case *fix.String:
					_ = v.Set(text)
				case *fix.Raw:
					_ = v.Set([]byte(text))
				default:
					return
				}
				sh[0].Text = []byte(text)
				sh[0].Valid = true
				return
			}
		}
		off += len(l.Tag) + 1 + len(l.Text) + 1
	}
}

// Mutate applies typed Set calls to a random subset of the populated fields of an already populated
// (for example parsed) item list and updates the shadow accordingly; returns how many fields changed.
func Mutate(r *rand.Rand, items []fix.Item, shadow []*S, o *Opts, p float64) int {
	n := 0
	for i, it := range items {
		sh := shadow[i]
		switch el := it.(type) {
		case *fix.KeyValue:
			if sh.Valid && r.Float64() < p {
				sh.Text = setTyped(r, el, o)
				n++
			}
		case *fix.Component:
			n += Mutate(r, el.Items(), sh.Kids, o, p)
		case *fix.Group:
			for k, e := range el.Entries() {
				if k < len(sh.Entries) {
					n += Mutate(r, e, sh.Entries[k], o, p)
				}
			}
		}
	}
	return n
}

// setTyped sets a new random value through the value's typed Set and returns its canonical text.
func setTyped(r *rand.Rand, kv *fix.KeyValue, o *Opts) []byte {
	switch v := kv.Value.(type) {
	case *fix.String:
		s := string(RandText(r, o))
		_ = v.Set(s)
		return []byte(s)
	case *fix.Int:
		n := RandInt(r)
		_ = v.Set(n)
		return []byte(strconv.Itoa(n))
	case *fix.Uint:
		n := RandUint(r)
		_ = v.Set(n)
		return []byte(strconv.FormatUint(n, 10))
	case *fix.Float:
		f := RandFloat(r)
		_ = v.Set(f)
		return []byte(strconv.FormatFloat(f, 'f', -1, 64))
	case *fix.Time:
		t := RandTime(r)
		_ = v.Set(t)
		return []byte(t.Format("20060102-15:04:05.000"))
	case *fix.Bool:
		b := r.Intn(2) == 0
		_ = v.Set(b)
		if b {
			return []byte("Y")
		}
		return []byte("N")
	case *fix.Raw:
		b := RandText(r, o)
		_ = v.Set(b)
		return b
	}
	return nil
}

// MutateMsg is Mutate over header and body of a message (the trailer is never serialized).
func MutateMsg(r *rand.Rand, all fix.Items, m *SMsg, o *Opts, p float64) int {
	n := len(all)
	return Mutate(r, all[3].(*fix.Component).Items(), m.Header, o, p) + Mutate(r, all[4:n-2], m.Body, o, p)
}

func wireKind(v fix.Value) byte {
	switch v.(type) {
	case *fix.String:
		return 's'
	case *fix.Int:
		return 'i'
	case *fix.Uint:
		return 'u'
	case *fix.Float:
		return 'f'
	case *fix.Time:
		return 't'
	case *fix.Bool:
		return 'b'
	}
	return 'r'
}

// Blank is the shadow of an unpopulated item list.
func Blank(items []fix.Item) []*S {
	out := make([]*S, len(items))
	for i, it := range items {
		switch el := it.(type) {
		case *fix.KeyValue:
			out[i] = &S{Kind: 'K', Tag: el.Key, VKind: wireKind(el.Value)}
		case *fix.Component:
			out[i] = &S{Kind: 'C', Kids: Blank(el.Items())}
		case *fix.Group:
			out[i] = &S{Kind: 'G', Tag: el.NoTag(), Kids: Blank(el.AsTemplate())}
		}
	}
	return out
}

func sx(b []byte) string { return "x" + hex.EncodeToString(b) }

func DumpS(sb *strings.Builder, s *S) {
	switch s.Kind {
	case 'K':
		st := "n"
		if s.Valid {
			st = "v" + hex.EncodeToString(s.Text)
		}
		fmt.Fprintf(sb, " K %s %c%s", sx([]byte(s.Tag)), s.VKind, st)
	case 'C':
		DumpSList(sb, s.Kids)
		// DumpSList writes "n items"; a component is "C n items"
	case 'G':
		fmt.Fprintf(sb, " G %s", sx([]byte(s.Tag)))
		DumpSList(sb, s.Kids)
		fmt.Fprintf(sb, " %d", len(s.Entries))
		for _, e := range s.Entries {
			DumpSList(sb, e)
		}
	}
}

func DumpSList(sb *strings.Builder, l []*S) {
	fmt.Fprintf(sb, " %d", len(l))
	for _, s := range l {
		if s.Kind == 'C' {
			sb.WriteString(" C")
		}
		DumpS(sb, s)
	}
}

// SMsg is the shadow of a whole message.
type SMsg struct {
	BsTag, BlTag, CsTag, MtTag string
	Bs, Mt                     string
	Header, Body, Trailer      []*S
}

// Dump renders the shadow in the wire grammar (BodyLength / CheckSum blank).
func (m *SMsg) Dump() string {
	var sb strings.Builder
	fmt.Fprintf(&sb, "M %s %s %s %s sv%s in sv%s sn", sx([]byte(m.BsTag)), sx([]byte(m.BlTag)), sx([]byte(m.CsTag)),
		sx([]byte(m.MtTag)), hex.EncodeToString([]byte(m.Bs)), hex.EncodeToString([]byte(m.Mt)))
	DumpSList(&sb, m.Header)
	DumpSList(&sb, m.Body)
	DumpSList(&sb, m.Trailer)
	return sb.String()
}

// PopulateMsg populates a message given its Items() and returns its shadow.
func PopulateMsg(r *rand.Rand, all fix.Items, o *Opts, p float64, firstAlways bool) *SMsg {
	n := len(all)
	bs := all[0].(*fix.KeyValue)
	m := &SMsg{BsTag: bs.Key, BlTag: all[1].(*fix.KeyValue).Key, CsTag: all[n-1].(*fix.KeyValue).Key,
		MtTag: all[2].(*fix.KeyValue).Key, Bs: bs.Value.String(), Mt: all[2].(*fix.KeyValue).Value.String()}
	m.Header = Populate(r, all[3].(*fix.Component).Items(), o, p, false, firstAlways)
	m.Body = Populate(r, all[4:n-2], o, p, false, firstAlways)
	m.Trailer = Populate(r, all[n-2].(*fix.Component).Items(), o, p, false, firstAlways)
	return m
}

// CollectTags returns every tag of the template (fields and group counts, every depth).
func CollectTags(items []fix.Item, out *[]string) {
	for _, it := range items {
		switch el := it.(type) {
		case *fix.KeyValue:
			*out = append(*out, el.Key)
		case *fix.Component:
			CollectTags(el.Items(), out)
		case *fix.Group:
			*out = append(*out, el.NoTag())
			CollectTags(el.AsTemplate(), out)
		}
	}
}

func Unique(tags []string) bool {
	seen := map[string]bool{}
	for _, t := range tags {
		if seen[t] {
			return false
		}
		seen[t] = true
	}
	return true
}

// Fix44 lists constructors of every generated message type in tests/fix44.
type Ctor struct {
	Name string
	New  func() messages.Builder
}

var Fix44 = []Ctor{
	{"Heartbeat", func() messages.Builder { return fixgen.NewHeartbeat() }},
	{"Logon", func() messages.Builder { return fixgen.NewLogon() }},
	{"Logout", func() messages.Builder { return fixgen.NewLogout() }},
	{"Reject", func() messages.Builder { return fixgen.NewReject() }},
	{"ResendRequest", func() messages.Builder { return fixgen.NewResendRequest() }},
	{"SequenceReset", func() messages.Builder { return fixgen.NewSequenceReset() }},
	{"TestRequest", func() messages.Builder { return fixgen.NewTestRequest() }},
	{"MarketDataRequest", func() messages.Builder { return fixgen.NewMarketDataRequest() }},
	{"MarketDataRequestReject", func() messages.Builder { return fixgen.NewMarketDataRequestReject() }},
	{"MarketDataSnapshotFullRefresh", func() messages.Builder { return fixgen.NewMarketDataSnapshotFullRefresh() }},
	{"MarketDataIncrementalRefresh", func() messages.Builder { return fixgen.NewMarketDataIncrementalRefresh() }},
}
