// Package hout: writer of the op / expectation / go-side-failure streams of a harness run.
package hout

import (
	"bufio"
	"encoding/json"
	"fmt"
	"math/rand"
	"os"
	"path/filepath"
	"sort"
)

type GoFail struct {
	Prop   string   `json:"property"`
	Kind   string   `json:"kind"`
	Detail string   `json:"detail"`
	Replay []string `json:"replay"`
}

type Out struct {
	dir      string
	ops, exp *bufio.Writer
	fo, fe   *os.File
	N        int
	Stats    map[string]int
	Samples  map[string][]string
	Fails    []GoFail
	Distinct map[string]map[string]bool
	R        *rand.Rand // the run's PRNG, for oracles that need more random choices
}

func New(dir string) *Out {
	_ = os.MkdirAll(dir, 0o755)
	fo, err := os.Create(filepath.Join(dir, "ops.txt"))
	if err != nil {
		panic(err)
	}
	fe, err := os.Create(filepath.Join(dir, "exp.txt"))
	if err != nil {
		panic(err)
	}
	return &Out{dir: dir, fo: fo, fe: fe, ops: bufio.NewWriterSize(fo, 1<<20), exp: bufio.NewWriterSize(fe, 1<<20),
		Stats: map[string]int{}, Samples: map[string][]string{}, Distinct: map[string]map[string]bool{}}
}

// Emit writes one driver op and what its output must be.
// class: "corr" (model vs implementation) or "spec" (spec predicate on implementation output).
func (o *Out) Emit(class, prop, op, expect string) {
	fmt.Fprintln(o.ops, op)
	fmt.Fprintf(o.exp, "%s %s %s\n", class, prop, expect)
	o.N++
	o.Stats[prop+"."+class]++
}

// EmitTimer writes a timer op whose model answer ("expiry <ms>") must be within tol ms of the measured
// expiry; the comparison is numeric (see checklib: class "near").
func (o *Out) EmitTimer(op string, measuredMs, tolMs float64) {
	fmt.Fprintln(o.ops, op)
	fmt.Fprintf(o.exp, "near C08 %.2f %.2f\n", measuredMs, tolMs)
	o.N++
	o.Stats["C08.near"]++
}

func (o *Out) Count(key string) { o.Stats[key]++ }

// Nontrivial records a distinct non-trivial case for a property.
func (o *Out) Nontrivial(prop, key string) {
	m := o.Distinct[prop]
	if m == nil {
		m = map[string]bool{}
		o.Distinct[prop] = m
	}
	if len(m) < 2000000 {
		m[key] = true
	}
}

func (o *Out) Sample(prop, s string) {
	if len(o.Samples[prop]) < 5 {
		if len(s) > 600 {
			s = s[:600] + "…"
		}
		o.Samples[prop] = append(o.Samples[prop], s)
	}
}

func (o *Out) Fail(prop, kind, detail string, replay ...string) {
	if len(o.Fails) < 200 {
		o.Fails = append(o.Fails, GoFail{prop, kind, detail, replay})
	}
	o.Stats[prop+".gofail"]++
}

func (o *Out) Close() {
	o.ops.Flush()
	o.exp.Flush()
	o.fo.Close()
	o.fe.Close()
	distinct := map[string]int{}
	for k, v := range o.Distinct {
		distinct[k] = len(v)
	}
	keys := make([]string, 0, len(o.Stats))
	for k := range o.Stats {
		keys = append(keys, k)
	}
	sort.Strings(keys)
	meta := map[string]interface{}{"ops": o.N, "stats": o.Stats, "samples": o.Samples, "gofails": o.Fails, "distinct": distinct}
	b, _ := json.MarshalIndent(meta, "", " ")
	_ = os.WriteFile(filepath.Join(o.dir, "meta.json"), b, 0o644)
}
