module verifharness

go 1.18

require (
	github.com/b2broker/simplefix-go v0.0.0
	golang.org/x/sync v0.0.0-20210220032951-036812b2e83c
)

replace github.com/b2broker/simplefix-go => /repo
