// timers: real-time scenarios for C08 / C09 — utils.Timer against the model's ideal expiry, and
// whole sessions at N = 1 s (heartbeat spacing, postponement by traffic, probe, disconnect,
// cancellation by inbound traffic, live peer). Scenarios run concurrently.
package main

import (
	"bytes"
	"context"
	"flag"
	"fmt"
	"math/rand"
	"os"
	"sort"
	"strconv"
	"strings"
	"sync"
	"sync/atomic"
	"time"

	simplefixgo "github.com/b2broker/simplefix-go"
	"github.com/b2broker/simplefix-go/session"
	"github.com/b2broker/simplefix-go/session/messages"
	"github.com/b2broker/simplefix-go/storages/memory"
	fixgen "github.com/b2broker/simplefix-go/tests/fix44"
	"github.com/b2broker/simplefix-go/utils"

	"verifharness/hout"
)

var (
	seed = flag.Int64("seed", 1, "")
	n    = flag.Int("n", 12, "")
	out  = flag.String("out", "", "")
	long = flag.Int("long", 0, "number of long (T = 3 s) timer cases")
)

const slack = 100 * time.Millisecond // scheduling slack tolerated on top of one polling period (a loaded machine delays goroutines by tens of ms)

var mu sync.Mutex

func opts() *session.Opts {
	return &session.Opts{
		MessageBuilders: session.MessageBuilders{
			HeaderBuilder: fixgen.Header{}.New(), TrailerBuilder: fixgen.Trailer{}.New(), LogonBuilder: fixgen.Logon{}.New(),
			LogoutBuilder: fixgen.Logout{}.New(), RejectBuilder: fixgen.Reject{}.New(), HeartbeatBuilder: fixgen.Heartbeat{}.New(),
			TestRequestBuilder: fixgen.TestRequest{}.New(), ResendRequestBuilder: fixgen.ResendRequest{}.New(),
		},
		Tags:                    &messages.Tags{MsgType: 35, MsgSeqNum: 34, HeartBtInt: 108, EncryptedMethod: 98},
		AllowedEncryptedMethods: map[string]struct{}{"0": {}},
		SessionErrorCodes:       &messages.SessionErrorCodes{IncorrectValue: 5, Other: 99},
	}
}

func frame(body string) []byte {
	head := "8=FIX.4.4\x019=" + strconv.Itoa(len(body)) + "\x01"
	d := head + body
	sum := 0
	for i := 0; i < len(d); i++ {
		sum += int(d[i])
	}
	return []byte(d + fmt.Sprintf("10=%03d\x01", sum%256))
}

func field(m []byte, tag string) string {
	for _, f := range bytes.Split(m, []byte{1}) {
		if bytes.HasPrefix(f, []byte(tag+"=")) {
			return string(f[len(tag)+1:])
		}
	}
	return ""
}

// ---- utils.Timer against the model

func timerCase(r *rand.Rand, o *hout.Out) {
	T := []int{30, 50, 100}[r.Intn(3)]
	P := T / 10
	// refresh offsets (ms) from the start of TakeTimeout, increasing
	var rs []int
	t := 0
	for k := r.Intn(5); k > 0; k-- {
		t += 1 + r.Intn(T-1)
		rs = append(rs, t)
	}
	tm, err := utils.NewTimer(time.Duration(T) * time.Millisecond)
	if err != nil {
		panic(err)
	}
	start := time.Now()
	done := make(chan time.Duration, 1)
	go func() { tm.TakeTimeout(); done <- time.Since(start) }()
	type stamp struct{ before, after time.Duration }
	var stamps []stamp
	for _, off := range rs {
		time.Sleep(time.Until(start.Add(time.Duration(off) * time.Millisecond)))
		b := time.Since(start)
		tm.Refresh()
		stamps = append(stamps, stamp{b, time.Since(start)})
	}
	el := <-done
	tm.Close()
	// on a loaded machine a scripted refresh can come after the timer has already expired: such a refresh did not
	// happen as far as the expiry is concerned; one that straddles the expiry makes the case unusable
	var actual []int
	lastBefore := 0.0
	for _, st := range stamps {
		if st.after < el {
			actual = append(actual, int(st.after/time.Millisecond))
			lastBefore = float64(st.before) / float64(time.Millisecond)
		} else if st.before <= el+2*time.Millisecond {
			mu.Lock()
			o.Count("timer.discarded-refresh-straddles-expiry")
			mu.Unlock()
			return
		}
	}
	last := 0
	if len(actual) > 0 {
		last = actual[len(actual)-1]
	}
	var sb strings.Builder
	fmt.Fprintf(&sb, "timer %d %d 0", T, P)
	for _, a := range actual {
		fmt.Fprintf(&sb, " %d", a)
	}
	elMs := float64(el) / float64(time.Millisecond)
	lo := lastBefore + float64(T) // the refresh took effect no earlier than the moment before the call
	hi := float64(last+T+P) + float64(slack)/float64(time.Millisecond)
	mu.Lock()
	defer mu.Unlock()
	o.Count(fmt.Sprintf("timer.T=%d", T))
	o.Nontrivial("C08", sb.String())
	o.Nontrivial("C09", sb.String())
	o.Sample("C08", fmt.Sprintf("%s -> expired after %.1f ms (bounds [%v, %v])", sb.String(), elMs, lo, hi))
	if elMs < lo-1.5 { // a refresh is stamped up to ~1 ms before we read the clock
		o.Fail("C08", "timer-expired-early", fmt.Sprintf("%s: expired after %.2f ms, earliest allowed %v", sb.String(), elMs, lo))
	}
	if elMs > hi {
		o.Fail("C08", "timer-expired-late", fmt.Sprintf("%s: expired after %.2f ms, latest allowed %v (T+P+slack)", sb.String(), elMs, hi))
	}
	// the model's ideal expiry for the observed refresh times, as a correspondence line (± one period + slack)
	o.EmitTimer(sb.String(), elMs, float64(P)+float64(slack)/float64(time.Millisecond))
}

// longTimerCase: T = 3 s (polled every 300 ms, far above scheduling noise), refreshes placed in the middle of a polling
// period: the expiry is the first poll at or after last refresh + T, within the slack — a timer that decides on a
// reading one poll old, or polls at another period, is off by 300 ms
func longTimerCase(r *rand.Rand, o *hout.Out) {
	const T, P = 3000, 300
	var rs []int
	for k, j := r.Intn(3), 0; k > 0; k-- {
		j += 1 + r.Intn(4)
		rs = append(rs, j*P+P/2)
	}
	tm, err := utils.NewTimer(T * time.Millisecond)
	if err != nil {
		panic(err)
	}
	start := time.Now()
	done := make(chan time.Duration, 1)
	go func() { tm.TakeTimeout(); done <- time.Since(start) }()
	last := 0.0
	for _, off := range rs {
		time.Sleep(time.Until(start.Add(time.Duration(off) * time.Millisecond)))
		tm.Refresh()
		last = float64(time.Since(start)) / float64(time.Millisecond)
	}
	el := float64(<-done) / float64(time.Millisecond)
	tm.Close()
	mu.Lock()
	defer mu.Unlock()
	// first poll (multiples of P from the start) at or after last + T
	want := float64(P) * float64(int((last+T+P-1)/P))
	desc := fmt.Sprintf("long timer T=%d P=%d refreshes(ms)=%v", T, P, rs)
	o.Count("timer.long")
	o.Nontrivial("C08", desc)
	o.Nontrivial("C09", desc)
	o.Sample("C08", fmt.Sprintf("%s -> expired after %.1f ms, the model's poll is at %.0f", desc, el, want))
	tol := float64(slack) / float64(time.Millisecond)
	if d := (last + T) - float64(P)*float64(int((last+T)/P)); len(rs) > 0 && (d < 60 || d > P-60) {
		o.Count("timer.long.discarded-refresh-too-close-to-a-poll")
		return
	}
	if el < want-tol {
		o.Fail("C08", "timer-expired-early", fmt.Sprintf("%s: expired after %.1f ms, the first poll at or after last refresh + T is at %.0f ms", desc, el, want))
	}
	if el > want+tol {
		o.Fail("C08", "timer-expired-late", fmt.Sprintf("%s: expired after %.1f ms, the first poll at or after last refresh + T is at %.0f ms (+%v slack)", desc, el, want, slack))
	}
}

// syncProbeCase (C09): total silence from the peer except that every TestRequest is answered at once, inside the
// session's own Send call (syncHandler). A peer that answers every probe is alive: never disconnected, and probed
// again after each further silent period.
func syncProbeCase(r *rand.Rand, o *hout.Out) {
	side := r.Intn(2)
	var sh *syncHandler
	sr := newSessWrapped(side, true, "35=A\x0149=P\x0156=M\x0134=1\x0152=20240101-00:00:00.000\x0198=0\x01108=1\x01",
		func(h *simplefixgo.DefaultHandler) session.Handler { sh = &syncHandler{DefaultHandler: h}; return sh })
	dur := 2*T9 + 2*P9 + 500*time.Millisecond
	time.Sleep(time.Until(sr.t0.Add(dur)))
	outs, disc := sr.snapshot()
	stopped := sr.h.Context().Err() != nil
	logged := sr.s.IsLogged()
	sr.h.Stop()
	mu.Lock()
	defer mu.Unlock()
	desc := fmt.Sprintf("side=%d every TestRequest answered inside Send", side)
	var probes []time.Duration
	for _, m := range outs {
		if m.mt == "1" {
			probes = append(probes, m.at)
		}
	}
	o.Count("probe.sync")
	o.Nontrivial("C09", desc)
	o.Sample("C09", fmt.Sprintf("%s -> probes at %v, disconnect at %v", desc, probes, disc))
	if disc != 0 || stopped {
		o.Fail("C09", "answering-peer-disconnected", fmt.Sprintf("%s: disconnect event at %v (handler stopped=%v) although every TestRequest was answered at once; probes at %v", desc, disc, stopped, probes))
		return
	}
	if len(probes) < 2 {
		o.Fail("C09", "not-probed-again", fmt.Sprintf("%s: %d TestRequests in %v of silence (one per %v expected); probes at %v", desc, len(probes), dur, T9, probes))
	}
	if !logged {
		o.Fail("C09", "answering-peer-left-unlogged", fmt.Sprintf("%s: IsLogged() = false at the end although every TestRequest was answered; probes at %v", desc, probes))
	}
}

// refusedProbeCase (C09 with C19's refusal): total silence from the peer, and the session's TestRequest cannot be sent
// (an outgoing handler of the application refuses it, as a failing store would). The peer is silent all the same: the
// second expiry must still raise the disconnect event and stop the handler.
func refusedProbeCase(r *rand.Rand, o *hout.Out) {
	side := r.Intn(2)
	sr := newSess(side)
	sr.h.HandleOutgoing("1", func(simplefixgo.SendingMessage) bool { return false })
	dur := 2*T9 + 2*P9 + 500*time.Millisecond
	time.Sleep(time.Until(sr.t0.Add(dur)))
	outs, disc := sr.snapshot()
	stopped := sr.h.Context().Err() != nil
	sr.h.Stop()
	mu.Lock()
	defer mu.Unlock()
	desc := fmt.Sprintf("side=%d total silence, the session's TestRequest refused by an outgoing handler", side)
	o.Count("probe.refused")
	o.Nontrivial("C09", desc)
	for _, m := range outs {
		if m.mt == "1" {
			o.Fail("C19", "refused-message-transmitted", fmt.Sprintf("%s: a TestRequest reached the wire at %v", desc, m.at))
		}
	}
	if disc == 0 || !stopped {
		o.Fail("C09", "silent-peer-not-disconnected", fmt.Sprintf("%s: after %v of silence: disconnect event at %v, handler stopped=%v (expected by %v)", desc, dur, disc, stopped, 2*T9+P9))
	}
}

// ---- sessions at N = 1

type sessRun struct {
	h    *simplefixgo.DefaultHandler
	s    *session.Session
	t0   time.Time
	mu   sync.Mutex
	outs []outMsg
	disc time.Duration
}

type outMsg struct {
	at  time.Duration
	mt  string
	raw []byte
}

func newSess(side int) *sessRun {
	return newSessWith(side, true, "35=A\x0149=P\x0156=M\x0134=1\x0152=20240101-00:00:00.000\x0198=0\x01108=1\x01")
}

func newSessWith(side int, approve bool, logon string) *sessRun {
	return newSessWrapped(side, approve, logon, nil)
}

// syncHandler: a session.Handler whose Send, for a TestRequest, returns only after the peer's answer has been
// received and dispatched (a synchronous transport: the library's Handler interface allows it)
type syncHandler struct {
	*simplefixgo.DefaultHandler
	answered int
}

func (h *syncHandler) Send(m simplefixgo.SendingMessage) error {
	err := h.DefaultHandler.Send(m)
	if err == nil && m.MsgType() == "1" {
		raw, _ := m.ToBytes()
		h.answered++
		h.DefaultHandler.ServeIncoming(frame(fmt.Sprintf("35=0\x0149=P\x0156=M\x0134=%d\x0152=20240101-00:00:00.000\x01112=%s\x01", 1+h.answered, field(raw, "112"))))
		time.Sleep(30 * time.Millisecond) // dispatched by the handler's Run loop meanwhile
	}
	return err
}

// hbMax is the acceptor's configured maximum heartbeat interval for the sessions created next (the peer logs on with
// N = 1: with hbMax = 1 it sits exactly on the edge of the permitted range)
var hbMax atomic.Int32

func newSessWrapped(side int, approve bool, logon string, wrap func(*simplefixgo.DefaultHandler) session.Handler) *sessRun {
	store := memory.NewStorage()
	sr := &sessRun{}
	var err error
	router := func() session.Handler {
		if wrap != nil {
			return wrap(sr.h)
		}
		return sr.h
	}
	if side == 0 {
		sr.h = simplefixgo.NewAcceptorHandler(context.Background(), "35", 64)
		sr.s, err = session.NewAcceptorSession(opts(), router(), &session.LogonSettings{LogonTimeout: time.Second, HeartBtLimits: &session.IntLimits{Min: 1, Max: int(hbMax.Load())}},
			func(*session.LogonSettings) error {
				if approve {
					return nil
				}
				return fmt.Errorf("refused")
			}, store, store)
	} else {
		sr.h = simplefixgo.NewInitiatorHandler(context.Background(), "35", 64)
		sr.s, err = session.NewInitiatorSession(router(), opts(), &session.LogonSettings{HeartBtInt: 1, EncryptMethod: "0", SenderCompID: "C", TargetCompID: "S"}, store, store)
	}
	if err != nil {
		panic(err)
	}
	sr.s.OnChangeState(utils.EventDisconnect, func() bool {
		sr.mu.Lock()
		sr.disc = time.Since(sr.t0)
		sr.mu.Unlock()
		return true
	})
	go func() { _ = sr.h.Run() }()
	if err := sr.s.Run(); err != nil {
		panic(err)
	}
	go func() {
		for {
			select {
			case m := <-sr.h.Outgoing():
				sr.mu.Lock()
				sr.outs = append(sr.outs, outMsg{time.Since(sr.t0), field(m, "35"), m})
				sr.mu.Unlock()
			case <-sr.h.Context().Done():
				return
			}
		}
	}()
	sr.t0 = time.Now()
	sr.h.ServeIncoming(frame(logon))
	time.Sleep(5 * time.Millisecond)
	return sr
}

func (sr *sessRun) snapshot() ([]outMsg, time.Duration) {
	sr.mu.Lock()
	defer sr.mu.Unlock()
	return append([]outMsg{}, sr.outs...), sr.disc
}

const N = time.Second
const P8 = N / 10          // heartbeat timer polling period
const T9 = 2 * time.Second // N + max(N/20,1) for N = 1
const P9 = T9 / 10

// C08: with a peer that keeps talking (so the probe never fires), application sends at scripted
// offsets; check every gap between consecutive outbound messages and every unsolicited heartbeat
func hbCase(r *rand.Rand, o *hout.Out) {
	side := r.Intn(2)
	sr := newSess(side)
	dur := 3200 * time.Millisecond
	var sends []time.Duration
	switch r.Intn(4) {
	case 0: // idle
	case 1: // a send just before / at / after the first deadline
		sends = append(sends, N+time.Duration(r.Intn(240)-120)*time.Millisecond)
	case 2: // burst then idle
		for i := 0; i < 5; i++ {
			sends = append(sends, time.Duration(300+i*20)*time.Millisecond)
		}
	default:
		for i := 0; i < 3; i++ {
			sends = append(sends, time.Duration(r.Intn(3000))*time.Millisecond)
		}
	}
	sort.Slice(sends, func(i, j int) bool { return sends[i] < sends[j] })
	stop := make(chan struct{})
	go func() { // the peer talks every 700 ms
		q := 2
		for {
			select {
			case <-stop:
				return
			case <-time.After(700 * time.Millisecond):
				sr.h.ServeIncoming(frame(fmt.Sprintf("35=0\x0149=P\x0156=M\x0134=%d\x0152=20240101-00:00:00.000\x01", q)))
				q++
			}
		}
	}()
	// in some runs the peer asks for a retransmission in the middle: replayed messages are outbound traffic too
	replayAt := time.Duration(0)
	if r.Intn(3) == 0 {
		replayAt = time.Duration(400+r.Intn(1800)) * time.Millisecond
		go func() {
			time.Sleep(time.Until(sr.t0.Add(replayAt)))
			sr.h.ServeIncoming(frame("35=2\x0149=P\x0156=M\x0134=40\x0152=20240101-00:00:00.000\x017=1\x0116=0\x01"))
		}()
	}
	for _, at := range sends {
		time.Sleep(time.Until(sr.t0.Add(at)))
		_ = sr.s.Send(fixgen.NewMarketDataRequest().SetMDReqID("x"))
	}
	time.Sleep(time.Until(sr.t0.Add(dur)))
	close(stop)
	outs, _ := sr.snapshot()
	// C10: ask for everything sent so far again; each retransmission must be byte-identical to the first transmission
	sr.h.ServeIncoming(frame("35=2\x0149=P\x0156=M\x0134=50\x0152=20240101-00:00:00.000\x017=1\x0116=0\x01"))
	time.Sleep(150 * time.Millisecond)
	after, _ := sr.snapshot()
	sr.h.Stop()
	mu.Lock()
	defer mu.Unlock()
	desc := fmt.Sprintf("side=%d sends=%v replay-at=%v", side, sends, replayAt)
	first := map[string][]byte{}
	for _, m := range outs {
		if _, ok := first[field(m.raw, "34")]; !ok {
			first[field(m.raw, "34")] = m.raw
		}
	}
	resent := after[len(outs):]
	maxFirst := 0
	for q := range first {
		if n, _ := strconv.Atoi(q); n > maxFirst {
			maxFirst = n
		}
	}
	var gotSeqs, wantSeqs []int
	for _, m := range resent {
		q := field(m.raw, "34")
		n, _ := strconv.Atoi(q)
		if n > maxFirst {
			continue // a new message (a heartbeat whose timer fired meanwhile), not a retransmission
		}
		gotSeqs = append(gotSeqs, n)
		if orig, ok := first[q]; ok && !bytes.Equal(orig, m.raw) {
			o.Fail("C10", "retransmission-differs", fmt.Sprintf("%s: seq %s first sent as %q, retransmitted as %q", desc, q, orig, m.raw))
		}
	}
	for q := range first {
		n, _ := strconv.Atoi(q)
		wantSeqs = append(wantSeqs, n)
	}
	sort.Ints(wantSeqs)
	if fmt.Sprint(gotSeqs) != fmt.Sprint(wantSeqs) {
		o.Fail("C10", "retransmission-not-exact", fmt.Sprintf("%s: ResendRequest 1..0 after sending %v was answered with sequence numbers %v", desc, wantSeqs, gotSeqs))
	}
	o.Nontrivial("C10", desc)
	o.Count("hb.scenarios")
	o.Nontrivial("C08", desc)
	var prev time.Duration = -1
	maxSeq := 0
	for _, m := range outs {
		q, _ := strconv.Atoi(field(m.raw, "34"))
		retransmission := q <= maxSeq // a replayed message: outbound traffic, but not an unsolicited heartbeat
		if q > maxSeq {
			maxSeq = q
		}
		if prev >= 0 {
			gap := m.at - prev
			if gap > N+P8+slack {
				o.Fail("C08", "silent-too-long", fmt.Sprintf("%s: %v between outbound messages (limit N + N/10 + slack = %v); outs=%v", desc, gap, N+P8+slack, outs))
			}
			if m.mt == "0" && !retransmission && gap < N-5*time.Millisecond {
				o.Fail("C08", "heartbeat-too-early", fmt.Sprintf("%s: unsolicited heartbeat %v after the previous outbound message; outs=%v", desc, gap, outs))
			}
		}
		prev = m.at
	}
	if len(outs) > 0 && dur-outs[len(outs)-1].at > N+P8+slack {
		o.Fail("C08", "silent-too-long", fmt.Sprintf("%s: nothing sent during the last %v", desc, dur-outs[len(outs)-1].at))
	}
	o.Sample("C08", fmt.Sprintf("%s -> %v", desc, outs))
}

// C09: inbound arrival patterns
func probeCase(r *rand.Rand, o *hout.Out, idx int) {
	side := r.Intn(2)
	sr := newSess(side)
	kind := idx % 4 // every run covers every arrival pattern; the answer type below cycles too
	var inbound []time.Duration // offsets of inbound messages after logon
	var dur time.Duration
	switch kind {
	case 0: // total silence
		dur = 2*T9 + P9 + 400*time.Millisecond
	case 1: // an answer somewhere in the second period, then silence again: a new probe, not a disconnect
		inbound = append(inbound, T9+P9+time.Duration(200+r.Intn(1400))*time.Millisecond)
		dur = inbound[0] + T9 + P9 + 500*time.Millisecond
	case 2: // silence ending just before the first deadline
		inbound = append(inbound, T9-time.Duration(60+r.Intn(200))*time.Millisecond)
		dur = inbound[0] + 1500*time.Millisecond
	default: // live peer: something every <= N
		for t := 800 * time.Millisecond; t < 5*time.Second; t += time.Duration(600+r.Intn(390)) * time.Millisecond {
			inbound = append(inbound, t)
		}
		dur = 5 * time.Second
	}
	q := 2
	echoWanted := 0
	logonSeq := 0
	logoutSeq := 0
	for _, at := range inbound {
		time.Sleep(time.Until(sr.t0.Add(at)))
		mt := []string{"0", "V", "1", "A"}[r.Intn(4)]
		if kind == 1 {
			mt = []string{"A", "0", "1", "V", "5"}[(idx/4)%5]
		}
		if kind != 1 && mt == "A" {
			mt = "V"
		}
		if mt == "1" {
			echoWanted++
		}
		if mt == "5" { // the peer's Logout while our own TestRequest is pending: acknowledged with exactly one Logout
			logoutSeq = q
		}
		if mt == "A" { // a further Logon while logged on (our own TestRequest pending): exactly one Reject by sequence number
			logonSeq = q
			sr.h.ServeIncoming(frame(fmt.Sprintf("35=A\x0149=P\x0156=M\x0134=%d\x0152=20240101-00:00:00.000\x0198=0\x01108=1\x01", q)))
		} else {
			sr.h.ServeIncoming(frame(fmt.Sprintf("35=%s\x0149=P\x0156=M\x0134=%d\x0152=20240101-00:00:00.000\x01112=echo%d\x01", mt, q, q)))
		}
		q++
	}
	time.Sleep(time.Until(sr.t0.Add(dur)))
	outs, disc := sr.snapshot()
	stopped := sr.h.Context().Err() != nil
	cancelled := sr.s.Context().Err() != nil
	sr.h.Stop()
	mu.Lock()
	defer mu.Unlock()
	desc := fmt.Sprintf("side=%d kind=%d inbound=%v", side, kind, inbound)
	o.Count(fmt.Sprintf("probe.kind=%d", kind))
	o.Nontrivial("C09", desc)
	var probes []time.Duration
	echoes := 0
	for _, m := range outs {
		if m.mt == "1" {
			probes = append(probes, m.at)
		}
		if m.mt == "0" && strings.HasPrefix(field(m.raw, "112"), "echo") {
			echoes++
		}
	}
	// C14: every TestRequest of the peer — also one arriving while our own probe is pending — is echoed once
	if echoes != echoWanted {
		o.Fail("C14", "testrequest-not-echoed", fmt.Sprintf("%s: %d TestRequests sent, %d Heartbeat echoes received; outs=%v", desc, echoWanted, echoes, outs))
	}
	if echoWanted > 0 {
		o.Nontrivial("C14", desc)
	}
	o.Sample("C09", fmt.Sprintf("%s -> probes at %v, disconnect at %v", desc, probes, disc))
	within := func(x, lo, hi time.Duration) bool { return x >= lo && x <= hi }
	// C16: the further Logon was answered by exactly one Reject referencing its sequence number
	if logonSeq > 0 {
		rejects := 0
		for _, m := range outs {
			if m.mt == "3" && field(m.raw, "45") == strconv.Itoa(logonSeq) {
				rejects++
			}
		}
		if rejects != 1 {
			o.Fail("C16", "logon-while-logged-on-not-rejected-once", fmt.Sprintf("%s: %d Rejects with RefSeqNum=%d; outs=%v", desc, rejects, logonSeq, outs))
		}
		o.Nontrivial("C16", desc)
		o.Nontrivial("C06", desc)
	}
	// C15: the peer's Logout while our probe is pending is acknowledged with exactly one Logout and not rejected
	if logoutSeq > 0 {
		acks, rejects := 0, 0
		for _, m := range outs {
			if m.mt == "5" {
				acks++
			}
			if m.mt == "3" && field(m.raw, "45") == strconv.Itoa(logoutSeq) {
				rejects++
			}
		}
		if acks != 1 || rejects != 0 || sr.s.IsLogged() {
			o.Fail("C15", "peer-logout-while-probing-not-acknowledged-once", fmt.Sprintf("%s: %d Logouts sent, %d Rejects of it, logged=%v; outs=%v", desc, acks, rejects, sr.s.IsLogged(), outs))
		}
		o.Nontrivial("C15", desc)
		return // the session is logged off now: the probing oracles below do not apply
	}
	// C08: while logged on (also while probing) the session is never silent for longer than N + N/10 + slack
	end := dur
	if disc != 0 {
		end = disc
	}
	var prevOut time.Duration
	for _, m := range outs {
		if m.at > end {
			break
		}
		if prevOut > 0 && m.at-prevOut > N+P8+slack {
			o.Fail("C08", "silent-too-long", fmt.Sprintf("%s: %v between outbound messages while logged on (limit %v); outs=%v", desc, m.at-prevOut, N+P8+slack, outs))
			break
		}
		prevOut = m.at
	}
	if prevOut > 0 && end-prevOut > N+P8+slack {
		o.Fail("C08", "silent-too-long", fmt.Sprintf("%s: nothing sent during the last %v before %v; outs=%v", desc, end-prevOut, end, outs))
	}
	o.Nontrivial("C08", desc)
	switch kind {
	case 0:
		if len(probes) != 1 || !within(probes[0], T9-5*time.Millisecond, T9+P9+slack) {
			o.Fail("C09", "probe-timing", fmt.Sprintf("%s: TestRequests at %v, expected one in [%v, %v]", desc, probes, T9, T9+P9+slack))
		} else if disc == 0 || !within(disc-probes[0], T9-5*time.Millisecond, T9+P9+slack) || !stopped || !cancelled {
			o.Fail("C09", "disconnect-timing", fmt.Sprintf("%s: probe at %v, disconnect at %v (stopped=%v cancelled=%v), expected %v..%v after the probe", desc, probes[0], disc, stopped, cancelled, T9, T9+P9+slack))
		}
	case 1:
		// the answer (of any type) cancels the pending disconnect; the following silence is probed again
		if len(probes) != 2 || !within(probes[1]-inbound[0], T9-5*time.Millisecond, T9+P9+slack) {
			o.Fail("C09", "no-new-probe-after-answer", fmt.Sprintf("%s: TestRequests at %v, expected a second one %v..%v after the answer", desc, probes, T9, T9+P9+slack))
		}
		if disc != 0 || stopped {
			o.Fail("C09", "disconnected-despite-answer", fmt.Sprintf("%s: disconnect at %v", desc, disc))
		}
	case 2, 3:
		if kind == 3 && (len(probes) != 0 || disc != 0) {
			o.Fail("C09", "live-peer-probed", fmt.Sprintf("%s: probes %v disconnect %v", desc, probes, disc))
		}
		if kind == 2 {
			// the message arrived before the deadline: the first probe comes T' after *it*
			for _, p := range probes {
				if p < inbound[0]+T9-5*time.Millisecond {
					o.Fail("C09", "probe-too-early", fmt.Sprintf("%s: probe at %v", desc, p))
				}
			}
			if disc != 0 {
				o.Fail("C09", "disconnected-despite-traffic", fmt.Sprintf("%s: disconnect at %v", desc, disc))
			}
		}
	}
}

// C08: a second logon on the same session with a shorter interval (after a logout exchange): heartbeats follow the
// interval negotiated by the *second* Logon
func relogonCase(r *rand.Rand, o *hout.Out) {
	n1 := []int{30, 20, 45}[r.Intn(3)]
	sr := newSessWith(0, true, fmt.Sprintf("35=A\x0149=P\x0156=M\x0134=1\x0152=20240101-00:00:00.000\x0198=0\x01108=%d\x01", n1))
	time.Sleep(time.Duration(20+r.Intn(200)) * time.Millisecond)
	sr.h.ServeIncoming(frame("35=5\x0149=P\x0156=M\x0134=2\x0152=20240101-00:00:00.000\x01"))
	for i := 0; i < 100 && sr.s.IsLogged(); i++ {
		time.Sleep(5 * time.Millisecond)
	}
	time.Sleep(20 * time.Millisecond)
	t1 := time.Since(sr.t0)
	sr.h.ServeIncoming(frame("35=A\x0149=P\x0156=M\x0134=3\x0152=20240101-00:00:00.000\x0198=0\x01108=1\x01"))
	// the peer keeps talking so that the probe never fires
	stop := time.Now().Add(3500 * time.Millisecond)
	q := 4
	for time.Now().Before(stop) {
		time.Sleep(600 * time.Millisecond)
		sr.h.ServeIncoming(frame(fmt.Sprintf("35=0\x0149=P\x0156=M\x0134=%d\x0152=20240101-00:00:00.000\x01", q)))
		q++
	}
	outs, _ := sr.snapshot()
	logged := sr.s.IsLogged()
	sr.h.Stop()
	mu.Lock()
	defer mu.Unlock()
	desc := fmt.Sprintf("logon 108=%d, logout exchange, logon 108=1 at %v", n1, t1)
	o.Nontrivial("C08", desc)
	o.Count("relogon")
	if !logged {
		return // the second logon was not accepted: nothing to measure (C06 is checked elsewhere)
	}
	prev := time.Duration(0)
	for _, m := range outs {
		if m.at < t1 {
			continue
		}
		if prev > 0 && m.at-prev > N+P8+slack {
			o.Fail("C08", "silent-too-long-after-relogon", fmt.Sprintf("%s: %v between outbound messages (limit %v); outs=%v", desc, m.at-prev, N+P8+slack, outs))
			return
		}
		prev = m.at
	}
	end := time.Since(sr.t0)
	if prev == 0 || end-prev > N+P8+slack+700*time.Millisecond {
		o.Fail("C08", "silent-too-long-after-relogon", fmt.Sprintf("%s: nothing sent during the last %v; outs=%v", desc, end-prev, outs))
	}
}

// C07: a refused Logon (callback refusal, disallowed encryption, interval out of range) and then time passing:
// nothing but Logon / Logout / Reject may be sent, however long the connection stays open
func preauthCase(kind int, quiet bool, o *hout.Out) {
	logon := "35=A\x0149=P\x0156=M\x0134=1\x0152=20240101-00:00:00.000\x0198=0\x01108=1\x01"
	approve := true
	switch kind {
	case 0:
		approve = false
	case 1:
		logon = "35=A\x0149=P\x0156=M\x0134=1\x0152=20240101-00:00:00.000\x0198=1\x01108=1\x01"
	default:
		logon = "35=A\x0149=P\x0156=M\x0134=1\x0152=20240101-00:00:00.000\x0198=0\x01108=99\x01"
	}
	sr := newSessWith(0, approve, logon)
	// quiet: total silence for longer than the probe timer would need (N + tolerance = 2 s, polled every 0.2 s), then a
	// Heartbeat: a session that wrongly armed its timers is then probing, and any inbound message makes it "logged on"
	if quiet {
		time.Sleep(2500 * time.Millisecond)
		sr.h.ServeIncoming(frame("35=0\x0149=P\x0156=M\x0134=2\x0152=20240101-00:00:00.000\x01"))
	} else {
		time.Sleep(1300 * time.Millisecond)
		sr.h.ServeIncoming(frame("35=1\x0149=P\x0156=M\x0134=2\x0152=20240101-00:00:00.000\x01112=x\x01"))
		time.Sleep(1200 * time.Millisecond)
	}
	sr.h.ServeIncoming(frame("35=2\x0149=P\x0156=M\x0134=3\x0152=20240101-00:00:00.000\x017=1\x0116=0\x01"))
	time.Sleep(100 * time.Millisecond)
	outs, _ := sr.snapshot()
	logged := sr.s.IsLogged()
	sr.h.Stop()
	mu.Lock()
	defer mu.Unlock()
	desc := fmt.Sprintf("refused logon kind=%d quiet=%v", kind, quiet)
	o.Nontrivial("C07", desc)
	o.Nontrivial("C06", desc)
	for _, m := range outs {
		if m.mt != "3" && m.mt != "5" && m.mt != "A" {
			o.Fail("C07", "pre-logon-output", fmt.Sprintf("%s: message of type %s sent %v after the refused Logon; outs=%v", desc, m.mt, m.at, outs))
			break
		}
	}
	if logged {
		o.Fail("C06", "logged-on-without-acceptable-logon", fmt.Sprintf("%s: IsLogged() after %v", desc, 2600*time.Millisecond))
	}
	o.Sample("C07", fmt.Sprintf("%s -> %v", desc, outs))
}

func main() {
	flag.Parse()
	if *out == "" {
		os.Exit(2)
	}
	r := rand.New(rand.NewSource(*seed))
	o := hout.New(*out)
	defer o.Close()
	var wg sync.WaitGroup
	for i := 0; i < *long; i++ {
		rl := rand.New(rand.NewSource(r.Int63()))
		wg.Add(1)
		go func() { defer wg.Done(); longTimerCase(rl, o) }()
	}
	hbMax.Store(60)
	for i := 0; i < *n; i++ {
		hbMax.Store([]int32{60, 1}[i%2]) // every other round: the acceptor's maximum is the interval the peer asks for
		rr := rand.New(rand.NewSource(r.Int63()))
		rr6 := rand.New(rand.NewSource(r.Int63()))
		wg.Add(1)
		go func() { defer wg.Done(); syncProbeCase(rr6, o) }()
		rr7 := rand.New(rand.NewSource(r.Int63()))
		wg.Add(1)
		go func() { defer wg.Done(); refusedProbeCase(rr7, o) }()
		wg.Add(5)
		go func() {
			defer wg.Done()
			// every kind of refusal, with and without the long silence
			var w2 sync.WaitGroup
			for c := 0; c < 6; c++ {
				w2.Add(1)
				go func(c int) { defer w2.Done(); preauthCase(c%3, c >= 3, o) }(c)
			}
			w2.Wait()
		}()
		rr5 := rand.New(rand.NewSource(r.Int63()))
		go func() { defer wg.Done(); relogonCase(rr5, o) }()
		go func() { defer wg.Done(); hbCase(rr, o) }()
		rr2 := rand.New(rand.NewSource(r.Int63()))
		go func(i int) {
			defer wg.Done()
			for k := 0; k < 4; k++ {
				wg.Add(1)
				rk := rand.New(rand.NewSource(rr2.Int63()))
				go func(k int) { defer wg.Done(); probeCase(rk, o, 4*i+k) }(k)
			}
		}(i)
		rr3 := rand.New(rand.NewSource(r.Int63()))
		go func() {
			defer wg.Done()
			for k := 0; k < 6; k++ {
				timerCase(rr3, o)
			}
		}()
		if i%4 == 3 {
			wg.Wait()
		}
	}
	wg.Wait()
}
