// stress: failing-schedule search for C05 — concurrent senders against a real Session +
// DefaultHandler; an independent tokenizer checks the sequence numbers, identifiers and
// SendingTime of everything that reaches the outgoing channel.
package main

import (
	"bytes"
	"context"
	"flag"
	"fmt"
	"math/rand"
	"os"
	"regexp"
	"runtime"
	"strconv"
	"sync"
	"time"

	simplefixgo "github.com/b2broker/simplefix-go"
	"github.com/b2broker/simplefix-go/fix"
	"github.com/b2broker/simplefix-go/session"
	"github.com/b2broker/simplefix-go/session/messages"
	"github.com/b2broker/simplefix-go/storages/memory"
	fixgen "github.com/b2broker/simplefix-go/tests/fix44"

	"verifharness/hout"
)

var (
	seed = flag.Int64("seed", 1, "")
	n    = flag.Int("n", 40, "")
	out  = flag.String("out", "", "")
)

type slowStore struct {
	*memory.Storage
	r  *rand.Rand
	mu sync.Mutex
}

func (s *slowStore) jitter() {
	s.mu.Lock()
	d := s.r.Intn(4)
	s.mu.Unlock()
	if d == 0 {
		runtime.Gosched()
	} else if d == 1 {
		time.Sleep(time.Duration(50) * time.Microsecond)
	}
}

func (s *slowStore) GetNextSeqNum(id fix.StorageID) (int, error) {
	s.jitter()
	v, err := s.Storage.GetNextSeqNum(id)
	s.jitter()
	return v, err
}

func (s *slowStore) Save(id fix.StorageID, m simplefixgo.SendingMessage, q int) error {
	s.jitter()
	return s.Storage.Save(id, m, q)
}

func opts() *session.Opts {
	return &session.Opts{
		MessageBuilders: session.MessageBuilders{
			HeaderBuilder: fixgen.Header{}.New(), TrailerBuilder: fixgen.Trailer{}.New(), LogonBuilder: fixgen.Logon{}.New(),
			LogoutBuilder: fixgen.Logout{}.New(), RejectBuilder: fixgen.Reject{}.New(), HeartbeatBuilder: fixgen.Heartbeat{}.New(),
			TestRequestBuilder: fixgen.TestRequest{}.New(), ResendRequestBuilder: fixgen.ResendRequest{}.New(),
		},
		Tags:                    &messages.Tags{MsgType: 35, MsgSeqNum: 34, HeartBtInt: 108, EncryptedMethod: 98},
		AllowedEncryptedMethods: map[string]struct{}{"0": {}},
		SessionErrorCodes:       &messages.SessionErrorCodes{IncorrectValue: 5, Other: 99},
	}
}

var timeRe = regexp.MustCompile(`^\d{8}-\d{2}:\d{2}:\d{2}\.\d{3}$`)

func field(m []byte, tag string) string {
	for _, f := range bytes.Split(m, []byte{1}) {
		if bytes.HasPrefix(f, []byte(tag+"=")) {
			return string(f[len(tag)+1:])
		}
	}
	return ""
}

func frame(body string) []byte {
	head := "8=FIX.4.4\x019=" + strconv.Itoa(len(body)) + "\x01"
	d := head + body
	sum := 0
	for i := 0; i < len(d); i++ {
		sum += int(d[i])
	}
	return []byte(d + fmt.Sprintf("10=%03d\x01", sum%256))
}

func scenario(r *rand.Rand, o *hout.Out, idx int, store *memory.Storage, startSeq int) int {
	procs := []int{1, 2, 16}[r.Intn(3)]
	old := runtime.GOMAXPROCS(procs)
	defer runtime.GOMAXPROCS(old)
	buf := []int{0, 1, 10}[r.Intn(3)]
	side := r.Intn(2)
	threads := 1 + r.Intn(16)
	per := 1 + r.Intn(40)
	ss := &slowStore{Storage: store, r: rand.New(rand.NewSource(r.Int63()))}
	var h *simplefixgo.DefaultHandler
	var s *session.Session
	var err error
	if side == 0 {
		h = simplefixgo.NewAcceptorHandler(context.Background(), "35", buf)
		s, err = session.NewAcceptorSession(opts(), h, &session.LogonSettings{LogonTimeout: time.Second, HeartBtLimits: &session.IntLimits{Min: 1, Max: 60}},
			func(*session.LogonSettings) error { return nil }, ss, ss)
	} else {
		h = simplefixgo.NewInitiatorHandler(context.Background(), "35", buf)
		s, err = session.NewInitiatorSession(h, opts(), &session.LogonSettings{HeartBtInt: 1, EncryptMethod: "0", SenderCompID: "CLI", TargetCompID: "SRV"}, ss, ss)
	}
	if err != nil {
		panic(err)
	}
	// slow outgoing handler
	h.HandleOutgoing(simplefixgo.AllMsgTypes, func(simplefixgo.SendingMessage) bool { ss.jitter(); return true })
	var got [][]byte
	var gotAt []time.Time // when each message was seen leaving
	var gmu sync.Mutex
	done := make(chan struct{})
	lag := r.Intn(3) == 0   // a writer slower than the senders: queued messages wait in the outgoing buffer
	reuse := r.Intn(2) == 0 // each sender re-populates and re-sends one message object of its own
	lagR := rand.New(rand.NewSource(r.Int63()))
	go func() {
		for {
			select {
			case m := <-h.Outgoing():
				if lag {
					time.Sleep(time.Duration(lagR.Intn(150)) * time.Microsecond)
				}
				gmu.Lock()
				got = append(got, m)
				gotAt = append(gotAt, time.Now().UTC())
				gmu.Unlock()
			case <-done:
				return
			}
		}
	}()
	go func() { _ = h.Run() }()
	if err := s.Run(); err != nil {
		panic(err)
	}
	// log on so that the heartbeat timer (1 s) and replies interleave with the senders
	wantSender, wantTarget := "CLI", "SRV"
	if side == 0 {
		h.ServeIncoming(frame("35=A\x0149=PEER\x0156=ME\x0134=1\x0152=20240101-00:00:00.000\x0198=0\x01108=1\x01"))
		wantSender, wantTarget = "ME", "PEER"
	} else {
		h.ServeIncoming(frame("35=A\x0149=SRV\x0156=CLI\x0134=1\x0152=20240101-00:00:00.000\x0198=0\x01108=1\x01"))
	}
	// the senders start once the session is logged on (however long a loaded machine takes to dispatch the Logon)
	for dl := time.Now().Add(20 * time.Second); !s.IsLogged() && time.Now().Before(dl); {
		time.Sleep(time.Millisecond)
	}
	var wg sync.WaitGroup
	for t := 0; t < threads; t++ {
		wg.Add(1)
		go func(t int) {
			defer wg.Done()
			m := fixgen.NewMarketDataRequest()
			for i := 0; i < per; i++ {
				if !reuse {
					m = fixgen.NewMarketDataRequest()
				}
				m.SetMDReqID(fmt.Sprintf("t%d-%d", t, i))
				if err := s.Send(m); err != nil {
					return
				}
			}
		}(t)
	}
	// inbound replies interleaved: test requests (answered by heartbeats)
	for i := 0; i < 5; i++ {
		h.ServeIncoming(frame(fmt.Sprintf("35=1\x0149=PEER\x0156=ME\x0134=%d\x0152=20240101-00:00:00.000\x01112=q%d\x01", i+2, i)))
		time.Sleep(time.Duration(r.Intn(300)) * time.Microsecond)
	}
	long := r.Intn(6) == 0
	if long {
		time.Sleep(1200 * time.Millisecond) // let the 1 s heartbeat timer fire among the sends
	}
	wg.Wait()
	// everything the senders handed over must come out of the outgoing channel; give a lagging writer (and a loaded
	// machine) time to drain it
	for dl := time.Now().Add(3 * time.Second); time.Now().Before(dl); {
		gmu.Lock()
		n := len(got)
		gmu.Unlock()
		if n >= threads*per {
			break
		}
		time.Sleep(2 * time.Millisecond)
	}
	time.Sleep(20 * time.Millisecond)
	_ = s.Context()
	close(done)
	h.Stop()
	gmu.Lock()
	defer gmu.Unlock()
	now := time.Now().UTC()
	want := startSeq
	for i, m := range got {
		q, _ := strconv.Atoi(field(m, "34"))
		if q != want {
			o.Fail("C05", "sequence-broken", fmt.Sprintf("scenario %d (side %d, %d threads x %d, GOMAXPROCS %d, buffer %d, lagging writer %v, reused message objects %v): message %d on the wire carries 34=%d, expected %d", idx, side, threads, per, procs, buf, lag, reuse, i, q, want))
			break
		}
		want++
		snd, tgt := field(m, "49"), field(m, "56")
		// the very first initiator Logon / acceptor messages carry the configured ids
		if field(m, "35") != "A" && (snd != wantSender || tgt != wantTarget) {
			o.Fail("C05", "wrong-identifiers", fmt.Sprintf("49=%s 56=%s want %s/%s in %q", snd, tgt, wantSender, wantTarget, m))
			break
		}
		st := field(m, "52")
		tm, perr := time.Parse("20060102-15:04:05.000", st)
		// "taken at send time": not later than the moment the message was seen leaving, and not long before it
		seen := now
		if i < len(gotAt) {
			seen = gotAt[i]
		}
		if !timeRe.MatchString(st) || perr != nil || seen.Sub(tm) > 10*time.Second || tm.Sub(seen) > 2*time.Second {
			o.Fail("C05", "bad-sending-time", fmt.Sprintf("52=%q, seen leaving at %v", st, seen))
			break
		}
	}
	o.Count(fmt.Sprintf("C05.threads=%d", threads))
	o.Count(fmt.Sprintf("C05.gomaxprocs=%d", procs))
	o.Count(fmt.Sprintf("C05.buffer=%d", buf))
	o.Count(fmt.Sprintf("C05.lagging-writer=%v", lag))
	o.Count(fmt.Sprintf("C05.reused-message-objects=%v", reuse))
	o.Nontrivial("C05", fmt.Sprintf("%d/%d/%d/%d/%d/%d", side, threads, per, procs, buf, len(got)))
	if len(got) < threads*per {
		o.Fail("C05", "messages-missing", fmt.Sprintf("scenario %d: %d of %d application messages reached the wire", idx, len(got), threads*per))
	}
	o.Sample("C05", fmt.Sprintf("side=%d threads=%d per=%d GOMAXPROCS=%d buffer=%d wire=%d first=%d last=%d", side, threads, per, procs, buf, len(got), startSeq, want-1))
	return want
}

func main() {
	flag.Parse()
	if *out == "" {
		os.Exit(2)
	}
	r := rand.New(rand.NewSource(*seed))
	o := hout.New(*out)
	defer o.Close()
	for i := 0; i < *n; i++ {
		store := memory.NewStorage()
		next := scenario(r, o, i, store, 1)
		if r.Intn(3) == 0 { // a later session re-using the counter store continues the numbering
			scenario(r, o, i, store, next)
			o.Count("C05.reuse")
		}
	}
	// the harness protocol wants at least one op
	o.Emit("corr", "C05", "pool out - - 1", "log  | enq 1")
}
