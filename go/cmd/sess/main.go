// sess: scripted histories against the real Session + DefaultHandler + memory storage
// (C06 C07 C10 C14 C15 C16), compared step by step with the Lean session model, plus
// property oracles evaluated on the implementation's own outputs.
//
//	sess -seed S -n HISTORIES -len L -out DIR
package main

import (
	"bytes"
	"context"
	"flag"
	"fmt"
	"math/rand"
	"os"
	"strconv"
	"strings"
	"sync"
	"time"

	simplefixgo "github.com/b2broker/simplefix-go"
	"github.com/b2broker/simplefix-go/fix"
	"github.com/b2broker/simplefix-go/session"
	"github.com/b2broker/simplefix-go/session/messages"
	"github.com/b2broker/simplefix-go/storages/memory"
	fixgen "github.com/b2broker/simplefix-go/tests/fix44"
	"github.com/b2broker/simplefix-go/utils"

	"verifharness/hout"
	"verifharness/wire"
)

var (
	seed = flag.Int64("seed", 1, "")
	n    = flag.Int("n", 50, "")
	hlen = flag.Int("len", 30, "")
	out  = flag.String("out", "", "")
)

func mustInt(s string) int { v, _ := strconv.Atoi(s); return v }

func makeOpts() *session.Opts {
	return &session.Opts{
		MessageBuilders: session.MessageBuilders{
			HeaderBuilder:        fixgen.Header{}.New(),
			TrailerBuilder:       fixgen.Trailer{}.New(),
			LogonBuilder:         fixgen.Logon{}.New(),
			LogoutBuilder:        fixgen.Logout{}.New(),
			RejectBuilder:        fixgen.Reject{}.New(),
			HeartbeatBuilder:     fixgen.Heartbeat{}.New(),
			TestRequestBuilder:   fixgen.TestRequest{}.New(),
			ResendRequestBuilder: fixgen.ResendRequest{}.New(),
		},
		Tags: &messages.Tags{
			MsgType: mustInt(fixgen.FieldMsgType), MsgSeqNum: mustInt(fixgen.FieldMsgSeqNum),
			HeartBtInt: mustInt(fixgen.FieldHeartBtInt), EncryptedMethod: mustInt(fixgen.FieldEncryptMethod),
		},
		AllowedEncryptedMethods: map[string]struct{}{fixgen.EnumEncryptMethodNoneother: {}},
		SessionErrorCodes: &messages.SessionErrorCodes{
			IncorrectValue: mustInt(fixgen.EnumSessionRejectReasonValueisincorrectoutofrangeforthistag),
			Other:          mustInt(fixgen.EnumSessionRejectReasonOther),
		},
	}
}

// frame builds a wire image with correct BodyLength / CheckSum around body (independent of the library).
func frame(body string) []byte {
	head := "8=FIX.4.4\x019=" + strconv.Itoa(len(body)) + "\x01"
	d := head + body
	sum := 0
	for i := 0; i < len(d); i++ {
		sum += int(d[i])
	}
	return []byte(d + fmt.Sprintf("10=%03d\x01", sum%256))
}

type fld struct{ tag, val string }

func body(fs []fld) string {
	var sb strings.Builder
	for _, f := range fs {
		sb.WriteString(f.tag + "=" + f.val + "\x01")
	}
	return sb.String()
}

// wire image -> the fields the model renders (8, 9, 10, 52 omitted; app messages abstracted)
func render(msg []byte) (string, map[string]string) {
	fs := bytes.Split(bytes.TrimSuffix(msg, []byte{1}), []byte{1})
	m := map[string]string{}
	var toks []string
	mt := ""
	for _, f := range fs {
		i := bytes.IndexByte(f, '=')
		if i < 0 {
			continue
		}
		t, v := string(f[:i]), string(f[i+1:])
		if _, dup := m[t]; !dup {
			m[t] = v
		}
		if t == "35" {
			mt = v
		}
	}
	admin := map[string]bool{"A": true, "5": true, "0": true, "1": true, "2": true, "3": true}
	if !admin[mt] {
		toks = append(toks, "35="+hexs("app"))
		for _, t := range []string{"49", "56", "34"} {
			if v, ok := m[t]; ok {
				toks = append(toks, t+"="+hexs(v))
			}
		}
		toks = append(toks, "app="+hexs(strings.TrimPrefix(m["262"], "app")))
		return "M " + strings.Join(toks, " ") + " ;", m
	}
	for _, f := range fs {
		i := bytes.IndexByte(f, '=')
		if i < 0 {
			continue
		}
		t, v := string(f[:i]), string(f[i+1:])
		if t == "8" || t == "9" || t == "10" || t == "52" {
			continue
		}
		toks = append(toks, t+"="+hexs(v))
	}
	return "M " + strings.Join(toks, " ") + " ;", m
}

func hexs(s string) string { return wire.X([]byte(s))[1:] }

// ---------------------------------------------------------------- one live session

type live struct {
	sid        string
	side       string // a | i
	h          *simplefixgo.DefaultHandler
	s          *session.Session
	store      *memory.Storage
	approve    bool
	evMu       sync.Mutex
	events     []string
	sig        chan struct{}
	runDone    chan struct{}
	hbMin      int
	hbMax      int
	closeAfter time.Duration
}

func (l *live) takeEvents() []string {
	l.evMu.Lock()
	defer l.evMu.Unlock()
	e := l.events
	l.events = nil
	return e
}

func (l *live) drain() [][]byte {
	var msgs [][]byte
	for {
		select {
		case m := <-l.h.Outgoing():
			msgs = append(msgs, m)
		default:
			return msgs
		}
	}
}

type obs struct {
	line   string
	msgs   [][]byte
	fields []map[string]string
	events []string
	logged bool
	cancel bool
	stop   bool
}

func (l *live) observe() obs {
	o := obs{msgs: l.drain(), events: l.takeEvents()}
	var parts []string
	for _, m := range o.msgs {
		r, f := render(m)
		parts = append(parts, r)
		o.fields = append(o.fields, f)
	}
	o.logged = l.s.IsLogged()
	o.cancel = l.s.Context().Err() != nil
	o.stop = l.h.Context().Err() != nil
	b := func(x bool) string {
		if x {
			return "1"
		}
		return "0"
	}
	o.line = strings.Join(parts, " ") + " | E " + strings.Join(o.events, " ") + " | S " + b(o.logged) + " " + b(o.cancel) + " " + b(o.stop)
	return o
}

var sentinel = frame("35=ZZ\x01")

// barrier waits until the dispatch loop has processed everything fed so far.
func (l *live) barrier() string {
	l.h.ServeIncoming(sentinel)
	select {
	case <-l.sig:
		return "ok"
	case <-l.runDone:
		return "dead"
	case <-time.After(5 * time.Second):
		return "hang"
	}
}

func newLive(sid, side string, store *memory.Storage, r *rand.Rand) (*live, string) {
	l := &live{sid: sid, side: side, store: store, approve: true, sig: make(chan struct{}, 16), runDone: make(chan struct{})}
	opts := makeOpts()
	l.hbMin, l.hbMax = 1+r.Intn(10), 20+r.Intn(100)
	l.closeAfter = 300 * time.Millisecond
	st := &session.LogonSettings{LogonTimeout: time.Second, CloseTimeout: l.closeAfter,
		HeartBtLimits: &session.IntLimits{Min: l.hbMin, Max: l.hbMax}}
	var err error
	var args string
	if side == "a" {
		l.h = simplefixgo.NewAcceptorHandler(context.Background(), "35", 4096)
		l.s, err = session.NewAcceptorSession(opts, l.h, st, func(*session.LogonSettings) error {
			if l.approve {
				return nil
			}
			return fmt.Errorf("refused")
		}, store, store)
		args = fmt.Sprintf("a %%s x30 %d %d 0 x x x x x", l.hbMin, l.hbMax)
	} else {
		l.h = simplefixgo.NewInitiatorHandler(context.Background(), "35", 4096)
		st.HeartBtInt = 500 + r.Intn(100) // long: timers never fire within a history
		st.EncryptMethod = "0"
		st.Username, st.Password = []string{"", "user"}[r.Intn(2)], []string{"", "pw"}[r.Intn(2)]
		st.SenderCompID, st.TargetCompID = []string{"", "CLI"}[r.Intn(2)], []string{"", "SRV"}[r.Intn(2)]
		st.HeartBtLimits = nil
		l.s, err = session.NewInitiatorSession(l.h, opts, st, store, store)
		args = fmt.Sprintf("i %%s x30 - - %d x30 %s %s %s %s", st.HeartBtInt, wire.X([]byte(st.Username)), wire.X([]byte(st.Password)),
			wire.X([]byte(st.SenderCompID)), wire.X([]byte(st.TargetCompID)))
	}
	if err != nil {
		panic(err)
	}
	for ev, name := range map[utils.Event]string{utils.EventLogon: "logon", utils.EventRequest: "request", utils.EventLogout: "logout", utils.EventDisconnect: "disconnect"} {
		name := name
		l.s.OnChangeState(ev, func() bool {
			l.evMu.Lock()
			l.events = append(l.events, name)
			l.evMu.Unlock()
			return true
		})
	}
	l.h.HandleIncoming("ZZ", func([]byte) bool { l.sig <- struct{}{}; return true })
	if err := l.s.Run(); err != nil {
		panic(err)
	}
	go func() { _ = l.h.Run(); close(l.runDone) }()
	tm := wire.Msg(fixgen.NewLogon().Items()) + " " + wire.Msg(fixgen.NewLogout().Items()) + " " + wire.Msg(fixgen.NewHeartbeat().Items()) +
		" " + wire.Msg(fixgen.NewTestRequest().Items()) + " " + wire.Msg(fixgen.NewResendRequest().Items())
	return l, args + " 0 0 " + tm
}

// ---------------------------------------------------------------- history generation + oracles

type hist struct {
	r         *rand.Rand
	o         *hout.Out
	l         *live
	ops       []string // op lines of this history (replay)
	peerSeq   int      // next sequence number the simulated peer uses
	everOK    bool     // an acceptable Logon has been processed while waiting
	sent      map[int][]byte
	lastSent  int
	ownLogout bool
}

func (h *hist) emit(op string, ob obs) {
	h.ops = append(h.ops, op)
	h.o.Emit("corr", "SESS", op, ob.line)
	for _, m := range ob.msgs {
		_, f := render(m)
		if q, err := strconv.Atoi(f["34"]); err == nil {
			if _, dup := h.sent[q]; !dup {
				h.sent[q] = m
			}
			if q > h.lastSent {
				h.lastSent = q
			}
		}
	}
}

func (h *hist) fail(prop, kind, detail string) {
	h.o.Fail(prop, kind, detail, h.ops...)
}

func types(ob obs) []string {
	var t []string
	for _, f := range ob.fields {
		t = append(t, f["35"])
	}
	return t
}

var adversarialIDs = []string{"a=b 35=0 x", "112=zz", "10=000", "=", " ", "8=FIX.4.4", "34=7", "TEST", "1", "x\x02y", "35=A"}

func (h *hist) seqField(kind int) (fld, string) {
	switch kind {
	case 1:
		return fld{}, "missing"
	case 2:
		return fld{"34", []string{"abc", "1x", "", "-"}[h.r.Intn(4)]}, "nonnumeric"
	}
	q := h.peerSeq
	h.peerSeq++
	return fld{"34", strconv.Itoa(q)}, strconv.Itoa(q)
}

// one inbound event: returns op description pieces
func (h *hist) inbound() {
	r := h.r
	l := h.l
	kindIdx := r.Intn(100)
	var mt string
	var fs []fld
	seqKind := 0
	if r.Intn(12) == 0 {
		seqKind = 1 + r.Intn(2)
	}
	damage := 0
	if r.Intn(7) == 0 {
		damage = 1 + r.Intn(3) // 1 checksum, 2 body length, 3 non-numeric field
	}
	hb, enc := l.hbMin+r.Intn(l.hbMax-l.hbMin+1), "0"
	approve := r.Intn(6) > 0
	var trID string
	rb, re := 0, 0
	switch {
	case kindIdx < 30:
		mt = "A"
		switch r.Intn(12) {
		case 0:
			hb = l.hbMin - 1 - r.Intn(3)
		case 1:
			hb = l.hbMax + 1 + r.Intn(100)
		case 2:
			hb = 0
		case 3:
			hb = -r.Intn(5)
		case 4: // the edges of the permitted range, and the values just outside
			hb = l.hbMin
		case 5:
			hb = l.hbMax
		case 6:
			hb = l.hbMin - 1
		case 7:
			hb = l.hbMax + 1
		}
		switch r.Intn(8) {
		case 0:
			enc = "1"
		case 1:
			enc = ""
		}
		if r.Intn(6) == 0 { // gap
			h.peerSeq += 1 + r.Intn(5)
		}
	case kindIdx < 42:
		mt = "5"
	case kindIdx < 55:
		mt = "0"
		if r.Intn(2) == 0 {
			trID = "hb" + strconv.Itoa(r.Intn(9))
		}
	case kindIdx < 72:
		mt = "1"
		trID = adversarialIDs[r.Intn(len(adversarialIDs))]
		if r.Intn(3) == 0 {
			trID = string(genID(r))
		}
	case kindIdx < 90:
		mt = "2"
		last := h.lastSent
		switch r.Intn(9) {
		case 0:
			rb, re = 1, 0
		case 1:
			rb, re = 1+r.Intn(last+1), 0
		case 2:
			rb = 1 + r.Intn(last+1)
			re = rb
		case 3:
			rb, re = 1+r.Intn(last+1), last+1+r.Intn(3)
		case 4:
			rb, re = 3+r.Intn(3), 1+r.Intn(2)
		case 5:
			rb, re = 0, r.Intn(last+1)
		case 6:
			rb, re = last+1, last+2
		default:
			rb = 1 + r.Intn(last+1)
			re = rb + r.Intn(last-rb+2)
			if re > last {
				re = last
			}
			if re < rb {
				re = rb
			}
		}
	default:
		mt = []string{"V", "ZQ", "D", "8"}[r.Intn(4)]
	}
	sf, seqDesc := h.seqField(seqKind)
	fs = append(fs, fld{"35", mt})
	if r.Intn(5) > 0 {
		fs = append(fs, fld{"49", []string{"PEER", "P2"}[r.Intn(2)]})
	}
	if r.Intn(5) > 0 {
		fs = append(fs, fld{"56", []string{"ME", "M2"}[r.Intn(2)]})
	}
	if seqKind != 1 {
		fs = append(fs, sf)
	}
	fs = append(fs, fld{"52", "20240101-00:00:00.000"})
	numBad := damage == 3
	switch mt {
	case "A":
		if enc != "" {
			fs = append(fs, fld{"98", enc})
		}
		hv := strconv.Itoa(hb)
		if numBad {
			hv = "3x"
		}
		fs = append(fs, fld{"108", hv})
		if r.Intn(2) == 0 {
			fs = append(fs, fld{"553", "u" + strconv.Itoa(r.Intn(9))}, fld{"554", "p"})
		}
		if r.Intn(3) == 0 {
			// ResetSeqNumFlag: the library carries the field but gives it no meaning — whatever the flag says, the
			// numbering of what the session sends goes on (C05)
			fs = append(fs, fld{"141", []string{"Y", "N"}[r.Intn(2)]})
		}
	case "0", "1":
		if trID != "" {
			fs = append(fs, fld{"112", trID})
		}
		if numBad {
			fs = append(fs, fld{"90", "zz"}) // SecureDataLen (header Int) non-numeric
		}
	case "2":
		bv := strconv.Itoa(rb)
		if numBad {
			bv = "x"
		}
		fs = append(fs, fld{"7", bv}, fld{"16", strconv.Itoa(re)})
	case "5":
		if numBad {
			fs = append(fs, fld{"90", "zz"})
		}
	}
	data := frame(body(fs))
	switch damage {
	case 1:
		i := len(data) - 2
		data[i] = '0' + (data[i]-'0'+1)%10
	case 2:
		data = bytes.Replace(data, []byte("\x019="), []byte("\x019=1"), 1)
	}
	isAdmin := map[string]bool{"A": true, "5": true, "0": true, "1": true, "2": true}[mt]
	valid := damage == 0 && seqKind != 2 // parse succeeds (a non-numeric MsgSeqNum is an unparsable header field)
	// ---- state before
	wasLogged := l.s.IsLogged()
	l.approve = approve
	ap := "0"
	if approve {
		ap = "1"
	}
	l.h.ServeIncoming(data)
	bar := l.barrier()
	ob := l.observe()
	if bar != "ok" {
		h.fail("C11", "inbound-path-"+bar, fmt.Sprintf("%q", data))
	}
	op := fmt.Sprintf("sess in %s %s %s", l.sid, ap, wire.X(data))
	h.emit(op, ob)
	// sentinel as its own model event
	sob := l.observe()
	h.emit(fmt.Sprintf("sess in %s 1 %s", l.sid, wire.X(sentinel)), sob)

	o := h.o
	o.Count("ev.in." + mt)
	if damage > 0 {
		o.Count("ev.damage." + strconv.Itoa(damage))
	}
	if seqKind > 0 {
		o.Count("ev.seq." + seqDesc)
	}
	tys := types(ob)
	acceptable := valid && mt == "A" && ((l.side == "i") || (enc == "0" && hb >= l.hbMin && hb <= l.hbMax && hb > 0 && approve))
	waiting := !wasLogged && !h.ownLogoutPending()
	_ = waiting
	// ---- C07: nothing but Logon/Logout/Reject before the first successful logon
	if !h.everOK && !(acceptable) {
		for _, t := range tys {
			if t != "A" && t != "5" && t != "3" {
				h.fail("C07", "pre-logon-output", fmt.Sprintf("type %s sent before any successful logon, in reply to %q", t, data))
			}
		}
		o.Nontrivial("C07", string(data))
	}
	// ---- C06
	if mt == "A" {
		if ob.logged && !wasLogged && !acceptable {
			h.fail("C06", "logged-on-without-acceptable-logon", fmt.Sprintf("%q approve=%v limits=[%d,%d]", data, approve, l.hbMin, l.hbMax))
		}
		if !wasLogged && acceptable && ob.logged && l.side == "a" {
			ok := len(tys) >= 1 && tys[0] == "A" && ob.fields[0]["108"] == strconv.Itoa(hb) && ob.fields[0]["98"] == enc
			if !ok {
				h.fail("C06", "logon-reply-does-not-echo", fmt.Sprintf("%q -> %v", data, ob.line))
			}
		}
		if valid && wasLogged {
			if len(tys) != 1 || tys[0] != "3" || !ob.logged {
				h.fail("C06", "logon-while-logged-on", fmt.Sprintf("%q -> %v", data, ob.line))
			}
		}
		o.Nontrivial("C06", string(data)+fmt.Sprint(wasLogged, approve))
	}
	if ob.logged && !wasLogged {
		if mt != "A" {
			h.fail("C06", "logged-on-by-non-logon", fmt.Sprintf("%q", data))
		}
		h.everOK = true
		h.ownLogout = false
	}
	// ---- C16: invalid admin message => exactly one Reject by seq (or naming tag 34), state unchanged
	if isAdmin {
		invalid := !valid
		notPermitted := valid && ((mt == "0" || mt == "1" || mt == "2") && !wasLogged)
		if invalid || notPermitted {
			good := len(tys) == 1 && tys[0] == "3"
			if good {
				f := ob.fields[0]
				switch seqKind {
				case 0:
					good = f["45"] == sf.val
				default:
					good = f["371"] == "34"
				}
			}
			if !good || ob.logged != wasLogged || ob.cancel || ob.stop {
				h.fail("C16", "invalid-admin-not-rejected-by-seq", fmt.Sprintf("%q (logged before=%v) -> %v", data, wasLogged, ob.line))
			}
			o.Nontrivial("C16", string(data)+fmt.Sprint(wasLogged))
		}
	}
	// ---- C14
	if mt == "1" && valid && wasLogged {
		good := len(tys) == 1 && tys[0] == "0" && ob.fields[0]["112"] == trID
		if !good {
			h.fail("C14", "testrequest-not-echoed", fmt.Sprintf("%q -> %v", data, ob.line))
		}
		o.Nontrivial("C14", trID)
	}
	// ---- C15 (peer logout)
	if mt == "5" && valid {
		if wasLogged {
			if len(tys) != 1 || tys[0] != "5" || ob.logged {
				h.fail("C15", "peer-logout-not-acknowledged-once", fmt.Sprintf("%q -> %v", data, ob.line))
			}
			o.Nontrivial("C15", "peer-logout")
		} else if h.ownLogout {
			hasLogout := false
			for _, e := range ob.events {
				hasLogout = hasLogout || e == "logout"
			}
			if len(tys) != 0 || !hasLogout {
				h.fail("C15", "answer-to-own-logout-mishandled", fmt.Sprintf("%q -> %v", data, ob.line))
			}
			h.ownLogout = false
			o.Nontrivial("C15", "own-logout-answer")
		}
	}
	// ---- C10
	if mt == "2" && valid && wasLogged {
		last := h.lastSentBefore(ob)
		eff := re
		if re == 0 {
			eff = last
		}
		var want [][]byte
		if rb >= 1 && rb <= eff && eff <= last {
			for q := rb; q <= eff; q++ {
				want = append(want, h.sent[q])
			}
		}
		good := len(ob.msgs) == len(want)
		for i := 0; good && i < len(want); i++ {
			good = bytes.Equal(ob.msgs[i], want[i])
		}
		if !good {
			h.fail("C10", "resend-not-exact", fmt.Sprintf("7=%d 16=%d last=%d -> %d message(s) %v", rb, re, last, len(ob.msgs), ob.line))
		}
		o.Nontrivial("C10", fmt.Sprint(rb, re, last))
	}
	if mt == "A" && valid && !wasLogged && ob.logged {
		// gap detection: ResendRequest from the first missing number
		for i, t := range tys {
			if t == "2" {
				o.Nontrivial("C10", "gap"+ob.fields[i]["7"])
			}
		}
	}
	_ = isAdmin
}

func (h *hist) ownLogoutPending() bool { return h.ownLogout }

func (h *hist) lastSentBefore(ob obs) int {
	// resend requests never create new numbers, so lastSent is the answer
	return h.lastSent
}

func genID(r *rand.Rand) []byte {
	n := 1 + r.Intn(12)
	b := make([]byte, n)
	for i := range b {
		b[i] = []byte("ab=1 0|9;\x02\xff")[r.Intn(11)]
	}
	return b
}

func (h *hist) local() {
	r, l := h.r, h.l
	switch k := r.Intn(10); {
	case k < 7:
		tag := r.Intn(1000)
		m := fixgen.NewMarketDataRequest().SetMDReqID("app" + strconv.Itoa(tag))
		_ = l.s.Send(m)
		ob := l.observe()
		h.emit(fmt.Sprintf("sess send %s %d", l.sid, tag), ob)
		h.o.Count("ev.local.send")
	default:
		wasLogged := l.s.IsLogged()
		_ = l.s.Logout()
		ob := l.observe()
		h.emit(fmt.Sprintf("sess logout %s", l.sid), ob)
		h.ownLogout = true
		h.o.Count("ev.local.logout")
		_ = wasLogged
	}
}

// stop: local Stop, then either the peer's Logout answer or the close deadline
func (h *hist) stop() {
	l := h.l
	_ = l.s.Stop()
	ob := l.observe()
	h.emit(fmt.Sprintf("sess stop %s", l.sid), ob)
	if h.r.Intn(2) == 0 {
		q := h.peerSeq
		h.peerSeq++
		data := frame(body([]fld{{"35", "5"}, {"49", "PEER"}, {"56", "ME"}, {"34", strconv.Itoa(q)}, {"52", "20240101-00:00:00.000"}}))
		t0 := time.Now()
		l.h.ServeIncoming(data)
		bar := l.barrier()
		ob := l.observe()
		h.emit(fmt.Sprintf("sess in %s 1 %s", l.sid, wire.X(data)), ob)
		sob := l.observe()
		h.emit(fmt.Sprintf("sess in %s 1 %s", l.sid, wire.X(sentinel)), sob)
		if bar == "ok" && (!ob.cancel || time.Since(t0) > l.closeAfter/2) {
			h.fail("C15", "stop-not-ended-by-peer-answer", fmt.Sprintf("context cancelled=%v %v after the peer's Logout answer (close timeout %v)", ob.cancel, time.Since(t0), l.closeAfter))
		}
		h.o.Nontrivial("C15", "stop-answer")
		h.o.Count("ev.stop.answer")
	} else {
		t0 := time.Now()
		select {
		case <-l.s.Context().Done():
		case <-time.After(l.closeAfter + 2*time.Second):
		}
		el := time.Since(t0)
		ob := l.observe()
		h.emit(fmt.Sprintf("sess deadline %s", l.sid), ob)
		if !ob.cancel || el < l.closeAfter-50*time.Millisecond || el > l.closeAfter+time.Second {
			h.fail("C15", "stop-deadline", fmt.Sprintf("cancelled=%v after %v (close timeout %v)", ob.cancel, el, l.closeAfter))
		}
		h.o.Nontrivial("C15", "stop-deadline")
		h.o.Count("ev.stop.deadline")
	}
}

func runHistory(r *rand.Rand, o *hout.Out, idx int) {
	store := memory.NewStorage()
	side := []string{"a", "a", "i"}[r.Intn(3)]
	sid := fmt.Sprintf("s%d", idx)
	l, args := newLive(sid, side, store, r)
	h := &hist{r: r, o: o, l: l, peerSeq: 1, sent: map[int][]byte{}}
	ob := l.observe()
	h.emit("sess new "+sid+" "+fmt.Sprintf(args, "-"), ob)
	o.Count("hist.side." + side)
	steps := 3 + r.Intn(*hlen)
	for i := 0; i < steps; i++ {
		if l.h.Context().Err() != nil || l.s.Context().Err() != nil {
			break
		}
		if r.Intn(5) == 0 {
			h.local()
		} else {
			h.inbound()
		}
	}
	if l.s.Context().Err() == nil && r.Intn(3) == 0 {
		h.stop()
	}
	if len(o.Samples["SESS"]) < 3 {
		o.Sample("SESS", strings.Join(h.ops[1:min(len(h.ops), 6)], " / "))
	}
	l.h.Stop()
	// a later session re-using the counter / message store (C05 reuse, C07 shared store)
	if r.Intn(3) == 0 {
		sid2 := sid + "b"
		l2, args2 := newLive(sid2, "a", store, r)
		h2 := &hist{r: r, o: o, l: l2, peerSeq: 1, sent: h.sent, lastSent: h.lastSent}
		ob := l2.observe()
		h2.ops = append(h2.ops, h.ops...)
		h2.emit("sess new "+sid2+" "+fmt.Sprintf(args2, sid), ob)
		for i := 0; i < 6; i++ {
			h2.inbound()
		}
		o.Count("hist.second-session")
		l2.h.Stop()
	}
}

// delayHandler lets the peer's answer arrive while the local Logout is still inside Send:
// the interleaving "answer dispatched before Logout() has finished" (C15).
type delayHandler struct {
	*simplefixgo.DefaultHandler
	mu       sync.Mutex
	onLogout func()
}

func (d *delayHandler) Send(m simplefixgo.SendingMessage) error {
	err := d.DefaultHandler.Send(m)
	d.mu.Lock()
	f := d.onLogout
	if m.MsgType() == "5" {
		d.onLogout = nil
	} else {
		f = nil
	}
	d.mu.Unlock()
	if f != nil {
		f()
		time.Sleep(30 * time.Millisecond)
	}
	return err
}

func raceLogout(r *rand.Rand, o *hout.Out, useStop bool) {
	dh := &delayHandler{DefaultHandler: simplefixgo.NewAcceptorHandler(context.Background(), "35", 64)}
	store := memory.NewStorage()
	closeAfter := 2 * time.Second
	s, err := session.NewAcceptorSession(makeOpts(), dh, &session.LogonSettings{LogonTimeout: time.Second, CloseTimeout: closeAfter,
		HeartBtLimits: &session.IntLimits{Min: 1, Max: 600}}, func(*session.LogonSettings) error { return nil }, store, store)
	if err != nil {
		panic(err)
	}
	var evMu sync.Mutex
	logoutEvents := 0
	s.OnChangeState(utils.EventLogout, func() bool { evMu.Lock(); logoutEvents++; evMu.Unlock(); return true })
	sig := make(chan struct{}, 4)
	dh.HandleIncoming("ZZ", func([]byte) bool { sig <- struct{}{}; return true })
	_ = s.Run()
	go func() { _ = dh.Run() }()
	feed := func(b []byte) {
		dh.ServeIncoming(b)
		dh.ServeIncoming(sentinel)
		select {
		case <-sig:
		case <-time.After(3 * time.Second):
		}
	}
	feed(frame(body([]fld{{"35", "A"}, {"49", "PEER"}, {"56", "ME"}, {"34", "1"}, {"52", "20240101-00:00:00.000"}, {"98", "0"}, {"108", "500"}})))
	for len(dh.Outgoing()) > 0 {
		<-dh.Outgoing()
	}
	answer := frame(body([]fld{{"35", "5"}, {"49", "PEER"}, {"56", "ME"}, {"34", "2"}, {"52", "20240101-00:00:00.000"}}))
	dh.mu.Lock()
	dh.onLogout = func() { dh.ServeIncoming(answer) }
	dh.mu.Unlock()
	t0 := time.Now()
	if useStop {
		_ = s.Stop()
	} else {
		_ = s.Logout()
	}
	dh.ServeIncoming(sentinel)
	select {
	case <-sig:
	case <-time.After(3 * time.Second):
	}
	logouts := 0
	for len(dh.Outgoing()) > 0 {
		m := <-dh.Outgoing()
		if _, f := render(m); f["35"] == "5" {
			logouts++
		}
	}
	evMu.Lock()
	ev := logoutEvents
	evMu.Unlock()
	kind := "Logout()"
	if useStop {
		kind = "Stop()"
	}
	if logouts != 1 || ev != 1 || s.IsLogged() {
		o.Fail("C15", "answer-during-own-logout-mishandled", fmt.Sprintf("%s with the peer's answer dispatched before it returned: %d Logouts sent, %d logout events, logged=%v", kind, logouts, ev, s.IsLogged()))
	}
	if useStop {
		select {
		case <-s.Context().Done():
		case <-time.After(closeAfter / 2):
			o.Fail("C15", "stop-not-ended-by-peer-answer", fmt.Sprintf("%s: context still alive %v after the answer (close timeout %v)", kind, time.Since(t0), closeAfter))
		}
	}
	o.Nontrivial("C15", "answer-during-"+kind)
	o.Count("ev.race-logout")
	dh.Stop()
}

// reuseResend (C10): an application that re-populates and re-sends one message object (as the repository's own
// TestSessionClosing does with a TestRequest), then a ResendRequest over those numbers: every retransmission must be
// byte-identical to the first transmission under that number.
func reuseResend(r *rand.Rand, o *hout.Out, fresh bool) {
	h := simplefixgo.NewAcceptorHandler(context.Background(), "35", 256)
	store := memory.NewStorage()
	s, err := session.NewAcceptorSession(makeOpts(), h, &session.LogonSettings{LogonTimeout: time.Second, CloseTimeout: time.Second,
		HeartBtLimits: &session.IntLimits{Min: 1, Max: 600}}, func(*session.LogonSettings) error { return nil }, store, store)
	if err != nil {
		panic(err)
	}
	sig := make(chan struct{}, 4)
	h.HandleIncoming("ZZ", func([]byte) bool { sig <- struct{}{}; return true })
	_ = s.Run()
	go func() { _ = h.Run() }()
	feed := func(b []byte) {
		h.ServeIncoming(b)
		h.ServeIncoming(sentinel)
		select {
		case <-sig:
		case <-time.After(3 * time.Second):
		}
	}
	feed(frame(body([]fld{{"35", "A"}, {"49", "PEER"}, {"56", "ME"}, {"34", "1"}, {"52", "20240101-00:00:00.000"}, {"98", "0"}, {"108", "500"}})))
	first := map[string][]byte{} // sequence number -> first transmission
	drain := func() (got [][]byte) {
		for len(h.Outgoing()) > 0 {
			got = append(got, <-h.Outgoing())
		}
		return
	}
	for _, m := range drain() {
		_, f := render(m)
		first[f["34"]] = m
	}
	k := 2 + r.Intn(5)
	m := fixgen.NewMarketDataRequest()
	// the same history for the object-identity model of the store (FixModel/StoreAlias.lean): the Logon answer is an
	// object of its own carrying "body" 999; application object ids: one shared (0) or one per send (i+1)
	aliasOp := "alias s:1000:999"
	var aliasAnswers []string
	for i := 0; i < k; i++ {
		if fresh {
			m = fixgen.NewMarketDataRequest()
			aliasOp += fmt.Sprintf(" s:%d:%d", i+1, i)
		} else {
			aliasOp += fmt.Sprintf(" s:0:%d", i)
		}
		m.SetMDReqID(fmt.Sprintf("req-%d", i))
		_ = s.Send(m)
		for _, w := range drain() {
			_, f := render(w)
			first[f["34"]] = w
		}
	}
	kind := "reused-object"
	if fresh {
		kind = "fresh-objects"
	}
	last := k + 1 // the Logon answer is 1, the application messages 2..k+1
	desc := ""
	// several requests in a row, bounded and open-ended (16=0) in any order, nothing sent in between
	for rq := 0; rq < 3; rq++ {
		from := 2 + r.Intn(k)
		to := from + r.Intn(last+1-from)
		want := to
		if r.Intn(2) == 0 || (rq == 1 && to < last) {
			to, want = 0, last
		}
		feed(frame(body([]fld{{"35", "2"}, {"49", "PEER"}, {"56", "ME"}, {"34", strconv.Itoa(2 + rq)}, {"52", "20240101-00:00:00.000"}, {"7", strconv.Itoa(from)}, {"16", strconv.Itoa(to)}})))
		resent := drain()
		aliasOp += fmt.Sprintf(" r:%d:%d", from, to)
		var toks []string
		for _, w := range resent {
			_, f := render(w)
			body := "999"
			if f["35"] != "A" {
				body = strings.TrimPrefix(f["262"], "req-")
			}
			toks = append(toks, f["34"]+":"+body)
		}
		aliasAnswers = append(aliasAnswers, strings.Join(toks, ","))
		desc = fmt.Sprintf("%s: %d application sends, request %d of 3: ResendRequest %d..%d", kind, k, rq+1, from, to)
		if len(resent) != want-from+1 {
			var got []string
			for _, w := range resent {
				_, f := render(w)
				got = append(got, f["34"])
			}
			o.Fail("C10", "resent-count", fmt.Sprintf("%s: retransmitted %v, want %d..%d", desc, got, from, want))
			break
		}
		bad := false
		for i, w := range resent {
			wantB := first[strconv.Itoa(from+i)]
			if !bytes.Equal(w, wantB) {
				o.Fail("C10", "resent-differs-from-first-transmission", fmt.Sprintf("%s: retransmission %d is %q, first transmission under %d was %q", desc, i, w, from+i, wantB))
				bad = true
				break
			}
		}
		if bad {
			break
		}
		o.Nontrivial("C10", desc)
	}
	o.Nontrivial("C10", desc)
	// model and implementation must agree on what is retransmitted — also when objects are re-used (the model keeps
	// object identity, so it predicts the latest content then)
	o.Emit("corr", "C10", aliasOp, strings.Join(aliasAnswers, " | "))
	o.Count("ev.reuse-resend." + kind)
	h.Stop()
}

// stalledWriter (C14, C05): the connection's writer is slower than the session: the outgoing queue (small) fills up
// while TestRequests keep arriving. Every request is still answered by exactly one Heartbeat with its id, the answers
// leave in the order of the requests, and sequence numbers on the wire stay consecutive.
func stalledWriter(r *rand.Rand, o *hout.Out) {
	buf := []int{0, 1, 2, 4, 8}[r.Intn(5)]
	h := simplefixgo.NewAcceptorHandler(context.Background(), "35", buf)
	store := memory.NewStorage()
	s, err := session.NewAcceptorSession(makeOpts(), h, &session.LogonSettings{LogonTimeout: time.Second, CloseTimeout: time.Second,
		HeartBtLimits: &session.IntLimits{Min: 1, Max: 600}}, func(*session.LogonSettings) error { return nil }, store, store)
	if err != nil {
		panic(err)
	}
	_ = s.Run()
	go func() { _ = h.Run() }()
	var got [][]byte
	var gmu sync.Mutex
	release := make(chan struct{})
	stop := make(chan struct{})
	go func() { // the writer: takes the Logon answer, then stalls until released, then drains
		first := true
		for {
			select {
			case m := <-h.Outgoing():
				gmu.Lock()
				got = append(got, m)
				gmu.Unlock()
				if first {
					first = false
					<-release
				}
			case <-stop:
				return
			}
		}
	}()
	n := 10 + r.Intn(30)
	fed := make(chan struct{})
	go func() {
		h.ServeIncoming(frame(body([]fld{{"35", "A"}, {"49", "PEER"}, {"56", "ME"}, {"34", "1"}, {"52", "20240101-00:00:00.000"}, {"98", "0"}, {"108", "500"}})))
		for i := 0; i < n; i++ {
			h.ServeIncoming(frame(body([]fld{{"35", "1"}, {"49", "PEER"}, {"56", "ME"}, {"34", strconv.Itoa(i + 2)}, {"52", "20240101-00:00:00.000"}, {"112", fmt.Sprintf("id%03d", i)}})))
		}
		close(fed)
	}()
	time.Sleep(time.Duration(50+r.Intn(250)) * time.Millisecond) // the queue is full by now, the dispatcher is waiting for room
	close(release)
	select {
	case <-fed:
	case <-time.After(5 * time.Second):
	}
	for dl := time.Now().Add(3 * time.Second); time.Now().Before(dl); {
		gmu.Lock()
		k := len(got)
		gmu.Unlock()
		if k >= n+1 {
			break
		}
		time.Sleep(2 * time.Millisecond)
	}
	time.Sleep(20 * time.Millisecond)
	close(stop)
	h.Stop()
	gmu.Lock()
	defer gmu.Unlock()
	desc := fmt.Sprintf("outgoing queue of %d, %d TestRequests while the writer stalls", buf, n)
	var ids, seqs []string
	for _, m := range got {
		_, f := render(m)
		seqs = append(seqs, f["34"])
		if f["35"] == "0" {
			ids = append(ids, f["112"])
		}
	}
	okOrder := len(ids) == n
	for i := 0; okOrder && i < n; i++ {
		okOrder = ids[i] == fmt.Sprintf("id%03d", i)
	}
	if !okOrder {
		o.Fail("C14", "testrequests-not-answered-once-in-order", fmt.Sprintf("%s: Heartbeats echo %v", desc, ids))
	}
	for i, q := range seqs {
		if q != strconv.Itoa(i+1) {
			o.Fail("C05", "sequence-broken", fmt.Sprintf("%s: message %d on the wire carries 34=%s; all: %v", desc, i, q, seqs))
			break
		}
	}
	o.Nontrivial("C14", desc)
	o.Nontrivial("C05", desc)
	o.Count("ev.stalled-writer")
}

// stopEdgeTimeouts (C15, "all close-timeout values including zero"): Stop() on a logged-on session whose CloseTimeout is
// zero (also what an application gets when it leaves the field unset), one nanosecond or a few milliseconds. Whatever the
// timeout: exactly one Logout goes out, the context is cancelled (at once), the session no longer reports logged-on, and
// the peer's Logout arriving afterwards is not answered by a second Logout.
func stopEdgeTimeouts(r *rand.Rand, o *hout.Out) {
	closeAfter := []time.Duration{0, 0, time.Nanosecond, 5 * time.Millisecond}[r.Intn(4)]
	h := simplefixgo.NewAcceptorHandler(context.Background(), "35", 16)
	store := memory.NewStorage()
	s, err := session.NewAcceptorSession(makeOpts(), h, &session.LogonSettings{LogonTimeout: time.Second, CloseTimeout: closeAfter,
		HeartBtLimits: &session.IntLimits{Min: 1, Max: 600}}, func(*session.LogonSettings) error { return nil }, store, store)
	if err != nil {
		panic(err)
	}
	_ = s.Run()
	go func() { _ = h.Run() }()
	h.ServeIncoming(frame(body([]fld{{"35", "A"}, {"49", "PEER"}, {"56", "ME"}, {"34", "1"}, {"52", "20240101-00:00:00.000"}, {"98", "0"}, {"108", "500"}})))
	select {
	case <-h.Outgoing():
	case <-time.After(2 * time.Second):
	}
	_ = s.Stop()
	logouts := 0
	collect := func(d time.Duration) {
		dl := time.After(d)
		for {
			select {
			case w := <-h.Outgoing():
				if _, f := render(w); f["35"] == "5" {
					logouts++
				}
			case <-dl:
				return
			}
		}
	}
	collect(150 * time.Millisecond)
	desc := fmt.Sprintf("Stop() with close timeout %v", closeAfter)
	cancelled := s.Context().Err() != nil
	if logouts != 1 {
		o.Fail("C15", "stop-does-not-send-one-logout", fmt.Sprintf("%s: %d Logout messages sent", desc, logouts))
	}
	if !cancelled {
		o.Fail("C15", "stop-deadline", fmt.Sprintf("%s: context not cancelled 150 ms after Stop()", desc))
	}
	if s.IsLogged() {
		o.Fail("C15", "stop-leaves-session-logged-on", desc)
	}
	h.ServeIncoming(frame(body([]fld{{"35", "5"}, {"49", "PEER"}, {"56", "ME"}, {"34", "2"}, {"52", "20240101-00:00:00.000"}})))
	collect(100 * time.Millisecond)
	if logouts > 1 {
		o.Fail("C15", "answer-during-own-logout-mishandled", fmt.Sprintf("%s: the peer's Logout after Stop() was answered by another Logout (%d in all)", desc, logouts))
	}
	o.Nontrivial("C15", desc)
	o.Count("ev.stop-edge-timeout")
	h.Stop()
}

// stopStalled (C15): Stop() while the outgoing queue is full and nobody reads it (the peer has stopped reading): the
// Logout cannot even be queued, yet the context must be cancelled once the close timeout has elapsed.
func stopStalled(r *rand.Rand, o *hout.Out) {
	buf := []int{0, 1, 3}[r.Intn(3)]
	h := simplefixgo.NewAcceptorHandler(context.Background(), "35", buf)
	store := memory.NewStorage()
	closeAfter := time.Duration(150+r.Intn(200)) * time.Millisecond
	s, err := session.NewAcceptorSession(makeOpts(), h, &session.LogonSettings{LogonTimeout: time.Second, CloseTimeout: closeAfter,
		HeartBtLimits: &session.IntLimits{Min: 1, Max: 600}}, func(*session.LogonSettings) error { return nil }, store, store)
	if err != nil {
		panic(err)
	}
	_ = s.Run()
	go func() { _ = h.Run() }()
	// log on, taking the answer off the queue; then fill the queue and leave it
	h.ServeIncoming(frame(body([]fld{{"35", "A"}, {"49", "PEER"}, {"56", "ME"}, {"34", "1"}, {"52", "20240101-00:00:00.000"}, {"98", "0"}, {"108", "500"}})))
	select {
	case <-h.Outgoing():
	case <-time.After(2 * time.Second):
	}
	for i := 0; i < buf; i++ {
		_ = s.Send(fixgen.NewMarketDataRequest().SetMDReqID("fill" + strconv.Itoa(i)))
	}
	parked := r.Intn(2) == 0
	if parked { // one more sender is already waiting for room (it holds the session's send lock)
		go func() { _ = s.Send(fixgen.NewMarketDataRequest().SetMDReqID("parked")) }()
		time.Sleep(20 * time.Millisecond)
	}
	t0 := time.Now()
	go func() { _ = s.Stop() }()
	cancelledAfter := time.Duration(-1)
	select {
	case <-s.Context().Done():
		cancelledAfter = time.Since(t0)
	case <-time.After(closeAfter + 1500*time.Millisecond):
	}
	desc := fmt.Sprintf("Stop() with a full outgoing queue of %d nobody reads (another sender parked: %v), close timeout %v", buf, parked, closeAfter)
	if cancelledAfter < 0 {
		o.Fail("C15", "stop-deadline", fmt.Sprintf("%s: context still alive %v after Stop()", desc, time.Since(t0)))
	} else if cancelledAfter < closeAfter-20*time.Millisecond {
		o.Fail("C15", "stop-deadline", fmt.Sprintf("%s: context cancelled after only %v without any answer", desc, cancelledAfter))
	}
	o.Nontrivial("C15", desc)
	o.Count("ev.stop-stalled")
	h.Stop()
}

// counterSetBack (C19): the application sets the outgoing counter back on its own CounterStorage (a sequence reset): every
// message sent afterwards must still be saved under its own (now lower) number before it leaves.
func counterSetBack(r *rand.Rand, o *hout.Out) {
	h := simplefixgo.NewAcceptorHandler(context.Background(), "35", 64)
	store := memory.NewStorage()
	s, err := session.NewAcceptorSession(makeOpts(), h, &session.LogonSettings{LogonTimeout: time.Second, CloseTimeout: time.Second,
		HeartBtLimits: &session.IntLimits{Min: 1, Max: 600}}, func(*session.LogonSettings) error { return nil }, store, store)
	if err != nil {
		panic(err)
	}
	_ = s.Run()
	go func() { _ = h.Run() }()
	h.ServeIncoming(frame(body([]fld{{"35", "A"}, {"49", "PEER"}, {"56", "ME"}, {"34", "1"}, {"52", "20240101-00:00:00.000"}, {"98", "0"}, {"108", "500"}})))
	select {
	case <-h.Outgoing():
	case <-time.After(2 * time.Second):
	}
	id := fix.StorageID{Sender: "ME", Target: "PEER", Side: fix.Outgoing}
	latest := map[int][]byte{} // number -> what was most recently sent under it
	lastQ := 0
	check := func(phase string, i int) bool {
		m := fixgen.NewMarketDataRequest().SetMDReqID(fmt.Sprintf("%s-%d", phase, i))
		_ = s.Send(m)
		var w []byte
		select {
		case w = <-h.Outgoing():
		case <-time.After(2 * time.Second):
			o.Fail("C19", "message-not-sent", phase)
			return false
		}
		_, f := render(w)
		q, _ := strconv.Atoi(f["34"])
		saved, err := store.Messages(id, q, q)
		var sb []byte
		if err == nil && len(saved) == 1 {
			sb, _ = saved[0].ToBytes()
		}
		if !bytes.Equal(sb, w) {
			o.Fail("C19", "sent-but-not-saved-under-its-number", fmt.Sprintf("%s: 34=%d left the session as %q; the store holds %q under %d (err=%v)", phase, q, w, sb, q, err))
			return false
		}
		latest[q] = w
		lastQ = q
		return true
	}
	k := 2 + r.Intn(5)
	for i := 0; i < k; i++ {
		if !check("before", i) {
			h.Stop()
			return
		}
	}
	back := r.Intn(k + 1) // the counter now says `back` messages were sent
	if r.Intn(3) == 0 {
		_ = store.ResetSeqNum(id)
		back = 0
	} else {
		_ = store.SetSeqNum(id, back)
	}
	for i := 0; i < 1+r.Intn(4); i++ {
		if !check(fmt.Sprintf("after-set-back-to-%d", back), i) {
			break
		}
	}
	// C10 across the set-back: a number that was used again is retransmitted as the message most recently sent under it
	if lastQ > 0 {
		h.ServeIncoming(frame(body([]fld{{"35", "2"}, {"49", "PEER"}, {"56", "ME"}, {"34", "2"}, {"52", "20240101-00:00:00.000"}, {"7", strconv.Itoa(lastQ)}, {"16", strconv.Itoa(lastQ)}})))
		select {
		case w := <-h.Outgoing():
			if !bytes.Equal(w, latest[lastQ]) {
				o.Fail("C10", "resent-differs-from-latest-transmission", fmt.Sprintf("counter set back to %d of %d: ResendRequest %d..%d retransmitted %q, the message last sent under that number was %q", back, k, lastQ, lastQ, w, latest[lastQ]))
			}
			o.Nontrivial("C10", fmt.Sprintf("resend after set back %d of %d: %d", back, k, lastQ))
		case <-time.After(2 * time.Second):
			o.Fail("C10", "resent-count", fmt.Sprintf("counter set back to %d of %d: ResendRequest %d..%d was not answered", back, k, lastQ, lastQ))
		}
	}
	o.Nontrivial("C19", fmt.Sprintf("set back %d of %d", back, k))
	o.Count("ev.counter-set-back")
	h.Stop()
}

func min(a, b int) int {
	if a < b {
		return a
	}
	return b
}

func main() {
	flag.Parse()
	if *out == "" {
		os.Exit(2)
	}
	r := rand.New(rand.NewSource(*seed))
	o := hout.New(*out)
	defer o.Close()
	for i := 0; i < *n; i++ {
		runHistory(r, o, i)
		if i%10 == 0 {
			raceLogout(r, o, i%20 == 0)
			reuseResend(r, o, i%20 == 0)
			stalledWriter(r, o)
			stopStalled(r, o)
			stopEdgeTimeouts(r, o)
			counterSetBack(r, o)
		}
	}
}
