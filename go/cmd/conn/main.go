// conn: scripted transports under the real Initiator / Acceptor / Conn.
//
//	conn -mode frame  : C04 — chunkings of the inbound stream, outbound hand-off order, several connections
//	conn -mode faults : C13 — termination causes injected with traffic in flight; goroutine profile afterwards
package main

import (
	"bytes"
	"context"
	"errors"
	"flag"
	"fmt"
	"io"
	"math/rand"
	"net"
	"os"
	"runtime/pprof"
	"strconv"
	"strings"
	"sync"
	"sync/atomic"
	"time"

	simplefixgo "github.com/b2broker/simplefix-go"
	fixgen "github.com/b2broker/simplefix-go/tests/fix44"
	"github.com/b2broker/simplefix-go/utils"

	"verifharness/hout"
	"verifharness/wire"
)

var (
	mode = flag.String("mode", "frame", "")
	seed = flag.Int64("seed", 1, "")
	n    = flag.Int("n", 100, "")
	out  = flag.String("out", "", "")
)

// ---------------------------------------------------------------- recording handler

type recHandler struct {
	mu       sync.Mutex
	msgs     [][]byte
	inCall   int32
	overlap  bool
	outCh    chan []byte
	ctx      context.Context
	cancel   context.CancelFunc
	errs     chan error
	closeErr sync.Once
}

func newRec(ctx context.Context, buf int) *recHandler {
	h := &recHandler{outCh: make(chan []byte, buf), errs: make(chan error)}
	h.ctx, h.cancel = context.WithCancel(ctx)
	return h
}

func (h *recHandler) ServeIncoming(msg []byte) {
	if atomic.AddInt32(&h.inCall, 1) != 1 {
		h.overlap = true
	}
	h.mu.Lock()
	h.msgs = append(h.msgs, append([]byte{}, msg...))
	h.mu.Unlock()
	atomic.AddInt32(&h.inCall, -1)
}
func (h *recHandler) Outgoing() <-chan []byte { return h.outCh }
func (h *recHandler) Run() error {
	select {
	case <-h.ctx.Done():
		return nil
	case err := <-h.errs:
		return err
	}
}
func (h *recHandler) Stop() { h.cancel() }
func (h *recHandler) StopWithError(err error) {
	select {
	case h.errs <- err:
	case <-h.ctx.Done():
	}
}
func (h *recHandler) CloseErrorChan()                                              {}
func (h *recHandler) Send(simplefixgo.SendingMessage) error                        { return nil }
func (h *recHandler) SendBatch([]simplefixgo.SendingMessage) error                 { return nil }
func (h *recHandler) SendRaw(d []byte) error                                       { h.outCh <- d; return nil }
func (h *recHandler) RemoveIncomingHandler(string, int64) error                    { return nil }
func (h *recHandler) RemoveOutgoingHandler(string, int64) error                    { return nil }
func (h *recHandler) HandleIncoming(string, simplefixgo.IncomingHandlerFunc) int64 { return 0 }
func (h *recHandler) HandleOutgoing(string, simplefixgo.OutgoingHandlerFunc) int64 { return 0 }
func (h *recHandler) OnDisconnect(utils.EventHandlerFunc)                          {}
func (h *recHandler) OnConnect(utils.EventHandlerFunc)                             {}
func (h *recHandler) OnStopped(utils.EventHandlerFunc)                             {}
func (h *recHandler) Context() context.Context                                     { return h.ctx }
func (h *recHandler) snapshot() [][]byte {
	h.mu.Lock()
	defer h.mu.Unlock()
	return append([][]byte{}, h.msgs...)
}

type recFactory struct {
	buf int
	mu  sync.Mutex
	hs  []*recHandler
	ch  chan *recHandler
}

func (f *recFactory) MakeHandler(ctx context.Context) simplefixgo.AcceptorHandler {
	h := newRec(ctx, f.buf)
	f.mu.Lock()
	f.hs = append(f.hs, h)
	f.mu.Unlock()
	f.ch <- h
	return h
}

// ---------------------------------------------------------------- pipe listener

type pipeListener struct {
	conns chan net.Conn
	done  chan struct{}
	once  sync.Once
}

func newPipeListener() *pipeListener {
	return &pipeListener{conns: make(chan net.Conn, 16), done: make(chan struct{})}
}
func (l *pipeListener) Accept() (net.Conn, error) {
	select {
	case c := <-l.conns:
		return c, nil
	case <-l.done:
		return nil, errors.New("listener closed")
	}
}
func (l *pipeListener) Close() error   { l.once.Do(func() { close(l.done) }); return nil }
func (l *pipeListener) Addr() net.Addr { return &net.TCPAddr{} }

// ---------------------------------------------------------------- message generation

func frame(body string) []byte {
	head := "8=FIX.4.4\x019=" + strconv.Itoa(len(body)) + "\x01"
	d := head + body
	sum := 0
	for i := 0; i < len(d); i++ {
		sum += int(d[i])
	}
	return []byte(d + fmt.Sprintf("10=%03d\x01", sum%256))
}

var valAlphabet = []string{"A", "b", "7", "=", " ", "10=", "110=", "10=000", "8=FIX", "\x02", "x10=1", "35=0"}

func randMsg(r *rand.Rand) []byte {
	var sb strings.Builder
	sb.WriteString("35=" + []string{"0", "A", "D", "V", "ZZ", "8"}[r.Intn(6)] + "\x01")
	nf := r.Intn(6)
	for i := 0; i < nf; i++ {
		tag := []string{"58", "112", "110", "210", "1", "910", "55"}[r.Intn(7)]
		var v strings.Builder
		for k := 0; k <= r.Intn(4); k++ {
			v.WriteString(valAlphabet[r.Intn(len(valAlphabet))])
		}
		val := v.String()
		if r.Intn(12) == 0 {
			// a field longer than bufio's 4096-byte buffer, with "10=" inside the value — half of the time exactly
			// where a buffer-sized piece of the field would start
			nx := 3000 + r.Intn(3000)
			if r.Intn(2) == 0 {
				nx = 4096*(1+r.Intn(2)) - len(tag) - 1 + []int{-1, 0, 0, 0, 1}[r.Intn(5)]
			}
			val = strings.Repeat("x", nx) + "10=" + strconv.Itoa(r.Intn(1000))
		}
		sb.WriteString(tag + "=" + val + "\x01")
	}
	return frame(sb.String())
}

func chunking(r *rand.Rand, stream []byte) [][]byte {
	var chunks [][]byte
	style := r.Intn(4)
	for i := 0; i < len(stream); {
		var k int
		switch style {
		case 0:
			k = 1
		case 1:
			k = 1 + r.Intn(3)
		case 2:
			k = 1 + r.Intn(64)
		default:
			k = 1 + r.Intn(5000)
		}
		if i+k > len(stream) {
			k = len(stream) - i
		}
		chunks = append(chunks, stream[i:i+k])
		i += k
	}
	return chunks
}

// ---------------------------------------------------------------- C04 frame mode

// simulCase (C04): several connections already waiting on the listener when the acceptor starts accepting: each
// connection's messages must reach exactly one handler, complete and in order, and what that handler sends must
// come out of that connection
func simulCase(r *rand.Rand, o *hout.Out, idx int) {
	buf := []int{0, 1, 10}[r.Intn(3)]
	nconn := 2 + r.Intn(3)
	lst := newPipeListener()
	fac := &recFactory{buf: buf, ch: make(chan *recHandler, 16)}
	acc := simplefixgo.NewAcceptor(lst, fac, time.Second, nil)
	type cc struct {
		msgs [][]byte
		peer net.Conn
	}
	var cs []*cc
	for ci := 0; ci < nconn; ci++ {
		c := &cc{}
		for i := 0; i < 2+r.Intn(5); i++ {
			c.msgs = append(c.msgs, frame(fmt.Sprintf("35=D\x0111=c%d-%d-%d\x01", idx, ci, i)))
		}
		a, b := net.Pipe()
		c.peer = b
		lst.conns <- a // queued before anybody accepts
		cs = append(cs, c)
	}
	go func() { _ = acc.ListenAndServe() }()
	var hs []*recHandler
	for len(hs) < nconn {
		select {
		case h := <-fac.ch:
			hs = append(hs, h)
		case <-time.After(2 * time.Second):
			o.Fail("C04", "simultaneous-connections-not-all-served", fmt.Sprintf("case %d: %d connections queued, %d handlers made", idx, nconn, len(hs)))
			acc.Close()
			return
		}
	}
	var wg sync.WaitGroup
	for _, c := range cs {
		c := c
		wg.Add(1)
		go func() {
			defer wg.Done()
			_ = c.peer.SetWriteDeadline(time.Now().Add(2 * time.Second))
			for _, m := range c.msgs {
				if _, err := c.peer.Write(m); err != nil {
					return
				}
			}
		}()
	}
	wg.Wait()
	deadline := time.Now().Add(2 * time.Second)
	total := func() (n int) {
		for _, h := range hs {
			n += len(h.snapshot())
		}
		return
	}
	want := 0
	for _, c := range cs {
		want += len(c.msgs)
	}
	for total() < want && time.Now().Before(deadline) {
		time.Sleep(time.Millisecond)
	}
	time.Sleep(5 * time.Millisecond)
	// every connection's message list must be exactly the list some handler received (handlers are made in no particular order)
	used := map[int]bool{}
	okAll := true
	match := map[int]int{}
	for ci, c := range cs {
		found := false
		for hi, h := range hs {
			if used[hi] {
				continue
			}
			got := h.snapshot()
			if len(got) != len(c.msgs) {
				continue
			}
			same := true
			for i := range got {
				if !bytes.Equal(got[i], c.msgs[i]) {
					same = false
				}
			}
			if same {
				used[hi], found = true, true
				match[ci] = hi
				break
			}
		}
		if !found {
			okAll = false
		}
	}
	if !okAll {
		var counts []int
		for _, h := range hs {
			counts = append(counts, len(h.snapshot()))
		}
		o.Fail("C04", "delivered-messages-differ", fmt.Sprintf("case %d: %d connections waiting on the listener at once, buffer %d: per-handler message counts %v do not match what the connections sent (%d messages each in order expected per connection)", idx, nconn, buf, counts, want))
	} else {
		// outbound: what a handler sends leaves through its own connection
		for ci, c := range cs {
			m := frame(fmt.Sprintf("35=8\x0111=out%d-%d\x01", idx, ci))
			go func(h *recHandler) { h.outCh <- m }(hs[match[ci]])
			got := make([]byte, len(m))
			_ = c.peer.SetReadDeadline(time.Now().Add(2 * time.Second))
			if _, err := io.ReadFull(c.peer, got); err != nil || !bytes.Equal(got, m) {
				o.Fail("C04", "outbound-stream-differs", fmt.Sprintf("case %d: simultaneous connections: connection %d did not receive what its handler sent (err=%v)", idx, ci, err))
				break
			}
		}
	}
	o.Count("C04.simultaneous-connections")
	o.Nontrivial("C04", fmt.Sprintf("simul %d %d", idx, nconn))
	for _, c := range cs {
		c.peer.Close()
	}
	acc.Close()
	lst.Close()
	for _, h := range hs {
		h.Stop()
	}
}

func frameCase(r *rand.Rand, o *hout.Out, idx int) {
	buf := []int{0, 1, 10}[r.Intn(3)]
	role := r.Intn(2)
	nconn := 1
	if role == 1 {
		nconn = 1 + r.Intn(3)
	}
	type connCase struct {
		msgs   [][]byte
		chunks [][]byte
		tail   []byte
		outb   [][]byte
		peer   net.Conn
		h      *recHandler
	}
	cases := make([]*connCase, nconn)
	var lst *pipeListener
	var acc *simplefixgo.Acceptor
	var fac *recFactory
	var inits []*simplefixgo.Initiator
	if role == 1 {
		lst = newPipeListener()
		fac = &recFactory{buf: buf, ch: make(chan *recHandler, 16)}
		acc = simplefixgo.NewAcceptor(lst, fac, time.Second, nil)
		go func() { _ = acc.ListenAndServe() }()
	}
	for ci := 0; ci < nconn; ci++ {
		c := &connCase{}
		cases[ci] = c
		k := 1 + r.Intn(8)
		var stream []byte
		for i := 0; i < k; i++ {
			m := randMsg(r)
			if i == 0 && r.Intn(4) == 0 {
				// damage before the first message (C04_resync): complete segments that are not an end-of-message
				// field; the reader must hand them over glued to the next message, once, and be exact afterwards
				var g []byte
				for j := 0; j <= r.Intn(3); j++ {
					g = append(g, []string{"garbage\x01", "\x01", "9=12\x01", "x10=1\x01", "1\x01", "10\x01", "35=0\x0158=lost-checksum\x01", "0=\x01"}[r.Intn(8)]...)
				}
				m = append(g, m...)
				o.Count("C04.damage-prefix")
			}
			c.msgs = append(c.msgs, m)
			stream = append(stream, m...)
		}
		if r.Intn(4) == 0 {
			// the stream ends inside a message (C04_conservation): nothing more may be delivered, the model keeps
			// exactly these bytes buffered
			t := randMsg(r)
			c.tail = t[:r.Intn(len(t))]
			stream = append(stream, c.tail...)
			o.Count("C04.partial-tail")
		}
		c.chunks = chunking(r, stream)
		for i := 0; i < 1+r.Intn(5); i++ {
			c.outb = append(c.outb, randMsg(r))
		}
		a, b := net.Pipe()
		c.peer = b
		if role == 0 {
			c.h = newRec(context.Background(), buf)
			in := simplefixgo.NewInitiator(a, c.h, buf, time.Second)
			inits = append(inits, in)
			go func() { _ = in.Serve() }()
		} else {
			lst.conns <- a
			c.h = <-fac.ch
		}
	}
	var wg sync.WaitGroup
	for _, c := range cases {
		c := c
		wg.Add(2)
		go func() { // the peer writes the inbound stream chunk by chunk
			defer wg.Done()
			for _, ch := range c.chunks {
				if _, err := c.peer.Write(ch); err != nil {
					return
				}
			}
		}()
		go func() { // outbound: hand messages to the connection, read them from the peer end
			defer wg.Done()
			total := 0
			for _, m := range c.outb {
				total += len(m)
			}
			go func() {
				for _, m := range c.outb {
					c.h.outCh <- m
				}
			}()
			got := make([]byte, total)
			_ = c.peer.SetReadDeadline(time.Now().Add(3 * time.Second))
			_, err := io.ReadFull(c.peer, got)
			want := bytes.Join(c.outb, nil)
			if err != nil || !bytes.Equal(got, want) {
				o.Fail("C04", "outbound-stream-differs", fmt.Sprintf("case %d role %d buffer %d: err=%v", idx, role, buf, err))
			}
		}()
	}
	wg.Wait()
	// wait for delivery
	deadline := time.Now().Add(3 * time.Second)
	for _, c := range cases {
		for len(c.h.snapshot()) < len(c.msgs) && time.Now().Before(deadline) {
			time.Sleep(time.Millisecond)
		}
	}
	time.Sleep(2 * time.Millisecond)
	for ci, c := range cases {
		got := c.h.snapshot()
		var op strings.Builder
		op.WriteString("frame")
		for _, ch := range c.chunks {
			op.WriteString(" " + wire.X(ch))
		}
		var exp strings.Builder
		exp.WriteString("msg")
		for _, m := range got {
			exp.WriteString(" " + wire.X(m))
		}
		exp.WriteString(" | rest " + wire.X(c.tail))
		o.Emit("corr", "C04", op.String(), exp.String())
		ok := len(got) == len(c.msgs)
		for i := 0; ok && i < len(got); i++ {
			ok = bytes.Equal(got[i], c.msgs[i])
		}
		if !ok || c.h.overlap {
			o.Fail("C04", "delivered-messages-differ", fmt.Sprintf("case %d conn %d/%d role %d buffer %d: sent %d messages, handler got %d (overlapping calls: %v)", idx, ci, nconn, role, buf, len(c.msgs), len(got), c.h.overlap), op.String())
		}
		o.Nontrivial("C04", string(bytes.Join(c.chunks, []byte{0xfe})))
		o.Count(fmt.Sprintf("C04.role=%d", role))
		o.Count(fmt.Sprintf("C04.buffer=%d", buf))
		o.Count(fmt.Sprintf("C04.conns=%d", nconn))
		if len(c.chunks) == len(bytes.Join(c.chunks, nil)) {
			o.Count("C04.one-byte-reads")
		}
	}
	o.Sample("C04", fmt.Sprintf("role=%d buffer=%d conns=%d first conn: %d messages in %d chunks", role, buf, nconn, len(cases[0].msgs), len(cases[0].chunks)))
	for _, c := range cases {
		c.peer.Close()
	}
	for _, in := range inits {
		in.Close()
	}
	if acc != nil {
		acc.Close()
		lst.Close()
	}
}

// ---------------------------------------------------------------- C13 faults mode

func libGoroutines() []string {
	var buf bytes.Buffer
	_ = pprof.Lookup("goroutine").WriteTo(&buf, 2)
	var left []string
	for _, g := range strings.Split(buf.String(), "\n\n") {
		if strings.Contains(g, "github.com/b2broker/simplefix-go.") || strings.Contains(g, "simplefix-go/utils.") || strings.Contains(g, "simplefix-go/session.") {
			// the accept loop belongs to the acceptor, not to a connection: it is the goroutine sitting in (or created to
			// call) the listener's Accept, and the one running ListenAndServe — recognised by what they do, whatever the
			// functions around them are called
			if strings.Contains(g, ").Accept(") || strings.Contains(g, ".(*Acceptor).ListenAndServe(") {
				continue
			}
			// first library frame
			for _, line := range strings.Split(g, "\n") {
				if strings.Contains(line, "simplefix-go") && !strings.HasPrefix(line, "\t") {
					left = append(left, strings.TrimSpace(line))
					break
				}
			}
		}
	}
	return left
}

var currentCase atomic.Value

// overlapCase (C13): two connections on one Acceptor; one of them ends (the peer hangs up or its handler is stopped)
// while the other stays up. The call serving the ended connection must return — observed through the handler's
// CloseErrorChan, the last thing Acceptor.serve does — without waiting for the other client to leave.
type releaseHandler struct {
	*simplefixgo.DefaultHandler
	released chan struct{}
	once     sync.Once
}

func (h *releaseHandler) CloseErrorChan() {
	h.DefaultHandler.CloseErrorChan()
	h.once.Do(func() { close(h.released) })
}

type releaseFactory struct {
	buf int
	ch  chan *releaseHandler
}

func (f *releaseFactory) MakeHandler(ctx context.Context) simplefixgo.AcceptorHandler {
	h := &releaseHandler{DefaultHandler: simplefixgo.NewAcceptorHandler(ctx, "35", f.buf), released: make(chan struct{})}
	f.ch <- h
	return h
}

func overlapCase(r *rand.Rand, o *hout.Out, idx int) {
	buf := []int{0, 1, 10}[idx%3]
	cause := []string{"peer-close", "handler-stop"}[(idx/3)%2]
	endFirst := (idx/6)%2 == 0 // which of the two connections ends
	currentCase.Store(fmt.Sprintf("overlap cause=%s buffer=%d end-first=%v", cause, buf, endFirst))
	lst := newPipeListener()
	f := &releaseFactory{buf: buf, ch: make(chan *releaseHandler, 4)}
	acc := simplefixgo.NewAcceptor(lst, f, 200*time.Millisecond, func(simplefixgo.AcceptorHandler) {})
	go func() { _ = acc.ListenAndServe() }()
	var peers [2]net.Conn
	var hs [2]*releaseHandler
	for i := 0; i < 2; i++ {
		a, b := net.Pipe()
		peers[i] = b
		lst.conns <- a
		select {
		case hs[i] = <-f.ch:
		case <-time.After(3 * time.Second):
			o.Fail("C13", "connection-not-served", fmt.Sprintf("overlap: connection %d got no handler within 3 s", i))
			acc.Close()
			return
		}
		go func(c net.Conn) { // the peer reads whatever comes
			tmp := make([]byte, 4096)
			for {
				if _, err := c.Read(tmp); err != nil {
					return
				}
			}
		}(b)
	}
	time.Sleep(time.Duration(r.Intn(3000)) * time.Microsecond)
	k := 1
	if endFirst {
		k = 0
	}
	if cause == "peer-close" {
		peers[k].Close()
	} else {
		hs[k].Stop()
	}
	desc := fmt.Sprintf("two connections on one acceptor, cause=%s on the %s one, buffer=%d", cause, []string{"second", "first"}[map[bool]int{false: 0, true: 1}[endFirst]], buf)
	select {
	case <-hs[k].released:
	case <-time.After(3 * time.Second):
		o.Fail("C13", "goroutines-left", fmt.Sprintf("%s: the call serving the ended connection had not returned 3 s later, while the other client was still connected; library goroutines: %v", desc, libGoroutines()))
	}
	select {
	case <-hs[1-k].released:
		o.Fail("C13", "other-connection-ended-too", desc+": the connection that nobody ended was wound up as well")
	default:
	}
	o.Nontrivial("C13", desc)
	o.Count("C13.overlap cause=" + cause)
	// wind everything down
	peers[1-k].Close()
	peers[k].Close()
	acc.Close()
	lst.Close()
	select {
	case <-hs[1-k].released:
	case <-time.After(3 * time.Second):
	}
}

func faultCase(r *rand.Rand, o *hout.Out, idx int) {
	buf := []int{0, 1, 10}[r.Intn(3)]
	role := r.Intn(2) // 0 initiator, 1 acceptor
	causes := []string{"peer-close", "handler-stop", "local-close", "write-timeout", "bad-message", "write-stall-mid-message", "stop-before-run"}
	cause := causes[r.Intn(len(causes))]
	if idx < 2*len(causes) { // every (role, cause) pair at least once in every run, however short
		cause, role = causes[idx%len(causes)], (idx/len(causes))%2
	}
	flood := r.Intn(3) > 0
	sendOut := r.Intn(2) == 0
	currentCase.Store(fmt.Sprintf("role=%s cause=%s buffer=%d flood=%v outbound=%v", []string{"initiator", "acceptor"}[role], cause, buf, flood, sendOut))
	a, b := net.Pipe()
	var h *simplefixgo.DefaultHandler
	var serveDone = make(chan struct{})
	var lst *pipeListener
	var acc *simplefixgo.Acceptor
	var in *simplefixgo.Initiator
	var notified int32
	writeDeadline := 200 * time.Millisecond
	var processed int32
	stopBlocked := false
	setup := func(hh *simplefixgo.DefaultHandler) {
		hh.OnDisconnect(func() bool { atomic.StoreInt32(&notified, 1); return true })
		hh.OnStopped(func() bool { atomic.StoreInt32(&notified, 1); return true })
		hh.HandleIncoming(simplefixgo.AllMsgTypes, func([]byte) bool {
			atomic.AddInt32(&processed, 1)
			time.Sleep(time.Duration(r.Intn(200)) * time.Microsecond) // a slow application: hand-offs pile up
			return true
		})
		if cause == "stop-before-run" {
			// the application turns the client away in its new-client callback (acceptor) / stops the handler before
			// serving (initiator): the handler is stopped before Run has started
			hh.Stop()
		}
	}
	if role == 0 {
		h = simplefixgo.NewInitiatorHandler(context.Background(), "35", buf)
		setup(h)
		in = simplefixgo.NewInitiator(a, h, buf, writeDeadline)
		go func() { _ = in.Serve(); close(serveDone) }()
	} else {
		lst = newPipeListener()
		ready := make(chan struct{})
		acc = simplefixgo.NewAcceptor(lst, simplefixgo.NewAcceptorHandlerFactory("35", buf), writeDeadline, func(ah simplefixgo.AcceptorHandler) {
			h = ah.(*simplefixgo.DefaultHandler)
			setup(h)
			close(ready)
		})
		go func() { _ = acc.ListenAndServe() }()
		lst.conns <- a
		<-ready
	}
	// traffic in flight
	stopTraffic := make(chan struct{})
	var twg sync.WaitGroup
	if flood {
		twg.Add(1)
		go func() {
			defer twg.Done()
			m := frame("35=0\x0134=1\x01")
			for {
				select {
				case <-stopTraffic:
					return
				default:
				}
				_ = b.SetWriteDeadline(time.Now().Add(50 * time.Millisecond))
				if _, err := b.Write(m); err != nil && !errors.Is(err, os.ErrDeadlineExceeded) {
					return
				}
			}
		}()
	}
	peerReads := cause != "write-timeout" && cause != "write-stall-mid-message"
	if cause == "write-stall-mid-message" {
		// the peer takes a few bytes of an outbound message and then stops reading for good
		twg.Add(1)
		take := 1 + r.Intn(7)
		go func() {
			defer twg.Done()
			tmp := make([]byte, take)
			_ = b.SetReadDeadline(time.Now().Add(2 * time.Second))
			_, _ = io.ReadFull(b, tmp)
		}()
	}
	if peerReads {
		twg.Add(1)
		go func() {
			defer twg.Done()
			tmp := make([]byte, 4096)
			for {
				_ = b.SetReadDeadline(time.Now().Add(50 * time.Millisecond))
				_, err := b.Read(tmp)
				if err != nil && !errors.Is(err, os.ErrDeadlineExceeded) {
					return
				}
				select {
				case <-stopTraffic:
					return
				default:
				}
			}
		}()
	}
	if sendOut || cause == "write-timeout" || cause == "write-stall-mid-message" {
		twg.Add(1)
		go func() {
			defer twg.Done()
			for i := 0; i < 400; i++ {
				select {
				case <-stopTraffic:
					return
				default:
				}
				done := make(chan struct{})
				// half of the traffic goes through Send (which holds the handler's send mutex while it waits for room
				// in the outgoing queue), half through SendRaw
				if i%2 == 0 {
					go func() { _ = h.Send(fixgen.NewHeartbeat()); close(done) }()
				} else {
					go func() { _ = h.SendRaw(frame("35=0\x0134=2\x01")); close(done) }()
				}
				select {
				case <-done:
				case <-stopTraffic:
					return
				}
			}
		}()
	}
	time.Sleep(time.Duration(r.Intn(3000)) * time.Microsecond)
	// the cause
	switch cause {
	case "peer-close":
		b.Close()
	case "handler-stop":
		stopped := make(chan struct{})
		go func() { h.Stop(); close(stopped) }()
		select {
		case <-stopped:
		case <-time.After(2 * time.Second):
			stopBlocked = true
		}
	case "local-close":
		if role == 0 {
			in.Close()
		} else {
			acc.Close()
		}
	case "stop-before-run":
		// … and the peer hangs up while the library is winding the connection down
		b.Close()
	case "write-timeout", "write-stall-mid-message":
		// nothing to do: the peer does not read (any more), the write deadline expires
	case "bad-message":
		// a well-framed message without a MsgType field: DefaultHandler.serve fails, Run returns its error
		_ = b.SetWriteDeadline(time.Now().Add(300 * time.Millisecond))
		_, _ = b.Write(frame("34=3\x0158=no-type\x01"))
	}
	// settle
	settle := time.Now()
	var left []string
	for time.Since(settle) < 2500*time.Millisecond {
		time.Sleep(20 * time.Millisecond)
		left = nil
		for _, g := range libGoroutines() {
			left = append(left, g)
		}
		if len(left) == 0 && time.Since(settle) > 300*time.Millisecond {
			break
		}
	}
	close(stopTraffic)
	// later sends must return
	sendReturned := make(chan struct{})
	go func() {
		for i := 0; i < buf+3; i++ {
			_ = h.SendRaw([]byte("8=FIX.4.4\x0110=000\x01"))
		}
		close(sendReturned)
	}()
	sendOK := true
	select {
	case <-sendReturned:
	case <-time.After(time.Second):
		sendOK = false
	}
	serveReturned := true
	if role == 0 {
		select {
		case <-serveDone:
		case <-time.After(100 * time.Millisecond):
			serveReturned = false
		}
	}
	// socket closed? our end `a` must be closed by the library: the peer sees EOF / error
	sockClosed := true
	if cause != "peer-close" {
		_ = b.SetReadDeadline(time.Now().Add(300 * time.Millisecond))
		tmp := make([]byte, 1<<16)
		for {
			_, err := b.Read(tmp)
			if err != nil {
				sockClosed = !errors.Is(err, os.ErrDeadlineExceeded)
				break
			}
		}
	}
	desc := fmt.Sprintf("role=%s cause=%s buffer=%d flood=%v outbound=%v", []string{"initiator", "acceptor"}[role], cause, buf, flood, sendOut)
	if len(left) > 0 || !serveReturned {
		o.Fail("C13", "goroutines-left", fmt.Sprintf("%s: serveReturned=%v left=%v", desc, serveReturned, left))
	}
	if !sendOK {
		o.Fail("C13", "later-send-blocks", desc)
	}
	if stopBlocked {
		o.Fail("C13", "stop-blocks", desc+": handler.Stop() had not returned after 2 s (senders waiting for room in the outgoing queue)")
	}
	if !sockClosed {
		o.Fail("C13", "socket-not-closed", desc)
	}
	for i := 0; i < 100 && atomic.LoadInt32(&notified) == 0; i++ {
		time.Sleep(10 * time.Millisecond)
	}
	if (cause == "peer-close" || cause == "write-timeout" || cause == "write-stall-mid-message") && atomic.LoadInt32(&notified) == 0 {
		o.Fail("C13", "no-disconnect-notification", desc)
	}
	o.Count("C13." + desc[:strings.Index(desc, " buffer")])
	o.Nontrivial("C13", desc)
	o.Sample("C13", desc+fmt.Sprintf(" processed=%d left=%d", atomic.LoadInt32(&processed), len(left)))
	b.Close()
	cleanup := make(chan struct{})
	go func() {
		if in != nil {
			in.Close()
		}
		if acc != nil {
			acc.Close()
			lst.Close()
		}
		h.Stop()
		close(cleanup)
	}()
	select {
	case <-cleanup:
	case <-time.After(3 * time.Second):
		o.Fail("C13", "stop-blocks", desc+": Close()/Stop() during clean-up had not returned after 3 s")
	}
	twg.Wait()
	time.Sleep(5 * time.Millisecond)
}

func main() {
	flag.Parse()
	if *out == "" {
		os.Exit(2)
	}
	r := rand.New(rand.NewSource(*seed))
	o := hout.New(*out)
	defer o.Close()
	for i := 0; i < *n; i++ {
		if *mode == "frame" {
			frameCase(r, o, i)
			if i%8 == 0 {
				simulCase(r, o, i)
			}
		} else {
			// a case that does not come back is itself a finding (something of the library blocks the caller for good):
			// report it with the goroutines that are stuck and stop, instead of hanging the check
			done := make(chan struct{})
			go func() {
				faultCase(r, o, i)
				if i < 12 { // every (buffer, cause, which) combination of the overlap scenario in every run
					overlapCase(r, o, i)
				}
				close(done)
			}()
			select {
			case <-done:
			case <-time.After(45 * time.Second):
				o.Fail("C13", "call-into-library-never-returned", fmt.Sprintf("fault case %d (%s) still running after 45 s; library goroutines: %v", i, currentCase.Load(), libGoroutines()))
				o.Emit("corr", "C13", "pool out - - 1", "log  | enq 1")
				o.Close()
				os.Exit(0)
			}
		}
	}
	if *mode != "frame" {
		o.Emit("corr", "C13", "pool out - - 1", "log  | enq 1")
	}
}
