package main

// val: the seven fix.Value implementations against the model's Val.fromBytes / timeFmt, value by value.
//
//	tfmt y mo d h mi s ms   -> the text NewTime(time.Date(…, UTC)).ToBytes() gives
//	vfb <kind> <bytes>      -> FromBytes(bytes) then ToBytes(): "err" | "some nil" | "some x…"
//
// The byte strings are near-valid: a valid rendering damaged in one or two places, boundary numbers,
// the spellings strconv and time accept beyond the plain ones (signs, exponents, inf/nan, hex floats,
// underscores, ',' before the fraction, a one-digit hour).

import (
	"fmt"
	"math"
	"math/big"
	"math/rand"
	"strconv"
	"time"

	"github.com/b2broker/simplefix-go/fix"

	"verifharness/hout"
	"verifharness/wire"
)

func safeFromTo(v fix.Value, d []byte) (res string) {
	defer func() {
		if p := recover(); p != nil {
			res = "panic"
		}
	}()
	if err := v.FromBytes(d); err != nil {
		return "err"
	}
	b := v.ToBytes()
	if b == nil {
		return "some nil"
	}
	return "some " + wire.X(b)
}

func newValue(kind string) fix.Value {
	switch kind {
	case "str":
		return &fix.String{}
	case "int":
		return &fix.Int{}
	case "uint":
		return &fix.Uint{}
	case "float":
		return &fix.Float{}
	case "time":
		return &fix.Time{}
	case "bool":
		return &fix.Bool{}
	}
	return &fix.Raw{}
}

func mutate(r *rand.Rand, s []byte, alphabet string) []byte {
	b := append([]byte{}, s...)
	for k := r.Intn(3); k >= 0; k-- {
		switch r.Intn(5) {
		case 0: // substitute
			if len(b) > 0 {
				b[r.Intn(len(b))] = alphabet[r.Intn(len(alphabet))]
			}
		case 1: // insert
			i := r.Intn(len(b) + 1)
			b = append(b[:i], append([]byte{alphabet[r.Intn(len(alphabet))]}, b[i:]...)...)
		case 2: // delete
			if len(b) > 0 {
				i := r.Intn(len(b))
				b = append(b[:i], b[i+1:]...)
			}
		case 3: // truncate
			if len(b) > 0 {
				b = b[:r.Intn(len(b)+1)]
			}
		case 4: // any byte
			if len(b) > 0 {
				b[r.Intn(len(b))] = byte(r.Intn(256))
			}
		}
	}
	return b
}

func randTimeTuple(r *rand.Rand) (y, mo, d, h, mi, s, ms int) {
	pick := func(edge []int, n int) int {
		if r.Intn(3) == 0 {
			return edge[r.Intn(len(edge))]
		}
		return r.Intn(n)
	}
	y = pick([]int{0, 1, 99, 100, 400, 1900, 1999, 2000, 2023, 2024, 2100, 9999}, 10000)
	mo = 1 + r.Intn(12)
	dim := time.Date(y, time.Month(mo)+1, 0, 0, 0, 0, 0, time.UTC).Day()
	d = pick([]int{1, dim, dim, 28}, dim+1)
	if d < 1 {
		d = 1
	}
	if d > dim {
		d = dim
	}
	h = pick([]int{0, 9, 10, 23}, 24)
	mi = pick([]int{0, 59}, 60)
	s = pick([]int{0, 59}, 60)
	ms = pick([]int{0, 1, 9, 10, 99, 100, 999}, 1000)
	return
}

var maxFloat64Int = new(big.Int).Sub(new(big.Int).Lsh(big.NewInt(1), 1024), new(big.Int).Lsh(big.NewInt(1), 971))

// plainShape: [-]d+[.d+] with value m / 10^k, m <= MaxFloat64 * 10^k
func plainShape(b []byte) bool {
	s := string(b)
	if len(s) > 0 && s[0] == '-' {
		s = s[1:]
	}
	ip, fp := s, ""
	for i := 0; i < len(s); i++ {
		if s[i] == '.' {
			ip, fp = s[:i], s[i+1:]
			if fp == "" {
				return false
			}
			break
		}
	}
	if ip == "" {
		return false
	}
	for _, c := range ip + fp {
		if c < '0' || c > '9' {
			return false
		}
	}
	m, ok := new(big.Int).SetString(ip+fp, 10)
	if !ok {
		return false
	}
	bound := new(big.Int).Mul(maxFloat64Int, new(big.Int).Exp(big.NewInt(10), big.NewInt(int64(len(fp))), nil))
	return m.Cmp(bound) <= 0
}

func runVal(r *rand.Rand, o *hout.Out) {
	intSeeds := []string{"0", "-0", "+0", "7", "-7", "+7", "007", "9223372036854775807", "9223372036854775808", "-9223372036854775808",
		"-9223372036854775809", "18446744073709551615", "18446744073709551616", "1_000", "0x10", "", "-", "+", " 1", "1 ", "１"}
	floatSeeds := []string{"0", "-0", "1.5", ".5", "5.", ".", "1e5", "1E+5", "1e-5", "1e", "1e+", "inf", "-Inf", "+INFINITY", "infinit", "nan", "NaN", "-nan", "+nan",
		"1e308", "1.7976931348623157e308", "1.797693134862315807e308", "1.7976931348623158e308", "1.7976931348623159e308", "179769313486231580793728971405303415079934132710037826936173778980444968292764750946649017977587207096330286416692887910946555547851940402630657488671505820681908902000708383676273854845817711531764475730270069855571366959622842914819860834936475292719074168444365510704342711559699508093042880177904174497791",
		"179769313486231580793728971405303415079934132710037826936173778980444968292764750946649017977587207096330286416692887910946555547851940402630657488671505820681908902000708383676273854845817711531764475730270069855571366959622842914819860834936475292719074168444365510704342711559699508093042880177904174497792",
		"1e400", "-1e400", "1e-400", "0e999999", "0.0000e-9999999", "1_0", "1_0.5", "0x1p-2", "0X1.8P1", "0x1p", "0x1", "0x.p1", "0x_1p-2", "0x1_0p0", "0x1p1_0", "0x1p1024", "0x1.fffffffffffff8p1023", "0x1.fffffffffffff7p1023", "0x0p99999", "0x1p-99999", "1p3", "0b1", "0o7", "1e1e1", "++1", "1.2.3", " 1", "1 "}
	kinds := []string{"str", "int", "uint", "float", "time", "bool", "raw"}
	emit := func(kind string, d []byte) {
		res := safeFromTo(newValue(kind), d)
		o.Emit("corr", "C02", "vfb "+kind+" "+wire.X(d), res)
		cls := res
		if len(res) > 4 && res[:5] == "some " {
			cls = "some"
		}
		o.Count("C02.vfb." + kind + "." + cls)
		if res == "panic" {
			o.Fail("C11", "value-FromBytes-panics", kind+" "+wire.X(d))
		}
		if cls == "some" {
			o.Nontrivial("C02", kind+"\x00"+string(d))
		}
	}
	for i := 0; i < *n; i++ {
		// formatter
		y, mo, d, h, mi, s, ms := randTimeTuple(r)
		t := time.Date(y, time.Month(mo), d, h, mi, s, ms*1000000, time.UTC)
		txt := fix.NewTime(t).ToBytes()
		o.Emit("corr", "C02", fmt.Sprintf("tfmt %d %d %d %d %d %d %d", y, mo, d, h, mi, s, ms), "ok "+wire.X(txt))
		o.Count("C02.tfmt")
		// go-side: the rendering parses back to the same instant and re-renders identically
		back := &fix.Time{}
		if err := back.FromBytes(txt); err != nil || !back.Value().(time.Time).Equal(t) || string(back.ToBytes()) != string(txt) {
			o.Fail("C02", "time-rendering-not-a-fixed-point", string(txt))
		}
		emit("time", txt)
		// time: damaged renderings
		tm := append([]byte{}, txt...)
		switch r.Intn(9) {
		case 8: // a sign where the first fraction digit should be: Go's atoi accepts it, a negative value is out of range
			tm[18] = "+-"[r.Intn(2)]
			if r.Intn(2) == 0 {
				tm[19], tm[20] = '0', '0'
			}
		case 0:
			tm[17] = ','
		case 1:
			tm[18] = '+'
		case 2:
			if tm[9] == '0' {
				tm = append(tm[:9], tm[10:]...)
			}
		case 3:
			copy(tm[4:6], []byte(fmt.Sprintf("%02d", []int{0, 13, 2, 4, 12}[r.Intn(5)])))
			copy(tm[6:8], []byte(fmt.Sprintf("%02d", []int{0, 28, 29, 30, 31, 32}[r.Intn(6)])))
		case 4:
			copy(tm[9:11], []byte(fmt.Sprintf("%02d", []int{23, 24, 25}[r.Intn(3)])))
		case 5:
			copy(tm[15:17], []byte(fmt.Sprintf("%02d", []int{59, 60, 61}[r.Intn(3)])))
		case 6:
			tm = mutate(r, tm, "0123456789-:., +")
		case 7:
			tm = append(tm, []string{"0", "Z", " ", "000"}[r.Intn(4)]...)
		}
		emit("time", tm)
		// numbers
		var num []byte
		switch r.Intn(4) {
		case 0:
			num = []byte(intSeeds[r.Intn(len(intSeeds))])
		case 1:
			num = []byte(strconv.FormatInt(r.Int63()-r.Int63(), 10))
		case 2:
			num = []byte(strconv.FormatUint(r.Uint64(), 10))
		case 3:
			num = mutate(r, []byte(intSeeds[r.Intn(len(intSeeds))]), "0123456789+-_ ")
		}
		emit("int", num)
		emit("uint", num)
		var fl []byte
		switch r.Intn(5) {
		case 0:
			fl = []byte(floatSeeds[r.Intn(len(floatSeeds))])
		case 1:
			fl = []byte(strconv.FormatFloat(math.Float64frombits(r.Uint64()), 'f', -1, 64))
		case 2:
			fl = []byte(strconv.FormatFloat(r.NormFloat64()*math.Pow(10, float64(r.Intn(40)-20)), byte("feEgG"[r.Intn(5)]), r.Intn(20)-1, 64))
		case 3:
			fl = mutate(r, []byte(floatSeeds[r.Intn(len(floatSeeds))]), "0123456789+-_.eEpPxXinfaINF")
		case 4:
			fl = []byte(strconv.FormatFloat(math.Float64frombits(r.Uint64()), 'x', -1, 64))
		}
		if string(fl) == "NaN" || string(fl) == "+Inf" || string(fl) == "-Inf" {
			o.Count("C02.float.nonfinite")
		}
		emit("float", fl)
		emit("int", fl)
		// bools, strings, raw: any bytes
		any := mutate(r, []byte([]string{"Y", "N", "y", "", "YES", "abc=1"}[r.Intn(6)]), "YNyn=\x01 ")
		emit("bool", any)
		emit("str", any)
		emit("raw", any)
		emit(kinds[r.Intn(len(kinds))], mutate(r, txt, "0123456789abcxyz=\x01"))
	}
	// finite floats an application can set: the formatter's text is accepted and kept
	for i := 0; i < *n; i++ {
		f := math.Float64frombits(r.Uint64())
		if math.IsNaN(f) || math.IsInf(f, 0) {
			continue
		}
		txt := fix.NewFloat(f).ToBytes()
		emit("float", txt)
		// the shape and magnitude the theorem C02_float_values assumes of the formatter: [-]ddd[.ddd], at most MaxFloat64
		if !plainShape(txt) {
			o.Fail("C02", "float-rendering-not-plain-decimal", string(txt))
		}
		back := &fix.Float{}
		if err := back.FromBytes(txt); err != nil || back.Value().(float64) != f || string(back.ToBytes()) != string(txt) {
			o.Fail("C02", "float-rendering-not-a-fixed-point", string(txt))
		}
	}
}
