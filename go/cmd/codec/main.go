// codec: generators + real fix / fix/encoding calls for C01 C02 C03 C11 C17 C18.
//
//	codec -mode enc|rt|dmg|fuzz|vbt|val -seed S -n N -out DIR [-depth D]
//
// Writes DIR/ops.txt (one driver op per line), DIR/exp.txt (what the driver must answer:
// "corr …" = the implementation's own result, "spec …" = a spec predicate must pass on the
// implementation's output) and DIR/meta.json (distribution, samples, go-side oracle failures).
package main

import (
	"bytes"
	"flag"
	"fmt"
	"math/rand"
	"os"
	"strconv"
	"strings"
	"time"

	"github.com/b2broker/simplefix-go/fix"
	"github.com/b2broker/simplefix-go/fix/encoding"
	"github.com/b2broker/simplefix-go/session/messages"

	"verifharness/gen"
	"verifharness/hout"
	"verifharness/wire"
)

var (
	mode  = flag.String("mode", "enc", "")
	seed  = flag.Int64("seed", 1, "")
	n     = flag.Int("n", 1000, "")
	out   = flag.String("out", "", "")
	depth = flag.Int("depth", 3, "")
)

// a case: a real message (messages.Builder), a way to build a blank twin, and its shadow
type tcase struct {
	name   string
	msg    messages.Builder
	blank  func() messages.Builder
	other  func() messages.Builder // a blank built with a MsgType of another length (nil for generated messages)
	shadow *gen.SMsg
	tags   []string // every template tag incl. framing
	groups map[string]bool
	unique bool
}

func newCase(r *rand.Rand, o *gen.Opts, p float64, firstAlways bool) *tcase {
	c := &tcase{}
	if r.Intn(4) == 0 {
		ct := gen.Fix44[r.Intn(len(gen.Fix44))]
		c.name = "fix44." + ct.Name
		c.msg = ct.New()
		c.blank = ct.New
	} else {
		t := gen.RandMsgT(r, *depth, false)
		c.name = "rand"
		c.msg = t.Build()
		c.blank = func() messages.Builder { return t.Build() }
		mt2 := []string{"", t.Mt + "Z", "0"}[r.Intn(3)]
		if len(mt2) != len(t.Mt) {
			c.other = func() messages.Builder { t2 := *t; t2.Mt = mt2; return t2.Build() }
		}
	}
	all := c.msg.Items()
	var tags []string
	gen.CollectTags(all, &tags)
	c.tags = tags
	c.unique = gen.Unique(tags)
	c.groups = map[string]bool{}
	collectGroups(all, c.groups)
	oo := *o
	oo.Hints = tags
	c.shadow = gen.PopulateMsg(r, all, &oo, p, firstAlways)
	return c
}

func collectGroups(items []fix.Item, out map[string]bool) {
	for _, it := range items {
		switch el := it.(type) {
		case *fix.Component:
			collectGroups(el.Items(), out)
		case *fix.Group:
			out[el.NoTag()] = true
			collectGroups(el.AsTemplate(), out)
		}
	}
}

func safeToBytes(m messages.Builder) (b []byte, res string) {
	defer func() {
		if e := recover(); e != nil {
			b, res = nil, "panic"
		}
	}()
	b, err := m.ToBytes()
	if err != nil {
		return nil, "err"
	}
	return b, "ok"
}

func safeUnmarshal(m messages.Builder, d []byte, strict bool) (res string) {
	done := make(chan string, 1)
	go func() {
		defer func() {
			if e := recover(); e != nil {
				done <- "panic"
			}
		}()
		var err error
		if strict {
			err = encoding.Unmarshal(m, d)
		} else {
			err = encoding.NewDefaultUnmarshaller(false).Unmarshal(m, d)
		}
		if err != nil {
			done <- "err"
		} else {
			done <- "ok"
		}
	}()
	select {
	case r := <-done:
		return r
	case <-time.After(5 * time.Second):
		return "hang"
	}
}

func safeVBT(d []byte, tag string) (v []byte, res string) {
	defer func() {
		if e := recover(); e != nil {
			v, res = nil, "panic"
		}
	}()
	v, err := fix.ValueByTag(d, tag)
	if err != nil {
		return nil, "err"
	}
	return v, "ok"
}

// frame wraps body (which must end with SOH or be empty) with correct BodyLength / CheckSum.
func frame(bsTag, bs, blTag, csTag string, body []byte) []byte {
	head := []byte(bsTag + "=" + bs + "\x01" + blTag + "=" + strconv.Itoa(len(body)) + "\x01")
	d := append(head, body...)
	sum := 0
	for _, b := range d {
		sum += int(b)
	}
	return append(d, []byte(fmt.Sprintf("%s=%03d\x01", csTag, sum%256))...)
}

func sizeBucket(n int) string {
	switch {
	case n < 64:
		return "<64"
	case n < 256:
		return "<256"
	case n < 1100:
		return "<1100"
	}
	return ">=1100"
}

func tagsOp(s *gen.SMsg) string {
	return wire.X([]byte(s.BsTag)) + " " + wire.X([]byte(s.BlTag)) + " " + wire.X([]byte(s.CsTag))
}

// ---------------------------------------------------------------- enc (C01, C17)

func runEnc(r *rand.Rand, o *hout.Out) {
	opts := &gen.Opts{AllowEmpty: true, Long: true}
	for i := 0; i < *n; i++ {
		c := newCase(r, opts, 0.15+r.Float64()*0.7, r.Intn(4) > 0)
		dump := c.shadow.Dump()
		// constructor / setter validity: the library's own view of the population must be the intended one
		if got := wire.MsgNoFraming(c.msg.Items()); got != maskFraming(dump) {
			o.Fail("C17", "population-not-as-intended", firstDiff(got, maskFraming(dump)), "pop "+dump)
		}
		w, res := safeToBytes(c.msg)
		exp := res
		if res == "ok" {
			exp = "ok " + wire.X(w)
		}
		o.Emit("corr", "C01", "enc "+dump, exp)
		if res != "ok" {
			o.Fail("C01", "serialize-"+res, c.name, "enc "+dump)
			continue
		}
		s := c.shadow
		o.Emit("spec", "C01", "c01 "+tagsOp(s)+" "+wire.X([]byte(s.MtTag))+" "+wire.X(w), "pass")
		o.Emit("spec", "C17", "c17 "+dump+" "+wire.X(w), "pass")
		o.Count("C01.size" + sizeBucket(len(w)))
		o.Count("C01.src." + strings.SplitN(c.name, ".", 2)[0])
		bl := len(w)
		switch {
		case bl >= 9 && bl <= 40:
			o.Count("C01.bodylen-1-2digits")
		case bl > 90 && bl < 140:
			o.Count("C01.bodylen-2-3digits")
		case bl > 990 && bl < 1060:
			o.Count("C01.bodylen-3-4digits")
		}
		if cs := w[len(w)-4 : len(w)-1]; cs[0] == '0' {
			if cs[1] == '0' {
				o.Count("C01.checksum<10")
			} else {
				o.Count("C01.checksum<100")
			}
		}
		if bytes.Count(w, []byte{1}) > 4 {
			o.Nontrivial("C01", string(w))
			o.Nontrivial("C17", string(w))
		}
		o.Sample("C01", strings.ReplaceAll(string(w), "\x01", "|"))
		// the same object serialized again after its population changed (a resend, a re-used message object): the frame
		// handed out before must stay what it was (it may still be queued for the wire), and the new one must be framed
		if i%3 == 0 {
			held := append([]byte{}, w...)
			if nmut := gen.MutateMsg(r, c.msg.Items(), c.shadow, &gen.Opts{Hints: c.tags, AllowEmpty: false}, 0.5); nmut > 0 {
				d2 := c.shadow.Dump()
				w2, res2 := safeToBytes(c.msg)
				if res2 == "ok" {
					o.Emit("corr", "C01", "enc "+d2, "ok "+wire.X(w2))
					o.Emit("spec", "C01", "c01 "+tagsOp(s)+" "+wire.X([]byte(s.MtTag))+" "+wire.X(w2), "pass")
					o.Emit("spec", "C01", "c01 "+tagsOp(s)+" "+wire.X([]byte(s.MtTag))+" "+wire.X(w), "pass")
					if !bytes.Equal(w, held) {
						o.Fail("C01", "earlier-frame-overwritten-by-later-serialization", fmt.Sprintf("first ToBytes gave %q; after changing the population and serializing again that slice reads %q (second frame %q)", held, w, w2), "enc "+dump, "enc "+d2)
					}
					o.Count("C01.serialized-twice")
				}
			}
		}
	}
}

// cutTrailer drops the trailer section (the last "n items…" list) of a message dump.
func cutTrailer(dump string) string {
	f := strings.Fields(dump)
	// sections start after 9 fixed tokens: header list, body list, trailer list
	i := 9
	for sec := 0; sec < 2; sec++ {
		i = skipList(f, i)
	}
	return strings.Join(f[:i], " ")
}

func skipList(f []string, i int) int {
	n, _ := strconv.Atoi(f[i])
	i++
	for k := 0; k < n; k++ {
		i = skipItem(f, i)
	}
	return i
}

func skipItem(f []string, i int) int {
	switch f[i] {
	case "K":
		return i + 3
	case "C":
		return skipList(f, i+1)
	default: // G tag template-list nentries (list)*
		i = skipList(f, i+2)
		ne, _ := strconv.Atoi(f[i])
		i++
		for k := 0; k < ne; k++ {
			i = skipList(f, i)
		}
		return i
	}
}

func maskFraming(dump string) string {
	f := strings.Fields(dump)
	f[6] = "_"
	f[8] = "_"
	return strings.Join(f, " ")
}

func firstDiff(a, b string) string {
	fa, fb := strings.Fields(a), strings.Fields(b)
	for i := 0; i < len(fa) && i < len(fb); i++ {
		if fa[i] != fb[i] {
			lo := i - 2
			if lo < 0 {
				lo = 0
			}
			return fmt.Sprintf("token %d: impl %v / intended %v", i, fa[lo:i+1], fb[lo:i+1])
		}
	}
	return fmt.Sprintf("length %d vs %d", len(fa), len(fb))
}

// ---------------------------------------------------------------- rt (C02, C18 groups)

func runRT(r *rand.Rand, o *hout.Out) {
	opts := &gen.Opts{AllowEmpty: false, Long: false}
	for i := 0; i < *n; i++ {
		c := newCase(r, opts, 0.2+r.Float64()*0.7, true)
		dump := c.shadow.Dump()
		w, res := safeToBytes(c.msg)
		if res != "ok" {
			o.Fail("C02", "serialize-"+res, c.name, "enc "+dump)
			continue
		}
		blankDump := wire.Msg(c.blank().Items())
		rtOne(o, c, "C02", w, dump, blankDump)
		// C18: the same message with foreign fields whose tags extend / truncate template tags
		if w2 := addForeign(r, c, w); w2 != nil {
			rtOne(o, c, "C18", w2, dump, blankDump)
		}
	}
}

func rtOne(o *hout.Out, c *tcase, prop string, w []byte, dump, blankDump string) {
	b := c.blank()
	res := safeUnmarshal(b, w, true)
	op := "dec " + blankDump + " " + wire.X(w)
	exp := res
	if res == "ok" {
		exp = "ok " + wire.Msg(b.Items())
	}
	o.Emit("corr", prop, op, exp)
	o.Count(prop + ".unique=" + strconv.FormatBool(c.unique))
	if !c.unique {
		return
	}
	o.Nontrivial(prop, string(w))
	o.Sample(prop, strings.ReplaceAll(string(w), "\x01", "|"))
	if res != "ok" {
		o.Fail(prop, "valid-message-"+res, strings.ReplaceAll(string(w), "\x01", "|"), op)
		return
	}
	got, want := wire.MsgNoFraming(b.Items()), maskFraming(dump)
	if prop == "C18" { // the trailer (known finding C17-trailer) is not a matter of tag recognition
		got, want = cutTrailer(got), cutTrailer(want)
	}
	trailerLost := false
	if got != want {
		// known finding C17-trailer: trailer fields are never serialized, hence never parsed back
		if gh, wh := cutTrailer(got), cutTrailer(want); gh == wh {
			o.Fail(prop, "trailer-fields-lost", firstDiff(got, want), op)
			trailerLost = true
		} else {
			o.Fail(prop, "parsed-differs", firstDiff(got, want), op)
			return
		}
	}
	if prop == "C02" {
		w2, res2 := safeToBytes(b)
		if res2 != "ok" || (!bytes.Equal(w2, w) && !trailerLost) {
			o.Fail(prop, "reserialize-differs", strings.ReplaceAll(string(w2), "\x01", "|"), op)
		}
		// a message object constructed for another MsgType (a relay's generic container) filled by the parser and
		// serialized again: the framing must be that of the bytes it now carries
		if c.other != nil {
			b5 := c.other()
			if r5 := safeUnmarshal(b5, w, true); r5 == "ok" {
				w5, res5 := safeToBytes(b5)
				o.Count("C01.reserialized-from-other-type")
				if res5 == "ok" {
					o.Emit("spec", "C01", "c01 "+tagsOp(c.shadow)+" "+wire.X([]byte(c.shadow.MtTag))+" "+wire.X(w5), "pass")
				}
				if res5 != "ok" || (!bytes.Equal(w5, w) && !trailerLost) {
					o.Fail("C01", "reserialize-into-other-type-differs", fmt.Sprintf("res=%s got=%q want=%q", res5, w5, w), op)
				}
			}
		}
		// non-strict mode must agree
		b3 := c.blank()
		if r3 := safeUnmarshal(b3, w, false); r3 != "ok" || wire.Msg(b3.Items()) != wire.Msg(b.Items()) {
			o.Fail(prop, "non-strict-differs", r3, op)
		}
		// C17: setters on a *parsed* message — the new values, and only they, must reach the wire
		if !trailerLost {
			if nmut := gen.MutateMsg(o.R, b.Items(), c.shadow, &gen.Opts{Hints: c.tags}, 0.3); nmut > 0 {
				d2 := c.shadow.Dump()
				w4, res4 := safeToBytes(b)
				exp4 := res4
				if res4 == "ok" {
					exp4 = "ok " + wire.X(w4)
				}
				o.Emit("corr", "C17", "enc "+d2, exp4)
				if res4 == "ok" {
					o.Emit("spec", "C17", "c17 "+d2+" "+wire.X(w4), "pass")
					o.Nontrivial("C17", "set-after-parse "+string(w4))
				}
				o.Count("C17.set-after-parse")
				// C02 on an object that lives on: amended after it was parsed and serialized once, serialized again — parsing
				// those bytes must give the amended values
				if prop == "C02" && res4 == "ok" && c.unique {
					b4 := c.blank()
					if r4 := safeUnmarshal(b4, w4, true); r4 != "ok" {
						o.Fail("C02", "valid-message-"+r4, "after amending a parsed message: "+strings.ReplaceAll(string(w4), "\x01", "|"))
					} else if g4, w4want := cutTrailer(wire.MsgNoFraming(b4.Items())), cutTrailer(maskFraming(d2)); g4 != w4want {
						o.Fail("C02", "parsed-differs", "after amending a parsed (and once serialized) message and serializing it again: "+firstDiff(g4, w4want))
					}
					o.Count("C02.amend-and-reserialize")
				}
			}
		}
	}
}

// addForeign inserts foreign fields at field boundaries of the body (never directly after a
// group count field) and re-frames the message. Foreign tags extend or truncate template tags.
func addForeign(r *rand.Rand, c *tcase, w []byte) []byte {
	s := c.shadow
	fields := bytes.Split(w[:len(w)-1], []byte{1})
	if len(fields) < 4 {
		return nil
	}
	used := map[string]bool{}
	for _, t := range c.tags {
		used[t] = true
	}
	var foreign []string
	for _, t := range c.tags {
		for _, f := range []string{strconv.Itoa(1+r.Intn(9)) + t, t + strconv.Itoa(r.Intn(10)), t[1:], t[:len(t)-1]} {
			if f != "" && f[0] != '0' && !used[f] {
				foreign = append(foreign, f)
			}
		}
	}
	if len(foreign) == 0 {
		return nil
	}
	var body [][]byte
	inserted := 0
	for i := 2; i < len(fields)-1; i++ {
		f := fields[i]
		body = append(body, f)
		eq := bytes.IndexByte(f, '=')
		if eq < 0 {
			return nil
		}
		tag := string(f[:eq])
		if !c.groups[tag] && r.Intn(3) == 0 {
			ft := foreign[r.Intn(len(foreign))]
			val := string(gen.RandText(r, &gen.Opts{Hints: c.tags}))
			body = append(body, []byte(ft+"="+val))
			inserted++
		}
	}
	if inserted == 0 {
		return nil
	}
	bb := append(bytes.Join(body, []byte{1}), 1)
	return frame(s.BsTag, s.Bs, s.BlTag, s.CsTag, bb)
}

// ---------------------------------------------------------------- dmg (C03)

func runDmg(r *rand.Rand, o *hout.Out) {
	opts := &gen.Opts{AllowEmpty: false, Long: false}
	for i := 0; i < *n; i++ {
		c := newCase(r, opts, 0.3, true)
		dump := c.shadow.Dump()
		w, res := safeToBytes(c.msg)
		if res != "ok" || len(w) > 400 {
			continue
		}
		blankDump := wire.Msg(c.blank().Items())
		s := c.shadow
		strict := r.Intn(2) == 0
		bsLo := len(s.BsTag) + 1
		bsHi := bsLo + len(s.Bs)
		try := func(kind string, pos int, b byte, v []byte) {
			o.Count("C03.variants." + kind)
			m := c.blank()
			rr := safeUnmarshal(m, v, strict)
			sample := r.Intn(400) == 0
			if rr != "err" || sample {
				exp := rr
				if rr == "ok" {
					exp = "ok " + wire.Msg(m.Items())
				}
				o.Emit("corr", "C03", "dec "+blankDump+" "+wire.X(v), exp)
			}
			if rr == "err" {
				return
			}
			if rr == "ok" {
				o.Emit("spec", "C03", "c03 "+tagsOp(s)+" "+wire.X(v), "pass")
			}
			region := "other"
			if (kind == "insert" && pos >= bsLo && pos <= bsHi) || (kind == "delete" && pos >= bsLo && pos < bsHi) {
				region = "BeginString.value"
			}
			o.Fail("C03", "damaged-accepted", fmt.Sprintf("kind=%s byte=%d region=%s result=%s strict=%v pos=%d msg=%q", kind, b, region, rr, strict, pos, v),
				"dec "+blankDump+" "+wire.X(v))
		}
		for pos := 0; pos < len(w); pos++ {
			for b := 0; b < 256; b++ {
				if byte(b) == w[pos] {
					continue
				}
				v := append([]byte{}, w...)
				v[pos] = byte(b)
				try("subst", pos, byte(b), v)
			}
		}
		for pos := 1; pos < len(w); pos++ {
			for b := 0; b < 256; b++ {
				v := append(append(append([]byte{}, w[:pos]...), byte(b)), w[pos:]...)
				try("insert", pos, byte(b), v)
			}
		}
		for pos := 0; pos < len(w); pos++ {
			v := append(append([]byte{}, w[:pos]...), w[pos+1:]...)
			try("delete", pos, w[pos], v)
		}
		for l := 0; l < len(w); l++ {
			try("prefix", l, 0, append([]byte{}, w[:l]...))
		}
		// one long-lived unmarshaller (as a session owns one) and one receive buffer that is reused: the valid
		// message is accepted, then the same buffer is damaged in place and handed in again
		{
			u := encoding.NewDefaultUnmarshaller(strict)
			bufw := append([]byte{}, w...)
			with := func(m messages.Builder, d []byte) (res string) {
				defer func() {
					if e := recover(); e != nil {
						res = "panic"
					}
				}()
				if err := u.Unmarshal(m, d); err != nil {
					return "err"
				}
				return "ok"
			}
			if rr := with(c.blank(), bufw); rr != "ok" {
				o.Fail("C02", "valid-rejected-by-long-lived-unmarshaller", fmt.Sprintf("result=%s strict=%v msg=%q", rr, strict, w), "dec "+blankDump+" "+wire.X(w))
			}
			for pos := 0; pos < len(bufw); pos++ {
				old := bufw[pos]
				for k := 0; k < 6; k++ {
					b := byte(r.Intn(256))
					if k == 0 {
						b = old ^ 1
					}
					if b == old {
						continue
					}
					bufw[pos] = b
					o.Count("C03.variants.subst-inplace")
					m := c.blank()
					if rr := with(m, bufw); rr != "err" {
						v := append([]byte{}, bufw...)
						o.Emit("spec", "C03", "c03 "+tagsOp(s)+" "+wire.X(v), "pass")
						o.Fail("C03", "damaged-accepted", fmt.Sprintf("kind=subst-inplace byte=%d region=other result=%s strict=%v pos=%d (same unmarshaller and buffer accepted the valid message just before) msg=%q", b, rr, strict, pos, v),
							"dec "+blankDump+" "+wire.X(v))
					}
					bufw[pos] = old
					if r.Intn(4) == 0 {
						_ = with(c.blank(), bufw) // the valid message again in between
					}
				}
			}
		}
		o.Nontrivial("C03", string(w))
		o.Sample("C03", strings.ReplaceAll(string(w), "\x01", "|"))
		_ = dump
		// soundness stream: arbitrary bodies under a correct frame, and near-correct frames
		for k := 0; k < 40; k++ {
			body := randBody(r, c)
			d := frame(s.BsTag, s.Bs, s.BlTag, s.CsTag, body)
			if r.Intn(3) == 0 {
				d = mutateFrame(r, d)
			}
			m := c.blank()
			rr := safeUnmarshal(m, d, strict)
			o.Count("C03.sound." + rr)
			if rr == "ok" {
				o.Emit("spec", "C03", "c03 "+tagsOp(s)+" "+wire.X(d), "pass")
				o.Nontrivial("C03", string(d))
			}
			if rr == "ok" || r.Intn(10) == 0 {
				exp := rr
				if rr == "ok" {
					exp = "ok " + wire.Msg(m.Items())
				}
				o.Emit("corr", "C03", "dec "+blankDump+" "+wire.X(d), exp)
			}
		}
	}
}

// randBody: a body made of fields (some from the template, some junk), ending with SOH,
// starting with the MsgType field most of the time; may contain the framing tags again.
func randBody(r *rand.Rand, c *tcase) []byte {
	s := c.shadow
	var b []byte
	if r.Intn(8) > 0 {
		b = append(b, []byte(s.MtTag+"="+s.Mt+"\x01")...)
	}
	nf := r.Intn(6)
	for i := 0; i < nf; i++ {
		var tag string
		switch r.Intn(6) {
		case 0:
			tag = s.CsTag
		case 1:
			tag = s.BlTag
		case 2:
			tag = s.BsTag
		default:
			tag = c.tags[r.Intn(len(c.tags))]
		}
		val := []byte(strconv.Itoa(r.Intn(300)))
		if r.Intn(2) == 0 {
			val = gen.RandText(r, &gen.Opts{Hints: c.tags})
		}
		if r.Intn(4) == 0 {
			val = []byte(fmt.Sprintf("%03d", r.Intn(256)))
		}
		b = append(b, []byte(tag+"=")...)
		b = append(b, val...)
		if r.Intn(12) > 0 {
			b = append(b, 1)
		}
	}
	if len(b) > 0 && r.Intn(6) > 0 && b[len(b)-1] != 1 {
		b = append(b, 1)
	}
	return b
}

func mutateFrame(r *rand.Rand, d []byte) []byte {
	v := append([]byte{}, d...)
	switch r.Intn(5) {
	case 0: // junk before BeginString
		v = append([]byte("1=x\x01"), v...)
	case 1: // junk after the CheckSum field
		v = append(v, []byte("1=x\x01")...)
	case 2: // drop the final SOH
		v = v[:len(v)-1]
	case 3: // replace a random SOH by another byte
		idx := bytes.IndexByte(v[r.Intn(len(v)):], 1)
		if idx >= 0 {
			v[idx] = 'Z'
		}
	default:
		v[r.Intn(len(v))] ^= byte(1 << uint(r.Intn(8)))
	}
	return v
}

// ---------------------------------------------------------------- fuzz (C11)

func runFuzz(r *rand.Rand, o *hout.Out) {
	opts := &gen.Opts{AllowEmpty: false}
	// a few fixed templates: flat, grouped, nested (MarketDataRequest has nested groups)
	var tmpls []*tcase
	for len(tmpls) < 6 {
		c := newCase(r, opts, 0.5, true)
		tmpls = append(tmpls, c)
	}
	for _, ct := range gen.Fix44 {
		ct := ct
		c := &tcase{name: "fix44." + ct.Name, msg: ct.New(), blank: ct.New}
		all := c.msg.Items()
		gen.CollectTags(all, &c.tags)
		c.groups = map[string]bool{}
		collectGroups(all, c.groups)
		c.shadow = gen.PopulateMsg(r, all, opts, 0.4, true)
		tmpls = append(tmpls, c)
	}
	pooled := map[*tcase]messages.Builder{} // one long-lived object per template: every input is also parsed into it
	one := func(c *tcase, d []byte, kind string) {
		if pooled[c] == nil {
			pooled[c] = c.blank()
		}
		if r2 := safeUnmarshal(pooled[c], d, r.Intn(2) == 0); r2 == "panic" || r2 == "hang" {
			o.Fail("C11", "decoder-"+r2+"-on-reused-object", fmt.Sprintf("template=%s (an object that earlier inputs were already parsed into) input=%q", c.name, d))
			pooled[c] = c.blank()
		}
		m := c.blank()
		blankDump := wire.Msg(m.Items())
		strict := r.Intn(2) == 0
		rr := safeUnmarshal(m, d, strict)
		exp := rr
		if rr == "ok" {
			exp = "ok " + wire.Msg(m.Items())
		}
		op := "dec " + blankDump + " " + wire.X(d)
		o.Emit("corr", "C11", op, exp)
		o.Count("C11." + kind + "." + rr)
		if rr == "panic" || rr == "hang" {
			o.Fail("C11", "decoder-"+rr, fmt.Sprintf("template=%s input=%q", c.name, d), op)
		}
		if kind == "framed" {
			o.Nontrivial("C11", string(d))
		}
		// tag lookups on the same bytes
		tag := c.tags[r.Intn(len(c.tags))]
		if r.Intn(4) == 0 {
			tag = []string{"", "8", "35", "10", "1", "="}[r.Intn(6)]
		}
		v, vr := safeVBT(d, tag)
		vexp := vr
		if vr == "ok" {
			vexp = "ok " + wire.X(v)
		}
		vop := "vbt " + wire.X([]byte(tag)) + " " + wire.X(d)
		o.Emit("corr", "C11", vop, vexp)
		if vr == "panic" {
			o.Fail("C11", "valueByTag-panic", fmt.Sprintf("tag=%q input=%q", tag, d), vop)
		}
	}
	// exhaustive short strings
	alpha := []byte{1, '=', '8', '1', '0', '9'}
	var rec func(prefix []byte, l int)
	rec = func(prefix []byte, l int) {
		for _, c := range tmpls[:3] {
			one(c, append([]byte{}, prefix...), "short")
		}
		if l == 0 {
			return
		}
		for _, a := range alpha {
			rec(append(append([]byte{}, prefix...), a), l-1)
		}
	}
	rec(nil, 3)
	for i := 0; i < *n; i++ {
		c := tmpls[r.Intn(len(tmpls))]
		s := c.shadow
		switch r.Intn(5) {
		case 0: // raw random
			l := r.Intn(40)
			d := make([]byte, l)
			for j := range d {
				d[j] = []byte("\x01\x01==0123456789AB8")[r.Intn(17)]
			}
			one(c, d, "random")
		default: // correctly framed, mutated body
			msg := c.blank()
			gen.PopulateMsg(r, msg.Items(), opts, 0.5, r.Intn(3) > 0)
			w, res := safeToBytes(msg)
			if res != "ok" {
				continue
			}
			fields := bytes.Split(w[:len(w)-1], []byte{1})
			body := mutateFields(r, c, fields[2:len(fields)-1])
			d := frame(s.BsTag, s.Bs, s.BlTag, s.CsTag, body)
			one(c, d, "framed")
			o.Sample("C11", strings.ReplaceAll(string(d), "\x01", "|"))
		}
	}
}

func mutateFields(r *rand.Rand, c *tcase, fs [][]byte) []byte {
	var out [][]byte
	for _, f := range fs {
		f = append([]byte{}, f...)
		switch r.Intn(14) {
		case 0: // drop '='
			f = bytes.Replace(f, []byte("="), nil, 1)
		case 1: // drop the field
			continue
		case 2: // duplicate
			out = append(out, f)
		case 3: // empty segment (repeated SOH)
			out = append(out, []byte{})
		case 4: // junk segment without '='
			out = append(out, []byte("junk"))
		case 5: // cut the field short
			f = f[:r.Intn(len(f)+1)]
		case 6: // count without anything / huge / negative / non-numeric
			if i := bytes.IndexByte(f, '='); i >= 0 && c.groups[string(f[:i])] {
				f = append(f[:i+1], []string{"0", "99", "-1", "x", "", "1"}[r.Intn(6)]...)
			}
		case 7: // spell a group count in front
			for g := range c.groups {
				out = append(out, []byte(g+"="+strconv.Itoa(r.Intn(4))))
				break
			}
		}
		out = append(out, f)
	}
	if r.Intn(4) == 0 && len(out) > 0 { // cut everything after a random field
		out = out[:r.Intn(len(out))+1]
	}
	b := bytes.Join(out, []byte{1})
	if r.Intn(10) > 0 {
		b = append(b, 1)
	}
	return b
}

// ---------------------------------------------------------------- vbt (C18 lookups)

func runVBT(r *rand.Rand, o *hout.Out) {
	opts := &gen.Opts{AllowEmpty: false}
	for i := 0; i < *n; i++ {
		c := newCase(r, opts, 0.5, true)
		w, res := safeToBytes(c.msg)
		if res != "ok" {
			continue
		}
		if r.Intn(2) == 0 {
			if w2 := addForeign(r, c, w); w2 != nil {
				w = w2
			}
		}
		cand := append([]string{}, c.tags...)
		for _, t := range c.tags {
			cand = append(cand, "1"+t, t+"0")
			if len(t) > 1 {
				cand = append(cand, t[1:], t[:len(t)-1])
			}
		}
		for k := 0; k < 6; k++ {
			tag := cand[r.Intn(len(cand))]
			v, vr := safeVBT(w, tag)
			vexp, sexp := vr, "none"
			if vr == "ok" {
				vexp = "ok " + wire.X(v)
				sexp = "some " + wire.X(v)
			}
			o.Emit("corr", "C18", "vbt "+wire.X([]byte(tag))+" "+wire.X(w), vexp)
			o.Emit("spec", "C18", "c18 "+wire.X([]byte(tag))+" "+wire.X(w), sexp)
			o.Count("C18.vbt." + vr)
			if vr == "ok" {
				o.Nontrivial("C18", tag+"\x00"+string(w))
			}
		}
		o.Sample("C18", strings.ReplaceAll(string(w), "\x01", "|"))
	}
}

func main() {
	flag.Parse()
	if *out == "" {
		fmt.Fprintln(os.Stderr, "need -out")
		os.Exit(2)
	}
	r := rand.New(rand.NewSource(*seed))
	o := hout.New(*out)
	o.R = r
	defer o.Close()
	switch *mode {
	case "enc":
		runEnc(r, o)
	case "rt":
		runRT(r, o)
	case "dmg":
		runDmg(r, o)
	case "fuzz":
		runFuzz(r, o)
	case "vbt":
		runVBT(r, o)
	case "val":
		runVal(r, o)
	default:
		fmt.Fprintln(os.Stderr, "unknown mode")
		os.Exit(2)
	}
}
