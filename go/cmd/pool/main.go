// pool: handler-pool ordering / refusal / store-before-send scenarios against the real
// DefaultHandler and Session (C19).
package main

import (
	"bytes"
	"context"
	"errors"
	"flag"
	"fmt"
	"math/rand"
	"os"
	"strconv"
	"strings"
	"sync"
	"time"

	simplefixgo "github.com/b2broker/simplefix-go"
	"github.com/b2broker/simplefix-go/fix"
	"github.com/b2broker/simplefix-go/session"
	"github.com/b2broker/simplefix-go/session/messages"
	"github.com/b2broker/simplefix-go/storages/memory"
	fixgen "github.com/b2broker/simplefix-go/tests/fix44"

	"verifharness/hout"
	"verifharness/wire"
)

var (
	seed = flag.Int64("seed", 1, "")
	n    = flag.Int("n", 500, "")
	out  = flag.String("out", "", "")
)

type hreg struct {
	id      int
	verdict bool
	stamp   bool
	rid     int64  // identifier returned by HandleOutgoing / HandleIncoming
	tp      string // type it was registered for
	removed bool   // Remove*Handler was called with (tp, rid)
}

// removal: pick a registered, accepting handler and ask the library to remove it by the identifier it returned. What
// removal does to that handler is not part of the property; that every OTHER handler keeps being called, in order, is.
func removeOne(r *rand.Rand, lists []*[]hreg, remove func(tp string, id int64) error) string {
	var cand []*hreg
	for _, l := range lists {
		for i := range *l {
			if x := &(*l)[i]; x.verdict && !x.removed {
				cand = append(cand, x)
			}
		}
	}
	if len(cand) == 0 {
		return ""
	}
	x := cand[r.Intn(len(cand))]
	x.removed = true
	_ = remove(x.tp, x.rid)
	return fmt.Sprintf("removed handler %d (type %s, id %d)", x.id, x.tp, x.rid)
}

// others: the call log without the handlers that were asked to be removed
func others(log []int, lists ...[]hreg) []int {
	gone := map[int]bool{}
	for _, l := range lists {
		for _, x := range l {
			if x.removed {
				gone[x.id] = true
			}
		}
	}
	var out []int
	for _, id := range log {
		if !gone[id] {
			out = append(out, id)
		}
	}
	return out
}

// expectedLog: all-types handlers then typed ones, in registration order, up to and including the first refusal
func expectedLog(stopAtRefusal bool, allH, typedH []hreg) []int {
	var out []int
	for _, l := range [][]hreg{allH, typedH} {
		refused := false
		for _, x := range l {
			out = append(out, x.id)
			if !x.verdict {
				refused = true
				break
			}
		}
		if refused && stopAtRefusal {
			break
		}
	}
	return out
}

func hs(l []hreg) string {
	if len(l) == 0 {
		return "-"
	}
	p := make([]string, len(l))
	for i, h := range l {
		sign := "-"
		if h.verdict {
			sign = "+"
		}
		p[i] = strconv.Itoa(h.id) + sign
		if h.stamp {
			p[i] += "s"
		}
	}
	return strings.Join(p, ",")
}

func ids(l []int) string {
	s := make([]string, len(l))
	for i, v := range l {
		s[i] = strconv.Itoa(v)
	}
	return strings.Join(s, ",")
}

// outgoingCase: several rounds of "register some handlers (all-types and type-specific, in any order),
// then send a message of type X" on one handler
func outgoingCase(r *rand.Rand, o *hout.Out) {
	h := simplefixgo.NewAcceptorHandler(context.Background(), "35", 16)
	var mu sync.Mutex
	var log []int
	var allH, typedH []hreg
	id := 0
	reg := func(tp string) {
		myID, verdict := id, r.Intn(6) > 0
		id++
		stamp := r.Intn(3) == 0 // a handler that completes the message (HandleOutgoing is where messages may be modified)
		rid := h.HandleOutgoing(tp, func(m simplefixgo.SendingMessage) bool {
			mu.Lock()
			log = append(log, myID)
			mu.Unlock()
			if mm, isMock := m.(*messages.MockMessage); isMock && stamp {
				mm.Data = append(append([]byte{}, mm.Data...), []byte(fmt.Sprintf("58=h%d\x01", myID))...)
			}
			return verdict
		})
		if tp == simplefixgo.AllMsgTypes {
			allH = append(allH, hreg{myID, verdict, stamp, rid, tp, false})
		} else {
			typedH = append(typedH, hreg{myID, verdict, stamp, rid, tp, false})
		}
	}
	h.HandleOutgoing("Y", func(simplefixgo.SendingMessage) bool { // another type: must never run
		mu.Lock()
		log = append(log, 999)
		mu.Unlock()
		return true
	})
	rounds := 1 + r.Intn(3)
	for round := 0; round < rounds; round++ {
		for k := r.Intn(4); k > 0; k-- {
			if r.Intn(2) == 0 {
				reg(simplefixgo.AllMsgTypes)
			} else {
				reg("X")
			}
		}
		rem := ""
		if r.Intn(3) == 0 {
			rem = removeOne(r, []*[]hreg{&allH, &typedH}, h.RemoveOutgoingHandler)
		}
		ok := r.Intn(8) > 0
		var terr error
		if !ok {
			terr = errors.New("cannot serialize")
		}
		data := []byte("8=FIX.4.4\x0135=X\x01")
		mu.Lock()
		log = nil
		mu.Unlock()
		msg := messages.NewMockMessage("X", data, terr)
		err := h.Send(msg)
		enq := "0"
		sent := ""
		select {
		case got := <-h.Outgoing():
			enq = "1"
			sent = " " + wire.X(got)
			// what was transmitted is the message as the last handler left it: every handler saw (and could complete) the
			// message that goes out
			if !bytes.Equal(got, msg.Data) {
				o.Fail("C19", "transmitted-bytes-differ", fmt.Sprintf("round %d: transmitted %q, the message after its outgoing handlers is %q; all=%s typed=%s", round, got, msg.Data, hs(allH), hs(typedH)))
			}
		default:
		}
		okS := "0"
		if ok {
			okS = "1"
		}
		op := fmt.Sprintf("pool outm %s %s %s %s", hs(allH), hs(typedH), okS, wire.X(data))
		o.Emit("corr", "C19", op, "log "+ids(log)+" | enq "+enq+sent)
		if (enq == "1") != (err == nil) {
			o.Fail("C19", "send-error-mismatch", fmt.Sprintf("round %d: enqueued=%s err=%v all=%s typed=%s", round, enq, err, hs(allH), hs(typedH)), op)
		}
		refused := false
		for _, x := range append(append([]hreg{}, allH...), typedH...) {
			refused = refused || !x.verdict
		}
		if refused && enq == "1" {
			o.Fail("C19", "refused-message-transmitted", fmt.Sprintf("round %d: all=%s typed=%s", round, hs(allH), hs(typedH)), op)
		}
		// handlers nobody asked to remove keep being called, in order (whatever removal does to the removed one)
		if want, got := others(expectedLog(true, allH, typedH), allH, typedH), others(log, allH, typedH); ids(want) != ids(got) {
			o.Fail("C19", "registered-handler-not-called", fmt.Sprintf("round %d: %s; handlers called (other than removed ones): %s, expected %s; all=%s typed=%s", round, rem, ids(got), ids(want), hs(allH), hs(typedH)), op)
		}
		if rem != "" {
			o.Count("C19.out.removal")
		}
		o.Nontrivial("C19", op)
		o.Count(fmt.Sprintf("C19.out.round%d", round))
	}
}

func incomingCase(r *rand.Rand, o *hout.Out) {
	h := simplefixgo.NewAcceptorHandler(context.Background(), "35", 16)
	var mu sync.Mutex
	var log []int
	var allH, typedH []hreg
	id := 0
	reg := func(tp string) {
		myID, verdict := id, r.Intn(6) > 0
		id++
		rid := h.HandleIncoming(tp, func(m []byte) bool {
			if bytes.Contains(m, []byte("\x0135=ZZ\x01")) {
				return true // the barrier message: not part of the scenario
			}
			mu.Lock()
			log = append(log, myID)
			mu.Unlock()
			return verdict
		})
		if tp == simplefixgo.AllMsgTypes {
			allH = append(allH, hreg{myID, verdict, false, rid, tp, false})
		} else {
			typedH = append(typedH, hreg{myID, verdict, false, rid, tp, false})
		}
	}
	done := make(chan struct{}, 4)
	h.HandleIncoming("ZZ", func([]byte) bool { done <- struct{}{}; return true })
	go func() { _ = h.Run() }()
	rounds := 1 + r.Intn(3)
	for round := 0; round < rounds; round++ {
		for k := r.Intn(4); k > 0; k-- {
			if r.Intn(2) == 0 {
				reg(simplefixgo.AllMsgTypes)
			} else {
				reg("X")
			}
		}
		rem := ""
		if r.Intn(3) == 0 {
			rem = removeOne(r, []*[]hreg{&allH, &typedH}, h.RemoveIncomingHandler)
		}
		mu.Lock()
		log = nil
		mu.Unlock()
		h.ServeIncoming([]byte("8=FIX.4.4\x019=5\x0135=X\x0110=000\x01"))
		// barrier: a message of another type, dispatched after the first one by the same Run loop; the scenario's
		// handlers ignore it, so once its own handler has run the log holds exactly the calls made for the first message
		h.ServeIncoming([]byte("8=FIX.4.4\x019=6\x0135=ZZ\x0110=000\x01"))
		select {
		case <-done:
		case <-time.After(10 * time.Second):
			o.Fail("C19", "inbound-dispatch-hang", hs(allH)+" "+hs(typedH))
		}
		mu.Lock()
		l := append([]int{}, log...)
		mu.Unlock()
		op := fmt.Sprintf("pool in %s %s", hs(allH), hs(typedH))
		o.Emit("corr", "C19", op, "log "+ids(l))
		if want, got := others(expectedLog(false, allH, typedH), allH, typedH), others(l, allH, typedH); ids(want) != ids(got) {
			o.Fail("C19", "registered-handler-not-called", fmt.Sprintf("inbound round %d: %s; handlers called (other than removed ones): %s, expected %s; all=%s typed=%s", round, rem, ids(got), ids(want), hs(allH), hs(typedH)), op)
		}
		if rem != "" {
			o.Count("C19.in.removal")
		}
		o.Nontrivial("C19", op)
		o.Count(fmt.Sprintf("C19.in.round%d", round))
	}
	h.Stop()
}

// failing store: Save fails on the k-th call
type failStore struct {
	*memory.Storage
	mu     sync.Mutex
	calls  int
	failAt int
}

func (f *failStore) Save(id fix.StorageID, msg simplefixgo.SendingMessage, seq int) error {
	f.mu.Lock()
	f.calls++
	c := f.calls
	f.mu.Unlock()
	if c == f.failAt {
		return errors.New("disk full")
	}
	return f.Storage.Save(id, msg, seq)
}

func mustInt(s string) int { v, _ := strconv.Atoi(s); return v }

func sessionCase(r *rand.Rand, o *hout.Out) {
	st := &failStore{Storage: memory.NewStorage(), failAt: 1 + r.Intn(6)}
	h := simplefixgo.NewAcceptorHandler(context.Background(), "35", 64)
	opts := &session.Opts{
		MessageBuilders: session.MessageBuilders{
			HeaderBuilder: fixgen.Header{}.New(), TrailerBuilder: fixgen.Trailer{}.New(), LogonBuilder: fixgen.Logon{}.New(),
			LogoutBuilder: fixgen.Logout{}.New(), RejectBuilder: fixgen.Reject{}.New(), HeartbeatBuilder: fixgen.Heartbeat{}.New(),
			TestRequestBuilder: fixgen.TestRequest{}.New(), ResendRequestBuilder: fixgen.ResendRequest{}.New(),
		},
		Tags:                    &messages.Tags{MsgType: 35, MsgSeqNum: 34, HeartBtInt: 108, EncryptedMethod: 98},
		AllowedEncryptedMethods: map[string]struct{}{"0": {}},
		SessionErrorCodes:       &messages.SessionErrorCodes{IncorrectValue: 5, Other: 99},
	}
	s, err := session.NewAcceptorSession(opts, h, &session.LogonSettings{LogonTimeout: time.Second, HeartBtLimits: &session.IntLimits{Min: 1, Max: 60}},
		func(*session.LogonSettings) error { return nil }, st.Storage, st)
	if err != nil {
		panic(err)
	}
	// a user handler registered after construction: the message must already be in the store, and it
	// must see the message exactly as it will be transmitted
	if r.Intn(2) == 0 {
		// an application handler registered and removed again by the identifier the library returned: the session's own
		// store handler must not be the one that disappears
		aid := h.HandleOutgoing(simplefixgo.AllMsgTypes, func(simplefixgo.SendingMessage) bool { return true })
		_ = h.RemoveOutgoingHandler(simplefixgo.AllMsgTypes, aid)
		o.Count("C19.session.removal")
	}
	var seen [][]byte
	refuseAt := 1 + r.Intn(8)
	calls := 0
	h.HandleOutgoing(simplefixgo.AllMsgTypes, func(m simplefixgo.SendingMessage) bool {
		calls++
		seq := m.HeaderBuilder().MsgSeqNum()
		got, err := st.Messages(fix.StorageID{}, seq, seq)
		if err != nil || len(got) != 1 || got[0] != m {
			o.Fail("C19", "not-stored-before-later-handlers", fmt.Sprintf("seq %d err %v", seq, err))
		}
		b, _ := m.ToBytes()
		seen = append(seen, append([]byte{}, b...))
		return calls != refuseAt
	})
	_ = s.Run()
	nextSeq := 1
	for i := 0; i < 8; i++ {
		m := fixgen.NewHeartbeat().SetTestReqID("t" + strconv.Itoa(i))
		before := len(seen)
		err := s.Send(m)
		var got []byte
		select {
		case got = <-h.Outgoing():
		default:
		}
		saveFailed := st.calls == st.failAt && before == len(seen)
		refused := len(seen) > before && calls == refuseAt
		switch {
		case saveFailed || refused:
			if err == nil || got != nil {
				o.Fail("C19", "failed-send-transmitted", fmt.Sprintf("send %d: saveFailed=%v refused=%v err=%v transmitted=%q", i, saveFailed, refused, err, got))
			}
		default:
			if err != nil || got == nil {
				o.Fail("C19", "good-send-not-transmitted", fmt.Sprintf("send %d: err=%v", i, err))
			} else if !bytes.Equal(got, seen[len(seen)-1]) {
				o.Fail("C19", "handler-saw-different-bytes", fmt.Sprintf("%q vs %q", seen[len(seen)-1], got))
			} else if !bytes.Contains(got, []byte("\x0134="+strconv.Itoa(nextSeq)+"\x01")) {
				o.Fail("C19", "number-not-consumed-as-expected", fmt.Sprintf("want 34=%d in %q", nextSeq, got))
			}
		}
		nextSeq++ // a refused or unsaved message consumes its number
		o.Nontrivial("C19", fmt.Sprintf("sess %d %d %d", st.failAt, refuseAt, i))
	}
	o.Count("C19.session")
	h.Stop()
}

func main() {
	flag.Parse()
	if *out == "" {
		os.Exit(2)
	}
	r := rand.New(rand.NewSource(*seed))
	o := hout.New(*out)
	defer o.Close()
	for i := 0; i < *n; i++ {
		switch i % 3 {
		case 0:
			outgoingCase(r, o)
		case 1:
			incomingCase(r, o)
		default:
			sessionCase(r, o)
		}
	}
	o.Sample("C19", "pool out 110 1 1 ; pool in 10 11 ; session with Save failing on the k-th call and a handler refusing the j-th message")
}
