// pool: handler-pool ordering / refusal / store-before-send scenarios against the real
// DefaultHandler and Session (C19).
package main

import (
	"bytes"
	"context"
	"errors"
	"flag"
	"fmt"
	"math/rand"
	"os"
	"strconv"
	"strings"
	"sync"
	"time"

	simplefixgo "github.com/b2broker/simplefix-go"
	"github.com/b2broker/simplefix-go/fix"
	"github.com/b2broker/simplefix-go/session"
	"github.com/b2broker/simplefix-go/session/messages"
	"github.com/b2broker/simplefix-go/storages/memory"
	fixgen "github.com/b2broker/simplefix-go/tests/fix44"

	"verifharness/hout"
	"verifharness/wire"
)

var (
	seed = flag.Int64("seed", 1, "")
	n    = flag.Int("n", 500, "")
	out  = flag.String("out", "", "")
)

type hreg struct {
	id      int
	verdict bool
	stamp   bool
}

func hs(l []hreg) string {
	if len(l) == 0 {
		return "-"
	}
	p := make([]string, len(l))
	for i, h := range l {
		sign := "-"
		if h.verdict {
			sign = "+"
		}
		p[i] = strconv.Itoa(h.id) + sign
		if h.stamp {
			p[i] += "s"
		}
	}
	return strings.Join(p, ",")
}

func ids(l []int) string {
	s := make([]string, len(l))
	for i, v := range l {
		s[i] = strconv.Itoa(v)
	}
	return strings.Join(s, ",")
}

// outgoingCase: several rounds of "register some handlers (all-types and type-specific, in any order),
// then send a message of type X" on one handler
func outgoingCase(r *rand.Rand, o *hout.Out) {
	h := simplefixgo.NewAcceptorHandler(context.Background(), "35", 16)
	var mu sync.Mutex
	var log []int
	var allH, typedH []hreg
	id := 0
	reg := func(tp string) {
		myID, verdict := id, r.Intn(6) > 0
		id++
		stamp := r.Intn(3) == 0 // a handler that completes the message (HandleOutgoing is where messages may be modified)
		if tp == simplefixgo.AllMsgTypes {
			allH = append(allH, hreg{myID, verdict, stamp})
		} else {
			typedH = append(typedH, hreg{myID, verdict, stamp})
		}
		h.HandleOutgoing(tp, func(m simplefixgo.SendingMessage) bool {
			mu.Lock()
			log = append(log, myID)
			mu.Unlock()
			if mm, isMock := m.(*messages.MockMessage); isMock && stamp {
				mm.Data = append(append([]byte{}, mm.Data...), []byte(fmt.Sprintf("58=h%d\x01", myID))...)
			}
			return verdict
		})
	}
	h.HandleOutgoing("Y", func(simplefixgo.SendingMessage) bool { // another type: must never run
		mu.Lock()
		log = append(log, 999)
		mu.Unlock()
		return true
	})
	rounds := 1 + r.Intn(3)
	for round := 0; round < rounds; round++ {
		for k := r.Intn(4); k > 0; k-- {
			if r.Intn(2) == 0 {
				reg(simplefixgo.AllMsgTypes)
			} else {
				reg("X")
			}
		}
		ok := r.Intn(8) > 0
		var terr error
		if !ok {
			terr = errors.New("cannot serialize")
		}
		data := []byte("8=FIX.4.4\x0135=X\x01")
		mu.Lock()
		log = nil
		mu.Unlock()
		msg := messages.NewMockMessage("X", data, terr)
		err := h.Send(msg)
		enq := "0"
		sent := ""
		select {
		case got := <-h.Outgoing():
			enq = "1"
			sent = " " + wire.X(got)
			// what was transmitted is the message as the last handler left it: every handler saw (and could complete) the
			// message that goes out
			if !bytes.Equal(got, msg.Data) {
				o.Fail("C19", "transmitted-bytes-differ", fmt.Sprintf("round %d: transmitted %q, the message after its outgoing handlers is %q; all=%s typed=%s", round, got, msg.Data, hs(allH), hs(typedH)))
			}
		default:
		}
		okS := "0"
		if ok {
			okS = "1"
		}
		op := fmt.Sprintf("pool outm %s %s %s %s", hs(allH), hs(typedH), okS, wire.X(data))
		o.Emit("corr", "C19", op, "log "+ids(log)+" | enq "+enq+sent)
		if (enq == "1") != (err == nil) {
			o.Fail("C19", "send-error-mismatch", fmt.Sprintf("round %d: enqueued=%s err=%v all=%s typed=%s", round, enq, err, hs(allH), hs(typedH)), op)
		}
		refused := false
		for _, x := range append(append([]hreg{}, allH...), typedH...) {
			refused = refused || !x.verdict
		}
		if refused && enq == "1" {
			o.Fail("C19", "refused-message-transmitted", fmt.Sprintf("round %d: all=%s typed=%s", round, hs(allH), hs(typedH)), op)
		}
		o.Nontrivial("C19", op)
		o.Count(fmt.Sprintf("C19.out.round%d", round))
	}
}

func incomingCase(r *rand.Rand, o *hout.Out) {
	h := simplefixgo.NewAcceptorHandler(context.Background(), "35", 16)
	var mu sync.Mutex
	var log []int
	var allH, typedH []hreg
	id := 0
	reg := func(tp string) {
		myID, verdict := id, r.Intn(6) > 0
		id++
		if tp == simplefixgo.AllMsgTypes {
			allH = append(allH, hreg{myID, verdict, false})
		} else {
			typedH = append(typedH, hreg{myID, verdict, false})
		}
		h.HandleIncoming(tp, func([]byte) bool {
			mu.Lock()
			log = append(log, myID)
			mu.Unlock()
			return verdict
		})
	}
	done := make(chan struct{}, 4)
	h.HandleIncoming("ZZ", func([]byte) bool { done <- struct{}{}; return true })
	go func() { _ = h.Run() }()
	rounds := 1 + r.Intn(3)
	for round := 0; round < rounds; round++ {
		for k := r.Intn(4); k > 0; k-- {
			if r.Intn(2) == 0 {
				reg(simplefixgo.AllMsgTypes)
			} else {
				reg("X")
			}
		}
		mu.Lock()
		log = nil
		mu.Unlock()
		h.ServeIncoming([]byte("8=FIX.4.4\x019=5\x0135=X\x0110=000\x01"))
		// barrier: a message of another type; its own all-types calls are cut off below
		time.Sleep(2 * time.Millisecond)
		mu.Lock()
		l := append([]int{}, log...)
		mu.Unlock()
		h.ServeIncoming([]byte("8=FIX.4.4\x019=6\x0135=ZZ\x0110=000\x01"))
		select {
		case <-done:
		case <-time.After(3 * time.Second):
			o.Fail("C19", "inbound-dispatch-hang", hs(allH)+" "+hs(typedH))
		}
		op := fmt.Sprintf("pool in %s %s", hs(allH), hs(typedH))
		o.Emit("corr", "C19", op, "log "+ids(l))
		o.Nontrivial("C19", op)
		o.Count(fmt.Sprintf("C19.in.round%d", round))
	}
	h.Stop()
}

// failing store: Save fails on the k-th call
type failStore struct {
	*memory.Storage
	mu     sync.Mutex
	calls  int
	failAt int
}

func (f *failStore) Save(id fix.StorageID, msg simplefixgo.SendingMessage, seq int) error {
	f.mu.Lock()
	f.calls++
	c := f.calls
	f.mu.Unlock()
	if c == f.failAt {
		return errors.New("disk full")
	}
	return f.Storage.Save(id, msg, seq)
}

func mustInt(s string) int { v, _ := strconv.Atoi(s); return v }

func sessionCase(r *rand.Rand, o *hout.Out) {
	st := &failStore{Storage: memory.NewStorage(), failAt: 1 + r.Intn(6)}
	h := simplefixgo.NewAcceptorHandler(context.Background(), "35", 64)
	opts := &session.Opts{
		MessageBuilders: session.MessageBuilders{
			HeaderBuilder: fixgen.Header{}.New(), TrailerBuilder: fixgen.Trailer{}.New(), LogonBuilder: fixgen.Logon{}.New(),
			LogoutBuilder: fixgen.Logout{}.New(), RejectBuilder: fixgen.Reject{}.New(), HeartbeatBuilder: fixgen.Heartbeat{}.New(),
			TestRequestBuilder: fixgen.TestRequest{}.New(), ResendRequestBuilder: fixgen.ResendRequest{}.New(),
		},
		Tags:                    &messages.Tags{MsgType: 35, MsgSeqNum: 34, HeartBtInt: 108, EncryptedMethod: 98},
		AllowedEncryptedMethods: map[string]struct{}{"0": {}},
		SessionErrorCodes:       &messages.SessionErrorCodes{IncorrectValue: 5, Other: 99},
	}
	s, err := session.NewAcceptorSession(opts, h, &session.LogonSettings{LogonTimeout: time.Second, HeartBtLimits: &session.IntLimits{Min: 1, Max: 60}},
		func(*session.LogonSettings) error { return nil }, st.Storage, st)
	if err != nil {
		panic(err)
	}
	// a user handler registered after construction: the message must already be in the store, and it
	// must see the message exactly as it will be transmitted
	var seen [][]byte
	refuseAt := 1 + r.Intn(8)
	calls := 0
	h.HandleOutgoing(simplefixgo.AllMsgTypes, func(m simplefixgo.SendingMessage) bool {
		calls++
		seq := m.HeaderBuilder().MsgSeqNum()
		got, err := st.Messages(fix.StorageID{}, seq, seq)
		if err != nil || len(got) != 1 || got[0] != m {
			o.Fail("C19", "not-stored-before-later-handlers", fmt.Sprintf("seq %d err %v", seq, err))
		}
		b, _ := m.ToBytes()
		seen = append(seen, append([]byte{}, b...))
		return calls != refuseAt
	})
	_ = s.Run()
	nextSeq := 1
	for i := 0; i < 8; i++ {
		m := fixgen.NewHeartbeat().SetTestReqID("t" + strconv.Itoa(i))
		before := len(seen)
		err := s.Send(m)
		var got []byte
		select {
		case got = <-h.Outgoing():
		default:
		}
		saveFailed := st.calls == st.failAt && before == len(seen)
		refused := len(seen) > before && calls == refuseAt
		switch {
		case saveFailed || refused:
			if err == nil || got != nil {
				o.Fail("C19", "failed-send-transmitted", fmt.Sprintf("send %d: saveFailed=%v refused=%v err=%v transmitted=%q", i, saveFailed, refused, err, got))
			}
		default:
			if err != nil || got == nil {
				o.Fail("C19", "good-send-not-transmitted", fmt.Sprintf("send %d: err=%v", i, err))
			} else if !bytes.Equal(got, seen[len(seen)-1]) {
				o.Fail("C19", "handler-saw-different-bytes", fmt.Sprintf("%q vs %q", seen[len(seen)-1], got))
			} else if !bytes.Contains(got, []byte("\x0134="+strconv.Itoa(nextSeq)+"\x01")) {
				o.Fail("C19", "number-not-consumed-as-expected", fmt.Sprintf("want 34=%d in %q", nextSeq, got))
			}
		}
		nextSeq++ // a refused or unsaved message consumes its number
		o.Nontrivial("C19", fmt.Sprintf("sess %d %d %d", st.failAt, refuseAt, i))
	}
	o.Count("C19.session")
	h.Stop()
}

func main() {
	flag.Parse()
	if *out == "" {
		os.Exit(2)
	}
	r := rand.New(rand.NewSource(*seed))
	o := hout.New(*out)
	defer o.Close()
	for i := 0; i < *n; i++ {
		switch i % 3 {
		case 0:
			outgoingCase(r, o)
		case 1:
			incomingCase(r, o)
		default:
			sessionCase(r, o)
		}
	}
	o.Sample("C19", "pool out 110 1 1 ; pool in 10 11 ; session with Save failing on the k-th call and a handler refusing the j-th message")
}
