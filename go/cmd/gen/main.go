// gen: runs the real code generator on schema variants, abstracts the emitted package to
// canonical declaration lines (go/parser) and hands schema + lines to the Lean generator model (C12).
package main

import (
	"flag"
	"fmt"
	"go/ast"
	"go/parser"
	"go/token"
	"math/rand"
	"os"
	"os/exec"
	"path/filepath"
	"reflect"
	"sort"
	"strconv"
	"strings"

	"github.com/b2broker/simplefix-go/fix"
	"github.com/b2broker/simplefix-go/generator"
	fixgen "github.com/b2broker/simplefix-go/tests/fix44"
	"github.com/b2broker/simplefix-go/utils"

	"verifharness/hout"
)

var (
	seed  = flag.Int64("seed", 1, "")
	n     = flag.Int("n", 20, "")
	out   = flag.String("out", "", "")
	repo  = flag.String("repo", "/repo", "")
	build = flag.Int("build", 2, "how many generated packages to compile")
)

// ---------------------------------------------------------------- schema -> op line

func tk(s string) string {
	if s == "" {
		return "~"
	}
	return s
}

func membersLine(sb *strings.Builder, ms []*generator.ComponentMember) {
	fmt.Fprintf(sb, " %d", len(ms))
	for _, m := range ms {
		k := "?"
		switch m.XMLName.Local {
		case "field":
			k = "f"
		case "group":
			k = "g"
		case "component":
			k = "c"
		}
		fmt.Fprintf(sb, " %s %s %s", k, tk(m.Name), tk(m.Required))
		membersLine(sb, m.Members)
	}
}

func schemaLine(doc *generator.Doc, cfg *generator.Config) string {
	var sb strings.Builder
	fmt.Fprintf(&sb, "gen %s %s %s F %d", tk(doc.Type), tk(doc.Major), tk(doc.Minor), len(doc.Fields))
	for _, f := range doc.Fields {
		fmt.Fprintf(&sb, " %s %s %s %d", tk(f.Number), tk(f.Name), tk(f.Type), len(f.Values))
		for _, v := range f.Values {
			fmt.Fprintf(&sb, " %s %s", tk(v.Enum), tk(v.Description))
		}
	}
	fmt.Fprintf(&sb, " Y %d", len(cfg.Types))
	for _, t := range cfg.Types {
		fmt.Fprintf(&sb, " %s %s", tk(t.Name), tk(t.CastType))
	}
	sb.WriteString(" H")
	membersLine(&sb, doc.Header.Members)
	sb.WriteString(" R")
	membersLine(&sb, doc.Trailer.Members)
	fmt.Fprintf(&sb, " M %d", len(doc.Messages))
	for _, m := range doc.Messages {
		fmt.Fprintf(&sb, " %s %s", tk(m.Name), tk(m.MsgType))
		membersLine(&sb, m.Members)
	}
	fmt.Fprintf(&sb, " C %d", len(doc.Components))
	for _, c := range doc.Components {
		fmt.Fprintf(&sb, " %s", tk(c.Name))
		membersLine(&sb, c.Members)
	}
	return sb.String()
}

// ---------------------------------------------------------------- emitted package -> canonical lines

func exprStr(e ast.Expr) string {
	switch x := e.(type) {
	case *ast.Ident:
		return x.Name
	case *ast.StarExpr:
		return "*" + exprStr(x.X)
	case *ast.SelectorExpr:
		return exprStr(x.X) + "." + x.Sel.Name
	case *ast.ArrayType:
		return "[]" + exprStr(x.Elt)
	}
	return "?"
}

func itemOf(e ast.Expr) string {
	// fix.NewKeyValue(FieldX, &fix.T{}) | NewXGrp().Group | makeX().Component
	switch x := e.(type) {
	case *ast.CallExpr:
		if s, ok := x.Fun.(*ast.SelectorExpr); ok && s.Sel.Name == "NewKeyValue" && len(x.Args) == 2 {
			t := "?"
			if u, ok := x.Args[1].(*ast.UnaryExpr); ok {
				if cl, ok := u.X.(*ast.CompositeLit); ok {
					t = strings.TrimPrefix(exprStr(cl.Type), "fix.")
				}
			}
			return "kv:" + exprStr(x.Args[0]) + ":" + t
		}
	case *ast.SelectorExpr:
		if c, ok := x.X.(*ast.CallExpr); ok {
			fn := exprStr(c.Fun)
			if x.Sel.Name == "Group" {
				return "grp:" + strings.TrimPrefix(fn, "New")
			}
			if x.Sel.Name == "Component" {
				return "comp:" + strings.TrimPrefix(fn, "make")
			}
		}
	}
	return "?item"
}

func findCall(n ast.Node, name string) *ast.CallExpr {
	var found *ast.CallExpr
	ast.Inspect(n, func(x ast.Node) bool {
		if found != nil {
			return false
		}
		if c, ok := x.(*ast.CallExpr); ok {
			if s, ok := c.Fun.(*ast.SelectorExpr); ok && s.Sel.Name == name {
				found = c
				return false
			}
		}
		return true
	})
	return found
}

func setterChain(n ast.Node) []string {
	// make<P>().SetA(a).SetB(b): collect from the innermost outwards
	var calls []string
	var walk func(e ast.Expr)
	walk = func(e ast.Expr) {
		c, ok := e.(*ast.CallExpr)
		if !ok {
			return
		}
		s, ok := c.Fun.(*ast.SelectorExpr)
		if !ok {
			return
		}
		walk(s.X)
		if strings.HasPrefix(s.Sel.Name, "Set") && len(c.Args) == 1 {
			calls = append(calls, s.Sel.Name+"("+exprStr(c.Args[0])+")")
		}
	}
	ast.Inspect(n, func(x ast.Node) bool {
		if len(calls) > 0 {
			return false
		}
		switch st := x.(type) {
		case *ast.ReturnStmt:
			if len(st.Results) == 1 {
				walk(st.Results[0])
			}
		case *ast.AssignStmt:
			if len(st.Rhs) == 1 {
				walk(st.Rhs[0])
			}
		}
		return true
	})
	return calls
}

func indexIn(body *ast.BlockStmt, method string) int {
	idx := -1
	ast.Inspect(body, func(x ast.Node) bool {
		if c, ok := x.(*ast.CallExpr); ok {
			if s, ok := c.Fun.(*ast.SelectorExpr); ok && s.Sel.Name == method && len(c.Args) >= 1 {
				if bl, ok := c.Args[0].(*ast.BasicLit); ok {
					idx, _ = strconv.Atoi(bl.Value)
				}
			}
		}
		return true
	})
	return idx
}

func abstractPackage(dir string, o *hout.Out, desc string) ([]string, string, map[string]string) {
	fset := token.NewFileSet()
	pkgs, err := parser.ParseDir(fset, dir, nil, 0)
	if err != nil {
		return []string{"unparsable: " + err.Error()}, "", nil
	}
	var lines []string
	pkgName := ""
	consts := map[string]string{}
	type pinfo struct {
		sort, extra string
		items       []string
		hasNew      bool
		newLine     string
	}
	parents := map[string]*pinfo{}
	get := func(n string) *pinfo {
		if parents[n] == nil {
			parents[n] = &pinfo{sort: "comp"}
		}
		return parents[n]
	}
	getterIdx := map[string]int{}
	for name, p := range pkgs {
		pkgName = name
		for _, f := range p.Files {
			groupTypeInFile := ""
			for _, d := range f.Decls {
				if fd, ok := d.(*ast.FuncDecl); ok && fd.Recv == nil && findCall(fd, "NewGroup") != nil {
					groupTypeInFile = strings.TrimPrefix(fd.Name.Name, "New")
				}
			}
			for _, d := range f.Decls {
				switch x := d.(type) {
				case *ast.GenDecl:
					for _, sp := range x.Specs {
						vs, ok := sp.(*ast.ValueSpec)
						if !ok || len(vs.Values) != 1 {
							continue
						}
						bl, ok := vs.Values[0].(*ast.BasicLit)
						if !ok {
							continue
						}
						v, _ := strconv.Unquote(bl.Value)
						if x.Tok == token.CONST {
							lines = append(lines, "const "+vs.Names[0].Name+"="+v)
							consts[vs.Names[0].Name] = v
						} else if vs.Names[0].Name == "beginString" {
							lines = append(lines, "var beginString="+v)
						}
					}
				case *ast.FuncDecl:
					if x.Recv == nil {
						nm := x.Name.Name
						switch {
						case strings.HasPrefix(nm, "make"):
							P := strings.TrimPrefix(nm, "make")
							pi := get(P)
							var call *ast.CallExpr
							if c := findCall(x, "SetBody"); c != nil {
								call = c
								pi.sort = "msg"
							} else if c := findCall(x, "NewComponent"); c != nil {
								call = c
								if groupTypeInFile != "" {
									pi.sort = "entry"
								}
							}
							if call != nil {
								for _, a := range call.Args {
									pi.items = append(pi.items, itemOf(a))
								}
							}
						case groupTypeInFile != "" && nm == "New"+groupTypeInFile:
							pi := get(groupTypeInFile)
							pi.sort = "group"
							c := findCall(x, "NewGroup")
							pi.extra = exprStr(c.Args[0])
							for _, a := range c.Args[1:] {
								pi.items = append(pi.items, itemOf(a))
							}
						case strings.HasPrefix(nm, "Create") || (strings.HasPrefix(nm, "New") && findCall(x, "NewMessage") == nil):
							P := strings.TrimPrefix(nm, "Create")
							if !strings.HasPrefix(nm, "Create") {
								P = strings.TrimPrefix(nm, "New")
							}
							if !strings.HasPrefix(nm, "Create") && groupTypeInFile != "" {
								continue // New<Entry>()
							}
							var args []string
							for _, fl := range x.Type.Params.List {
								for _, nmm := range fl.Names {
									args = append(args, nmm.Name+" "+exprStr(fl.Type))
								}
							}
							pi := get(P)
							pi.hasNew = true
							pi.newLine = "new " + P + " (" + strings.Join(args, ", ") + ") : " + strings.Join(setterChain(x.Body), ",")
						}
						continue
					}
					// methods
					if len(x.Recv.List) != 1 {
						continue
					}
					P := strings.TrimPrefix(exprStr(x.Recv.List[0].Type), "*")
					nm := x.Name.Name
					switch {
					case strings.HasPrefix(nm, "SetField"):
						t := exprStr(x.Type.Params.List[0].Type)
						lines = append(lines, "setfield "+P+"."+nm+" type="+t)
					case strings.HasPrefix(nm, "Set") && x.Type.Params.NumFields() == 1 && x.Body != nil:
						i := indexIn(x.Body, "Get")
						if i < 0 {
							i = indexIn(x.Body, "Set")
						}
						if i >= 0 {
							key := P + "." + strings.TrimPrefix(nm, "Set")
							if g, ok := getterIdx[key]; ok && g != i {
								o.Fail("C12", "setter-index-differs", fmt.Sprintf("%s: %s getter index %d setter index %d", desc, key, g, i))
							}
							getterIdx["set:"+key] = i
						}
					case x.Type.Params.NumFields() == 0 && x.Type.Results.NumFields() == 1 && x.Body != nil:
						i := indexIn(x.Body, "Get")
						if i < 0 {
							continue
						}
						t := exprStr(x.Type.Results.List[0].Type)
						kind := "field"
						src := fmt.Sprint(fset.Position(x.Pos()))
						_ = src
						ast.Inspect(x.Body, func(y ast.Node) bool {
							if ta, ok := y.(*ast.TypeAssertExpr); ok {
								switch exprStr(ta.Type) {
								case "*fix.Group":
									kind = "group"
								case "*fix.Component":
									kind = "comp"
								}
							}
							return true
						})
						if kind != "field" {
							t = strings.TrimPrefix(t, "*")
						}
						lines = append(lines, fmt.Sprintf("acc %s.%s idx=%d type=%s kind=%s", P, nm, i, t, kind))
						getterIdx[P+"."+nm] = i
						if s, ok := getterIdx["set:"+P+"."+nm]; ok && s != i {
							o.Fail("C12", "setter-index-differs", fmt.Sprintf("%s: %s.%s getter index %d setter index %d", desc, P, nm, i, s))
						}
					}
				}
			}
		}
	}
	for P, pi := range parents {
		extra := pi.extra
		if pi.sort == "msg" {
			extra = consts["MsgType"+P]
		}
		lines = append(lines, pi.sort+" "+P+" "+extra+" : "+strings.Join(pi.items, ","))
		if (pi.sort == "msg" || pi.sort == "comp") && pi.hasNew {
			lines = append(lines, pi.newLine)
		}
	}
	sort.Strings(lines)
	return lines, pkgName, consts
}

// ---------------------------------------------------------------- running the generator

func clone(doc *generator.Doc) *generator.Doc {
	var cm func(ms []*generator.ComponentMember) []*generator.ComponentMember
	cm = func(ms []*generator.ComponentMember) []*generator.ComponentMember {
		out := make([]*generator.ComponentMember, len(ms))
		for i, m := range ms {
			c := *m
			c.Members = cm(m.Members)
			out[i] = &c
		}
		return out
	}
	cc := func(c *generator.Component) *generator.Component {
		n := *c
		n.Members = cm(c.Members)
		return &n
	}
	d := *doc
	d.Header, d.Trailer = cc(doc.Header), cc(doc.Trailer)
	d.Messages = nil
	for _, m := range doc.Messages {
		d.Messages = append(d.Messages, cc(m))
	}
	d.Components = nil
	for _, c := range doc.Components {
		d.Components = append(d.Components, cc(c))
	}
	d.Fields = nil
	for _, f := range doc.Fields {
		ff := *f
		ff.Values = append([]*generator.Value{}, f.Values...)
		d.Fields = append(d.Fields, &ff)
	}
	return &d
}

func cloneCfg(c *generator.Config) *generator.Config {
	n := &generator.Config{}
	for _, t := range c.Types {
		tt := *t
		n.Types = append(n.Types, &tt)
	}
	return n
}

func runGenerator(doc *generator.Doc, cfg *generator.Config, dir string) (res string) {
	defer func() {
		if e := recover(); e != nil {
			res = "reject"
		}
	}()
	_ = os.MkdirAll(dir, 0o755)
	g := generator.NewGenerator(doc, cfg, filepath.Base(dir))
	if err := g.Execute(dir); err != nil {
		return "reject"
	}
	return "ok"
}

// mutate applies a random structural change; returns a description. Identifiers stay unique and Go-safe.
func mutate(r *rand.Rand, doc *generator.Doc, cfg *generator.Config, kind int) string {
	pickComp := func() *generator.Component {
		all := append(append([]*generator.Component{}, doc.Messages...), doc.Components...)
		return all[r.Intn(len(all))]
	}
	fieldNames := func() []string {
		var out []string
		for _, f := range doc.Fields {
			out = append(out, f.Name)
		}
		return out
	}
	explicit := kind >= 0 // one of the cycled kinds: the variant that every run must cover
	if kind < 0 {
		kind = r.Intn(14)
	}
	switch kind {
	case 0: // remove a member
		c := pickComp()
		if len(c.Members) > 1 {
			i := r.Intn(len(c.Members))
			c.Members = append(c.Members[:i:i], c.Members[i+1:]...)
			return "remove member of " + c.Name
		}
	case 1: // reorder
		c := pickComp()
		r.Shuffle(len(c.Members), func(i, j int) { c.Members[i], c.Members[j] = c.Members[j], c.Members[i] })
		return "shuffle members of " + c.Name
	case 2: // toggle required
		c := pickComp()
		if len(c.Members) > 0 {
			m := c.Members[r.Intn(len(c.Members))]
			if m.Required == "Y" {
				m.Required = "N"
			} else {
				m.Required = "Y"
			}
			return "toggle required " + c.Name + "." + m.Name
		}
	case 3: // add a new field and use it
		num := 20000 + r.Intn(1000)
		name := "Xtra" + strconv.Itoa(num)
		tp := cfg.Types[r.Intn(len(cfg.Types))].Name
		doc.Fields = append(doc.Fields, &generator.Field{Number: strconv.Itoa(num), Name: name, Type: tp})
		c := pickComp()
		m := &generator.ComponentMember{Name: name, Required: []string{"Y", "N"}[r.Intn(2)]}
		m.XMLName.Local = "field"
		i := r.Intn(len(c.Members) + 1)
		c.Members = append(c.Members[:i:i], append([]*generator.ComponentMember{m}, c.Members[i:]...)...)
		return "add field " + name + " to " + c.Name
	case 4: // rename a field everywhere
		f := doc.Fields[r.Intn(len(doc.Fields))]
		if generator.ExcludedFields[f.Name] || generator.RequiredHeaderFields[f.Name] || f.Name == "CheckSum" || strings.HasPrefix(f.Name, "No") {
			return "noop"
		}
		for _, fl := range generator.DefaultFlowFields {
			for _, n := range fl {
				if n == f.Name {
					return "noop"
				}
			}
		}
		old, nw := f.Name, f.Name+"Rn"
		f.Name = nw
		var rn func(ms []*generator.ComponentMember)
		rn = func(ms []*generator.ComponentMember) {
			for _, m := range ms {
				if m.XMLName.Local == "field" && m.Name == old {
					m.Name = nw
				}
				rn(m.Members)
			}
		}
		for _, c := range append(append(append([]*generator.Component{}, doc.Messages...), doc.Components...), doc.Header, doc.Trailer) {
			rn(c.Members)
		}
		return "rename field " + old
	case 5: // change the type mapping of one type
		t := cfg.Types[r.Intn(len(cfg.Types))]
		nw := []string{"String", "Int", "Float", "Bool", "Raw", "Time"}[r.Intn(6)]
		if explicit {
			// a type that fields of the schema really use, given another Go type than it has
			used := map[string]bool{}
			for _, f := range doc.Fields {
				used[f.Type] = true
			}
			var cands []*generator.Type
			for _, c := range cfg.Types {
				if used[c.Name] {
					cands = append(cands, c)
				}
			}
			if len(cands) > 0 {
				t = cands[r.Intn(len(cands))]
			}
			for nw == t.CastType {
				nw = []string{"String", "Int", "Float", "Bool", "Raw", "Time"}[r.Intn(6)]
			}
		}
		if explicit || r.Intn(2) == 0 {
			// an overriding entry appended to the mapping (what a user does with the shipped types.xml): the last entry
			// of a name is the one that counts
			cfg.Types = append(cfg.Types, &generator.Type{XMLName: t.XMLName, Name: t.Name, CastType: nw})
			return "retype " + t.Name + " as " + nw + " (appended entry)"
		}
		t.CastType = nw
		return "retype " + t.Name + " as " + t.CastType
	case 6: // duplicate field number
		a, b := doc.Fields[r.Intn(len(doc.Fields))], doc.Fields[r.Intn(len(doc.Fields))]
		if a != b {
			b.Number = a.Number
			return "duplicate field number " + a.Number
		}
	case 7: // duplicate msgtype
		if len(doc.Messages) > 1 {
			a, b := doc.Messages[r.Intn(len(doc.Messages))], doc.Messages[r.Intn(len(doc.Messages))]
			if a != b {
				b.MsgType = a.MsgType
				return "duplicate msgtype " + a.MsgType
			}
		}
	case 8: // remove a message
		if len(doc.Messages) > 3 {
			i := r.Intn(len(doc.Messages))
			nm := doc.Messages[i].Name
			if _, flow := generator.DefaultFlowFields[nm]; !flow {
				doc.Messages = append(doc.Messages[:i:i], doc.Messages[i+1:]...)
				return "remove message " + nm
			}
		}
	case 9: // add a group made of existing fields to a message
		names := fieldNames()
		num := 21000 + r.Intn(1000)
		gname := "NoXg" + strconv.Itoa(num)
		doc.Fields = append(doc.Fields, &generator.Field{Number: strconv.Itoa(num), Name: gname, Type: "NUMINGROUP"})
		g := &generator.ComponentMember{Name: gname, Required: "N"}
		g.XMLName.Local = "group"
		picked := map[string]bool{}
		for k := 0; k < 1+r.Intn(3); k++ {
			nm := names[r.Intn(len(names))]
			if picked[nm] {
				continue // a member name at most once per group (a schema with a repeated member is not a schema)
			}
			picked[nm] = true
			m := &generator.ComponentMember{Name: nm, Required: "N"}
			m.XMLName.Local = "field"
			g.Members = append(g.Members, m)
		}
		c := doc.Messages[r.Intn(len(doc.Messages))]
		c.Members = append(c.Members, g)
		return "add group " + gname + " to " + c.Name
	case 10: // move a framing field inside the header (excluded fields must be skipped in the index)
		r.Shuffle(len(doc.Header.Members), func(i, j int) {
			doc.Header.Members[i], doc.Header.Members[j] = doc.Header.Members[j], doc.Header.Members[i]
		})
		return "shuffle header"
	case 11: // the same field defined twice, verbatim or with another type: a duplicate field number all the same
		f := doc.Fields[r.Intn(len(doc.Fields))]
		dup := *f
		if r.Intn(2) == 0 {
			dup.Type = "STRING"
		}
		at := r.Intn(len(doc.Fields) + 1)
		doc.Fields = append(doc.Fields[:at:at], append([]*generator.Field{&dup}, doc.Fields[at:]...)...)
		return "repeat the definition of field " + f.Name
	case 12: // a session-flow message loses one of its flow fields (generator/required.go) as a member
		flow := map[string][]string{"Logon": {"HeartBtInt", "EncryptMethod"}, "Heartbeat": {"TestReqID"}, "TestRequest": {"TestReqID"},
			"ResendRequest": {"BeginSeqNo", "EndSeqNo"}, "SequenceReset": {"NewSeqNo", "GapFillFlag"}, "Reject": {"RefSeqNum"}}
		var names []string
		for _, m := range doc.Messages {
			if _, ok := flow[m.Name]; ok {
				names = append(names, m.Name)
			}
		}
		if len(names) > 0 {
			sort.Strings(names)
			name := names[r.Intn(len(names))]
			want := flow[name][r.Intn(len(flow[name]))]
			for _, m := range doc.Messages {
				if m.Name != name {
					continue
				}
				for i, mem := range m.Members {
					if mem.Name == want {
						m.Members = append(m.Members[:i:i], m.Members[i+1:]...)
						return "remove member of " + name + " (flow member " + want + ")"
					}
				}
			}
		}
	default:
		return "noop"
	}
	return "noop"
}

// loadErr is set when a shipped schema cannot be read at all: nothing can be generated from it
var loadErr error

func load(schema, types string) (*generator.Doc, *generator.Config) {
	doc := &generator.Doc{Header: &generator.Component{}, Trailer: &generator.Component{}}
	if err := utils.ParseXML(schema, doc); err != nil {
		loadErr = fmt.Errorf("%s: %v", schema, err)
	}
	cfg := &generator.Config{}
	if err := utils.ParseXML(types, cfg); err != nil {
		loadErr = fmt.Errorf("%s: %v", types, err)
	}
	return doc, cfg
}

func one(o *hout.Out, tmp string, idx int, desc string, doc *generator.Doc, cfg *generator.Config, compile bool) []string {
	line := schemaLine(doc, cfg)
	dirs := []string{
		filepath.Join(tmp, fmt.Sprintf("s%d", idx), "fixpkg"),
		filepath.Join(tmp, fmt.Sprintf("s%d", idx), "nested", "deeper", "fixpkg"),
	}
	res := runGenerator(clone(doc), cloneCfg(cfg), dirs[0])
	if res != "ok" {
		o.Emit("corr", "C12", line, "reject")
		o.Count("C12.reject")
		o.Nontrivial("C12", desc+line[:80])
		return nil
	}
	// the property itself: a schema with a duplicate field number or message type must be rejected
	{
		seenNum, seenMt := map[string]string{}, map[string]string{}
		for _, f := range doc.Fields {
			if prev, dup := seenNum[f.Number]; dup {
				o.Fail("C12", "duplicate-accepted", fmt.Sprintf("%s: field number %s is defined twice (%s, %s) and the generator accepted the schema", desc, f.Number, prev, f.Name))
				break
			}
			seenNum[f.Number] = f.Name
		}
		for _, m := range doc.Messages {
			if prev, dup := seenMt[m.MsgType]; dup {
				o.Fail("C12", "duplicate-accepted", fmt.Sprintf("%s: message type %s is defined twice (%s, %s) and the generator accepted the schema", desc, m.MsgType, prev, m.Name))
				break
			}
			seenMt[m.MsgType] = m.Name
		}
	}
	lines, pkg, _ := abstractPackage(dirs[0], o, desc)
	o.Emit("corr", "C12", line, strings.Join(lines, " ;; "))
	o.Count("C12.ok")
	o.Nontrivial("C12", desc+strconv.Itoa(len(lines)))
	o.Sample("C12", fmt.Sprintf("%s: %d declarations, package %s, e.g. %v", desc, len(lines), pkg, lines[len(lines)/2]))
	// accessors are bound to their own member: the item at the accessor's index in the parent's constructor is that
	// member; and every field item has the Go type the type mapping gives for the field's schema type
	{
		items := map[string][]string{}
		for _, l := range lines {
			f := strings.SplitN(l, " : ", 2)
			if len(f) == 2 {
				hd := strings.Fields(f[0])
				if len(hd) >= 2 && (hd[0] == "msg" || hd[0] == "comp" || hd[0] == "group" || hd[0] == "entry") {
					if f[1] == "" {
						items[hd[0]+" "+hd[1]] = nil
					} else {
						items[hd[0]+" "+hd[1]] = strings.Split(f[1], ",")
					}
				}
			}
		}
		lookup := func(P string) ([]string, bool) {
			for _, k := range []string{"msg ", "comp ", "entry ", "group "} {
				if it, ok := items[k+P]; ok {
					return it, true
				}
			}
			return nil, false
		}
		ftype := map[string]string{}
		isEnum := map[string]bool{}
		for _, f := range doc.Fields {
			ftype[f.Name] = f.Type
			isEnum[f.Name] = len(f.Values) > 0 // the last definition of a name wins, as in the generator
		}
		cast := map[string]string{}
		for _, t := range cfg.Types {
			cast[t.Name] = t.CastType
		}
		badAcc, badType := "", ""
		for _, l := range lines {
			if !strings.HasPrefix(l, "acc ") {
				continue
			}
			var pn, rest string
			fmt.Sscanf(l, "acc %s %s", &pn, &rest)
			dot := strings.Index(pn, ".")
			P, N := pn[:dot], pn[dot+1:]
			idx := -1
			fmt.Sscanf(rest, "idx=%d", &idx)
			it, ok := lookup(P)
			if !ok {
				continue
			}
			if idx < 0 || idx >= len(it) {
				if badAcc == "" {
					badAcc = fmt.Sprintf("%s: index %d outside the %d members of %s", pn, idx, len(it), P)
				}
				continue
			}
			parts := strings.Split(it[idx], ":")
			name := ""
			if len(parts) >= 2 {
				name = strings.TrimPrefix(parts[1], "Field")
			}
			if name != N && badAcc == "" {
				badAcc = fmt.Sprintf("%s: index %d of %s holds %s", pn, idx, P, it[idx])
			}
		}
		for key, it := range items {
			for _, x := range it {
				parts := strings.Split(x, ":")
				if len(parts) == 3 && parts[0] == "kv" {
					fname := strings.TrimPrefix(parts[1], "Field")
					want, ok := cast[ftype[fname]]
					if ok && isEnum[fname] && want != "Bool" {
						want = "String" // fields with enumerated values are carried as their Enum (string) type
					}
					if ok && want != parts[2] && badType == "" {
						badType = fmt.Sprintf("%s: member %s is built as fix.%s, the type mapping gives %s (schema type %s)", key, fname, parts[2], want, ftype[fname])
					}
				}
			}
		}
		// the arguments of every populating constructor are exactly the required members, in schema order — fields,
		// groups and components alike (the four framing fields are never members)
		{
			parents := map[string][]*generator.ComponentMember{"Header": doc.Header.Members, "Trailer": doc.Trailer.Members}
			for _, m := range doc.Messages {
				parents[m.Name] = m.Members
			}
			for _, c := range doc.Components {
				parents[c.Name] = c.Members
			}
			badArgs := ""
			for _, l := range lines {
				if !strings.HasPrefix(l, "new ") || badArgs != "" {
					continue
				}
				rest := strings.TrimPrefix(l, "new ")
				sp := strings.Index(rest, " (")
				cl := strings.Index(rest, ") : ")
				if sp < 0 || cl < 0 {
					continue
				}
				name := rest[:sp]
				ms, known := parents[name]
				if !known {
					continue
				}
				var got []string
				for _, a := range strings.Split(rest[sp+2:cl], ", ") {
					if f := strings.Fields(a); len(f) > 0 {
						got = append(got, f[0])
					}
				}
				var want []string
				for _, m := range ms {
					if m.Required == "Y" && !generator.ExcludedFields[m.Name] {
						want = append(want, strings.ToLower(m.Name[:1])+m.Name[1:])
					}
				}
				if strings.Join(got, ",") != strings.Join(want, ",") {
					badArgs = fmt.Sprintf("New%s takes (%s), the required members of %s are (%s)", name, strings.Join(got, ", "), name, strings.Join(want, ", "))
				}
			}
			if badArgs != "" {
				o.Fail("C12", "constructor-arguments-not-the-required-members", desc+": "+badArgs)
			}
		}
		if badAcc != "" {
			o.Fail("C12", "accessor-bound-to-another-member", desc+": "+badAcc)
		}
		if badType != "" {
			o.Fail("C12", "member-type-not-from-mapping", desc+": "+badType)
		}
		o.Count("C12.declaration-oracles")
	}
	// every occurrence of a repeating group in the schema must get a type with *its* members (known finding F-C12-groups:
	// the generator keeps one type per group name)
	emitted := map[string]string{}
	for _, l := range lines {
		if strings.HasPrefix(l, "group ") {
			f := strings.SplitN(l, " : ", 2)
			name := strings.Fields(f[0])[1]
			emitted[name] = f[1]
		}
	}
	var walk func(parent string, ms []*generator.ComponentMember)
	reported := map[string]bool{}
	walk = func(parent string, ms []*generator.ComponentMember) {
		for _, m := range ms {
			if m.XMLName.Local == "group" {
				gt := strings.Replace(m.Name, "No", "", 1) + "Grp"
				var names []string
				for _, it := range strings.Split(emitted[gt], ",") {
					p := strings.Split(it, ":")
					if len(p) >= 2 {
						names = append(names, strings.TrimPrefix(strings.TrimSuffix(p[1], "Grp"), "Field"))
					}
				}
				var want []string
				for _, c := range m.Members {
					n := c.Name
					if c.XMLName.Local == "group" {
						n = strings.Replace(n, "No", "", 1)
					}
					want = append(want, n)
				}
				if strings.Join(names, ",") != strings.Join(want, ",") && !reported[m.Name] {
					reported[m.Name] = true
					o.Fail("C12", "group-members-differ", fmt.Sprintf("group=%s under %s: the schema lists %d members here, the emitted type %s has %d (%s)", m.Name, parent, len(want), gt, len(names), desc))
				}
			}
			walk(parent+"/"+m.Name, m.Members)
		}
	}
	for _, c := range append(append(append([]*generator.Component{}, doc.Messages...), doc.Components...), doc.Header, doc.Trailer) {
		walk(c.Name, c.Members)
	}
	// determinism and independence of the output location (run from another working directory, nested dir)
	res2 := runGenerator(clone(doc), cloneCfg(cfg), dirs[1])
	if res2 != "ok" {
		o.Fail("C12", "location-dependent", desc+": nested output directory rejected")
	} else {
		a, _ := filepath.Glob(filepath.Join(dirs[0], "*.go"))
		for _, f := range a {
			x, _ := os.ReadFile(f)
			y, err := os.ReadFile(filepath.Join(dirs[1], filepath.Base(f)))
			if err != nil || string(x) != string(y) {
				o.Fail("C12", "nondeterministic-or-location-dependent", desc+": "+filepath.Base(f)+" differs between two generations")
				break
			}
		}
		b, _ := filepath.Glob(filepath.Join(dirs[1], "*.go"))
		if len(a) != len(b) {
			o.Fail("C12", "nondeterministic-or-location-dependent", desc+": different file sets")
		}
	}
	if compile {
		// the emitted package must compile: copy it into a scratch module that replaces the library with /repo
		mod := filepath.Join(tmp, fmt.Sprintf("m%d", idx))
		_ = os.MkdirAll(filepath.Join(mod, "fixpkg"), 0o755)
		files, _ := filepath.Glob(filepath.Join(dirs[0], "*.go"))
		for _, f := range files {
			b, _ := os.ReadFile(f)
			_ = os.WriteFile(filepath.Join(mod, "fixpkg", filepath.Base(f)), b, 0o644)
		}
		gomod := "module scratch\n\ngo 1.18\n\nrequire github.com/b2broker/simplefix-go v0.0.0\nrequire golang.org/x/sync v0.0.0-20210220032951-036812b2e83c\n\nreplace github.com/b2broker/simplefix-go => " + *repo + "\n"
		_ = os.WriteFile(filepath.Join(mod, "go.mod"), []byte(gomod), 0o644)
		sum, _ := os.ReadFile(filepath.Join(*repo, "go.sum"))
		_ = os.WriteFile(filepath.Join(mod, "go.sum"), sum, 0o644)
		cmd := exec.Command("go", "build", "./...")
		cmd.Dir = mod
		cmd.Env = append(os.Environ(), "GOFLAGS=-mod=mod", "GOPROXY=off", "GOSUMDB=off", "GOTOOLCHAIN=local")
		if outb, err := cmd.CombinedOutput(); err != nil {
			s := string(outb)
			if len(s) > 600 {
				s = s[:600]
			}
			o.Fail("C12", "emitted-package-does-not-compile", desc+": "+s)
		}
		o.Count("C12.compiled")
	}
	return lines
}

// reference package: every setter of every message of tests/fix44 puts its own tag (number from the XML) and value on the wire
func referenceAccessors(o *hout.Out, doc *generator.Doc) {
	num := map[string]string{}
	for _, f := range doc.Fields {
		num[f.Name] = f.Number
	}
	msgs := []interface{}{fixgen.NewHeartbeat(), fixgen.NewLogon(), fixgen.NewLogout(), fixgen.NewReject(), fixgen.NewResendRequest(),
		fixgen.NewSequenceReset(), fixgen.NewTestRequest(), fixgen.NewMarketDataRequest(), fixgen.NewMarketDataRequestReject()}
	for _, m := range msgs {
		v := reflect.ValueOf(m)
		t := v.Type()
		for i := 0; i < t.NumMethod(); i++ {
			mt := t.Method(i)
			if !strings.HasPrefix(mt.Name, "Set") || strings.HasPrefix(mt.Name, "SetField") || mt.Type.NumIn() != 2 {
				continue
			}
			fname := strings.TrimPrefix(mt.Name, "Set")
			tag, ok := num[fname]
			if !ok {
				continue
			}
			var arg reflect.Value
			var want string
			switch mt.Type.In(1).Kind() {
			case reflect.String:
				arg, want = reflect.ValueOf("v"+tag), "v"+tag
			case reflect.Int:
				arg, want = reflect.ValueOf(4242), "4242"
			case reflect.Float64:
				arg, want = reflect.ValueOf(12.5), "12.5"
			case reflect.Bool:
				arg, want = reflect.ValueOf(true), "Y"
			default:
				continue
			}
			fresh := reflect.New(t.Elem())
			_ = fresh
			mm := reflect.ValueOf(m)
			mm.Method(i).Call([]reflect.Value{arg})
			tb := mm.MethodByName("ToBytes").Call(nil)
			wireb := tb[0].Bytes()
			if !strings.Contains("\x01"+string(wireb), "\x01"+tag+"="+want+"\x01") {
				o.Fail("C12", "setter-wrong-field-on-wire", fmt.Sprintf("%s.%s: %s=%s not in %q", t.Elem().Name(), mt.Name, tag, want, wireb))
			}
			get := mm.MethodByName(fname)
			if get.IsValid() && get.Type().NumIn() == 0 {
				gv := get.Call(nil)[0]
				if fmt.Sprint(gv.Interface()) != fmt.Sprint(arg.Interface()) {
					o.Fail("C12", "getter-does-not-return-set-value", fmt.Sprintf("%s.%s", t.Elem().Name(), fname))
				}
			}
			o.Count("C12.reference-accessors")
		}
	}
	_ = fix.True
}

func main() {
	flag.Parse()
	if *out == "" {
		os.Exit(2)
	}
	r := rand.New(rand.NewSource(*seed))
	o := hout.New(*out)
	defer o.Close()
	tmp, err := os.MkdirTemp("", "verifgen")
	if err != nil {
		panic(err)
	}
	defer os.RemoveAll(tmp)
	src, typ := filepath.Join(*repo, "source/fix44.xml"), filepath.Join(*repo, "source/types.xml")
	doc, cfg := load(src, typ)
	if loadErr != nil {
		o.Fail("C12", "schema-unreadable", "the shipped reference schema cannot be read by the generator's own loader: "+loadErr.Error())
		return
	}
	xmlCheck(o, "source/fix44.xml", src, typ, doc, cfg)
	// 1. the reference schema, and the reference package shipped in tests/fix44
	refLines := one(o, tmp, 0, "source/fix44.xml", doc, cfg, true)
	shipped, _, _ := abstractPackage(filepath.Join(*repo, "tests/fix44"), o, "tests/fix44")
	if strings.Join(shipped, "\n") != strings.Join(refLines, "\n") {
		diff := ""
		set := map[string]bool{}
		for _, l := range refLines {
			set[l] = true
		}
		for _, l := range shipped {
			if !set[l] {
				diff = l
				break
			}
		}
		o.Fail("C12", "reference-package-differs", fmt.Sprintf("tests/fix44 has %d declarations, a fresh generation %d; first shipped-only line: %s", len(shipped), len(refLines), diff))
	}
	referenceAccessors(o, doc)
	// 1b. the command itself
	cliCheck(o, tmp, filepath.Join(tmp, "s0", "fixpkg"), refLines, src, typ)
	// 2. the large test schema with its deliberate duplicate: must be rejected; with the duplicate removed: accepted
	big, bigT := load(filepath.Join(*repo, "generator/testdata/fix.4.4.xml"), filepath.Join(*repo, "generator/testdata/types.xml"))
	if loadErr != nil {
		o.Fail("C12", "schema-unreadable", "the shipped test schema cannot be read by the generator's own loader: "+loadErr.Error())
		return
	}
	xmlCheck(o, "generator/testdata/fix.4.4.xml", filepath.Join(*repo, "generator/testdata/fix.4.4.xml"), filepath.Join(*repo, "generator/testdata/types.xml"), big, bigT)
	one(o, tmp, 1, "generator/testdata/fix.4.4.xml", big, bigT, false)
	seen := map[string]bool{}
	var fs []*generator.Field
	for _, f := range big.Fields {
		if !seen[f.Number] {
			seen[f.Number] = true
			fs = append(fs, f)
		}
	}
	big.Fields = fs
	seenMT := map[string]bool{}
	var ms []*generator.Component
	for _, m := range big.Messages {
		if !seenMT[m.MsgType] {
			seenMT[m.MsgType] = true
			ms = append(ms, m)
		}
	}
	big.Messages = ms
	one(o, tmp, 2, "generator/testdata/fix.4.4.xml minus duplicate", big, bigT, *build > 1)
	// 3. mutations
	compiled := 0
	for i := 0; i < *n; i++ {
		base, bcfg := clone(doc), cloneCfg(cfg)
		if r.Intn(4) == 0 {
			base, bcfg = clone(big), cloneCfg(bigT)
		}
		var descs []string
		// the first mutation cycles through every kind (so that every run, however short, covers them all);
		// further ones are random
		descs = append(descs, mutate(r, base, bcfg, i%13))
		for k := 0; k < r.Intn(3) && i%13 != 12; k++ { // the flow-member case stays alone: nothing else may get it rejected
			descs = append(descs, mutate(r, base, bcfg, -1))
		}
		c := compiled < *build-2
		if c {
			compiled++
		}
		if strings.Contains(strings.Join(descs, "; "), "(flow member ") {
			c = true // always compiled: what the generator accepts must build (known finding F-C12-flowmembers)
		}
		one(o, tmp, 10+i, strings.Join(descs, "; "), base, bcfg, c)
		o.Count("C12.mutants")
	}
}
