package main

// xmlCheck: the schema files as the generator reads them (utils.ParseXML into generator.Doc / generator.Config through
// struct tags) against an independent token-level reading of the same files: names, numbers, types, enumerated
// values, `required` flags, member order and nesting, message types, the type mapping — everything the Lean model is
// given (schemaLine) must be what the file says.

import (
	"encoding/xml"
	"fmt"
	"io"
	"os"

	"github.com/b2broker/simplefix-go/generator"

	"verifharness/hout"
)

func attr(se xml.StartElement, name string) string {
	for _, a := range se.Attr {
		if a.Name.Local == name {
			return a.Value
		}
	}
	return ""
}

// readMembers consumes tokens up to the end element matching the already consumed start element
func readMembers(d *xml.Decoder) []*generator.ComponentMember {
	var out []*generator.ComponentMember
	for {
		t, err := d.Token()
		if err != nil {
			return out
		}
		switch x := t.(type) {
		case xml.StartElement:
			m := &generator.ComponentMember{XMLName: xml.Name{Local: x.Name.Local}, Name: attr(x, "name"), Required: attr(x, "required")}
			m.Members = readMembers(d)
			out = append(out, m)
		case xml.EndElement:
			return out
		}
	}
}

func tokenDoc(path string) (*generator.Doc, error) {
	f, err := os.Open(path)
	if err != nil {
		return nil, err
	}
	defer f.Close()
	d := xml.NewDecoder(f)
	doc := &generator.Doc{Header: &generator.Component{}, Trailer: &generator.Component{}}
	section := ""
	for {
		t, err := d.Token()
		if err == io.EOF {
			return doc, nil
		}
		if err != nil {
			return nil, err
		}
		se, ok := t.(xml.StartElement)
		if !ok {
			continue
		}
		switch se.Name.Local {
		case "fix":
			doc.Type, doc.Major, doc.Minor = attr(se, "type"), attr(se, "major"), attr(se, "minor")
		case "header":
			doc.Header.Members = readMembers(d)
		case "trailer":
			doc.Trailer.Members = readMembers(d)
		case "messages", "components", "fields":
			section = se.Name.Local
		case "message":
			if section == "messages" {
				doc.Messages = append(doc.Messages, &generator.Component{Name: attr(se, "name"), MsgType: attr(se, "msgtype"), MsgCat: attr(se, "msgcat"), Members: readMembers(d)})
			}
		case "component":
			if section == "components" {
				doc.Components = append(doc.Components, &generator.Component{Name: attr(se, "name"), Members: readMembers(d)})
			}
		case "field":
			if section == "fields" {
				fl := &generator.Field{Number: attr(se, "number"), Name: attr(se, "name"), Type: attr(se, "type")}
				for {
					t2, err := d.Token()
					if err != nil {
						break
					}
					if s2, ok := t2.(xml.StartElement); ok && s2.Name.Local == "value" {
						fl.Values = append(fl.Values, &generator.Value{Enum: attr(s2, "enum"), Description: attr(s2, "description")})
						_ = d.Skip()
					} else if e2, ok := t2.(xml.EndElement); ok && e2.Name.Local == "field" {
						break
					}
				}
				doc.Fields = append(doc.Fields, fl)
			}
		}
	}
}

func tokenConfig(path string) (*generator.Config, error) {
	f, err := os.Open(path)
	if err != nil {
		return nil, err
	}
	defer f.Close()
	d := xml.NewDecoder(f)
	cfg := &generator.Config{}
	inTypes := false
	for {
		t, err := d.Token()
		if err == io.EOF {
			return cfg, nil
		}
		if err != nil {
			return nil, err
		}
		switch x := t.(type) {
		case xml.StartElement:
			if x.Name.Local == "types" {
				inTypes = true
			} else if x.Name.Local == "type" && inTypes {
				cfg.Types = append(cfg.Types, &generator.Type{Name: attr(x, "name"), CastType: attr(x, "cast")})
			}
		case xml.EndElement:
			if x.Name.Local == "types" {
				inTypes = false
			}
		}
	}
}

func xmlCheck(o *hout.Out, desc, schema, types string, doc *generator.Doc, cfg *generator.Config) {
	td, err1 := tokenDoc(schema)
	tc, err2 := tokenConfig(types)
	if err1 != nil || err2 != nil {
		o.Fail("C12", "schema-unreadable", fmt.Sprintf("%s: %v %v", desc, err1, err2))
		return
	}
	a, b := schemaLine(doc, cfg), schemaLine(td, tc)
	o.Count("C12.xml")
	if a != b {
		i := 0
		for i < len(a) && i < len(b) && a[i] == b[i] {
			i++
		}
		lo := i - 60
		if lo < 0 {
			lo = 0
		}
		hi := func(s string) int {
			if i+60 < len(s) {
				return i + 60
			}
			return len(s)
		}
		o.Fail("C12", "schema-misread", fmt.Sprintf("%s: the generator's reading of the schema differs from the file: ...%s... (generator) vs ...%s... (file)", desc, a[lo:hi(a)], b[lo:hi(b)]))
		return
	}
	o.Nontrivial("C12", "xml "+desc)
}
