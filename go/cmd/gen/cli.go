package main

// cliCheck: the command cmd/fixgen itself — flag handling, XML loading, the package name taken from the output
// directory — against the library path the rest of this harness uses: for a relative directory with a trailing slash,
// a nested relative one and an absolute one the command must write exactly the files the library wrote into refDir
// (same names, same bytes); with its default flags, run where ./source is, it must write package fix44 with the
// reference declarations.

import (
	"bytes"
	"fmt"
	"os"
	"os/exec"
	"path/filepath"
	"sort"
	"strings"

	"verifharness/hout"
)

func dirFiles(dir string) map[string][]byte {
	out := map[string][]byte{}
	es, _ := os.ReadDir(dir)
	for _, e := range es {
		if !e.IsDir() {
			b, _ := os.ReadFile(filepath.Join(dir, e.Name()))
			out[e.Name()] = b
		}
	}
	return out
}

func cliCheck(o *hout.Out, tmp, refDir string, refLines []string, src, typ string) {
	bin := filepath.Join(tmp, "fixgen-cli")
	b := exec.Command("go", "build", "-o", bin, "./cmd/fixgen")
	b.Dir = *repo
	if outp, err := b.CombinedOutput(); err != nil {
		o.Fail("C12", "cli-does-not-build", string(outp))
		return
	}
	ref := dirFiles(refDir)
	run := func(name, cwd string, args ...string) bool {
		_ = os.MkdirAll(cwd, 0o755)
		c := exec.Command(bin, args...)
		c.Dir = cwd
		if outp, err := c.CombinedOutput(); err != nil {
			o.Fail("C12", "cli-failed", fmt.Sprintf("%s: fixgen %s: %v: %s", name, strings.Join(args, " "), err, firstLines(string(outp), 3)))
			return false
		}
		o.Count("C12.cli." + name)
		return true
	}
	same := func(name, dir string) {
		got := dirFiles(dir)
		var names []string
		for n := range ref {
			names = append(names, n)
		}
		sort.Strings(names)
		for _, n := range names {
			g, ok := got[n]
			if !ok {
				o.Fail("C12", "cli-output-differs", fmt.Sprintf("%s: file %s is missing in %s (the library wrote it for the same schema)", name, n, dir))
				return
			}
			if !bytes.Equal(g, ref[n]) {
				o.Fail("C12", "cli-output-differs", fmt.Sprintf("%s: file %s differs from the library's output for the same schema and package name; first difference: %s", name, n, firstDiff(string(ref[n]), string(g))))
				return
			}
		}
		for n := range got {
			if _, ok := ref[n]; !ok {
				o.Fail("C12", "cli-output-differs", fmt.Sprintf("%s: extra file %s", name, n))
				return
			}
		}
		o.Nontrivial("C12", "cli "+name)
	}
	c1 := filepath.Join(tmp, "cli1")
	if run("relative-trailing-slash", c1, "-o", "./fixpkg/", "-s", src, "-t", typ) {
		same("relative-trailing-slash", filepath.Join(c1, "fixpkg"))
	}
	// directory names that are not Go identifiers (dashes, upper case, dots, spaces) above the package directory
	c1b := filepath.Join(tmp, "cli1b")
	if run("relative-odd-parents", c1b, "-o", "My-Service/gen.v2/Out Dir/fixpkg", "-s", src, "-t", typ) {
		same("relative-odd-parents", filepath.Join(c1b, "My-Service", "gen.v2", "Out Dir", "fixpkg"))
	}
	c2 := filepath.Join(tmp, "cli2")
	if run("nested", c2, "-o", "nested/deeper/fixpkg", "-s", src, "-t", typ) {
		same("nested", filepath.Join(c2, "nested", "deeper", "fixpkg"))
	}
	c3 := filepath.Join(tmp, "cli3")
	if run("absolute", c3, "-o", filepath.Join(c3, "Abs-Dir", "simplefix-go", "fixpkg"), "-s", src, "-t", typ) {
		same("absolute", filepath.Join(c3, "Abs-Dir", "simplefix-go", "fixpkg"))
	}
	// defaults: ./source/fix44.xml, ./source/types.xml -> ./fix44/
	c4 := filepath.Join(tmp, "cli4")
	_ = os.MkdirAll(filepath.Join(c4, "source"), 0o755)
	for _, f := range []string{src, typ} {
		d, _ := os.ReadFile(f)
		_ = os.WriteFile(filepath.Join(c4, "source", filepath.Base(f)), d, 0o644)
	}
	if run("defaults", c4) {
		lines, pkg, _ := abstractPackage(filepath.Join(c4, "fix44"), o, "cli defaults")
		if pkg != "fix44" || strings.Join(lines, "\n") != strings.Join(refLines, "\n") {
			o.Fail("C12", "cli-output-differs", fmt.Sprintf("defaults: package %q with %d declarations, expected package fix44 with the %d reference declarations", pkg, len(lines), len(refLines)))
		} else {
			o.Nontrivial("C12", "cli defaults")
		}
	}
}

func firstLines(s string, n int) string {
	l := strings.Split(s, "\n")
	if len(l) > n {
		l = l[:n]
	}
	return strings.Join(l, " / ")
}

func firstDiff(a, b string) string {
	la, lb := strings.Split(a, "\n"), strings.Split(b, "\n")
	for i := 0; i < len(la) && i < len(lb); i++ {
		if la[i] != lb[i] {
			return fmt.Sprintf("line %d: %q vs %q", i+1, la[i], lb[i])
		}
	}
	return fmt.Sprintf("%d vs %d lines", len(la), len(lb))
}
