// race: scenario driver meant to be built with -race (C20 failing-schedule search):
// concurrent senders, inbound dispatch (logon, test requests, resend requests, logout and a
// second logon), both timers actually expiring (N = 1 s), state queries, event-handler
// registration, Stop; both roles; the bundled in-memory store. Detector reports go to stderr.
package main

import (
	"bytes"
	"context"
	"flag"
	"fmt"
	"strconv"
	"sync"
	"sync/atomic"
	"time"

	simplefixgo "github.com/b2broker/simplefix-go"
	"github.com/b2broker/simplefix-go/fix"
	"github.com/b2broker/simplefix-go/session"
	"github.com/b2broker/simplefix-go/session/messages"
	"github.com/b2broker/simplefix-go/storages/memory"
	fixgen "github.com/b2broker/simplefix-go/tests/fix44"
	"github.com/b2broker/simplefix-go/utils"
)

var relogon = flag.Bool("relogon", true, "include logout + second logon on the same session")

func opts() *session.Opts {
	return &session.Opts{
		MessageBuilders: session.MessageBuilders{
			HeaderBuilder: fixgen.Header{}.New(), TrailerBuilder: fixgen.Trailer{}.New(), LogonBuilder: fixgen.Logon{}.New(),
			LogoutBuilder: fixgen.Logout{}.New(), RejectBuilder: fixgen.Reject{}.New(), HeartbeatBuilder: fixgen.Heartbeat{}.New(),
			TestRequestBuilder: fixgen.TestRequest{}.New(), ResendRequestBuilder: fixgen.ResendRequest{}.New(),
		},
		Tags:                    &messages.Tags{MsgType: 35, MsgSeqNum: 34, HeartBtInt: 108, EncryptedMethod: 98},
		AllowedEncryptedMethods: map[string]struct{}{"0": {}},
		SessionErrorCodes:       &messages.SessionErrorCodes{IncorrectValue: 5, Other: 99},
	}
}

func frame(body string) []byte {
	head := "8=FIX.4.4\x019=" + strconv.Itoa(len(body)) + "\x01"
	d := head + body
	sum := 0
	for i := 0; i < len(d); i++ {
		sum += int(d[i])
	}
	return []byte(d + fmt.Sprintf("10=%03d\x01", sum%256))
}

func run(side int) {
	store := memory.NewStorage()
	var h *simplefixgo.DefaultHandler
	var s *session.Session
	var err error
	if side == 0 {
		h = simplefixgo.NewAcceptorHandler(context.Background(), "35", 64)
		s, err = session.NewAcceptorSession(opts(), h, &session.LogonSettings{LogonTimeout: time.Second, CloseTimeout: 200 * time.Millisecond,
			HeartBtLimits: &session.IntLimits{Min: 1, Max: 60}}, func(*session.LogonSettings) error { return nil }, store, store)
	} else {
		h = simplefixgo.NewInitiatorHandler(context.Background(), "35", 64)
		s, err = session.NewInitiatorSession(h, opts(), &session.LogonSettings{HeartBtInt: 1, EncryptMethod: "0", SenderCompID: "CLI", TargetCompID: "SRV",
			CloseTimeout: 200 * time.Millisecond}, store, store)
	}
	if err != nil {
		panic(err)
	}
	s.OnError(func(error) {})
	done := make(chan struct{})
	var wg sync.WaitGroup
	wg.Add(1)
	var answerLogout int32 // set once Stop() has been called: the peer answers our Logout the moment it arrives
	go func() { // the connection's writer side
		defer wg.Done()
		for {
			select {
			case m := <-h.Outgoing():
				if atomic.LoadInt32(&answerLogout) == 1 && bytes.Contains(m, []byte("\x0135=5\x01")) {
					atomic.StoreInt32(&answerLogout, 2)
					go h.ServeIncoming(frame("35=5\x0149=PEER\x0156=ME\x0134=9999\x0152=20240101-00:00:00.000\x01"))
				}
			case <-done:
				return
			}
		}
	}()
	go func() { _ = h.Run() }()
	if err := s.Run(); err != nil {
		panic(err)
	}
	seq := 1
	in := func(body string) {
		h.ServeIncoming(frame(fmt.Sprintf("35=%s\x0134=%d\x0152=20240101-00:00:00.000\x01", body, seq)))
		seq++
	}
	in("A\x0149=PEER\x0156=ME\x0198=0\x01108=1")
	time.Sleep(10 * time.Millisecond)
	// application senders
	for t := 0; t < 4; t++ {
		wg.Add(1)
		go func(t int) {
			defer wg.Done()
			for i := 0; ; i++ {
				select {
				case <-done:
					return
				default:
				}
				_ = s.Send(fixgen.NewMarketDataRequest().SetMDReqID(fmt.Sprintf("t%d-%d", t, i)))
				time.Sleep(2 * time.Millisecond)
			}
		}(t)
	}
	// state queries and event-handler registration from other goroutines
	wg.Add(1)
	go func() {
		defer wg.Done()
		for i := 0; ; i++ {
			select {
			case <-done:
				return
			default:
			}
			_ = s.IsLogged()
			if i%50 == 0 {
				s.OnChangeState(utils.EventLogon, func() bool { return true })
				h.HandleIncoming("ZQ", func([]byte) bool { return true })
				h.HandleOutgoing("ZQ", func(simplefixgo.SendingMessage) bool { return true })
				_ = h.RemoveIncomingHandler("ZQ", 0)
			}
			time.Sleep(time.Millisecond)
		}
	}()
	// inbound traffic for 3.5 s: the heartbeat timer (1 s) and the test-request timer (2 s) expire meanwhile
	t0 := time.Now()
	for time.Since(t0) < 3500*time.Millisecond {
		switch seq % 5 {
		case 0:
			in("1\x01112=ping")
		case 1:
			if seq%2 == 0 {
				in("2\x017=1\x0116=5")
			} else {
				// through the last message, while the senders are active: the batch holds the very message
				// objects the senders are still encoding
				cur, _ := store.GetCurrSeqNum(fix.StorageID{Side: fix.Outgoing})
				from := cur - 10
				if from < 1 {
					from = 1
				}
				in(fmt.Sprintf("2\x017=%d\x0116=0", from))
			}
		case 2:
			in("0")
		default:
			in("V\x01262=x")
		}
		if time.Since(t0) > 1200*time.Millisecond && time.Since(t0) < 3300*time.Millisecond {
			time.Sleep(2200 * time.Millisecond) // silence: let the probing timer fire, then answer
		} else {
			time.Sleep(5 * time.Millisecond)
		}
	}
	if *relogon {
		in("5")
		for i := 0; i < 200 && s.IsLogged(); i++ {
			time.Sleep(10 * time.Millisecond)
		}
		in("A\x0149=PEER2\x0156=ME2\x0198=0\x01108=1")
		time.Sleep(300 * time.Millisecond)
		fmt.Println("side", side, "logged after second logon:", s.IsLogged())
	}
	atomic.StoreInt32(&answerLogout, 1)
	_ = s.Stop()
	for i := 0; i < 100 && atomic.LoadInt32(&answerLogout) != 2; i++ {
		time.Sleep(2 * time.Millisecond)
	}
	if atomic.LoadInt32(&answerLogout) != 2 {
		in("5")
	}
	fmt.Println("side", side, "logout answered by the peer's goroutine:", atomic.LoadInt32(&answerLogout) == 2)
	select {
	case <-s.Context().Done():
	case <-time.After(2 * time.Second):
	}
	close(done)
	h.Stop()
	wg.Wait()
}

func main() {
	flag.Parse()
	run(0)
	run(1)
	fmt.Println("race scenario finished")
}
