// Package wire: token serialisation of real fix.Item trees for the line protocol
// shared with the Lean driver (see lean/Driver/Wire.lean for the grammar).
package wire

import (
	"encoding/hex"
	"fmt"
	"strconv"
	"strings"

	"github.com/b2broker/simplefix-go/fix"
)

func X(b []byte) string { return "x" + hex.EncodeToString(b) }

func KindChar(v fix.Value) byte {
	switch v.(type) {
	case *fix.String:
		return 's'
	case *fix.Int:
		return 'i'
	case *fix.Uint:
		return 'u'
	case *fix.Float:
		return 'f'
	case *fix.Time:
		return 't'
	case *fix.Bool:
		return 'b'
	case *fix.Raw:
		return 'r'
	}
	return '?'
}

func Val(v fix.Value) string {
	k := KindChar(v)
	if v.IsNull() {
		return string([]byte{k, 'n'})
	}
	return string([]byte{k, 'v'}) + hex.EncodeToString(v.ToBytes())
}

func Item(sb *strings.Builder, it fix.Item) {
	switch el := it.(type) {
	case *fix.KeyValue:
		fmt.Fprintf(sb, " K %s %s", X([]byte(el.Key)), Val(el.Value))
	case *fix.Component:
		items := el.Items()
		fmt.Fprintf(sb, " C %d", len(items))
		for _, c := range items {
			Item(sb, c)
		}
	case *fix.Group:
		tmpl := el.AsTemplate()
		fmt.Fprintf(sb, " G %s %d", X([]byte(el.NoTag())), len(tmpl))
		for _, c := range tmpl {
			Item(sb, c)
		}
		es := el.Entries()
		fmt.Fprintf(sb, " %d", len(es))
		for _, e := range es {
			fmt.Fprintf(sb, " %d", len(e))
			for _, c := range e {
				Item(sb, c)
			}
		}
	default:
		panic(fmt.Sprintf("wire: unsupported item %T", it))
	}
}

func Items(sb *strings.Builder, items fix.Items) {
	sb.WriteString(" " + strconv.Itoa(len(items)))
	for _, c := range items {
		Item(sb, c)
	}
}

// Msg dumps a message given its Items() list:
// [beginString, bodyLength, msgType, header, body..., trailer, checkSum].
func Msg(all fix.Items) string {
	var sb strings.Builder
	n := len(all)
	bs := all[0].(*fix.KeyValue)
	bl := all[1].(*fix.KeyValue)
	mt := all[2].(*fix.KeyValue)
	cs := all[n-1].(*fix.KeyValue)
	fmt.Fprintf(&sb, "M %s %s %s %s %s %s %s %s",
		X([]byte(bs.Key)), X([]byte(bl.Key)), X([]byte(cs.Key)), X([]byte(mt.Key)),
		Val(bs.Value), Val(bl.Value), Val(mt.Value), Val(cs.Value))
	Items(&sb, all[3].(*fix.Component).Items())
	Items(&sb, all[4:n-2])
	Items(&sb, all[n-2].(*fix.Component).Items())
	return sb.String()
}

// MsgNoFraming is Msg with the BodyLength and CheckSum values masked (they are
// recomputed by every serialisation).
func MsgNoFraming(all fix.Items) string {
	f := strings.Fields(Msg(all))
	f[6] = "_"
	f[8] = "_"
	return strings.Join(f, " ")
}
