#!/bin/bash
# run_all_quick.sh : every property's quick check on the current /repo tree, one after the other; summary at the end
cd /verif
rm -f replays/*.json
for p in C01 C02 C03 C04 C05 C06 C07 C08 C09 C10 C11 C12 C13 C14 C15 C16 C17 C18 C19 C20; do
  ./check $p > /tmp/vt_all_$p.txt 2>&1; echo "$p exit=$? $(tail -1 /tmp/vt_all_$p.txt)"
  grep -E "^VIOLATION" /tmp/vt_all_$p.txt | head -3
done
