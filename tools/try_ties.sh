#!/bin/bash
# try_ties.sh <patch.diff> : apply a change to /repo, regenerate the facts and report which T-gen obligations (Lean modules
# that import the regenerated facts) no longer build; undo the change. Fast pre-check for behaviour-preserving rewrites.
set -u
P=$1
cd /verif
git -C /repo apply --check "$P" 2>/dev/null || { echo "PATCH DOES NOT APPLY: $P"; exit 2; }
git -C /repo apply "$P"
cp lean/FixModel/Generated/Facts.lean /tmp/vt_facts_backup.lean
export GOFLAGS=-mod=mod GOPROXY=off GOSUMDB=off GOTOOLCHAIN=local
rm -rf /tmp/vt_ties && ./bin/extract -repo /repo -out /tmp/vt_ties >/dev/null 2>&1 || echo "EXTRACTOR FAILED"
cp /tmp/vt_ties/Facts.lean lean/FixModel/Generated/Facts.lean
for m in Props.SessionSkeleton Props.SessionOrders Props.ConnSkeleton Props.C05Gen Props.C13 Props.C20 Props.C04Gen Props.C08Gen Props.C09Gen; do
  if (cd lean && lake build $m >/dev/null 2>&1); then :; else echo "  broken: $m"; fi
done
git -C /repo checkout -- .
cp /tmp/vt_facts_backup.lean lean/FixModel/Generated/Facts.lean
(cd lean && lake build Props >/dev/null 2>&1)
