#!/bin/bash
# try_seeded.sh <patch.diff> <prop> [<prop>...] : apply a seeded change to /repo, run the quick checks, undo it.
set -u
P=$1; shift
cd /verif
git -C /repo apply --check "$P" 2>/dev/null || { echo "PATCH DOES NOT APPLY: $P"; exit 2; }
git -C /repo apply "$P"
EVBAK=$(mktemp -d /tmp/vt_evbak.XXXX); cp -a /verif/evidence/. $EVBAK/
for prop in "$@"; do
  out=$(./check $prop 2>&1 | grep -E "VIOLATION|KNOWN|obligations" | cut -c1-260)
  echo "--- $prop"; echo "$out"
  for f in $(echo "$out" | grep -o 'replay=[^ ]*' | cut -d= -f2 | head -2); do python3 -c "
import json,sys
r=json.load(open('$f')); print('    what:', r.get('what','')[:300].replace('\n',' ')); print('    broken:', [b if isinstance(b,str) else b.get('name') for b in r.get('broken_obligations',[])][:4])"; done
done
git -C /repo checkout -- .
cp -a $EVBAK/. /verif/evidence/; rm -rf $EVBAK   # evidence files must come from runs on the unchanged tree
git -C /repo status --short | head -3
