#!/bin/bash
# rerun_seeded.sh : apply every archived seeded change in turn, run its property's quick check, report whether it is
# still detected (and whether with a concrete replay). /repo is restored after each.
cd /verif
for d in seeded/*/; do
  id=$(basename $d); prop=$(python3 -c "import json;print(json.load(open('$d/meta.json'))['property'])")
  out=$(tools/try_seeded.sh /verif/$d/patch.diff $prop 2>&1)
  nv=$(echo "$out" | grep -c "^VIOLATION")
  nf=$(echo "$out" | grep "^VIOLATION" | grep -vc "no-failing-input-found")
  echo "$id $prop violations=$nv concrete=$nf"
done
git -C /repo status --short | head -3
