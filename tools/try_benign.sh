#!/bin/bash
# try_benign.sh <patch.diff> [<prop>...] : apply a behaviour-preserving change to /repo, run the quick checks of the given
# properties (default: those whose anchors the patch touches, see props_for below; ALL = every property), undo it.
# Prints one line per property: silent | VIOLATION (concrete!) | no-failing-input-found (a broken tie).
set -u
P=$1; shift
cd /verif
props_for() { # properties whose code a patch touches
  local f ps=""
  for f in $(grep '^diff --git' "$1" | awk '{print $3}' | sed 's#^a/##'); do
    case $f in
      fix/encoding/*|fix/utils.go) ps="$ps C02 C03 C11 C18 C16 C10";;
      fix/*) ps="$ps C01 C02 C03 C11 C17 C18";;
      session/*) ps="$ps C05 C06 C07 C08 C09 C10 C14 C15 C16 C19 C20";;
      utils/*) ps="$ps C08 C09 C15 C19 C20 C13";;
      storages/*) ps="$ps C05 C10 C19 C20";;
      generator/*|cmd/*|source/*) ps="$ps C12";;
      *.go) ps="$ps C04 C05 C13 C18 C19 C20 C15";;
    esac
  done
  echo $ps | tr ' ' '\n' | sort -u | tr '\n' ' '
}
PROPS="$*"
[ -z "$PROPS" ] && PROPS=$(props_for "$P")
[ "$PROPS" = "ALL" ] && PROPS="C01 C02 C03 C04 C05 C06 C07 C08 C09 C10 C11 C12 C13 C14 C15 C16 C17 C18 C19 C20"
git -C /repo apply --check "$P" 2>/dev/null || { echo "PATCH DOES NOT APPLY: $P"; exit 2; }
git -C /repo apply "$P"
EVBAK=$(mktemp -d /tmp/vt_evbak.XXXX); cp -a /verif/evidence/. $EVBAK/
for prop in $PROPS; do
  out=$(./check $prop 2>&1)
  v=$(echo "$out" | grep -a "^VIOLATION" | head -3)
  if [ -z "$v" ]; then echo "$prop silent"; else
    if echo "$v" | grep -qv "no-failing-input-found"; then
      f=$(echo "$v" | grep -v no-failing-input-found | head -1 | grep -o 'replay=[^ ]*' | cut -d= -f2)
      echo "$prop CONCRETE-ALARM $(python3 -c "import json;print(json.load(open('$f')).get('what','')[:260].replace(chr(10),' '))")"
    else
      f=$(echo "$v" | head -1 | grep -o 'replay=[^ ]*' | cut -d= -f2)
      echo "$prop tie-broken $(python3 -c "import json;r=json.load(open('$f'));print([b if isinstance(b,str) else b.get('name') for b in r.get('broken_obligations',[])][:3])")"
    fi
  fi
done
git -C /repo checkout -- .
cp -a $EVBAK/. /verif/evidence/; rm -rf $EVBAK
