#!/bin/bash
# confirm_seeded.sh <ID> : in the scratch worktree /tmp/wt/<ID> (change applied, uncommitted) confirm that
#  - the library builds and the existing suite passes with the change,
#  - the demonstration fails with the change and passes without it.
set -u
ID=$1
WT=/tmp/wt/$ID
SD=/tmp/seeded/$ID
export GOFLAGS=-mod=mod GOPROXY=off GOSUMDB=off GOTOOLCHAIN=local
cd $WT || exit 2
demo=$(ls $SD/*_test.go | head -1)
pkgline=$(grep -m1 '^package ' $demo | awk '{print $2}')
case $pkgline in
  tests) dir=tests;; fix) dir=fix;; fix_test) dir=fix;; encoding|encoding_test) dir=fix/encoding;; simplefixgo|simplefixgo_test) dir=.;; session|session_test) dir=session;; *) dir=tests;;
esac
race=""
grep -qi "race" $SD/notes.md && [ "$ID" = "C20" ] && race="-race"
echo "== $ID: demo $(basename $demo) in $dir $race"
git status --short | head -5
go build ./... || { echo "BUILD FAILS"; exit 1; }
suite=$(go test -vet=off -count=1 ./fix/... ./utils/... ./session/... ./tests/... 2>&1 | grep -E '^(ok|FAIL|panic)' | tr '\n' ' ')
echo "suite with change: $suite"
cp $demo $dir/zz_seeded_demo_test.go
with=$(go test $race -vet=off -count=1 -run . ./$dir 2>&1 | grep -E '^(ok|FAIL|---|panic)' | head -5 | tr '\n' ' ')
echo "demo WITH change: $with"
git stash -q
without=$(go test $race -vet=off -count=1 -run . ./$dir 2>&1 | grep -E '^(ok|FAIL|---|panic)' | head -5 | tr '\n' ' ')
echo "demo WITHOUT change: $without"
git stash pop -q
rm -f $dir/zz_seeded_demo_test.go
