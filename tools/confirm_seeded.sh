#!/bin/bash
# confirm_seeded.sh <ID> : in the scratch worktree /tmp/wt/<ID> confirm that
#  - patch.diff applies to a clean checkout, the library builds and the existing suite passes with the change,
#  - the demonstration fails with the change and passes without it.
set -u
ID=$1
WT=/tmp/wt/$ID
SD=/tmp/seeded/$ID
export GOFLAGS=-mod=mod GOPROXY=off GOSUMDB=off GOTOOLCHAIN=local
cd $WT || exit 2
git checkout -q -- . ; git clean -fdq
git apply $SD/patch.diff || { echo "PATCH DOES NOT APPLY"; exit 1; }
demo=$(ls $SD/*_test.go $SD/*_test.go.txt 2>/dev/null | head -1)
pkgline=$(grep -m1 '^package ' $demo | awk '{print $2}')
case $pkgline in
  tests) dir=tests;; fix) dir=fix;; fix_test) dir=fix;; encoding|encoding_test) dir=fix/encoding;; simplefixgo|simplefixgo_test) dir=.;; session|session_test) dir=session;; *) if [[ "$ID" == C12* ]]; then dir=generator/zzdemo_${pkgline%_test}; mkdir -p $dir; else dir=tests; fi;;
esac
race=""
grep -q "go:build race\|-race" $demo $SD/notes.md 2>/dev/null && [[ "$ID" == C20* ]] && race="-race"
pat=$(grep -o 'func Test[A-Za-z0-9_]*' $demo | awk '{print $2}' | paste -sd'|')
echo "== $ID: demo $(basename $demo) in $dir $race ($pat)"
go build ./... || { echo "BUILD FAILS"; exit 1; }
suite=$(go test -vet=off -count=1 ./fix/... ./utils/... ./session/... ./tests/... 2>&1 | grep -aE '^(ok|FAIL|panic)' | awk '{print $1}' | sort | uniq -c | tr '\n' ' ')
echo "suite with change: $suite"
cp $demo $dir/zz_seeded_demo_test.go
with=$(go test $race -vet=off -count=1 -run "$pat" ./$dir 2>&1 | grep -aE '^(ok|FAIL|---|panic)' | head -4 | tr '\n' ' ')
echo "demo WITH change: $with"
git apply -R $SD/patch.diff
without=$(go test $race -vet=off -count=1 -run "$pat" ./$dir 2>&1 | grep -aE '^(ok|FAIL|---|panic)' | head -4 | tr '\n' ' ')
echo "demo WITHOUT change: $without"
git apply $SD/patch.diff
rm -f $dir/zz_seeded_demo_test.go; [[ "$dir" == generator/zzdemo_* ]] && rm -rf $dir
